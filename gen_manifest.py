#!/usr/bin/env python3
"""Regenerates MANIFEST.json from the table below (kept in one place so it stays valid)."""
import json, subprocess, os
ROOT = os.path.dirname(os.path.abspath(__file__))
props = [json.loads(l) for l in open(os.path.join(ROOT, 'properties.jsonl'))]
hooks = []
try:
    out = subprocess.run(['git', '-C', '/repo', 'log', '--format=%h %s'], capture_output=True, text=True).stdout
    hooks = [l.split()[0] for l in out.splitlines() if l.split(' ', 1)[1].startswith('verif hook')]
except Exception:
    pass

CLAIMS = {
 'C01': ('pzv-scheme', 'property-based testing with an exact big-integer phase oracle (clear secret via hook H4), proptest, 4 backends',
         'Generated layouts (N, radix, precision residues, rank 0..3, plaintext/target shapes), every secret distribution, sk / pk / seed-compressed / LWE variants: the exact phase of the fresh ciphertext is recomputed with integers and bounded coefficient-wise by the deterministic worst case of the configured truncation bound; the library decryption must equal the exact phase within one unit of the target\'s last limb.',
         'Trusted: hook H4 (read-only accessor), the phase model. FFT64 cases are kept inside the exactness domain by construction.', 'DESIGN.md section 6 C01'),
 'C02': ('pzv-scheme', 'model-based testing of random straight-line programs (plaintext model of every ciphertext column as exact torus values)',
         'Random programs (1..12 steps) of add/sub/negate/copy/rotate/(X^k-1)/shift/normalise incl. all in-place forms over a register file of GLWE ciphertexts with independent sizes, a rank-0 operand and a cross-radix register; every column of the destination is compared after every step with the operation applied to the operands\' exact values (tolerance: exactly what truncated limbs can carry / one unit for rounding shifts), plus the phase under a generated key.',
         'Trusted: the dyadic value model. Right shifts are modelled on the unreduced value of the limb vector, as the library defines them.', 'DESIGN.md section 6 C02'),
 'C03': ('pzv-scheme', 'property-based testing with an exact integer phase oracle and a deterministic gadget-product bound built from the exactly extracted errors of the actual key cells (clear secrets via hook H4), proptest, 4 backends',
         'glwe_keyswitch(_assign), the eight glwe_automorphism forms over every odd Galois element, glwe_trace(_assign) at every start level, lwe_keyswitch / glwe_from_lwe / lwe_from_glwe at every index / lwe_sample_extract, gglwe_keyswitch(_assign), automorphism-key automorphism (incl. the Galois-element metadata), glwe_pack over generated slot subsets and output gaps and the streaming GLWEPacker (bit-reversed order, batches): generated gadget shapes (dnum 1..4, dsize 1..4, spare limbs, k not a multiple of the radix, a_size not a multiple of dsize), ranks in/out 1..3, independent input / key / result radices, inputs with uniform / extreme / sparse digits. The exact phase of the result under the clear output secret must equal the expected image of the exact input phase within the worst-case bound of the gadget product computed from the true key errors; key cells produced by the library must encrypt the gadget-scaled input secret within the fresh-encryption bound.',
         'Trusted: hook H4, the phase model, the bound formula of gad.rs (documented term by term). The bound is a worst case (L1 norms), about sqrt(N * digits) above typical noise: a regression that increases the noise by less than that factor is not detected. GGSW key-switch / automorphism are checked with C04 (they are gadget products followed by row expansion). N <= 128.', 'DESIGN.md section 6 C03'),
 'C04': ('pzv-scheme', 'property-based testing with an exact integer phase oracle (exact negacyclic product m2 * phase) and a deterministic gadget bound built from the exactly extracted errors of the actual GGSW / key cells, proptest, 4 backends',
         'glwe_external_product(_assign), gglwe / ggsw external products incl. results with fewer / more rows than the input, CMux (cmux, cmux_assign, cmux_assign_neg) and CSwap of poulpy-bin-fhe with bit and polynomial selectors, and every cell of a GGSW produced by ggsw_encrypt_sk, ggsw_from_gglwe, ggsw_expand_row, ggsw_keyswitch(_assign), ggsw_automorphism(_assign): generated gadget shapes (dnum 1..4, dsize 1..4, spare limbs), rank 1..3, GGSW precision below / equal / above the GLWE precision, independent radices, m2 in {0, +-1, +-X^k, dense ternary, dense small, sparse}, inputs with uniform / extreme / sparse digits, in-place and out-of-place forms.',
         'Trusted: hook H4, the phase model, the bound formula of gad.rs. Worst-case bound (about sqrt(N * digits) above typical noise). N <= 128.', 'DESIGN.md section 6 C04'),
 'C05': ('pzv-scheme', 'property-based testing against an exact big-integer product oracle (unreduced operand phases under the clear secret / secret tensor, hook H4), proptest, 4 backends',
         'glwe_mul_const(_assign), glwe_mul_plain(_assign), glwe_tensor_apply, glwe_tensor_square_apply (same exact product as apply(a,a)), glwe_tensor_apply_add_assign (previous content + product) and glwe_tensor_relinearize: operand sizes 1..6 with independent effective precisions (masked bottom limb), every cnv_offset from 0 to the full product width (limb-aligned and not), results holding or truncating the product in the same or another radix, rank 1..2, digits uniform / extreme / sparse / monomial / zero; relinearisation keys dnum 1..4, dsize 1..3 in three radices. The exact phase of the result must equal phase(a) * phase(b) * 2^cnv_offset within the tail an implementation may drop when it computes only the limbs the result needs (stated per column), relinearisation within the tensor-key gadget bound.',
         'Trusted: hook H4, the exact product model. The per-column tolerance (N * min(sa,sb) * 2^(b-1) units of the last limb, x6 for cross columns) is what truncated evaluation inherently loses; errors below it are not detected. N <= 64, rank <= 2.', 'DESIGN.md section 6 C05'),
 'C06': ('pzv-scheme', 'statistical property-based testing: model-free error extraction (difference of two encryptions sharing the mask seed) with exact discrete-moment oracles and concentration bounds at a fixed false-alarm budget',
         'For every encryption routine family (GLWE sk/pk, GGLWE, GGSW, switching/automorphism/tensor keys, compressed forms) over generated layouts: every error coefficient is inside the configured truncation bound (deterministic, every case); pooled over >= 2^15 (quick) / 2^17 (thorough) coefficients per case the second moment of e1-e2 matches twice the exact variance of the rounded truncated Gaussian (band from the exact fourth moment, per-run false-alarm budget 2^-30), the mean is centred, masks are not reused between cells and two seeds give different masks.',
         'Statistical: a deviation of the standard deviation below roughly 6 % (quick) / 3 % (thorough) is inside the band and not detected; distribution shape beyond the first four moments is not tested. Trusted: hook H4, the moment formulas (unit-tested against brute force).', 'DESIGN.md section 6 C06'),
 'C19': ('pzv-scheme', 'property-based round-trip / differential testing: compressed form + seed -> decompress vs. exact phase oracle and vs. the same object built through serialisation',
         'For GLWE, GGLWE, GGSW, switching, automorphism and tensor keys over generated layouts on four backends: the decompressed object decrypts (exact integer phase under the clear secret, hook H4) to the gadget-scaled message in every cell within the truncation bound, mask columns equal the stream regenerated from the stored seed, decompression after a serialise/deserialise round trip yields identical bytes, and decompression is deterministic (twice -> same bytes).',
         'The order-agnostic variant (decompressing cells in a different order) is not exercised: the library exposes no such entry point.', 'DESIGN.md section 6 C19'),
 'C13': ('pzv-bin', 'structure-aware generated search over the compiled tables (hook H1): exhaustive structural validity, directed edge coverage, exhaustive sub-cubes, random pairs against u32 semantics',
         'All 290 bit-circuits of the 11 compiled u32 circuits are read through hook H1 and evaluated by a clear evaluator that mirrors eval_level: every table is checked structurally (exhaustive), every edge of every table is exercised by directed inputs (100 % edge coverage measured), all 2^16 low-byte pairs under several high patterns, all shift amounts, carry chains and sign boundaries are enumerated and millions of random/boundary pairs compared with Rust u32 semantics.',
         'Not a proof for all 2^64 pairs (the statement asks for a symbolic decision, which is outside this technique family): an error confined to inputs sharing every table edge with correct sampled completions would escape. Trusted: the clear evaluator (cross-checked against the homomorphic one in C15).', 'DESIGN.md section 6 C13'),
 'C14': ('pzv-bin', 'model-based property testing: exact integer model of the table polynomial (hook H2), exhaustive rotation indices; blind path against the exact phase of hand-built LWE samples with an implementation-independent rounding window',
         'Clear path: lookup_table_set / lookup_table_rotate vs. an integer model of the replicated, scaled, half-step pre-rotated and de-interleaved table for N 8..64, extension 1..8, every table length dividing the domain, k not a multiple of the radix, over generated rotation histories and (sub-check) every rotation index in [0, 2N*ext). Blind path: standard-binary (three distributions), block-binary and extended block-binary CGGI rotation over generated LWE dimensions, block sizes, radices (both modulus-switch branches), message bits 1..5, both directions, any index and sub-index fraction: the exact phase of the result under the clear GLWE secret must be X^r * table for an integer r within (1+|s|_1)/2+1 of the exact index, within a worst-case noise bound; for centred messages the constant coefficient is the table entry with the negacyclic sign on wrap-around.',
         'Trusted: hooks H2 / H4, the table model, the worst-case noise bound (11 % of blind cases have a bound above the table resolution and are run for crashes only). The rounding window hides off-by-one errors of the modulus switch (they are inside the rounding error any implementation may make). N <= 64.', 'DESIGN.md section 6 C14'),
 'C15': ('pzv-bin', 'property-based testing of encrypted word operations and short programs against plain u32 semantics (decrypt with the clear key)',
         'Word operations (11 circuits) on prepared operands and on operands obtained through circuit bootstrapping, chains with re-preparation, sext / splice / get_bit / zero_byte / partial preparation at every index class, on three backends with the shipped parameter set; results are decrypted and compared with Rust.',
         'One parameter set (the shipped test layout N=256, n_lwe=77, rank 2); noise growth is observed through correctness of the decrypted words only.', 'DESIGN.md section 6 C15'),
 'C20': ('pzv-bin', 'differential testing across thread counts and concurrent workloads (ciphertext byte equality), schedules perturbed by generated thread counts and oversubscription',
         'Every *_multi_thread word op and partial preparation is compared byte for byte with its single-threaded run for generated thread counts (not dividing / exceeding the work items) and (start, count) partitions; several harness threads sharing one Module and prepared keys must reproduce their solo results.',
         'Interleavings are sampled, not enumerated; no yield-injection hook.', 'DESIGN.md section 6 C20'),
 'C16': ('pzv-ckks', 'model-based property testing of generated straight-line programs: shadow evaluation on complex f64 with a tracked worst-case error bound + an executable model of the log_delta / log_budget algebra and of the error paths',
         'Random programs (two fresh encryptions with independent limb counts / log_delta / budgets, then 1..13 steps over a 4-register file) of encrypt, add / sub / mul / square (out of place into destinations of 1..10 limbs, and in place), neg, add / sub / mul with encoded plaintext vectors and complex constants of independent precision, mul_pow2, div_pow2, rotate (keys present and absent), conjugate, rescale, align, compact_limbs, reallocate_limbs on four backends and two parameter sets per family. After every step: the Result equals the model (Ok or the expected CKKSCompositionError kind, never a panic, metadata untouched when an in-place step fails), (log_delta, log_budget) equal the model, log_delta + log_budget <= stored precision, and every live register decrypts and decodes to the shadow within the tracked error bound.',
         'Trusted: the metadata model (derived from the code and the shipped tests, not from independent documentation), the error-propagation model (worst-case constants). f128 plaintext element type not exercised (shadow is f64, log_delta <= 53); composite operations (mul_add, dot products, *_many) and the unsafe un-normalised variants are not in the program grammar. N = 32 / 64.', 'DESIGN.md section 6 C16'),
 'C17': ('pzv-hal', 'AddressSanitizer-instrumented property-based execution of the operation registry (exact-size heap blocks) + guard-margin canaries',
         'Every registry operation on four backends (N from 1, odd limb counts, multi-column, size < capacity, roomy and exact-size scratch) plus histories of resize / reallocate / corrupted deserialisation followed by use run in an AddressSanitizer build in which each operand and scratch window is its own exact-size heap block; any sanitizer report, guard-region damage or panic is a violation (death callback writes the replay).',
         'ASan instruments Rust code and intrinsics of harness and poulpy crates, not std and not global assembly (covered by patterned guard margins); uninitialised reads are only approximated by C11/C12; scheme-level layers are exercised through their own properties in the checked profile.', 'DESIGN.md section 6 C17'),
 'C18': ('pzv-serde', 'fault-injection property-based testing over every ReaderFrom implementation (truncation at every byte, header-field dictionary, bit flips)',
         'For 26 hal/core layouts and the four binary-FHE key types (BlindRotationKey, BlindRotationKeyCompressed, CircuitBootstrappingKey, BDDKey with and without ks_glwe; valid streams assembled from public components): round trip (object and bytes) into receivers of equal/larger shape; every truncation point of small objects exhaustively; header fields replaced from a boundary dictionary incl. overflowing products; after every read (Ok or Err) the receiver invariant is checked through public fields, the receiver is re-serialised and every coefficient read; a panic, arithmetic overflow, inconsistent receiver or changed dimensions on Err is a violation.',
         'Wrapper scalars committed before delegation are observed, not judged; for the composite binary-FHE keys (no PartialEq / FillUniform) equality is judged on the re-serialised bytes and a damaged stream that is accepted is only required to leave a serialisable receiver.', 'DESIGN.md section 6 C18'),
 # id: (engine, technique, level text, level_note, design_ref)
 'C07': ('pzv-hal', 'property-based differential testing against an exact i128 schoolbook model (proptest, 4 backends)',
         'Generated search over DFT-domain operations (transforms, transform-domain arithmetic, svp, vmp, convolution) on all four backends with digit widths constructed inside the backend exactness domain; every result is compared bit for bit with the exact negacyclic/bivariate integer product. Finds any deviation on the explored shapes/values; does not prove absence.',
         'Trusted: the harness model (pzv_common::model, unit-tested), the library inverse transform used to read results back (itself under test as an op). Exactness is only demanded inside the conservative magnitude domain of DESIGN C07.', 'DESIGN.md section 6 C07'),
 'C08': ('pzv-hal', 'property-based testing against an exact dyadic-rational value model + exhaustive small-scope enumeration',
         'Generated search (radix pairs 1..62, sizes, offsets, un-normalised inputs) plus exhaustive enumeration of all digit tuples for radices <= 4 and sizes <= 3 over all offsets, and encode/decode round trips, against the exact value of limb vectors as rationals (one unit of the last limb, exact when the output has enough limbs).',
         'Trusted: IBig/i128 value model. One documented region (shifts beyond the output precision) is a recorded known finding and is excluded by signature.', 'DESIGN.md section 6 C08'),
 'C09': ('pzv-hal', 'property-based testing against an index-level ring model + group-law metamorphic checks + exhaustive small N',
         'Generated search over every coefficient-domain ring operation (small and big accumulators) on four backends vs. an index-level model of Z[X]/(X^N+1) with the documented size rule, group laws (rotation/automorphism composition and inverse, split/merge, ring switch) and exhaustive k/g for N <= 32/64.',
         'Trusted: the model. Checked profile limits digits to 61 bits; the wrapping domain is covered by C10 release pass.', 'DESIGN.md section 6 C09'),
 'C10': ('pzv-hal', 'differential testing across four backends (byte equality), proptest-generated cases',
         'Every registry operation is issued with identical inputs and seeds on FFT64Ref/FFT64Avx/NTT120Ref/NTT120Avx and outputs are compared byte for byte (coefficient domain) or through their coefficient image (transform domain), including the random-stream position after sampling.',
         'Only the HAL layer and scheme-level programs listed in evidence are covered; FFT64 transform-domain comparisons are restricted to the exactness domain.', 'DESIGN.md section 6 C10'),
 'C11': ('pzv-hal', 'metamorphic two-fill testing (oracle-free) over the operation registry',
         'Each call runs twice from two independent garbage fills of every writable and every non-selected byte; the declared output must be identical, nothing outside the selected column may change, guard regions stay intact, and moving the target column moves the result.',
         'Covers the HAL registry (about 80 operations); core-level operations are exercised by the scheme-level parts listed in evidence.', 'DESIGN.md section 6 C11'),
 'C12': ('pzv-hal', 'property-based testing with exact-size scratch windows inside guarded allocations (HAL registry and 30 core-level / CMux operations)',
         'Every scratch-taking operation is run with Scratch::from_bytes over exactly the queried number of bytes (64-byte aligned, guard regions on both sides), with two garbage fills of the window and of the destination and with an enlarged window; any panic, guard damage or result difference is a violation. Two engines: the HAL operation registry (pzv-hal) and 30 operations of poulpy-core and of the CMux family with generated gadget shapes, ranks and radices (pzv-scheme, sub-check core_exact_scratch); ./check merges their evidence.',
         'At the core level the size queries of about twenty operations are insufficient for some shapes on the pinned tree; these are recorded known findings (one per operation, exact-scratch panics only): for those operations only result-independence from scratch / destination contents, panics with slack and guard damage are still enforced. CKKS-level queries are not exercised.', 'DESIGN.md section 6 C12 and 11.1'),
}

checks = []
for p in props:
    i = p['id']
    if i in CLAIMS:
        eng, tech, text, note, ref = CLAIMS[i]
        checks.append({
            'property_id': i,
            'quick_cmd': f'./check {i} quick',
            'thorough_cmd': f'./check {i} thorough',
            'evidence_file': f'/verif/evidence/{i}.json',
            'replay_cmd_template': './check replay {path}',
            'engine': eng,
            'level_claimed': {'category': 'exploration', 'text': text, 'design_ref': ref},
            'level_note': note,
            'technique': tech,
        })
na = [{'property_id': p['id'], 'reason': 'check not built yet (work in progress; see DESIGN.md section 8b for the order)'} for p in props if p['id'] not in CLAIMS]
m = {
 'version': 1,
 'setup_cmd': './setup.sh',
 'hooks': {'guard': '--cfg poulpy_verif', 'enable': "RUSTFLAGS='--cfg poulpy_verif -C target-feature=+avx2,+fma' (set by /verif/check for every harness build)",
           'baseline_off_cmd': 'cd /repo && cargo test --workspace --no-fail-fast --offline', 'source_commits': hooks, 'add_only': True},
 'engines': [
   {'name': 'pzv-scheme', 'path': 'harness/scheme', 'serves_properties': ['C01','C02','C03','C04','C05','C06','C12','C19'], 'kind_free_text': 'proptest-driven binary on poulpy-core with exact phase recomputation from the clear secret'},
   {'name': 'pzv-ckks', 'path': 'harness/ckks', 'serves_properties': ['C16'], 'kind_free_text': 'proptest-driven binary on poulpy-ckks: program interpreter with a complex-number shadow and a metadata model'},
   {'name': 'pzv-serde', 'path': 'harness/serde', 'serves_properties': ['C18'], 'kind_free_text': 'fault-injecting property tests over all serialisable layouts'},
   {'name': 'pzv-bin', 'path': 'harness/binfhe', 'serves_properties': ['C13','C14','C15','C20'], 'kind_free_text': 'clear BDD evaluator + homomorphic word operations on the shipped parameter set'},
   {'name': 'pzv-hal', 'path': 'harness/hal', 'serves_properties': ['C07','C08','C09','C10','C11','C12','C17'], 'kind_free_text': 'proptest-driven binary over an operation registry of the HAL, four backends, guarded buffers, exact integer/rational oracles'},
 ],
 'checks': checks,
 'not_applicable': na,
 'notes': 'All checks: ./check <ID> quick|thorough, exit 0/1/2 as documented in DESIGN.md 2.4; VERIF_SEED feeds every generator; known findings in known_findings.json.',
}
json.dump(m, open(os.path.join(ROOT, 'MANIFEST.json'), 'w'), indent=1)
print('claimed', [c['property_id'] for c in checks])
