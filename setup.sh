#!/bin/bash
# MANIFEST.setup_cmd: builds the harness offline (all profiles used by quick checks).
ROOT="$(cd "$(dirname "${BASH_SOURCE[0]}")" && pwd)"
export CARGO_NET_OFFLINE=true
cd "$ROOT/harness" || exit 2
FLAGS="--cfg poulpy_verif -C target-feature=+avx2,+fma"
RUSTFLAGS="$FLAGS" cargo build --profile checked --target-dir target-checked --workspace || exit 2
exit 0
