#!/bin/bash
# MANIFEST.setup_cmd: builds the harness offline (all profiles used by quick checks).
ROOT="$(cd "$(dirname "${BASH_SOURCE[0]}")" && pwd)"
export CARGO_NET_OFFLINE=true
cd "$ROOT/harness" || exit 2
FLAGS="--cfg poulpy_verif -C target-feature=+avx2,+fma"
RUSTFLAGS="$FLAGS" cargo build --profile checked --target-dir target-checked --workspace || exit 2
# AddressSanitizer build of the HAL binary (C17)
RUSTFLAGS="$FLAGS -Zsanitizer=address" cargo build --profile checked --target x86_64-unknown-linux-gnu --target-dir target-asan -p pzv-hal || exit 2
exit 0
