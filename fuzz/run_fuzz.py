#!/usr/bin/env python3
"""Runs the coverage-guided target c18_stream (libFuzzer via cargo-fuzz, AddressSanitizer build) as part of
`./check C18 thorough` and writes an evidence part.  usage: run_fuzz.py <runs per worker> <workers> <seed>
exit 0 = no failure, 1 = failure (VIOLATION line printed, input saved under replays/C18/), 2 = infrastructure."""
import hashlib, json, os, re, shutil, subprocess, sys, tempfile, time
ROOT = os.path.dirname(os.path.dirname(os.path.abspath(__file__)))
runs, workers, seed = int(sys.argv[1]), int(sys.argv[2]), int(sys.argv[3])
env = dict(os.environ, CARGO_NET_OFFLINE='true', RUSTFLAGS='--cfg poulpy_verif -C target-feature=+avx2,+fma')
fz = os.path.join(ROOT, 'fuzz')
t0 = time.time()
b = subprocess.run(['cargo', '+nightly', 'fuzz', 'build', '--fuzz-dir', fz, 'c18_stream'], env=env, cwd=fz, stdout=subprocess.PIPE, stderr=subprocess.STDOUT, text=True)
if b.returncode != 0:
    sys.stderr.write(b.stdout[-3000:] + '\nharness error: build of the fuzz target failed (not a property violation)\n')
    sys.exit(2)
exe = os.path.join(fz, 'target', 'x86_64-unknown-linux-gnu', 'release', 'c18_stream')
serde_bin = os.path.join(ROOT, 'harness', 'target-checked', 'checked', 'pzv-serde')
work = tempfile.mkdtemp(prefix='pzv_fuzz_')
try:
    corpus, seeds, arts = (os.path.join(work, d) for d in ('corpus', 'seeds', 'artifacts'))
    for d in (corpus, arts):
        os.makedirs(d)
    g = subprocess.run([serde_bin, 'gen-corpus', seeds], capture_output=True, text=True)
    if g.returncode != 0:
        sys.stderr.write(g.stdout + g.stderr + '\nharness error: seed corpus generation failed\n')
        sys.exit(2)
    # libFuzzer treats seed 0 as "random": remap
    cmd = [exe, corpus, seeds, f'-runs={runs}', f'-seed={seed + 1}', '-max_len=16384', '-len_control=0', f'-artifact_prefix={arts}/', '-print_final_stats=1',
           f'-jobs={workers}', f'-workers={workers}', '-timeout=60', '-rss_limit_mb=4096']
    r = subprocess.run(cmd, cwd=work, env=dict(env, ASAN_OPTIONS='detect_leaks=0'), stdout=subprocess.PIPE, stderr=subprocess.STDOUT, text=True)
    logs = r.stdout
    for f in sorted(os.listdir(work)):
        if f.startswith('fuzz-') and f.endswith('.log'):
            logs += open(os.path.join(work, f), errors='replace').read()
    execs = sum(int(x) for x in re.findall(r'stat::number_of_executed_units:\s*(\d+)', logs))
    cov = max([int(x) for x in re.findall(r'cov: (\d+)', logs)] or [0])
    corpus_n = len(os.listdir(corpus))
    failures = sorted(os.listdir(arts))
    samples = []
    for f in sorted(os.listdir(corpus))[:3]:
        d = open(os.path.join(corpus, f), 'rb').read()
        samples.append({'subcheck': 'fuzz_stream', 'case': {'header': list(d[:14]), 'stream_len': max(0, len(d) - 14), 'stream_prefix_hex': d[14:46].hex()}})
    viol = 0
    out_lines = []
    for f in failures:
        data = open(os.path.join(arts, f), 'rb').read()
        h = hashlib.sha256(data).hexdigest()[:16]
        dst = os.path.join(ROOT, 'replays', 'C18', f'fuzz_stream-{h}.bin')
        os.makedirs(os.path.dirname(dst), exist_ok=True)
        shutil.copy(os.path.join(arts, f), dst)
        if f.startswith(('oom-', 'timeout-', 'slow-unit-')):
            out_lines.append(f'[C18] fuzz_stream: {f} (resource limit, inconclusive) saved as {dst}')
            continue
        viol += 1
        if viol > 3:
            continue  # one line per worker would repeat the same finding
        sig = re.findall(r'C18-FUZZ-FAILURE signature=(\S+)', logs)
        print(f'VIOLATION property=C18 replay={dst}')
        print(f'  subcheck=fuzz_stream signature={sig[0] if sig else "sanitizer-or-abort"}')
    part = {'name': 'fuzz_stream', 'evaluations': execs, 'distinct_nontrivial': corpus_n, 'violations': viol, 'wall_s': round(time.time() - t0, 1),
            'coverage_edges': cov, 'corpus_files': corpus_n, 'samples': samples,
            'rule': f'coverage-guided (libFuzzer, AddressSanitizer build): input = 14 parameter bytes + the stream handed to read_from, seed corpus = valid streams of all 26 types x 3 shapes, {workers} workers x {runs} runs, max_len 16384; oracle = the C18 oracle in-target; distinct_nontrivial for this part = inputs kept in the corpus (each reached new coverage)'}
    json.dump(part, open(os.path.join(ROOT, 'evidence', 'C18.fuzz.json'), 'w'), indent=1)
    print(f'[C18] fuzz_stream                        execs={execs} corpus={corpus_n} cov={cov} violations={viol} ({part["wall_s"]}s)')
    for l in out_lines:
        print(l)
    if r.returncode != 0 and viol == 0 and not failures:
        sys.stderr.write(logs[-2000:] + '\nharness error: the fuzzer ended abnormally without an artifact\n')
        sys.exit(2)
    sys.exit(1 if viol else 0)
finally:
    shutil.rmtree(work, ignore_errors=True)
