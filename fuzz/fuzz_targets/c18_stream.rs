//! Coverage-guided target for C18: input = 14 parameter bytes (type, shape, receiver class, seed)
//! followed by the byte stream handed to `read_from`.  The oracle is the one of the proptest
//! check (`pzv_serde::c18::test`): no panic, receiver invariant after Ok and after Err, dimensions
//! unchanged on Err, the receiver stays usable, round trip when the stream is the valid one.
#![no_main]
use libfuzzer_sys::fuzz_target;
use pzv_common::driver::Verdict;
use std::sync::Once;

static INIT: Once = Once::new();

fuzz_target!(|data: &[u8]| {
    INIT.call_once(pzv_common::driver::install_panic_hook);
    let Some(c) = pzv_serde::c18::case_from_fuzz_bytes(data) else { return };
    if let Verdict::Fail { sig, detail } = pzv_serde::c18::test(&c) {
        eprintln!("C18-FUZZ-FAILURE signature={sig}\n{detail}");
        std::process::abort();
    }
});
