#!/usr/bin/env python3
"""merge_evidence.py <evidence dir> <ID> <part>...: merges the evidence parts written by several engines into <ID>.json"""
import json, os, sys
d, pid, names = sys.argv[1], sys.argv[2], sys.argv[3:]
parts = [json.load(open(os.path.join(d, f))) for f in names if os.path.exists(os.path.join(d, f))]
if parts:
    m = parts[0]
    for p in parts[1:]:
        c, pc = m["coverage"], p["coverage"]
        c["evaluations"] += pc["evaluations"]; c["distinct_nontrivial"] += pc["distinct_nontrivial"]
        c["rule"] = c["rule"] + " || " + pc["rule"]
        c["samples"] += pc["samples"]; c["subchecks"] += pc["subchecks"]; c["known_findings_hit"] += pc["known_findings_hit"]
        c["classes"].update(pc["classes"])
        m["assumptions"] += p["assumptions"]; m["violations"] += p["violations"]; m["wall_s"] += p["wall_s"]
    json.dump(m, open(os.path.join(d, pid + ".json"), "w"), indent=1)
    for f in names:
        try: os.remove(os.path.join(d, f))
        except OSError: pass
