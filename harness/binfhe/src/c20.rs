//! C20 — thread count and scheduling never change results.
//!
//! Oracle: byte equality of ciphertexts with the single-threaded run (not of decrypted
//! values).  Schedules are perturbed (oversubscription, generated thread counts, concurrent
//! mixed workloads on one shared Module), not enumerated.

use crate::c13::NAMES;
use crate::c15::{Prep, apply_op, encrypt_prepared, seed32};
use crate::with_ctx;
use poulpy_bin_fhe::bdd_arithmetic::{FheUint, FheUintPrepare, FheUintPrepared, Identity, tests::test_suite::TestContext};
use poulpy_bin_fhe::blind_rotation::CGGI;
use poulpy_core::EncryptionLayout;
use poulpy_core::layouts::{GGSWLayout, GLWELayout, GLWEToRef};
use poulpy_hal::{
    api::{ScratchOwnedAlloc, ScratchOwnedBorrow},
    layouts::{ScratchOwned, ZnxView},
    source::Source,
};
use proptest::prelude::*;
use pzv_be::{Be, FullBackend};
use pzv_common::driver::{Ctx, Verdict};
use serde::{Deserialize, Serialize};

#[derive(Clone, Debug, Serialize, Deserialize)]
pub struct Case {
    pub be: Be,
    /// 0 = word op multi-thread, 1 = partial preparation multi-thread, 2 = shared module, concurrent mixed workloads
    pub kind: u8,
    pub op: u8,
    pub a: u32,
    pub b: u32,
    pub threads: u8,
    pub start: u8,
    pub count: u8,
    pub seed: u64,
}

pub fn bytes_of(res: &FheUint<Vec<u8>, u32>) -> Vec<i64> {
    res.to_ref().data().raw().to_vec()
}

fn scratch_for<B: FullBackend>(threads: usize) -> ScratchOwned<B>
where
    ScratchOwned<B>: ScratchOwnedAlloc<B>,
{
    pzv_be::dirty_scratch::<B>((1 << 23) + threads * (3 << 20))
}

fn run<B: FullBackend>(c: &TestContext<CGGI, B>, w: &Case) -> Verdict
where
    ScratchOwned<B>: ScratchOwnedAlloc<B> + ScratchOwnedBorrow<B>,
{
    let m = &c.module;
    let glwe_infos: GLWELayout = c.glwe_infos();
    let ggsw_infos: GGSWLayout = c.ggsw_infos();
    let threads = (w.threads as usize).clamp(1, 66);
    let name = NAMES[w.op as usize % NAMES.len()];
    let mut scratch = scratch_for::<B>(threads);
    let kind = w.kind % 4;
    let mut classes: Vec<String> = vec![w.be.name().into()];
    match kind {
        0 => {
            let a_p = encrypt_prepared(c, w.a, false, w.seed, &mut scratch);
            let b_p = encrypt_prepared(c, w.b, false, w.seed ^ 0xB, &mut scratch);
            let mut r1: FheUint<Vec<u8>, u32> = FheUint::alloc_from_infos(&glwe_infos);
            let mut rt: FheUint<Vec<u8>, u32> = FheUint::alloc_from_infos(&glwe_infos);
            apply_op(c, name, &mut r1, &a_p, &b_p, 1, &mut scratch);
            // garbage in the destination and the scratch of the threaded run
            {
                use poulpy_core::layouts::GLWEToMut;
                use poulpy_hal::layouts::ZnxViewMut;
                rt.to_mut().data_mut().raw_mut().fill(0x5A5A_5A5A_5A5A);
            }
            apply_op(c, name, &mut rt, &a_p, &b_p, threads.max(2), &mut scratch);
            if bytes_of(&r1) != bytes_of(&rt) {
                return Verdict::fail(
                    format!("{name}|multi-thread-differs"),
                    format!("backend={} {name}_multi_thread with {} threads gives a different ciphertext than the single-threaded call\ncase={w:?}", w.be.name(), threads.max(2)),
                );
            }
            classes.push(format!("word_op_{}", if 32 % threads.max(2) != 0 { "threads_not_dividing" } else { "threads_dividing" }));
            if threads > 32 {
                classes.push("threads_exceed_items".into());
            }
        }
        1 => {
            let start = (w.start % 32) as usize;
            let count = 1 + (w.count as usize % (32 - start));
            // a quarter of the cases: as many work items as requested threads allow (one bit per worker, more workers than
            // hardware threads), the corner where a worker-count cap or a wrong chunk size drops the trailing bits
            let (start, count) = if w.seed & 12 == 12 && threads > 16 { (32 - threads.min(32), threads.min(32)) } else { (start, count) };
            let enc = EncryptionLayout::new_from_default_sigma(glwe_infos).unwrap();
            let mut ct: FheUint<Vec<u8>, u32> = FheUint::alloc_from_infos(&glwe_infos);
            let mut xe = Source::new(seed32(w.seed, 1));
            let mut xa = Source::new(seed32(w.seed, 2));
            ct.encrypt_sk(m, w.a, &c.sk_glwe, &enc, &mut xe, &mut xa, scratch.borrow());
            let mut p1: Prep<B> = FheUintPrepared::alloc_from_infos(m, &ggsw_infos);
            let mut pt: Prep<B> = FheUintPrepared::alloc_from_infos(m, &ggsw_infos);
            if w.seed & 1 == 1 {
                // receivers that already hold another prepared word: the bits outside the range must be cleared, not kept
                let mut other: FheUint<Vec<u8>, u32> = FheUint::alloc_from_infos(&glwe_infos);
                other.encrypt_sk(m, !w.a ^ w.b, &c.sk_glwe, &enc, &mut Source::new(seed32(w.seed, 3)), &mut Source::new(seed32(w.seed, 4)), scratch.borrow());
                m.fhe_uint_prepare_custom_multi_thread(8, &mut p1, &other, 0, 32, &c.bdd_key, scratch.borrow());
                m.fhe_uint_prepare_custom_multi_thread(8, &mut pt, &other, 0, 32, &c.bdd_key, scratch.borrow());
                classes.push("receiver_held_another_word".into());
            }
            if (w.seed >> 1) & 1 == 1 {
                // the same two calls through the methods of FheUintPrepared (thin wrappers over the module-level functions)
                p1.prepare_custom(m, &ct, start, count, &c.bdd_key, scratch.borrow());
                pt.prepare_custom_multi_thread(threads.max(2), m, &ct, start, count, &c.bdd_key, scratch.borrow());
                classes.push("through_struct_methods".into());
            } else {
                m.fhe_uint_prepare_custom(&mut p1, &ct, start, count, &c.bdd_key, scratch.borrow());
                m.fhe_uint_prepare_custom_multi_thread(threads.max(2), &mut pt, &ct, start, count, &c.bdd_key, scratch.borrow());
            }
            // observe every prepared bit through the identity circuit: equal GGSW bits give equal output bytes
            let mut r1: FheUint<Vec<u8>, u32> = FheUint::alloc_from_infos(&glwe_infos);
            let mut rt: FheUint<Vec<u8>, u32> = FheUint::alloc_from_infos(&glwe_infos);
            r1.identity(m, &p1, &c.bdd_key, scratch.borrow());
            rt.identity(m, &pt, &c.bdd_key, scratch.borrow());
            if bytes_of(&r1) != bytes_of(&rt) {
                return Verdict::fail(
                    "prepare_custom|multi-thread-differs",
                    format!("backend={} fhe_uint_prepare_custom_multi_thread(threads={}, start={start}, count={count}) differs from the single-threaded preparation\ncase={w:?}", w.be.name(), threads.max(2)),
                );
            }
            let mask: u32 = if count == 32 { u32::MAX } else { ((1u32 << count) - 1) << start };
            let got: u32 = rt.decrypt(m, &c.sk_glwe, scratch.borrow());
            if got != w.a & mask {
                return Verdict::fail("prepare_custom|wrong-bits", format!("backend={} partial preparation (start={start}, count={count}, threads={}) yields {got:#010x}, expected {:#010x}\ncase={w:?}", w.be.name(), threads.max(2), w.a & mask));
            }
            classes.push("partial_prepare".into());
            if count % threads.max(2) != 0 {
                classes.push("threads_not_dividing".into());
            }
            if threads > count {
                classes.push("threads_exceed_items".into());
            }
        }
        3 => {
            // a caller-defined circuit (public API: Node / GetBitCircuitInfo): out[i] = a[p_i] & b[q_i], or the constant 0
            // (empty node list, no intermediate state) for a generated subset of the output bits
            use poulpy_bin_fhe::bdd_arithmetic::{ExecuteBDDCircuit2WTo1W, GetBitCircuitInfo, Node};
            struct Custom {
                bits: Vec<(Vec<Node>, usize)>,
            }
            impl GetBitCircuitInfo for Custom {
                fn input_size(&self) -> usize {
                    64
                }
                fn output_size(&self) -> usize {
                    32
                }
                fn get_circuit(&self, bit: usize) -> (&[Node], usize) {
                    (self.bits[bit].0.as_slice(), self.bits[bit].1)
                }
            }
            let mut rng = pzv_common::model::SplitMix::new(w.seed ^ 0xC1C1);
            let mut want: u32 = 0;
            let mut zeros = 0usize;
            let bits: Vec<(Vec<Node>, usize)> = (0..32usize)
                .map(|i| {
                    let r = rng.next();
                    if r % 4 == 0 {
                        zeros += 1;
                        (Vec::new(), 0usize)
                    } else {
                        let (pi, qi) = ((r >> 8) as usize % 32, (r >> 16) as usize % 32);
                        want |= (((w.a >> pi) & 1) & ((w.b >> qi) & 1)) << i;
                        (vec![Node::Copy, Node::Cmux(32 + qi, 1, 0), Node::Cmux(pi, 1, 0), Node::None], 2usize)
                    }
                })
                .collect();
            let circuit = Custom { bits };
            let a_p = encrypt_prepared(c, w.a, false, w.seed, &mut scratch);
            let b_p = encrypt_prepared(c, w.b, false, w.seed ^ 0xB, &mut scratch);
            let mut r1: FheUint<Vec<u8>, u32> = FheUint::alloc_from_infos(&glwe_infos);
            let mut rt: FheUint<Vec<u8>, u32> = FheUint::alloc_from_infos(&glwe_infos);
            m.execute_bdd_circuit_2w_to_1w(&mut r1, &circuit, &a_p, &b_p, &c.bdd_key, scratch.borrow());
            {
                use poulpy_core::layouts::GLWEToMut;
                use poulpy_hal::layouts::ZnxViewMut;
                rt.to_mut().data_mut().raw_mut().fill(0x5A5A_5A5A_5A5A);
            }
            m.execute_bdd_circuit_2w_to_1w_multi_thread(threads.max(2), &mut rt, &circuit, &a_p, &b_p, &c.bdd_key, scratch.borrow());
            let (g1, gt): (u32, u32) = (r1.decrypt(m, &c.sk_glwe, scratch.borrow()), rt.decrypt(m, &c.sk_glwe, scratch.borrow()));
            if g1 != want || gt != want {
                return Verdict::fail(
                    "custom_circuit|wrong-result",
                    format!("backend={} caller-defined circuit ({zeros} constant-zero output bits): single-threaded gives {g1:#010x}, {} threads give {gt:#010x}, expected {want:#010x}\ncase={w:?}", w.be.name(), threads.max(2)),
                );
            }
            if bytes_of(&r1) != bytes_of(&rt) {
                return Verdict::fail("custom_circuit|multi-thread-differs", format!("backend={} caller-defined circuit: {} threads give a different ciphertext than the single-threaded call\ncase={w:?}", w.be.name(), threads.max(2)));
            }
            classes.push("custom_circuit".into());
            if zeros > 0 {
                classes.push("constant_zero_output_bits".into());
            }
            if 32 % threads.max(2) != 0 {
                classes.push("threads_not_dividing".into());
            }
        }
        _ => {
            // several harness threads share the Module, the prepared keys and the read-only operands
            let workers = 2 + (w.threads as usize % 6);
            let a_p = encrypt_prepared(c, w.a, false, w.seed, &mut scratch);
            let b_p = encrypt_prepared(c, w.b, false, w.seed ^ 0xB, &mut scratch);
            let ops: Vec<&str> = (0..workers).map(|i| NAMES[(w.op as usize + i) % NAMES.len()]).collect();
            // solo results
            let mut solo: Vec<Vec<i64>> = vec![];
            for op in &ops {
                let mut r: FheUint<Vec<u8>, u32> = FheUint::alloc_from_infos(&glwe_infos);
                apply_op(c, op, &mut r, &a_p, &b_p, 1, &mut scratch);
                solo.push(bytes_of(&r));
            }
            let conc: Vec<Vec<i64>> = std::thread::scope(|sc| {
                let hs: Vec<_> = ops
                    .iter()
                    .enumerate()
                    .map(|(i, op)| {
                        let (a_p, b_p) = (&a_p, &b_p);
                        sc.spawn(move || {
                            let mut s = scratch_for::<B>(2);
                            let mut r: FheUint<Vec<u8>, u32> = FheUint::alloc_from_infos(&glwe_infos);
                            apply_op(c, op, &mut r, a_p, b_p, 1 + (i % 2), &mut s);
                            bytes_of(&r)
                        })
                    })
                    .collect();
                hs.into_iter().map(|h| h.join().unwrap()).collect()
            });
            for (i, (x, y)) in solo.iter().zip(conc.iter()).enumerate() {
                if x != y {
                    return Verdict::fail(
                        format!("{}|shared-module-differs", ops[i]),
                        format!("backend={} worker {i} ({}) running concurrently on the shared Module gives a different ciphertext than alone\ncase={w:?}", w.be.name(), ops[i]),
                    );
                }
            }
            classes.push("shared_module_concurrent".into());
        }
    }
    let cl: Vec<&str> = classes.iter().map(|s| s.as_str()).collect();
    Verdict::pass(true, &cl)
}

pub fn test(w: &Case) -> Verdict {
    with_ctx!(w.be, |c| run(c, w))
}

fn strategy(bes: &'static [Be]) -> BoxedStrategy<Case> {
    let threads = prop_oneof![3 => 2u8..=33, 1 => prop_oneof![Just(31u8), Just(32), Just(33), Just(64), Just(66), Just(7), Just(5)]];
    (0..bes.len(), 0u8..4, 0u8..11, any::<u32>(), any::<u32>(), threads, any::<u8>(), any::<u8>(), any::<u64>())
        .prop_map(move |(bi, kind, op, a, b, threads, start, count, seed)| Case {
            be: bes[bi],
            kind,
            op,
            a,
            b,
            threads,
            start,
            count,
            seed,
        })
        .boxed()
}

// ---------------------------------------------------------------------------
// worker threads on one shared Module, each on its own window of one arena cut by Scratch::split_mut
// (the mechanism the multi-thread entry points use), windows of exactly the operation's query:
// HAL-level, so that ring degrees below 8 (window lengths that are not multiples of 64 bytes) occur
// ---------------------------------------------------------------------------

#[derive(Clone, Debug, Serialize, Deserialize)]
pub struct SplitCase {
    pub be: Be,
    pub log_n: u8,
    pub threads: u8,
    pub size: u8,
    pub base2k: u8,
    pub seed: u64,
}

fn split_run<B: FullBackend>(m: &poulpy_hal::layouts::Module<B>, c: &SplitCase) -> Result<(usize, bool), String>
where
    ScratchOwned<B>: ScratchOwnedAlloc<B> + ScratchOwnedBorrow<B>,
{
    use poulpy_hal::api::{VecZnxNormalize, VecZnxNormalizeTmpBytes};
    use poulpy_hal::layouts::{VecZnx, ZnxView, ZnxViewMut};
    let n = 1usize << c.log_n;
    let (t, size, b) = (c.threads as usize, c.size as usize, c.base2k as usize);
    let q = m.vec_znx_normalize_tmp_bytes();
    let mut rng = pzv_common::model::SplitMix::new(c.seed);
    let inputs: Vec<VecZnx<Vec<u8>>> = (0..t)
        .map(|_| {
            let mut v = VecZnx::alloc(n, 1, size);
            for j in 0..size {
                for x in v.at_mut(0, j).iter_mut() {
                    // un-normalised digits (up to 8 bits above the radix)
                    *x = rng.signed(((b + 8).min(62)) as u32);
                }
            }
            v
        })
        .collect();
    // alone: own scratch of exactly the query
    let solo: Vec<Vec<i64>> = inputs
        .iter()
        .map(|a| {
            let mut s = ScratchOwned::<B>::alloc(q);
            let mut r = VecZnx::alloc(n, 1, size);
            m.vec_znx_normalize(&mut r, b, 0, 0, a, b, 0, s.borrow());
            r.raw().to_vec()
        })
        .collect();
    // together: one arena, one window of exactly the query per worker
    let mut arena = pzv_be::dirty_scratch::<B>(t * q.next_multiple_of(64) + 64);
    let (wins, _) = arena.borrow().split_mut(t, q);
    let mut outs: Vec<VecZnx<Vec<u8>>> = (0..t).map(|_| VecZnx::alloc(n, 1, size)).collect();
    let res = std::thread::scope(|sc| {
        let hs: Vec<_> = wins
            .into_iter()
            .zip(outs.iter_mut())
            .zip(inputs.iter())
            .map(|((w, r), a)| sc.spawn(move || m.vec_znx_normalize(r, b, 0, 0, a, b, 0, w)))
            .collect();
        hs.into_iter().map(|h| h.join()).collect::<Vec<_>>()
    });
    for (i, r) in res.iter().enumerate() {
        if let Err(e) = r {
            let msg = e.downcast_ref::<String>().cloned().or_else(|| e.downcast_ref::<&str>().map(|s| s.to_string())).unwrap_or_default();
            return Err(format!("worker {i} of {t} panicked on its split_mut window of {q} bytes (= vec_znx_normalize_tmp_bytes): {msg}"));
        }
    }
    for (i, (o, s)) in outs.iter().zip(solo.iter()).enumerate() {
        if o.raw() != &s[..] {
            return Err(format!("worker {i} of {t}: the result on its split_mut window differs from the result of the same call alone"));
        }
    }
    Ok((q, q % 64 != 0))
}

pub fn split_test(c0: &SplitCase) -> Verdict {
    let mut c = c0.clone();
    // (the smallest ring degree a backend's module supports)
    c.log_n = c.log_n.min(6).max(c.be.min_log_n());
    c.threads = c.threads.clamp(2, 8);
    c.size = c.size.clamp(1, 4);
    c.base2k = c.base2k.clamp(4, 50);
    match pzv_be::with_backend!(c.be, c.log_n, |m| split_run(m, &c)) {
        Ok((_, odd)) => Verdict::pass(true, &["shared_module_split_windows", c.be.name(), if odd { "window_not_multiple_of_64_bytes" } else { "window_multiple_of_64_bytes" }]),
        Err(e) => Verdict::fail("vec_znx_normalize|split-window-differs-from-solo", format!("backend={}: {e}\ncase={c:?}", c.be.name())),
    }
}

fn split_strategy() -> BoxedStrategy<SplitCase> {
    (prop_oneof![Just(Be::FftRef), Just(Be::FftAvx), Just(Be::NttRef), Just(Be::NttAvx)], 0u8..=6, 2u8..=8, 1u8..=4, 4u8..=50, any::<u64>())
        .prop_map(|(be, log_n, threads, size, base2k, seed)| SplitCase { be, log_n, threads, size, base2k, seed })
        .boxed()
}

pub const BES: &[Be] = &[Be::FftRef, Be::FftAvx, Be::NttRef];

pub fn run_all(ctx: &Ctx) {
    let t = ctx.tier;
    let _ = (&*crate::c15::CTX_FFT_REF, &*crate::c15::CTX_FFT_AVX, &*crate::c15::CTX_NTT_REF);
    // the driver itself runs 16 shards in parallel: every case already executes under oversubscription
    ctx.run_sub("thread_counts_partitions_shared_module", t.pick(320, 4_000), 16, || strategy(BES), test);
    ctx.run_sub("shared_module_split_scratch_windows", t.pick(2_048, 40_000), 16, split_strategy, split_test);
}

pub fn replay(ctx: &Ctx, sub: &str, case: &serde_json::Value) -> i32 {
    if sub == "shared_module_split_scratch_windows" {
        return ctx.replay_case::<SplitCase, _>(sub, case, split_test);
    }
    ctx.replay_case::<Case, _>(sub, case, test)
}

pub const RULE: &str = "cases = (backend in FFT64Ref/FFT64Avx/NTT120Ref, kind in {word op *_multi_thread, fhe_uint_prepare_custom_multi_thread over every (start, count) class into fresh receivers and into receivers that hold another prepared word, 2..7 harness threads sharing one Module + prepared keys + read-only operands with mixed word operations, caller-defined circuits (Node / GetBitCircuitInfo: out[i] = a[p_i] & b[q_i] or the constant 0 with an empty node list) through execute_bdd_circuit_2w_to_1w and its multi-thread form}, thread counts 2..33 and 64/66 (not dividing / exceeding the 32 work items), generated operands and seeds); all cases run while 15 other cases execute concurrently (oversubscription). Oracle: ciphertext bytes equal to the single-threaded / solo run; partial preparation additionally decrypts to the selected bits. non-trivial: every case. Sub-check shared_module_split_scratch_windows: (four backends, N from the smallest degree the backend supports to 64, 2..8 worker threads, 1..4 limbs, radix 4..50): the workers share one Module and normalise their own un-normalised input, each on its own window of one arena cut by Scratch::split_mut with windows of exactly vec_znx_normalize_tmp_bytes (not a multiple of 64 bytes for N < 8); every result must equal the result of the same call alone on a scratch of the same size, and no worker may panic.";
