//! Scratch provider of the binary-FHE tests (see `scheme/src/sp.rs`): in the C12 mode the call site `name`
//! gets a guarded window of exactly the bytes of its own size query.

use crate::c12b::Win;
use poulpy_hal::api::{ScratchFromBytes, ScratchOwnedBorrow};
use poulpy_hal::layouts::{Scratch, ScratchOwned};
use pzv_be::FullBackend;
use std::cell::{Cell, RefCell};

thread_local! {
    pub static SP_MODE: Cell<Option<(bool, u64)>> = const { Cell::new(None) };
    static SP_WINS: RefCell<Vec<Win>> = const { RefCell::new(Vec::new()) };
    pub static SP_LAST: Cell<(&'static str, usize)> = const { Cell::new(("", 0)) };
    pub static SP_SEEN: RefCell<Vec<&'static str>> = const { RefCell::new(Vec::new()) };
}

pub fn spw<'a, B: FullBackend>(name: &'static str, bytes: usize, own: &'a mut ScratchOwned<B>) -> &'a mut Scratch<B>
where
    Scratch<B>: ScratchFromBytes<B>,
{
    match SP_MODE.with(|m| m.get()) {
        None => own.borrow(),
        Some((exact, seed)) => {
            let k = SP_WINS.with(|w| w.borrow().len()) as u64;
            let mut w = if exact { Win::new(bytes, seed ^ (k << 32)) } else { Win::roomy(8 * bytes + (4 << 20), seed ^ (k << 32)) };
            if exact {
                SP_LAST.with(|l| l.set((name, bytes)));
                SP_SEEN.with(|s| {
                    let mut s = s.borrow_mut();
                    if !s.contains(&name) {
                        s.push(name);
                    }
                });
            }
            let p: *mut Scratch<B> = w.scratch::<B>();
            // the window's heap buffer does not move when the `Win` header moves into the list; it lives until `sp_finish`
            SP_WINS.with(|ws| ws.borrow_mut().push(w));
            unsafe { &mut *p }
        }
    }
}

pub fn sp_finish() -> bool {
    SP_WINS.with(|ws| {
        let mut ws = ws.borrow_mut();
        let ok = ws.iter().all(|w| w.intact());
        ws.clear();
        ok
    })
}
