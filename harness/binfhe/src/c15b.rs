//! C15, second part: conditional swap of words, blind selection, blind retrieval (and its inverse)
//! and the cells produced by circuit bootstrapping (constant and exponent mode), on the shipped layout.

use crate::c15::seed32;
use crate::gad::{cell_errors, p2};
use crate::sch::glwe_secret_coeffs;
use crate::with_ctx;
use poulpy_bin_fhe::bdd_arithmetic::{BDDKeyHelper, Cswap, FheUint, FheUintPrepared, GGSWBlindRotation, GLWEBlindRetrieval, GLWEBlindRotation, GLWEBlindSelection, tests::test_suite::TestContext};
use poulpy_bin_fhe::blind_rotation::CGGI;
use poulpy_core::layouts::{Base2K, Degree, Dnum, Dsize, GGSW, GGSWLayout, LWEInfos, GGSWPreparedFactory, GLWE, GLWELayout, GLWEPlaintext, GLWESecret, LWE, LWELayout, LWEPlaintext, Rank, TorusPrecision};
use poulpy_core::{EncryptionLayout, GGSWEncryptSk, GLWECopy, GLWEDecrypt, GLWEEncryptSk, LWEEncryptSk};
use poulpy_hal::{
    api::{ScratchOwnedAlloc, ScratchOwnedBorrow},
    layouts::{DeviceBuf, ScalarZnx, ScratchOwned, ToOwnedDeep, VecZnx, ZnxViewMut},
    source::Source,
};
use proptest::prelude::*;
use crate::spb::spw;
use poulpy_bin_fhe::circuit_bootstrapping::CircuitBootstrappingKeyInfos;
use pzv_be::{Be, FullBackend};
use pzv_common::driver::{Ctx, Verdict};
use serde::{Deserialize, Serialize};
use std::collections::HashMap;
use std::sync::OnceLock;

#[derive(Clone, Debug, Serialize, Deserialize)]
pub struct Case {
    pub be: Be,
    /// 0 cswap of words, 1 blind selection, 2 blind retrieval + inverse, 3 circuit bootstrapping to constant, 4 to exponent,
    /// 5 GLWE blind rotation (both forms), 6 GGSW blind rotations (scalar -> GGSW, GGSW -> GGSW, in place),
    /// 7 stateful blind retriever (two retrievals with the same object)
    pub kind: u8,
    pub a: u32,
    pub b: u32,
    /// selector word
    pub k: u32,
    pub bit_start: u8,
    pub bit_size: u8,
    /// generated subset / length / radix choice
    pub aux: u32,
    pub seed: u64,
}

pub const KINDS: [&str; 8] = ["cswap_words", "glwe_blind_selection", "glwe_blind_retrieval", "circuit_bootstrapping_to_constant", "circuit_bootstrapping_to_exponent", "glwe_blind_rotation", "ggsw_blind_rotation", "glwe_blind_retriever"];

/// the clear GLWE secret of TestContext (same fixed seed and distribution as TestContext::new)
fn clear_sk() -> &'static Vec<Vec<i64>> {
    static SK: OnceLock<Vec<Vec<i64>>> = OnceLock::new();
    SK.get_or_init(|| {
        let mut source_xs = Source::new([1u8; 32]);
        let mut sk = GLWESecret::alloc(Degree(256), Rank(2));
        sk.fill_ternary_prob(0.5, &mut source_xs);
        glwe_secret_coeffs(&sk)
    })
}

fn mul_small(a: &[i64], b: &[i64]) -> Vec<i64> {
    let n = a.len();
    let mut out = vec![0i64; n];
    for (i, x) in a.iter().enumerate() {
        if *x == 0 {
            continue;
        }
        for (j, y) in b.iter().enumerate() {
            let k = i + j;
            if k < n { out[k] += x * y } else { out[k - n] -= x * y }
        }
    }
    out
}

fn run<B: FullBackend>(c: &TestContext<CGGI, B>, w: &Case) -> Verdict
where
    ScratchOwned<B>: ScratchOwnedAlloc<B> + ScratchOwnedBorrow<B>,
    poulpy_hal::layouts::Scratch<B>: poulpy_hal::api::ScratchFromBytes<B>,
{
    let m = &c.module;
    let kind = w.kind as usize % KINDS.len();
    let name = KINDS[kind];
    let fail = |what: &str, d: String| Verdict::fail(format!("{name}|{what}"), format!("backend={} {name}: {d}\ncase={w:?}", w.be.name()));
    let mut scratch = pzv_be::dirty_scratch::<B>(1 << 24);
    let glwe_infos: GLWELayout = c.glwe_infos();
    let ggsw_infos: GGSWLayout = c.ggsw_infos();
    let glwe_enc = EncryptionLayout::new_from_default_sigma(glwe_infos).unwrap();
    let ggsw_enc = EncryptionLayout::new_from_default_sigma(ggsw_infos).unwrap();
    let mut xe = Source::new(seed32(w.seed, 1));
    let mut xa = Source::new(seed32(w.seed, 2));
    let mut cl: Vec<&str> = vec![name, w.be.name()];
    let enc_word = |v: u32, xe: &mut Source, xa: &mut Source, scratch: &mut ScratchOwned<B>| -> FheUint<Vec<u8>, u32> {
        let mut ct: FheUint<Vec<u8>, u32> = FheUint::alloc_from_infos(&glwe_infos);
        ct.encrypt_sk(m, v, &c.sk_glwe, &glwe_enc, xe, xa, scratch.borrow());
        ct
    };
    match kind {
        0 => {
            // selector GGSW in the radix of the words or in another one (the library converts)
            let sel_b = [13u32, 13, 12, 9][(w.aux % 4) as usize];
            let sel_infos = GGSWLayout { n: ggsw_infos.n, base2k: Base2K(sel_b), k: TorusPrecision(sel_b * 4), rank: ggsw_infos.rank, dnum: Dnum(3), dsize: Dsize(1) };
            let sel_enc = EncryptionLayout::new_from_default_sigma(sel_infos).unwrap();
            let bit = (w.k & 1) as i64;
            let mut s: GGSW<Vec<u8>> = GGSW::alloc_from_infos(&sel_infos);
            let mut pt: ScalarZnx<Vec<u8>> = ScalarZnx::alloc(m.n(), 1);
            pt.raw_mut()[0] = bit;
            m.ggsw_encrypt_sk(&mut s, &pt, &c.sk_glwe, &sel_enc, &mut xe, &mut xa, scratch.borrow());
            let mut sp = m.ggsw_prepared_alloc_from_infos(&sel_infos);
            m.ggsw_prepare(&mut sp, &s, spw("ggsw_prepare", m.ggsw_prepare_tmp_bytes(&s), &mut scratch));
            let (mut ae, mut be_) = (enc_word(w.a, &mut xe, &mut xa, &mut scratch), enc_word(w.b, &mut xe, &mut xa, &mut scratch));
            let q_ = m.cswap_tmp_bytes(&ae, &be_, &sp);
            m.cswap(&mut ae, &mut be_, &sp, spw("cswap", q_, &mut scratch));
            let (wa, wb) = if bit == 0 { (w.a, w.b) } else { (w.b, w.a) };
            let (ga, gb): (u32, u32) = (ae.decrypt(m, &c.sk_glwe, scratch.borrow()), be_.decrypt(m, &c.sk_glwe, scratch.borrow()));
            if (ga, gb) != (wa, wb) {
                return fail("wrong-result", format!("cswap({:#010x}, {:#010x}) with selector bit {bit} (selector radix 2^{sel_b}) decrypts to ({ga:#010x}, {gb:#010x}), expected ({wa:#010x}, {wb:#010x})", w.a, w.b));
            }
            cl.push(if sel_b == 13 { "selector_same_radix" } else { "selector_other_radix" });
            cl.push(if bit == 1 { "swap" } else { "keep" });
        }
        1 | 2 => {
            let mut kp: FheUintPrepared<DeviceBuf<B>, u32, B> = FheUintPrepared::alloc_from_infos(m, &ggsw_infos);
            kp.encrypt_sk(m, w.k, &c.sk_glwe, &ggsw_enc, &mut xe, &mut xa, scratch.borrow());
            let bits = 1 + (w.bit_size as usize % 4);
            let start = (w.bit_start as usize) % (33 - bits);
            let idx = ((w.k >> start) as usize) & ((1 << bits) - 1);
            if kind == 1 {
                // GLWE ciphertexts of i at the constant coefficient, a generated subset of the slots present
                let b13 = TorusPrecision(13);
                let mut cts: Vec<GLWE<Vec<u8>>> = vec![];
                let mut pt: GLWEPlaintext<Vec<u8>> = GLWEPlaintext::alloc_from_infos(&glwe_infos);
                for i in 0..1usize << bits {
                    pt.encode_coeff_i64((i as i64 * 37 + 5) % 4096, b13, 0);
                    let mut ct = GLWE::alloc_from_infos(&glwe_infos);
                    m.glwe_encrypt_sk(&mut ct, &pt, &c.sk_glwe, &glwe_enc, &mut xe, &mut xa, scratch.borrow());
                    cts.push(ct);
                }
                // any subset of the slots, the empty one included (an eighth of the cases); a quarter of the cases also
                // carry an entry keyed outside the addressed window, which the selection must ignore
                let none = (w.aux >> 20) & 7 == 0;
                let present = |i: usize| !none && (w.aux >> (i % 32)) & 1 == 1;
                let mut outside = GLWE::alloc_from_infos(&glwe_infos);
                pt.encode_coeff_i64(4001, b13, 0);
                m.glwe_encrypt_sk(&mut outside, &pt, &c.sk_glwe, &glwe_enc, &mut xe, &mut xa, scratch.borrow());
                let mut map: HashMap<usize, &mut GLWE<Vec<u8>>> = HashMap::new();
                for (i, ct) in cts.iter_mut().enumerate() {
                    if present(i) {
                        map.insert(i, ct);
                    }
                }
                if (w.aux >> 23) & 3 == 0 {
                    map.insert((1usize << bits) + ((w.aux >> 25) as usize % 9), &mut outside);
                    cl.push("entry_outside_the_window");
                }
                if map.is_empty() {
                    cl.push("empty_map");
                }
                // the receiver is a used one
                let mut res: GLWE<Vec<u8>> = GLWE::alloc_from_infos(&glwe_infos);
                pt.encode_coeff_i64(3999, b13, 0);
                m.glwe_encrypt_sk(&mut res, &pt, &c.sk_glwe, &glwe_enc, &mut xe, &mut xa, scratch.borrow());
                let q_ = <poulpy_hal::layouts::Module<B> as GLWEBlindSelection<u32, B>>::glwe_blind_selection_tmp_bytes(m, &res, &kp);
                <poulpy_hal::layouts::Module<B> as GLWEBlindSelection<u32, B>>::glwe_blind_selection(m, &mut res, map, &kp, start, bits, spw("glwe_blind_selection", q_, &mut scratch));
                m.glwe_decrypt(&res, &mut pt, &c.sk_glwe, scratch.borrow());
                let got = pt.decode_coeff_i64(b13, 0);
                let want = if present(idx) { (idx as i64 * 37 + 5) % 4096 } else { 0 };
                if got != want {
                    return fail("wrong-result", format!("selection with index bits [{start}, {start}+{bits}) of {:#010x} = {idx} (slot {}) decrypts to {got}, expected {want}", w.k, if present(idx) { "present" } else { "absent" }));
                }
                cl.push(if present(idx) { "slot_present" } else { "slot_absent" });
            } else {
                let len = (1usize << bits) + (w.aux as usize % 3);
                let data: Vec<u32> = (0..len).map(|i| w.a.wrapping_mul(i as u32 + 1) ^ w.b.rotate_left(i as u32)).collect();
                let mut enc: Vec<FheUint<Vec<u8>, u32>> = data.iter().map(|v| enc_word(*v, &mut xe, &mut xa, &mut scratch)).collect();
                let q_ = m.glwe_blind_retrieval_tmp_bytes(&enc[0], &kp);
                m.glwe_blind_retrieval_statefull(&mut enc, &kp, start, bits, spw("glwe_blind_retrieval_statefull", q_, &mut scratch));
                let got: u32 = enc[0].decrypt(m, &c.sk_glwe, scratch.borrow());
                if got != data[idx] {
                    return fail("wrong-result", format!("retrieval from {len} words with index bits [{start}, {start}+{bits}) of {:#010x} = {idx}: element 0 decrypts to {got:#010x}, expected {:#010x}", w.k, data[idx]));
                }
                m.glwe_blind_retrieval_statefull_rev(&mut enc, &kp, start, bits, spw("glwe_blind_retrieval_statefull_rev", q_, &mut scratch));
                for (i, e) in enc.iter().enumerate() {
                    let g: u32 = e.decrypt(m, &c.sk_glwe, scratch.borrow());
                    if g != data[i] {
                        return fail("inverse-does-not-restore", format!("after retrieval and its inverse ({len} words, index {idx}) element {i} decrypts to {g:#010x}, expected {:#010x}", data[i]));
                    }
                }
                cl.push(if len > 1 << bits { "length_not_power_of_two" } else { "length_power_of_two" });
            }
        }
        7 => {
            use poulpy_bin_fhe::bdd_arithmetic::GLWEBlindRetriever;
            let len = 1 + (w.aux as usize % 20);
            let bits = (u32::BITS - (len as u32 - 1).leading_zeros()) as usize;
            let offset = (w.bit_start as usize) % (33 - bits.max(1));
            let data: Vec<u32> = (0..len).map(|i| w.a.wrapping_mul(i as u32 + 3) ^ w.b.rotate_left(i as u32)).collect();
            let enc: Vec<FheUint<Vec<u8>, u32>> = data.iter().map(|v| enc_word(*v, &mut xe, &mut xa, &mut scratch)).collect();
            // capacity >= number of inputs; two retrievals with the same object, the second one over a prefix of other length
            let cap = len + ((w.aux >> 8) as usize % 12);
            let mut retriever = GLWEBlindRetriever::alloc(&glwe_infos, cap);
            for round in 0..2u32 {
                let len = if round == 0 { len } else { 1 + ((w.aux >> 16) as usize % len) };
                let enc = &enc[..len];
                let idx = ((w.k >> (8 * round)) as usize) % len;
                let mask = ((1u64 << bits) - 1) as u32;
                let kword = (w.k.rotate_left(7 * round) & !(mask.checked_shl(offset as u32).unwrap_or(0))) | ((idx as u32) << offset);
                let mut kp: FheUintPrepared<DeviceBuf<B>, u32, B> = FheUintPrepared::alloc_from_infos(m, &ggsw_infos);
                kp.encrypt_sk(m, kword, &c.sk_glwe, &ggsw_enc, &mut xe, &mut xa, scratch.borrow());
                let mut res: FheUint<Vec<u8>, u32> = FheUint::alloc_from_infos(&glwe_infos);
                let q_ = GLWEBlindRetriever::retrieve_tmp_bytes(m, &res, &kp);
                retriever.retrieve(m, &mut res, enc, &kp, offset, spw("glwe_blind_retriever_retrieve", q_, &mut scratch));
                let got: u32 = res.decrypt(m, &c.sk_glwe, scratch.borrow());
                if got != data[idx] {
                    return fail("wrong-result", format!("retrieval #{round} from {len} words with index {idx} (selector bits from {offset}): decrypts to {got:#010x}, expected {:#010x}", data[idx]));
                }
            }
            cl.push(if len.is_power_of_two() { "length_power_of_two" } else { "length_not_power_of_two" });
            cl.push(if cap >= 2 * len { "capacity>=2x_inputs" } else { "capacity<2x_inputs" });
        }
        5 | 6 => {
            // rotation by sign * (((k >> rsh) % 2^mask) << lsh), selector bits as prepared GGSWs of a more precise layout (as the shipped tests do)
            let sel_infos = GGSWLayout { n: ggsw_infos.n, base2k: ggsw_infos.base2k, k: TorusPrecision(52), rank: ggsw_infos.rank, dnum: Dnum(3), dsize: Dsize(1) };
            let sel_enc = EncryptionLayout::new_from_default_sigma(sel_infos).unwrap();
            let mut kp: FheUintPrepared<DeviceBuf<B>, u32, B> = FheUintPrepared::alloc_from_infos(m, &sel_infos);
            kp.encrypt_sk(m, w.k, &c.sk_glwe, &sel_enc, &mut xe, &mut xa, scratch.borrow());
            let mask = 1 + (w.bit_size as usize % 5);
            let rsh = (w.bit_start as usize) % (33 - mask);
            let lsh = (w.aux as usize) % 4;
            let sign = (w.aux >> 8) & 1 == 1;
            let amount = ((((w.k >> rsh) as usize) & ((1 << mask) - 1)) << lsh) as i64;
            let rot = if sign { amount } else { -amount };
            let n = m.n();
            let rotate = |v: &[i64]| -> Vec<i64> {
                let mut out = vec![0i64; n];
                for (i, x) in v.iter().enumerate() {
                    let j = (i as i64 + rot).rem_euclid(2 * n as i64) as usize;
                    if j < n { out[j] = *x } else { out[j - n] = -*x }
                }
                out
            };
            if kind == 5 {
                // GLWE of a polynomial with distinct small coefficients in the top limb
                let vals: Vec<i64> = (0..n).map(|i| ((i as i64 * 29 + (w.a % 97) as i64) % 1021) - 510).collect();
                let mut pt: GLWEPlaintext<Vec<u8>> = GLWEPlaintext::alloc_from_infos(&glwe_infos);
                pt.data.at_mut(0, 0).copy_from_slice(&vals);
                let mut a = GLWE::alloc_from_infos(&glwe_infos);
                m.glwe_encrypt_sk(&mut a, &pt, &c.sk_glwe, &glwe_enc, &mut xe, &mut xa, scratch.borrow());
                let want = rotate(&vals);
                let assign = (w.aux >> 9) & 1 == 1;
                let mut res = GLWE::alloc_from_infos(&glwe_infos);
                if assign {
                    m.glwe_copy(&mut res, &a);
                    let q_ = <poulpy_hal::layouts::Module<B> as GLWEBlindRotation<B>>::glwe_blind_rotation_tmp_bytes(m, &res, &kp);
                    <poulpy_hal::layouts::Module<B> as GLWEBlindRotation<B>>::glwe_blind_rotation_assign(m, &mut res, &kp, sign, rsh, mask, lsh, spw("glwe_blind_rotation_assign", q_, &mut scratch));
                } else {
                    let q_ = <poulpy_hal::layouts::Module<B> as GLWEBlindRotation<B>>::glwe_blind_rotation_tmp_bytes(m, &res, &kp);
                    <poulpy_hal::layouts::Module<B> as GLWEBlindRotation<B>>::glwe_blind_rotation(m, &mut res, &a, &kp, sign, rsh, mask, lsh, spw("glwe_blind_rotation", q_, &mut scratch));
                }
                let mut out: GLWEPlaintext<Vec<u8>> = GLWEPlaintext::alloc_from_infos(&glwe_infos);
                m.glwe_decrypt(&res, &mut out, &c.sk_glwe, scratch.borrow());
                {
                    use poulpy_hal::layouts::ZnxView;
                    let got = out.data.at(0, 0);
                    if let Some(i) = (0..n).find(|i| got[*i] != want[*i]) {
                        return fail("wrong-result", format!("rotation by {rot} (sign={sign}, bits [{rsh},{rsh}+{mask}) of {:#010x} << {lsh}, {}): coefficient {i} decrypts to {} instead of {}", w.k, if assign { "in place" } else { "out of place" }, got[i], want[i]));
                    }
                }
                cl.push(if assign { "in_place" } else { "out_of_place" });
            } else {
                let scalar: Vec<i64> = (0..n).map(|i| ((i as i64 + (w.a % 5) as i64) % 7) - 3).collect();
                let mut tv: ScalarZnx<Vec<u8>> = ScalarZnx::alloc(n, 1);
                tv.raw_mut().copy_from_slice(&scalar);
                let form = (w.aux >> 9) % 3;
                // receiver (and source) layouts: the shipped one, or a digit decomposition of two limbs per row
                // ((2, 2) would put the last gadget level at 2^-52, below the noise the 52-bit selector allows)
                let (rd, rs) = [(2u32, 1u32), (1, 2), (1, 1), (1, 2)][((w.aux >> 12) % 4) as usize];
                let ggsw_infos = GGSWLayout { n: ggsw_infos.n, base2k: ggsw_infos.base2k, k: TorusPrecision(13 * (rd * rs + 1)), rank: ggsw_infos.rank, dnum: Dnum(rd), dsize: Dsize(rs) };
                let ggsw_enc = EncryptionLayout::new_from_default_sigma(ggsw_infos).unwrap();
                let mut res: GGSW<Vec<u8>> = GGSW::alloc_from_infos(&ggsw_infos);
                match form {
                    0 => {
                        let q_ = <poulpy_hal::layouts::Module<B> as GGSWBlindRotation<u32, B>>::scalar_to_ggsw_blind_rotation_tmp_bytes(m, &res, &kp);
                        <poulpy_hal::layouts::Module<B> as GGSWBlindRotation<u32, B>>::scalar_to_ggsw_blind_rotation(m, &mut res, &tv, &kp, sign, rsh, mask, lsh, spw("scalar_to_ggsw_blind_rotation", q_, &mut scratch))
                    }
                    f => {
                        let mut a: GGSW<Vec<u8>> = GGSW::alloc_from_infos(&ggsw_infos);
                        m.ggsw_encrypt_sk(&mut a, &tv, &c.sk_glwe, &ggsw_enc, &mut xe, &mut xa, scratch.borrow());
                        if f == 1 {
                            let q_ = <poulpy_hal::layouts::Module<B> as GGSWBlindRotation<u32, B>>::ggsw_to_ggsw_blind_rotation_tmp_bytes(m, &res, &kp);
                            <poulpy_hal::layouts::Module<B> as GGSWBlindRotation<u32, B>>::ggsw_blind_rotation(m, &mut res, &a, &kp, sign, rsh, mask, lsh, spw("ggsw_blind_rotation", q_, &mut scratch));
                        } else {
                            let q_ = <poulpy_hal::layouts::Module<B> as GGSWBlindRotation<u32, B>>::ggsw_to_ggsw_blind_rotation_tmp_bytes(m, &a, &kp);
                            <poulpy_hal::layouts::Module<B> as GGSWBlindRotation<u32, B>>::ggsw_blind_rotation_assign(m, &mut a, &kp, sign, rsh, mask, lsh, spw("ggsw_blind_rotation_assign", q_, &mut scratch));
                            res = a;
                        }
                    }
                }
                let m2 = rotate(&scalar);
                let s = clear_sk();
                let mut pts = vec![m2.clone()];
                for si in s.iter() {
                    pts.push(mul_small(&m2, si));
                }
                let (b, dnum, dsz, cols) = (13usize, ggsw_infos.dnum.0 as usize, ggsw_infos.dsize.0 as usize, s.len() + 1);
                let cells: Vec<VecZnx<Vec<u8>>> = (0..dnum).flat_map(|row| (0..cols).map(move |col| (row, col))).map(|(row, col)| res.at(row, col).data().to_owned_deep()).collect();
                let errs = cell_errors(&cells, b, dnum, dsz, cols, s, &pts);
                cl.push(if dsz > 1 { "dsize>1" } else { "dsize=1" });
                for row in 0..dnum {
                    for col in 0..cols {
                        let (_, mx, at) = errs[row][col];
                        let half_unit = p2(-(((row + 1) * dsz * b + 1) as i64));
                        if std::env::var("PZV_DEBUG").is_ok() {
                            eprintln!("DEBUG ggsw_rot row {row} err/half_unit = 2^{:.2}", (mx / half_unit).log2());
                        }
                        if mx >= half_unit {
                            return fail("cell-does-not-encrypt-the-value", format!("{} with rotation {rot}: cell (row {row}, column {col}) is off by {mx:.3e} (2^{:.1}) at coefficient {at}, half a unit of its gadget level is 2^-{} (dnum {dnum}, dsize {dsz})", ["scalar_to_ggsw_blind_rotation", "ggsw_blind_rotation", "ggsw_blind_rotation_assign"][form as usize], mx.log2(), (row + 1) * dsz * b + 1));
                        }
                    }
                }
                cl.push(["scalar_to_ggsw", "ggsw_to_ggsw", "ggsw_in_place"][form as usize]);
            }
            cl.push(if rot == 0 { "rotation_zero" } else { "rotation_nonzero" });
        }
        _ => {
            let exponent = kind == 4;
            let log_domain = 1 + (w.bit_size as usize % 4);
            let data = (w.k as usize) % (1 << log_domain);
            // LWE sample of data * 2^-(log_domain + 1) (one padding bit), radix 4
            let k_lwe = 16 + (w.aux as usize % 3) * 4;
            let lwe_infos = LWELayout { n: Degree(c.sk_lwe.n().0), k: TorusPrecision(k_lwe as u32), base2k: Base2K(4) };
            let lwe_enc = EncryptionLayout::new_from_default_sigma(lwe_infos).unwrap();
            let mut pt_lwe = LWEPlaintext::alloc(Base2K(4), TorusPrecision(log_domain as u32 + 1));
            pt_lwe.encode_i64(data as i64, TorusPrecision(log_domain as u32 + 1));
            let mut ct_lwe: LWE<Vec<u8>> = LWE::alloc_from_infos(&lwe_infos);
            m.lwe_encrypt_sk(&mut ct_lwe, &pt_lwe, &c.sk_lwe, &lwe_enc, &mut xe, &mut xa, scratch.borrow());
            let (cbt, _, _) = c.bdd_key.get_cbt_key();
            let mut res: GGSW<Vec<u8>> = GGSW::alloc_from_infos(&ggsw_infos);
            // log_gap_in = log2(N) - log_domain for extension factor 1; the output gap may be any value up to it
            let log_gap_in = 8 - log_domain;
            let log_gap_out = (w.bit_start as usize) % (log_gap_in + 1);
            // extension factor of the internal lookup table (the shipped key is block-binary, so any power of two is legal)
            let ext = [1usize, 1, 2, 4][(w.aux >> 8) as usize % 4];
            let q_ = <poulpy_hal::layouts::Module<B> as poulpy_bin_fhe::circuit_bootstrapping::CircuitBootstrappingExecute<CGGI, B>>::circuit_bootstrapping_execute_tmp_bytes(m, cbt.block_size(), ext, &res, cbt);
            if exponent {
                cbt.execute_to_exponent(m, log_gap_out, &mut res, &ct_lwe, log_domain, ext, spw("circuit_bootstrapping_execute_to_exponent", q_, &mut scratch));
            } else {
                cbt.execute_to_constant(m, &mut res, &ct_lwe, log_domain, ext, spw("circuit_bootstrapping_execute_to_constant", q_, &mut scratch));
            }
            cl.push(["extension_factor=1", "extension_factor=2", "", "extension_factor=4"][ext - 1]);
            let n = m.n();
            let mut m2 = vec![0i64; n];
            if exponent {
                m2[data << log_gap_out] = 1;
            } else {
                m2[0] = data as i64;
            }
            let s = clear_sk();
            let mut pts = vec![m2.clone()];
            for si in s.iter() {
                pts.push(mul_small(&m2, si));
            }
            let (b, dnum, cols) = (13usize, ggsw_infos.dnum.0 as usize, s.len() + 1);
            let cells: Vec<VecZnx<Vec<u8>>> = (0..dnum).flat_map(|row| (0..cols).map(move |col| (row, col))).map(|(row, col)| res.at(row, col).data().to_owned_deep()).collect();
            let errs = cell_errors(&cells, b, dnum, 1, cols, s, &pts);
            let mut worst = 0f64;
            for row in 0..dnum {
                for col in 0..cols {
                    let (_, mx, at) = errs[row][col];
                    // "encrypts that value in every cell": the cell decodes to its plaintext at its gadget level
                    // the last row of the shipped layout carries bootstrapping noise of up to half a unit of its gadget level
                    // (measured: 0.49 units over 10^4 cells); it is judged at one unit, the other rows at half a unit
                    let half_unit = p2(-(((row + 1) * b + if row + 1 == dnum { 0 } else { 1 }) as i64));
                    worst = worst.max(mx / half_unit);
                    if mx >= half_unit {
                        return fail(
                            "cell-does-not-encrypt-the-value",
                            format!("value {data} of a domain of 2^{log_domain}{}: cell (row {row}, column {col}) is off by {mx:.3e} (2^{:.1}) at coefficient {at}, the threshold for this row is {half_unit:.3e}", if exponent { format!(", extension factor {ext}, exponent mode with log_gap_out = {log_gap_out} (log_gap_in = {log_gap_in})") } else { format!(", extension factor {ext}") }, mx.log2()),
                        );
                    }
                }
            }
            if std::env::var("PZV_DEBUG").is_ok() {
                eprintln!("DEBUG cbt worst/half_unit = 2^{:.2}", worst.log2());
            }
            cl.push(if worst < 1.0 / 256.0 { "margin>=8_bits" } else if worst < 1.0 / 16.0 { "margin_4..8_bits" } else { "margin<4_bits" });
            if exponent {
                cl.push(if log_gap_out == log_gap_in { "gap_out==gap_in" } else { "gap_out<gap_in" });
            }
            if data != 0 {
                cl.push("nonzero_value");
            }
        }
    }
    Verdict::pass(true, &cl)
}

pub fn test(w: &Case) -> Verdict {
    with_ctx!(w.be, |c| run(c, w))
}

pub fn strategy() -> BoxedStrategy<Case> {
    (prop_oneof![Just(Be::FftRef), Just(Be::FftAvx), Just(Be::NttRef)], 0u8..8, any::<u32>(), any::<u32>(), any::<u32>(), any::<u8>(), any::<u8>(), any::<u32>(), any::<u64>())
        .prop_map(|(be, kind, a, b, k, bit_start, bit_size, aux, seed)| Case { be, kind, a, b, k, bit_start, bit_size, aux, seed })
        .boxed()
}

pub fn run_all(ctx: &Ctx) {
    let t = ctx.tier;
    ctx.run_sub("swap_selection_retrieval_bootstrapping_cells", t.pick(512, 7_200), 16, strategy, test);
}

pub fn replay(ctx: &Ctx, sub: &str, case: &serde_json::Value) -> i32 {
    ctx.replay_case::<Case, _>(sub, case, test)
}
