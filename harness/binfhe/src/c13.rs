//! C13 — compiled BDD circuits compute their 32-bit word functions.
//!
//! The tables are read through hook H1.  A clear evaluator mirrors `eval_level`
//! exactly (two ping-pong buffers of `max_inter_state` slots, initial state
//! [0, 1, 0, ...], `Cmux` / `Copy` / `None`) and is compared with RISC-V style
//! `u32` semantics.  Generated search cannot enumerate 2^64 pairs; instead:
//! exhaustive structural validity, *directed* inputs that route the evaluation
//! through every edge of every table (100 % edge coverage, measured), exhaustive
//! sub-cubes, boundary and random pairs.

use poulpy_bin_fhe::bdd_arithmetic::{GetBitCircuitInfo, Node, verif::u32_circuits};
use proptest::prelude::*;
use pzv_common::driver::{Ctx, PassInfo, SubReport, Verdict};
use pzv_common::model::SplitMix;
use serde::{Deserialize, Serialize};
use std::collections::{BTreeSet, HashMap};

pub fn reference(name: &str, a: u32, b: u32) -> u32 {
    match name {
        "add" => a.wrapping_add(b),
        "sub" => a.wrapping_sub(b),
        "sll" => a << (b & 31),
        "srl" => a >> (b & 31),
        "sra" => ((a as i32) >> (b & 31)) as u32,
        "slt" => ((a as i32) < (b as i32)) as u32,
        "sltu" => (a < b) as u32,
        "and" => a & b,
        "or" => a | b,
        "xor" => a ^ b,
        "identity" => a,
        _ => panic!("harness: unknown circuit {name}"),
    }
}

#[inline]
fn input_bit(input: u64, idx: usize) -> bool {
    (input >> idx) & 1 == 1
}

/// Mirrors `eval_level`.  `Err` = a structural problem met on this evaluation path.
pub fn eval_bit(nodes: &[Node], state: usize, input: u64, mut visit: Option<&mut dyn FnMut(usize, usize, bool)>) -> Result<bool, String> {
    if state == 0 {
        return Ok(false);
    }
    if nodes.len() % state != 0 || nodes.is_empty() {
        return Err(format!("node count {} is not a positive multiple of the state width {state}", nodes.len()));
    }
    let mut prev = vec![false; state];
    let mut next = vec![false; state];
    if state > 1 {
        prev[1] = true;
    } else {
        return Err("state width 1 cannot hold the constant 1".into());
    }
    let levels = nodes.len() / state;
    for l in 0..levels - 1 {
        let lvl = &nodes[l * state..(l + 1) * state];
        for (j, node) in lvl.iter().enumerate() {
            match node {
                Node::Cmux(bit, hi, lo) => {
                    if *hi >= state || *lo >= state {
                        return Err(format!("level {l} slot {j}: index out of range (hi {hi}, lo {lo}, width {state})"));
                    }
                    if *bit >= 64 {
                        return Err(format!("level {l} slot {j}: selector {bit} >= 64"));
                    }
                    let sel = input_bit(input, *bit);
                    if let Some(v) = visit.as_mut() {
                        v(l, j, sel);
                    }
                    next[j] = if sel { prev[*hi] } else { prev[*lo] };
                }
                Node::Copy => next[j] = prev[j],
                Node::None => {}
            }
        }
        std::mem::swap(&mut prev, &mut next);
    }
    let last = &nodes[(levels - 1) * state..];
    match &last[0] {
        Node::Cmux(bit, hi, lo) => {
            if *hi >= state || *lo >= state || *bit >= 64 {
                return Err(format!("last level: index out of range (bit {bit}, hi {hi}, lo {lo}, width {state})"));
            }
            let sel = input_bit(input, *bit);
            if let Some(v) = visit.as_mut() {
                v(levels - 1, 0, sel);
            }
            Ok(if sel { prev[*hi] } else { prev[*lo] })
        }
        _ => Err("last level does not start with a Cmux".into()),
    }
}

fn eval_word(c: &dyn GetBitCircuitInfo, input: u64) -> Result<u32, String> {
    let mut out = 0u32;
    for bit in 0..c.output_size() {
        let (nodes, state) = c.get_circuit(bit);
        if eval_bit(nodes, state, input, None).map_err(|e| format!("output bit {bit}: {e}"))? {
            out |= 1 << bit;
        }
    }
    Ok(out)
}

fn circuit(name: &str) -> &'static dyn GetBitCircuitInfo {
    u32_circuits().into_iter().find(|c| c.0 == name).map(|c| c.1).unwrap_or_else(|| panic!("harness: no circuit {name}"))
}

pub const NAMES: [&str; 11] = ["add", "sub", "sll", "srl", "sra", "slt", "sltu", "and", "or", "xor", "identity"];

#[derive(Clone, Debug, Serialize, Deserialize)]
pub struct Pair {
    pub circuit: u8,
    pub a: u32,
    pub b: u32,
}

pub fn pair_test(p: &Pair) -> Verdict {
    let name = NAMES[p.circuit as usize % NAMES.len()];
    let c = circuit(name);
    let input = (p.a as u64) | ((p.b as u64) << 32);
    let want = reference(name, p.a, p.b) & if c.output_size() >= 32 { u32::MAX } else { (1u32 << c.output_size()) - 1 };
    match eval_word(c, input) {
        Ok(got) if got == want => Verdict::Pass(PassInfo {
            nontrivial: p.a != 0 || p.b != 0,
            classes: vec![name.to_string()],
            weight: c.output_size() as u64,
        }),
        Ok(got) => Verdict::fail(format!("{name}|wrong-value"), format!("{name}({:#010x}, {:#010x}) = {:#010x} by the table, {:#010x} expected (differing bits {:#010x})", p.a, p.b, got, want, got ^ want)),
        Err(e) => Verdict::fail(format!("{name}|structure"), format!("{name}({:#010x}, {:#010x}): {e}", p.a, p.b)),
    }
}

// ---------------------------------------------------------------------------
// (a) structural validity, exhaustive over all tables
// ---------------------------------------------------------------------------

#[derive(Clone, Debug, Serialize, Deserialize)]
pub struct BitRef {
    pub circuit: u8,
    pub bit: u8,
}

pub fn structure_test(r: &BitRef) -> Verdict {
    let name = NAMES[r.circuit as usize];
    let c = circuit(name);
    let (nodes, state) = c.get_circuit(r.bit as usize);
    let fail = |m: String| Verdict::fail(format!("{name}|structure"), format!("{name} output bit {}: {m}", r.bit));
    if state == 0 {
        return Verdict::pass(false, &["constant_zero_bit"]);
    }
    if nodes.is_empty() || nodes.len() % state != 0 {
        return fail(format!("node count {} not a positive multiple of max_inter_state {state}", nodes.len()));
    }
    if state > c.max_state_size() {
        return fail("state width above the circuit's declared maximum".into());
    }
    let levels = nodes.len() / state;
    // definedness: level -1 is the initial state (all slots defined)
    let mut written_prev = vec![true; state];
    let mut selectors_on_level: Vec<BTreeSet<usize>> = vec![];
    for l in 0..levels {
        let lvl = &nodes[l * state..(l + 1) * state];
        let mut written = vec![false; state];
        let mut sels = BTreeSet::new();
        for (j, node) in lvl.iter().enumerate() {
            match node {
                Node::Cmux(bit, hi, lo) => {
                    if *bit >= c.input_size() {
                        return fail(format!("level {l} slot {j}: selector {bit} >= input size {}", c.input_size()));
                    }
                    if *hi >= state || *lo >= state {
                        return fail(format!("level {l} slot {j}: hi/lo ({hi},{lo}) outside the state width {state}"));
                    }
                    if !written_prev[*hi] || !written_prev[*lo] {
                        return fail(format!("level {l} slot {j}: reads slot {} which the previous level left undefined (None)", if !written_prev[*hi] { hi } else { lo }));
                    }
                    sels.insert(*bit);
                    written[j] = true;
                }
                Node::Copy => {
                    if !written_prev[j] {
                        return fail(format!("level {l} slot {j}: Copy of a slot the previous level left undefined"));
                    }
                    written[j] = true;
                }
                Node::None => {}
            }
        }
        if l == levels - 1 {
            if !matches!(lvl[0], Node::Cmux(..)) {
                return fail("last level does not start with a Cmux".into());
            }
            if lvl[1..].iter().any(|n| !matches!(n, Node::None)) {
                return fail("last level has nodes besides the root".into());
            }
        }
        selectors_on_level.push(sels);
        written_prev = written;
    }
    Verdict::Pass(PassInfo {
        nontrivial: levels > 1,
        classes: vec![name.to_string(), "structure_ok".into()],
        weight: nodes.len() as u64,
    })
}

// ---------------------------------------------------------------------------
// (b) directed inputs: route the evaluation through every edge of every table
// ---------------------------------------------------------------------------

/// For every node (level, slot) reachable from the root finds one partial assignment of
/// the selector bits that routes the root path through it.
fn paths_to_nodes(nodes: &[Node], state: usize) -> (HashMap<(usize, usize), (u64, u64)>, usize) {
    // returns map node -> (mask, value) and the number of conflicts met
    let levels = nodes.len() / state;
    let mut found: HashMap<(usize, usize), (u64, u64)> = HashMap::new();
    let mut conflicts = 0usize;
    let mut stack: Vec<(usize, usize, u64, u64)> = vec![(levels - 1, 0, 0, 0)];
    while let Some((l, j, mask, val)) = stack.pop() {
        if found.contains_key(&(l, j)) {
            continue;
        }
        found.insert((l, j), (mask, val));
        match &nodes[l * state + j] {
            Node::Cmux(bit, hi, lo) => {
                if l == 0 {
                    continue;
                }
                for (sel, tgt) in [(true, *hi), (false, *lo)] {
                    let m = 1u64 << bit;
                    if mask & m != 0 && ((val & m != 0) != sel) {
                        conflicts += 1;
                        continue;
                    }
                    let nv = if sel { val | m } else { val & !m };
                    // which node produced slot `tgt` at level l-1?  Walk up through None levels.
                    let mut ll = l;
                    let mut slot = tgt;
                    loop {
                        if ll == 0 {
                            break;
                        }
                        ll -= 1;
                        match &nodes[ll * state + slot] {
                            Node::None => {
                                // value is two levels old
                                if ll == 0 {
                                    break;
                                }
                                ll -= 1;
                                let _ = &mut slot;
                                if !matches!(nodes[ll * state + slot], Node::None) {
                                    stack.push((ll, slot, mask | m, nv));
                                }
                                break;
                            }
                            _ => {
                                stack.push((ll, slot, mask | m, nv));
                                break;
                            }
                        }
                    }
                }
            }
            Node::Copy => {
                if l > 0 {
                    stack.push((l - 1, j, mask, val));
                }
            }
            Node::None => {}
        }
    }
    (found, conflicts)
}

pub fn directed_test(r: &BitRef) -> Verdict {
    let name = NAMES[r.circuit as usize];
    let c = circuit(name);
    let (nodes, state) = c.get_circuit(r.bit as usize);
    if state == 0 {
        return Verdict::pass(false, &["constant_zero_bit"]);
    }
    let (paths, conflicts) = paths_to_nodes(nodes, state);
    // all edges (level, slot, branch) of Cmux nodes reachable from the root
    let mut edges_total: BTreeSet<(usize, usize, bool)> = BTreeSet::new();
    for ((l, j), _) in paths.iter() {
        if let Node::Cmux(..) = nodes[l * state + j] {
            edges_total.insert((*l, *j, false));
            edges_total.insert((*l, *j, true));
        }
    }
    let mut covered: BTreeSet<(usize, usize, bool)> = BTreeSet::new();
    let mut rng = SplitMix::new(0xC13 ^ ((r.circuit as u64) << 8) ^ r.bit as u64);
    let mut evals = 0u64;
    let mask32 = if c.input_size() >= 64 { u64::MAX } else { (1u64 << c.input_size()) - 1 };
    for ((l, j), (mask, val)) in paths.iter() {
        let sel_bit = match &nodes[l * state + j] {
            Node::Cmux(bit, _, _) => Some(*bit),
            _ => None,
        };
        for branch in [false, true] {
            for k in 0..6 {
                let completion = match k {
                    0 => 0,
                    1 => u64::MAX,
                    2 => 0xAAAA_AAAA_5555_5555,
                    _ => rng.next(),
                };
                let mut input = (completion & !mask) | (val & mask);
                if let Some(b) = sel_bit {
                    if mask & (1 << b) == 0 {
                        if branch {
                            input |= 1 << b;
                        } else {
                            input &= !(1 << b);
                        }
                    }
                }
                input &= mask32;
                let (a, b) = (input as u32, (input >> 32) as u32);
                let want = (reference(name, a, b) >> r.bit) & 1 == 1;
                let mut rec = |ll: usize, jj: usize, s: bool| {
                    let _ = (ll, jj, s);
                };
                let _ = &mut rec;
                // record the *root path* edges: follow the path explicitly
                let got = match eval_bit(nodes, state, input, None) {
                    Ok(g) => g,
                    Err(e) => return Verdict::fail(format!("{name}|structure"), format!("{name} bit {}: {e}", r.bit)),
                };
                evals += 1;
                mark_root_path(nodes, state, input, &mut covered);
                if got != want {
                    return Verdict::fail(
                        format!("{name}|wrong-value"),
                        format!("{name}({a:#010x}, {b:#010x}) output bit {}: table gives {}, expected {} (input routed through level {l} slot {j})", r.bit, got as u8, want as u8),
                    );
                }
            }
        }
    }
    let missing: Vec<_> = edges_total.difference(&covered).take(4).cloned().collect();
    if !missing.is_empty() {
        // generator health, not a violation of the property: report loudly
        eprintln!("harness warning: {name} bit {}: {} of {} edges not covered by directed inputs (e.g. {missing:?}); conflicts met: {conflicts}", r.bit, edges_total.len() - covered.intersection(&edges_total).count(), edges_total.len());
    }
    let cov = covered.intersection(&edges_total).count();
    Verdict::Pass(PassInfo {
        nontrivial: true,
        classes: vec![name.to_string(), "edge_directed".into(), if cov == edges_total.len() { "edges_100pct".into() } else { "edges_partial".into() }],
        weight: evals,
    })
}

/// marks the edges on the path that determines the output (from the root downwards)
fn mark_root_path(nodes: &[Node], state: usize, input: u64, covered: &mut BTreeSet<(usize, usize, bool)>) {
    let levels = nodes.len() / state;
    let (mut l, mut j) = (levels - 1, 0usize);
    loop {
        match &nodes[l * state + j] {
            Node::Cmux(bit, hi, lo) => {
                let sel = input_bit(input, *bit);
                covered.insert((l, j, sel));
                if l == 0 {
                    return;
                }
                j = if sel { *hi } else { *lo };
                l -= 1;
            }
            Node::Copy => {
                if l == 0 {
                    return;
                }
                l -= 1;
            }
            Node::None => {
                // value two levels old
                if l < 2 {
                    return;
                }
                l -= 2;
            }
        }
    }
}

// ---------------------------------------------------------------------------
// (c) exhaustive sub-cubes, (d) boundary pairs
// ---------------------------------------------------------------------------

#[derive(Clone, Debug, Serialize, Deserialize)]
pub struct Cube {
    pub circuit: u8,
    /// 0: all 2^16 low-byte pairs under a high pattern; 1: shifts; 2: carry chains; 3: sign boundaries
    pub kind: u8,
    pub pattern: u8,
}

const HIGH: [u32; 8] = [0, 0xFFFF_FF00, 0x8000_0000, 0x7FFF_FF00, 0xAAAA_AA00, 0x5555_5500, 0x0001_0000, 0xFF00_FF00];

pub fn cube_test(cu: &Cube) -> Verdict {
    let name = NAMES[cu.circuit as usize];
    let c = circuit(name);
    let mask = if c.output_size() >= 32 { u32::MAX } else { (1u32 << c.output_size()) - 1 };
    let mut n = 0u64;
    let mut check = |a: u32, b: u32| -> Option<Verdict> {
        n += c.output_size() as u64;
        let want = reference(name, a, b) & mask;
        match eval_word(c, (a as u64) | ((b as u64) << 32)) {
            Ok(g) if g == want => None,
            Ok(g) => Some(Verdict::fail(format!("{name}|wrong-value"), format!("{name}({a:#010x}, {b:#010x}) = {g:#010x} by the table, {want:#010x} expected"))),
            Err(e) => Some(Verdict::fail(format!("{name}|structure"), e)),
        }
    };
    match cu.kind {
        0 => {
            let (ha, hb) = (HIGH[cu.pattern as usize % 8], HIGH[(cu.pattern as usize / 8) % 8]);
            for la in 0..256u32 {
                for lb in 0..256u32 {
                    if let Some(v) = check(ha | la, hb | lb) {
                        return v;
                    }
                }
            }
        }
        1 => {
            let mut r = SplitMix::new(cu.pattern as u64 + 7);
            for sh in 0..64u32 {
                for a in [0u32, 1, 0x8000_0000, 0xFFFF_FFFF, 0x7FFF_FFFF, 0xAAAA_AAAA, 0x5555_5555, r.next() as u32, r.next() as u32] {
                    for hb in [0u32, 0xFFFF_FFC0, r.next() as u32 & !63] {
                        if let Some(v) = check(a, hb | sh) {
                            return v;
                        }
                    }
                }
            }
        }
        2 => {
            for i in 0..=32u32 {
                for j in 0..32u32 {
                    let a = if i == 32 { u32::MAX } else { (1u32 << i) - 1 };
                    let b = 1u32 << j;
                    for (x, y) in [(a, b), (b, a), (a, a), (!a, b), (a.wrapping_neg(), b)] {
                        if let Some(v) = check(x, y) {
                            return v;
                        }
                    }
                }
            }
        }
        _ => {
            let pts = [0u32, 1, 2, 0x7FFF_FFFE, 0x7FFF_FFFF, 0x8000_0000, 0x8000_0001, 0xFFFF_FFFE, 0xFFFF_FFFF];
            for a in pts {
                for b in pts {
                    if let Some(v) = check(a, b) {
                        return v;
                    }
                }
            }
            for i in 0..32 {
                for j in 0..32 {
                    if let Some(v) = check(1 << i, 1 << j) {
                        return v;
                    }
                    if let Some(v) = check(!(1u32 << i), 1 << j) {
                        return v;
                    }
                }
            }
        }
    }
    Verdict::Pass(PassInfo {
        nontrivial: true,
        classes: vec![name.to_string(), ["exhaustive_low_bytes", "all_shift_amounts", "carry_chains", "sign_boundaries"][cu.kind.min(3) as usize].into()],
        weight: n,
    })
}

fn pair_strategy() -> BoxedStrategy<Pair> {
    let word = prop_oneof![
        3 => any::<u32>(),
        1 => prop_oneof![Just(0u32), Just(1), Just(0x8000_0000), Just(0xFFFF_FFFF), Just(0x7FFF_FFFF), Just(0xAAAA_AAAA), Just(0x5555_5555)],
        1 => (0u32..32).prop_map(|i| 1u32 << i),
        1 => 0u32..64,
    ];
    (0u8..11, word.clone(), word).prop_map(|(circuit, a, b)| Pair { circuit, a, b }).boxed()
}

// ---------------------------------------------------------------------------
// (e) the library's own evaluator and entry points against the table semantics
// ---------------------------------------------------------------------------

#[derive(Clone, Debug, Serialize, Deserialize)]
pub struct Hom {
    pub be: pzv_be::Be,
    pub circuit: u8,
    pub a: u32,
    pub b: u32,
    /// 0 / 1: single-thread entry point; otherwise the *_multi_thread entry point with this many threads
    pub threads: u8,
    pub seed: u64,
}

pub fn hom_test(h: &Hom) -> Verdict {
    let name = NAMES[h.circuit as usize % NAMES.len()];
    let c = circuit(name);
    // the clear model of this file: a in input bits [0, 32), b in [32, 64), level-by-level selection
    let want = match eval_word(c, (h.a as u64) | ((h.b as u64) << 32)) {
        Ok(v) => v,
        Err(e) => return Verdict::fail(format!("{name}|structure"), format!("{name}({:#010x}, {:#010x}): {e}", h.a, h.b)),
    };
    let got = crate::c15::hom_word(h.be, name, h.a, h.b, h.threads as usize, h.seed);
    if got != want {
        return Verdict::fail(
            format!("{name}|library-evaluator-differs-from-table-semantics"),
            format!(
                "backend={} {name}({:#010x}, {:#010x}) through the {} entry point decrypts to {got:#010x}; the compiled table evaluated level by level with a in bits [0,32) and b in bits [32,64) gives {want:#010x} (differing bits {:#010x})\ncase={h:?}",
                h.be.name(),
                h.a,
                h.b,
                if h.threads > 1 { format!("{}-thread", h.threads) } else { "single-thread".to_string() },
                got ^ want
            ),
        );
    }
    Verdict::Pass(PassInfo {
        nontrivial: h.a != h.b && (h.a != 0 || h.b != 0),
        classes: vec![name.to_string(), h.be.name().to_string(), if h.threads > 1 { "multi_thread_entry_point".into() } else { "single_thread_entry_point".into() }],
        weight: 1,
    })
}

fn hom_strategy() -> BoxedStrategy<Hom> {
    let word = prop_oneof![
        4 => any::<u32>(),
        1 => prop_oneof![Just(1u32), Just(0x8000_0000), Just(0xFFFF_FFFF), Just(0x7FFF_FFFF), Just(0xAAAA_AAAA)],
        1 => 0u32..64,
    ];
    (0usize..2, 0u8..11, word.clone(), word, prop_oneof![Just(2u8), Just(3u8), Just(5u8), Just(11u8)], any::<u64>())
        .prop_map(|(bi, circuit, a, b, threads, seed)| Hom { be: [pzv_be::Be::FftAvx, pzv_be::Be::FftRef][bi], circuit, a, b, threads: if seed & 1 == 0 { 1 } else { threads.max(2) }, seed })
        .boxed()
}

pub fn run(ctx: &Ctx) {
    let t = ctx.tier;
    let circuits = u32_circuits();
    // census of what the hook exposes
    let mut rep = SubReport {
        name: "census".into(),
        ..Default::default()
    };
    let mut total_nodes = 0usize;
    let mut bits = 0usize;
    for (name, c) in &circuits {
        for b in 0..c.output_size() {
            total_nodes += c.get_circuit(b).0.len();
            bits += 1;
        }
        rep.extra.insert(format!("{name}_output_bits"), serde_json::json!(c.output_size()));
    }
    rep.extra.insert("circuits".into(), serde_json::json!(circuits.len()));
    rep.extra.insert("bit_circuits".into(), serde_json::json!(bits));
    rep.extra.insert("nodes".into(), serde_json::json!(total_nodes));
    rep.evaluations = bits as u64;
    if circuits.len() != NAMES.len() {
        eprintln!("harness error: hook exposes {} circuits, {} expected", circuits.len(), NAMES.len());
        std::process::exit(2);
    }
    ctx.add_report(rep);

    let all_bits: Vec<Vec<BitRef>> = (0..NAMES.len())
        .map(|ci| (0..circuit(NAMES[ci]).output_size()).map(|b| BitRef { circuit: ci as u8, bit: b as u8 }).collect())
        .collect();
    ctx.run_enum("structural_validity_all_tables", true, all_bits.clone(), structure_test);
    ctx.run_enum("directed_edge_coverage", false, all_bits, directed_test);
    let mut cubes = vec![];
    for ci in 0..NAMES.len() as u8 {
        let pats = t.pick(8, 64);
        let mut block = vec![];
        for p in 0..pats {
            block.push(Cube { circuit: ci, kind: 0, pattern: if pats == 8 { p * 9 % 64 } else { p } as u8 });
        }
        for k in 1..4u8 {
            block.push(Cube { circuit: ci, kind: k, pattern: 0 });
        }
        cubes.push(block);
    }
    ctx.run_enum("exhaustive_subcubes", false, cubes, cube_test);
    ctx.run_sub("random_and_boundary_pairs", t.pick(2_000_000, 40_000_000), 64, pair_strategy, pair_test);
    ctx.run_sub("library_evaluator_vs_table_semantics", t.pick(256, 3_200), 16, hom_strategy, hom_test);
}

pub fn replay(ctx: &Ctx, sub: &str, case: &serde_json::Value) -> i32 {
    match sub {
        "structural_validity_all_tables" => ctx.replay_case::<BitRef, _>(sub, case, structure_test),
        "directed_edge_coverage" => ctx.replay_case::<BitRef, _>(sub, case, directed_test),
        "exhaustive_subcubes" => ctx.replay_case::<Cube, _>(sub, case, cube_test),
        "library_evaluator_vs_table_semantics" => ctx.replay_case::<Hom, _>(sub, case, hom_test),
        _ => ctx.replay_case::<Pair, _>(sub, case, pair_test),
    }
}

pub const RULE: &str = "tables of the 11 compiled u32 circuits (290 bit-circuits) read through hook H1; clear evaluator mirroring eval_level; oracle = Rust u32 semantics (shifts use b & 31, sra arithmetic, slt signed, sltu unsigned, wrapping add/sub). (a) exhaustive structural validity of every table (node count multiple of the state width, indices and selectors in range, no read of a slot the previous level left undefined, last level = [Cmux, None...]); (b) directed inputs: for every node reachable from the root a partial assignment routing the evaluation through it, both selector values, 6 completions (edge coverage measured, 100 % expected); (c) exhaustive sub-cubes: all 2^16 low-byte pairs under 8 (quick) / 64 (thorough) high patterns, all 64 shift amounts, all carry-chain lengths, sign boundaries; (d) random and boundary pairs; (e) the library itself: each word operation through its public single-thread and *_multi_thread entry points (2/3/5/11 threads; the harness scratch of 16 MiB holds 11 per-thread slices) on freshly encrypted prepared operands (shipped test context, FFT64Avx and FFT64Ref), decrypted and compared with the table evaluated by the clear evaluator with a in input bits [0,32) and b in [32,64). evaluations count bit-circuit evaluations. non-trivial = inputs not both zero / table with more than one level.";

pub const ASSUMPTIONS: &[&str] = &[
    "generated search cannot enumerate all 2^64 input pairs per circuit: a function error confined to inputs that share every table edge with correctly handled sampled completions would escape (each path fixes the relevant bits, which makes this unlikely, not impossible)",
    "the clear evaluator is the harness' own re-implementation of eval_level; its agreement with the library's evaluator and entry points is sampled by sub-check (e) (and, against the u32 semantics, by C15)",
];
