//! C14 — blind rotation evaluates the lookup table at the encrypted index.
//!
//! Clear path (hook H2 reads the table limbs): `lookup_table_set` and `lookup_table_rotate` are
//! compared, coefficient by coefficient and exhaustively over the rotation index, with an integer
//! model of the table polynomial in Z[X]/(X^(N*ext)+1): entries replicated in steps of domain/len,
//! scaled to 2^-k, pre-rotated by half a step, de-interleaved into `ext` polynomials.
//!
//! Blind path: a hand-built LWE sample with an exactly known phase (any index, any sub-index
//! fraction) is rotated blindly; the exact phase of the result under the clear GLWE secret (hook H4)
//! must equal X^r * table for an integer r inside the rounding window of the exact index
//! |r -/+ phase * 2N*ext| <= (1 + |s_lwe|_1)/2 + 1 - independent of how the library rounds in its modulus
//! switch - within a worst-case noise bound computed from the key parameters (gad.rs), and when the
//! window is narrower than half a step the constant coefficient must be the table entry (with the
//! negacyclic sign on wrap-around).

use crate::gad::*;
use crate::sch::*;
use poulpy_bin_fhe::blind_rotation::{
    BlindRotationKey, BlindRotationKeyEncryptSk, BlindRotationKeyLayout, BlindRotationKeyPrepared, CGGI, LookUpTableLayout, LookUpTableRotationDirection, LookupTable, LookupTableFactory,
};
use poulpy_core::{
    EncryptionLayout,
    layouts::{Base2K, Degree, Dnum, GLWE, GLWELayout, GLWESecret, GLWESecretPreparedFactory, LWE, LWESecret, Rank, TorusPrecision},
};
use poulpy_hal::{
    api::{ScratchOwnedBorrow},
    layouts::{DeviceBuf, Module, NoiseInfos, ZnxInfos, ZnxView, ZnxViewMut},
    source::Source,
};
use dashu_int::IBig;
use proptest::prelude::*;
use pzv_be::{Be, FullBackend, with_backend};
use pzv_common::driver::{Ctx, Verdict};
use pzv_common::model::*;
use serde::{Deserialize, Serialize};

// ------------------------------------------------------------------------------------------
// clear path

#[derive(Clone, Debug, Serialize, Deserialize)]
pub struct LutCase {
    pub be: Be,
    pub log_n: u8,
    pub ext_log: u8,
    pub b: u8,
    /// message precision k of `set` (bits); table holds `size` limbs
    pub k: u8,
    pub extra_limbs: u8,
    /// log2 of the table length (len divides the domain), or a non-power-of-two length when `odd_len`
    pub len_log: u8,
    pub odd_len: bool,
    pub right: bool,
    pub fseed: u64,
    /// rotation amounts to try (quick: sampled, thorough: all)
    pub rot: i64,
    pub exhaustive: bool,
}

fn lut_adapt(c: &mut LutCase) {
    c.log_n = c.log_n.clamp(3, 6);
    c.ext_log = c.ext_log.min(3);
    c.b = c.b.clamp(2, 30);
    c.k = c.k.clamp(1, 40);
    c.extra_limbs %= 3;
    // f.len() <= N
    c.len_log = c.len_log.min(c.log_n);
}

fn fvals(len: usize, k: usize, seed: u64) -> Vec<i64> {
    let mut r = SplitMix::new(seed ^ 0xF00D);
    let bits = (k as u32).min(20);
    let mut f: Vec<i64> = (0..len).map(|_| r.signed(bits.max(1))).collect();
    if len >= 2 && f[0] == f[1] {
        f[1] = f[0] ^ 1;
    }
    f
}

/// integer model of the table polynomial after `set`: numerators at 2^-k, index = coefficient of the
/// extended ring (before de-interleaving)
fn model_table(f: &[i64], domain: usize) -> (Vec<i64>, usize) {
    let len = f.len();
    let step = (domain + len / 2) / len;
    let mut p = vec![0i64; domain];
    for (i, fi) in f.iter().enumerate() {
        for j in i * step..((i + 1) * step).min(domain) {
            p[j] = *fi;
        }
    }
    let drift = step >> 1;
    (rotate_i64(&p, -(drift as i64)), drift)
}

fn rot_ext(p: &[i64], k: i64) -> Vec<i64> {
    rotate_i64(p, k)
}

fn lut_value(l: &LookupTable, ext: usize, b: usize, idx: usize) -> Dyadic {
    let d = l.verif_data();
    let (i, j) = (idx % ext, idx / ext);
    let digits: Vec<i64> = (0..d[i].size()).map(|s| d[i].at(0, s)[j]).collect();
    Dyadic::from_limbs_i64(&digits, b)
}

fn lut_fail(c: &LutCase, what: &str, d: String) -> Verdict {
    Verdict::fail(format!("lookup_table|{what}"), format!("backend={}: {d}\ncase={c:?}", c.be.name()))
}

fn check_table(c: &LutCase, l: &LookupTable, want: &[i64], k: usize, ext: usize, b: usize, what: &str, ctx: &str) -> Result<(), Verdict> {
    for (idx, w) in want.iter().enumerate() {
        let got = lut_value(l, ext, b, idx);
        let wv = Dyadic::from_limbs_i64(&[*w], k);
        if !torus_err(&got, &wv).is_zero() {
            return Err(lut_fail(c, what, format!("{ctx}: extended coefficient {idx} (polynomial {}, coefficient {}) holds {:.6e}, expected {} * 2^-{k}", idx % ext, idx / ext, got.approx_f64(), w)));
        }
    }
    // normalised digits
    for (i, v) in l.verif_data().iter().enumerate() {
        for s in 0..v.size() {
            // rotations negate wrapped coefficients: -(-2^(b-1)) = +2^(b-1) is accepted
            if v.at(0, s).iter().any(|x| x.unsigned_abs() > (1u64 << (b - 1))) {
                return Err(lut_fail(c, "digits-not-normalised", format!("{ctx}: polynomial {i} limb {s} holds a digit outside the balanced range")));
            }
        }
    }
    Ok(())
}

fn run_lut<B: FullBackend>(m: &Module<B>, c: &LutCase) -> Verdict {
    let n = m.n();
    let ext = 1usize << c.ext_log;
    let domain = n * ext;
    let (b, k) = (c.b as usize, c.k as usize);
    let limbs = k.div_ceil(b);
    let size = limbs + c.extra_limbs as usize;
    // table lengths divide the domain (powers of two); other lengths overrun the table buffer (index panic) - outside the stated domain
    let len = 1usize << c.len_log;
    let f = fvals(len, k, c.fseed);
    let mut l = LookupTable::alloc(&LookUpTableLayout { n: Degree(n as u32), extension_factor: ext, k: TorusPrecision((size * b) as u32), base2k: Base2K(b as u32) });
    if c.right {
        l.set_rotation_direction(LookUpTableRotationDirection::Right);
    }
    if c.fseed & 1 == 1 {
        // a table that already holds another function (of another length / precision): `set` must overwrite all of it
        let len0 = 1usize << ((c.fseed >> 8) as usize % (c.len_log as usize + 1));
        let k0 = (1 + (c.fseed >> 16) as usize % (size * b).min(40)).max(1);
        let f0 = fvals(len0, k0, c.fseed ^ 0xAAAA);
        l.set(m, &f0, k0);
    }
    l.set(m, &f, k);
    let (p0, drift) = model_table(&f, domain);
    if l.verif_drift() != drift {
        return lut_fail(c, "drift", format!("stored drift {} != step/2 = {drift}", l.verif_drift()));
    }
    if let Err(v) = check_table(c, &l, &p0, k, ext, b, "set-differs-from-model", "after set") {
        return v;
    }
    // constant coefficient after rotating by -x is the entry selected by x (negacyclic sign on wrap)
    let two_d = 2 * domain as i64;
    let rots: Vec<i64> = if c.exhaustive { (0..two_d).collect() } else { vec![c.rot.rem_euclid(two_d), -(c.rot.rem_euclid(two_d)), (c.rot >> 7).rem_euclid(two_d), two_d - 1, domain as i64, 1] };
    let mut cur = p0.clone();
    for (t, x) in rots.iter().enumerate() {
        // alternate: rotate incrementally (history of rotations) to exercise composition
        m.lookup_table_rotate(-*x, &mut l);
        cur = rot_ext(&cur, -*x);
        if let Err(v) = check_table(c, &l, &cur, k, ext, b, "rotate-differs-from-model", &format!("after rotation #{t} by {}", -*x)) {
            return v;
        }
        // undo every other time so that the absolute index varies
        if t % 2 == 1 {
            m.lookup_table_rotate(*x, &mut l);
            cur = rot_ext(&cur, *x);
        }
    }
    // direct statement of the property for the untouched table: entry at index x
    let step = (domain + len / 2) / len;
    if !c.odd_len {
        for x in (0..two_d).step_by(if c.exhaustive { 1 } else { 7 }) {
            let shifted = rot_ext(&p0, -x);
            let sel = ((x as usize + drift) % domain) / step;
            let wraps = ((x as usize + drift) / domain) % 2 == 1;
            let want = if sel < len { if wraps { -f[sel] } else { f[sel] } } else { 0 };
            if shifted[0] != want {
                return lut_fail(c, "model-selfcheck", format!("model: index {x} selects {} expected {want}", shifted[0]));
            }
        }
    }
    let mut cl = vec![c.be.name(), if ext > 1 { "ext>1" } else { "ext=1" }];
    if c.exhaustive {
        cl.push("all_rotations");
    }
    if k % b != 0 {
        cl.push("k_not_multiple_of_radix");
    }
    if c.odd_len {
        cl.push("len_not_dividing_domain");
    }
    if len == n {
        cl.push("len=N");
    }
    Verdict::pass(len >= 2, &cl)
}

pub fn test_lut(c0: &LutCase) -> Verdict {
    let mut c = c0.clone();
    lut_adapt(&mut c);
    with_backend!(c.be, c.log_n, |m| run_lut(m, &c))
}

fn be_strategy() -> impl Strategy<Value = Be> {
    prop_oneof![Just(Be::FftRef), Just(Be::FftAvx), Just(Be::NttRef), Just(Be::NttAvx)]
}

pub fn lut_strategy(exhaustive: bool) -> BoxedStrategy<LutCase> {
    (be_strategy(), 3u8..=6, 0u8..=3, 2u8..=30, 1u8..=40, 0u8..3, 0u8..=6, Just(false), any::<bool>(), any::<u64>(), any::<i64>())
        .prop_map(move |(be, log_n, ext_log, b, k, extra_limbs, len_log, odd_len, right, fseed, rot)| {
            let mut c = LutCase { be, log_n, ext_log, b, k, extra_limbs, len_log, odd_len, right, fseed, rot, exhaustive };
            lut_adapt(&mut c);
            if exhaustive {
                c.log_n = c.log_n.min(5);
            }
            c
        })
        .boxed()
}

// ------------------------------------------------------------------------------------------
// blind path

#[derive(Clone, Debug, Serialize, Deserialize)]
pub struct BrCase {
    pub be: Be,
    pub log_n: u8,
    pub ext_log: u8,
    /// LWE secret: block size (1 = standard binary path unless ext > 1), number of blocks
    pub block: u8,
    pub n_blocks: u8,
    /// distribution for the standard path: 0 BinaryBlock(1), 1 BinaryFixed, 2 BinaryProb, 3 Zero
    pub std_dist: u8,
    /// radix of key / result / table, radix and size of the LWE sample
    pub b: u8,
    pub b_lwe: u8,
    pub lwe_size: u8,
    /// message bits p (table length 2^p, set precision p+1) and extra table limbs
    pub p: u8,
    pub brk_dnum: u8,
    pub brk_extra: u8,
    pub res_size: u8,
    pub rank: u8,
    pub dist_glwe: Dist,
    pub right: bool,
    /// index selector and sub-index fraction (in 1/256 of an index step); `centred` puts the phase on m*step
    pub x: u32,
    pub frac: u8,
    pub centred: bool,
    pub seed: u64,
}

fn br_adapt(c: &mut BrCase) {
    c.log_n = c.log_n.clamp(3, 6);
    c.ext_log = c.ext_log.min(3);
    c.block = c.block.clamp(1, 4);
    if c.ext_log > 0 && c.block == 1 && c.std_dist != 0 {
        c.std_dist = 0; // the extended algorithm requires a BinaryBlock key
    }
    c.n_blocks = c.n_blocks.clamp(1, 8);
    c.std_dist %= 4;
    c.rank = c.rank.clamp(1, 2);
    c.p = c.p.clamp(1, 5).min(c.log_n);
    c.brk_dnum = c.brk_dnum.clamp(2, 3);
    c.brk_extra = c.brk_extra.clamp(1, 2);
    c.res_size = c.res_size.clamp(2, 3).min(c.brk_dnum);
    c.lwe_size = c.lwe_size.clamp(1, 4);
    c.ext_log = c.ext_log.min(3);
    c.b_lwe = c.b_lwe.clamp(2, 24);
    c.dist_glwe = c.dist_glwe.adapt(1 << c.log_n);
    let n_lwe = c.block as usize * c.n_blocks as usize;
    // FFT64 exactness: N * (limbs*cols <= 9) * digit * 2^(b-1) with digit <= (1 + 2 n_lwe) 2^(b-1) on the
    // standard path (the accumulator is only normalised at the end), 2^(b-1) otherwise
    let maxb: u8 = if c.be.is_fft() {
        let guard = 64 - ((8 * c.log_n as u64 + 8) - 1).leading_zeros() as i64;
        let grow = if c.block == 1 && c.ext_log == 0 { 64 - ((1 + 2 * n_lwe as u64) - 1).leading_zeros() as i64 } else { 1 };
        (((51 - c.log_n as i64 - 4 - grow - guard - 1) / 2) + 1).clamp(4, 20) as u8
    } else {
        24
    };
    // enough room for the table: (p+1) bits of message inside the first limbs
    c.b = c.b.clamp(8, maxb.max(8));
}

struct Setup {
    s_lwe: Vec<i64>,
}

fn br_fail(c: &BrCase, what: &str, d: String) -> Verdict {
    Verdict::fail(format!("blind_rotation|{what}"), format!("backend={}: {d}\ncase={c:?}", c.be.name()))
}

/// balanced digits (radix 2^b, `size` limbs) of a torus value, rounded to the last limb
fn encode_torus(v: &Dyadic, b: usize, size: usize) -> Vec<i64> {
    let bits = size * b;
    // numerator at 2^-bits, rounded
    let mut num: IBig = if v.exp <= bits { &v.num << (bits - v.exp) } else { (&v.num + (IBig::ONE << (v.exp - bits - 1))) >> (v.exp - bits) };
    num = centered_mod_pow2(&num, bits);
    let mut digits = vec![0i64; size];
    let modb = IBig::ONE << b;
    let half = IBig::ONE << (b - 1);
    for j in (0..size).rev() {
        let mut d = &num % &modb;
        if d < IBig::ZERO {
            d += &modb;
        }
        if d >= half {
            d -= &modb;
        }
        num = (&num - &d) >> b;
        digits[j] = i64::try_from(d).unwrap();
    }
    digits
}

pub fn run_br<B: FullBackend>(m: &Module<B>, c: &BrCase, c12: bool) -> Verdict {
    let n = m.n();
    let ext = 1usize << c.ext_log;
    let domain = n * ext;
    let two_d = 2 * domain;
    let b = c.b as usize;
    let rank = c.rank as usize;
    let block = c.block as usize;
    let n_lwe = block * c.n_blocks as usize;
    let (sigma, bnd) = (3.2f64, 19.2f64);
    // secrets
    let mut sk_glwe = GLWESecret::alloc(Degree(n as u32), Rank(rank as u32));
    fill_glwe_secret(&mut sk_glwe, c.dist_glwe, &mut Source::new(seed32(c.seed, 1)));
    let s_glwe = glwe_secret_coeffs(&sk_glwe);
    let mut skp = m.glwe_secret_prepared_alloc(Rank(rank as u32));
    m.glwe_secret_prepare(&mut skp, &sk_glwe);
    let mut sk_lwe = LWESecret::alloc(Degree(n_lwe as u32));
    let mut xs = Source::new(seed32(c.seed, 2));
    if block > 1 || c.ext_log > 0 {
        sk_lwe.fill_binary_block(block, &mut xs);
    } else {
        match c.std_dist {
            0 => sk_lwe.fill_binary_block(1, &mut xs),
            1 => sk_lwe.fill_binary_hw((c.x as usize % (n_lwe + 1)).max(1).min(n_lwe), &mut xs),
            2 => sk_lwe.fill_binary_prob(0.5, &mut xs),
            _ => sk_lwe.fill_zero(),
        }
    }
    let st = Setup { s_lwe: sk_lwe.raw().to_vec() };
    let h: i64 = st.s_lwe.iter().map(|x| x.abs()).sum();
    // key
    let brk_size = c.brk_dnum as usize + c.brk_extra as usize;
    let k_brk = brk_size * b;
    let brk_lay = BlindRotationKeyLayout { n_glwe: Degree(n as u32), n_lwe: Degree(n_lwe as u32), base2k: Base2K(b as u32), k: TorusPrecision(k_brk as u32), dnum: Dnum(c.brk_dnum as u32), rank: Rank(rank as u32) };
    let ni = NoiseInfos::new(k_brk, sigma, bnd).unwrap();
    let enc = EncryptionLayout::new(brk_lay, ni).unwrap();
    let mut scratch = pzv_be::dirty_scratch::<B>(1 << 24);
    let mut brk = BlindRotationKey::<Vec<u8>, CGGI>::alloc(&brk_lay);
    m.blind_rotation_key_encrypt_sk(&mut brk, &skp, &sk_lwe, &enc, &mut Source::new(seed32(c.seed, 3)), &mut Source::new(seed32(c.seed, 4)), scratch.borrow());
    let mut brkp = BlindRotationKeyPrepared::alloc(m, &brk);
    brkp.prepare(m, &brk, scratch.borrow());
    // table
    let p = c.p as usize;
    let k_msg = p + 1;
    let lut_size = k_msg.div_ceil(b).max(1);
    let f = fvals(1 << p, k_msg, c.seed ^ 0xF);
    let mut lut = LookupTable::alloc(&LookUpTableLayout { n: Degree(n as u32), extension_factor: ext, k: TorusPrecision((lut_size * b) as u32), base2k: Base2K(b as u32) });
    if c.right {
        lut.set_rotation_direction(LookUpTableRotationDirection::Right);
    }
    if c.seed & 1 == 1 {
        // reused table: it held another function before
        let f0 = fvals(1 << p, k_msg, c.seed ^ 0xAAAA);
        lut.set(m, &f0, k_msg);
    }
    lut.set(m, &f, k_msg);
    let step = domain >> p;
    let drift = step >> 1;
    // LWE sample with an exactly known phase
    let (bl, sl) = (c.b_lwe as usize, c.lwe_size as usize);
    let mut lwe = LWE::alloc(Degree(n_lwe as u32), Base2K(bl as u32), TorusPrecision((sl * bl) as u32));
    let a_limbs = gen_column(VClass::Uniform, bl, n_lwe + 1, sl, c.seed ^ 0xA);
    for (j, l) in a_limbs.iter().enumerate() {
        lwe.data_mut().at_mut(0, j).copy_from_slice(l);
        lwe.data_mut().at_mut(0, j)[0] = 0;
    }
    let log_two_d = two_d.trailing_zeros() as usize;
    let target = if c.centred {
        let msg = c.x as usize % (2 << p); // both halves of the torus: the upper half wraps negacyclically
        Dyadic::from_limbs_i64(&[(msg * step) as i64], log_two_d)
    } else {
        Dyadic::from_limbs_i64(&[((c.x as usize % two_d) as i64) * 256 + c.frac as i64 - 128], log_two_d + 8)
    };
    let mask_phase = Dyadic::from_limbs_i128(&lwe_phase_limbs(lwe.data(), &st.s_lwe), bl);
    let body = encode_torus(&target.sub(&mask_phase), bl, sl);
    for (j, d) in body.iter().enumerate() {
        lwe.data_mut().at_mut(0, j)[0] = *d;
    }
    let phase = Dyadic::from_limbs_i128(&lwe_phase_limbs(lwe.data(), &st.s_lwe), bl);
    // exact index (real), centred representative in [-domain, domain)
    let idx_real = {
        let pc = torus_err(&phase, &Dyadic::zero());
        pc.approx_f64() * two_d as f64
    };
    // result
    let res_lay = GLWELayout { n: Degree(n as u32), base2k: Base2K(b as u32), k: TorusPrecision((c.res_size as usize * b) as u32), rank: Rank(rank as u32) };
    let mut res = GLWE::alloc_from_infos(&res_lay);
    for col in 0..=rank {
        let limbs = gen_column(VClass::Uniform, b, n, c.res_size as usize, c.seed ^ (0xB0 + col as u64));
        set_column(res.data_mut(), col, &limbs);
    }
    // the call under test runs on a garbage-filled scratch of its own (results must not depend on what the scratch held)
    let q_bytes = BlindRotationKeyPrepared::<DeviceBuf<B>, CGGI, B>::execute_tmp_bytes(m, block, ext, &res_lay, &brk_lay);
    {
        let mut ample = crate::c12b::Win::new(8 * q_bytes + (1 << 20), c.seed ^ 0x5C);
        brkp.execute(m, &mut res, &lwe, &lut, ample.scratch::<B>());
    }
    if c12 {
        // C12: exact window of the queried size, two garbage fills, against the run with ample scratch
        use pzv_common::driver::{guarded, panic_sig};
        let kind = if block == 1 && ext == 1 { "standard" } else if ext > 1 { "block_binary_extended" } else { "block_binary" };
        let name = format!("blind_rotation_execute[{kind}]");
        // (a) content independence on ample scratch (also for the shapes whose exact-size run is a recorded finding)
        {
            let mut r2 = GLWE::alloc_from_infos(&res_lay);
            for col in 0..=rank {
                let limbs = gen_column(VClass::Uniform, b, n, c.res_size as usize, c.seed ^ (0xC0 + col as u64));
                set_column(r2.data_mut(), col, &limbs);
            }
            let mut ample = crate::c12b::Win::new(8 * q_bytes + (1 << 20), c.seed ^ 0xA7A7_A7A7);
            if let Err(p) = guarded(|| brkp.execute(m, &mut r2, &lwe, &lut, ample.scratch::<B>())) {
                return Verdict::fail(format!("{name}|result-depends-on-scratch-or-stale-content"), format!("backend={} {name}: panics on ample scratch filled with a second garbage pattern (the first run passed): {p}\ncase={c:?}", c.be.name()));
            }
            if r2.data().raw() != res.data().raw() {
                return Verdict::fail(format!("{name}|result-depends-on-scratch-or-stale-content"), format!("backend={} {name}: two runs on ample scratch with different garbage (and different prior content of the destination) give different results\ncase={c:?}", c.be.name()));
            }
        }
        // (b) exact window
        for fill in [0x1111_2222_3333_4444u64, 0xDEAD_BEEF_0BAD_F00D] {
            let mut r2 = GLWE::alloc_from_infos(&res_lay);
            for col in 0..=rank {
                let limbs = gen_column(VClass::Uniform, b, n, c.res_size as usize, c.seed ^ (0xB0 + col as u64) ^ fill);
                set_column(r2.data_mut(), col, &limbs);
            }
            let mut win = crate::c12b::Win::new(q_bytes, fill ^ c.seed);
            match guarded(|| brkp.execute(m, &mut r2, &lwe, &lut, win.scratch::<B>())) {
                Err(p) => {
                    return Verdict::fail(
                        format!("{name}|exact-scratch-panic|{}", panic_sig(&p)),
                        format!("backend={} {name}: panicked with a scratch window of exactly the {q_bytes} bytes of execute_tmp_bytes(block_size={block}, extension_factor={ext}): {p}\ncase={c:?}", c.be.name()),
                    );
                }
                Ok(()) => {
                    if !win.intact() {
                        return Verdict::fail(format!("{name}|guard-damaged"), format!("backend={} {name}: bytes outside the exact scratch window were modified\ncase={c:?}", c.be.name()));
                    }
                    if r2.data().raw() != res.data().raw() {
                        return Verdict::fail(format!("{name}|result-depends-on-scratch-or-stale-content"), format!("backend={} {name}: the result with an exact garbage-filled window (and a different prior content of the destination) differs from the run with ample scratch\ncase={c:?}", c.be.name()));
                    }
                }
            }
        }
        let cl = [c.be.name(), "blind_rotation_execute", kind];
        return Verdict::pass(q_bytes > 0, &cl);
    }
    let got = phase_vals(res.data(), &s_glwe, b);
    // worst-case noise: n_lwe external products, each multiplied by (X^a - 1)
    let rl = Lay { b, size: c.res_size as usize };
    let (limb, scale) = ni.target_limb_and_scale(b);
    let fresh = (ni.bound * scale).round() * p2(-(((limb + 1) * b) as i64)) + p2(-((brk_size * b) as i64));
    let cols = rank + 1;
    let meta = KeyMeta { b, dnum: c.brk_dnum as usize, dsize: 1, size: brk_size, rank_in: cols, rank_out: rank, err_l1: vec![vec![fresh * n as f64; cols]; c.brk_dnum as usize], err_max: fresh };
    let mut pt_l1: Vec<u64> = vec![1];
    pt_l1.extend(s_glwe.iter().map(|p| p.iter().map(|x| x.unsigned_abs()).sum::<u64>()));
    let so = 1.0 + l1_sum(&s_glwe) as f64;
    let standard = block == 1 && ext == 1;
    let mut noise = 0f64;
    for i in 0..n_lwe {
        let sc = if standard { 1.0 + 2.0 * i as f64 } else { 1.0 };
        noise += 2.0 * ks_bound_scaled(&meta, rl, rl, n, &pt_l1, l1_sum(&s_glwe), sc);
    }
    noise = 2.0 * noise + (n_lwe as f64 + 2.0) * rl.unit() * so;
    // table values are multiples of 2^-(p+1): r is identifiable when the noise is below a quarter of that
    let informative = noise < p2(-(k_msg as i64) - 2);
    // candidate rotations: |r - dir * idx| <= (1 + h)/2 + 1
    let dir = if c.right { 1.0 } else { -1.0 };
    let w = ((1 + h) as f64 / 2.0 + 1.0).ceil() as i64;
    let centre = (dir * idx_real).round() as i64;
    // the library table in the extended ring (limb values), via hook H2
    let lut_vals: Vec<Dyadic> = (0..domain).map(|i| lut_value(&lut, ext, b, i)).collect();
    let rotated = |r: i64| -> Vec<Dyadic> {
        // coefficient j of polynomial 0 = extended coefficient j*ext of X^r * P
        let r = r.rem_euclid(two_d as i64) as usize;
        (0..n)
            .map(|j| {
                let t = (j * ext + two_d - r) % two_d; // source index in [0, 2 domain)
                if t < domain { lut_vals[t].clone() } else { lut_vals[t - domain].neg() }
            })
            .collect()
    };
    let mut best: Option<(i64, f64)> = None;
    for r in centre - w..=centre + w {
        let (e, _) = max_err(&got, &rotated(r));
        if best.map(|b| e < b.1).unwrap_or(true) {
            best = Some((r, e));
        }
    }
    let (r, e) = best.unwrap();
    if std::env::var("PZV_DEBUG").is_ok() {
        use poulpy_core::layouts::LWEToRef;
        let mut sw = vec![0i64; n_lwe + 1];
        poulpy_bin_fhe::blind_rotation::mod_switch_2n(two_d, &mut sw, &lwe.to_ref(), lut.rotation_direction());
        let rl: i64 = (sw[0] + sw[1..].iter().zip(st.s_lwe.iter()).map(|(x, y)| x * y).sum::<i64>()).rem_euclid(two_d as i64);
        eprintln!("DEBUG exact index {idx_real:.4} dir {dir} centre {centre} w {w}; library mod-switched: {sw:?} s={:?} -> R_lib = {rl} ({}); best r = {r} err {e:.3e}; noise {noise:.3e}", st.s_lwe, rl - two_d as i64);
        for r2 in 0..two_d as i64 {
            let (e2, _) = max_err(&got, &rotated(r2));
            if e2 <= noise {
                eprintln!("DEBUG result matches X^{r2}");
            }
        }
    }
    let mut cl = vec![c.be.name(), if standard { "standard_binary" } else if ext > 1 { "block_binary_extended" } else { "block_binary" }, if c.right { "right" } else { "left" }];
    cl.push(if informative { "noise_below_table_resolution" } else { "noise_bound_above_table_resolution(vacuous)" });
    if bl <= log_two_d {
        cl.push("modswitch_multi_limb");
    } else {
        cl.push("modswitch_first_limb");
    }
    if c.centred {
        cl.push("centred_message");
    }
    if !informative {
        return Verdict::pass(false, &cl);
    }
    if e > noise {
        // diagnose: is it a rotation outside the window?
        let mut other: Option<(i64, f64)> = None;
        for r2 in 0..two_d as i64 {
            let (e2, _) = max_err(&got, &rotated(r2));
            if e2 <= noise {
                other = Some((r2, e2));
                break;
            }
        }
        let diag = match other {
            Some((r2, _)) => format!("the result is X^{r2} * table, i.e. {} index steps away from the exact index {:.3} (window +-{w})", (r2 - centre).rem_euclid(two_d as i64).min((centre - r2).rem_euclid(two_d as i64)), dir * idx_real),
            None => "the result is not a rotation of the table at all".to_string(),
        };
        return br_fail(c, if other.is_some() { "rotation-index-outside-rounding-window" } else { "result-is-not-a-rotated-table" }, format!("best candidate r={r} has max error {e:.4e} > noise bound {noise:.4e}; {diag} (n_lwe={n_lwe}, |s|_1={h}, N={n}, ext={ext}, p={p})"));
    }
    // the selected entry, when the window fits inside half a step
    // (only when the sample has enough precision to hold the centred phase exactly)
    if c.centred && (w as usize) < drift && !c.right && torus_err(&phase, &target).is_zero() {
        let msg = c.x as usize % (2 << p);
        let want = if msg < (1 << p) { f[msg] } else { -f[msg - (1 << p)] };
        let wv = Dyadic::from_limbs_i64(&[want], k_msg);
        let e0 = torus_err(&got[0], &wv).approx_f64().abs();
        if e0 > noise {
            return br_fail(c, "constant-coefficient-is-not-the-table-entry", format!("message {msg} of Z_2^{}: constant coefficient decodes to {:.6e}, expected f = {want} * 2^-{k_msg} (negacyclic sign on the upper half)", p + 1, got[0].approx_f64()));
        }
        cl.push("entry_checked");
        if msg >= (1 << p) {
            cl.push("wrap_around_sign");
        }
    }
    Verdict::pass(true, &cl)
}

pub fn test_br(c0: &BrCase) -> Verdict {
    let mut c = c0.clone();
    br_adapt(&mut c);
    with_backend!(c.be, c.log_n, |m| run_br(m, &c, false))
}

pub fn test_br_c12(c0: &BrCase) -> Verdict {
    let mut c = c0.clone();
    br_adapt(&mut c);
    with_backend!(c.be, c.log_n, |m| run_br(m, &c, true))
}

pub fn br_strategy() -> BoxedStrategy<BrCase> {
    (
        (be_strategy(), 3u8..=6, prop_oneof![3 => Just(0u8), 1 => Just(1u8), 1 => Just(2u8), 1 => Just(3u8)], 1u8..=4, 1u8..=8, 0u8..4, 8u8..=20, 2u8..=24, 1u8..=4),
        (1u8..=5, 1u8..=3, 1u8..=2, 1u8..=3, 1u8..=2, dist_strategy(), any::<bool>(), any::<u32>(), any::<u8>(), any::<bool>(), any::<u64>()),
    )
        .prop_map(|((be, log_n, ext_log, block, n_blocks, std_dist, b, b_lwe, lwe_size), (p, brk_dnum, brk_extra, res_size, rank, dist_glwe, right, x, frac, centred, seed))| {
            let mut c = BrCase { be, log_n, ext_log, block, n_blocks, std_dist, b, b_lwe, lwe_size, p, brk_dnum, brk_extra, res_size, rank, dist_glwe, right, x, frac, centred, seed };
            br_adapt(&mut c);
            c
        })
        .boxed()
}

pub fn run_all(ctx: &Ctx) {
    let t = ctx.tier;
    ctx.run_sub("lut_set_rotate", t.pick(6_000, 100_000), 64, || lut_strategy(false), test_lut);
    ctx.run_sub("lut_all_rotations", t.pick(200, 3_000), 64, || lut_strategy(true), test_lut);
    ctx.run_sub("blind_rotation", t.pick(6_000, 150_000), 64, br_strategy, test_br);
}

pub fn replay(ctx: &Ctx, sub: &str, case: &serde_json::Value) -> i32 {
    match sub {
        "lut_set_rotate" | "lut_all_rotations" => ctx.replay_case::<LutCase, _>(sub, case, test_lut),
        "blind_rotation" => ctx.replay_case::<BrCase, _>(sub, case, test_br),
        _ => 2,
    }
}

pub const RULE: &str = "clear path: cases = (backend, N 8..64, extension factor 1/2/4/8, radix 2..30, message precision k 1..40 incl. k not a multiple of the radix, spare limbs, table length 2^j <= N dividing the domain, random entries, both directions); oracle = integer model of the replicated / scaled / half-step pre-rotated / de-interleaved table, compared exactly on every coefficient after set and after every rotation of a generated rotation history (sub-check lut_all_rotations: every index in [0, 2N*ext)); the selected-entry statement is checked on the model for every index. blind path: cases = (backend, N 8..64, extension 1..8, LWE dimension 1..32 as blocks of 1..4, standard-binary distributions (fixed weight / probability / zero) and block-binary, key radix 6..20 with 1..3 rows, result 1..3 limbs, rank 1..2, LWE radix 2..24 x 1..4 limbs (both modulus-switch paths), message bits 1..5, both directions, any index with any sub-index fraction or centred on a message of Z_2^(p+1)); oracle = exact phase of the result vs X^r * table for an integer r within (1+|s|_1)/2+1 of the exact index, within the worst-case noise bound, and the constant coefficient equals the table entry with negacyclic sign when the window is narrower than half a step. non-trivial = table length >= 2 / noise bound below a quarter of the table resolution.";
