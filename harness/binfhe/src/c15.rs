//! C15 — encrypted integers: bootstrap, word operations and bit surgery match u32.
//!
//! Parameter set: the shipped test layout (N=256, n_lwe=77, rank 2, CGGI) on FFT64Ref,
//! FFT64Avx and NTT120Ref.  Oracle: plain Rust `u32` semantics; every result is decrypted
//! with the clear key.

use crate::c13::{NAMES, reference};
use poulpy_bin_fhe::bdd_arithmetic::{
    Add, And, FheUint, FheUintPrepare, FheUintPrepared, Identity, Or, Sll, Slt, Sltu, Sra, Srl, Sub, Xor,
    tests::test_suite::TestContext,
};
use poulpy_bin_fhe::blind_rotation::CGGI;
use poulpy_core::EncryptionLayout;
use poulpy_core::layouts::{GGSWLayout, GLWELayout, LWEInfos};
use poulpy_cpu_avx::{FFT64Avx, NTT120Avx};
use poulpy_cpu_ref::{FFT64Ref, NTT120Ref};
use poulpy_hal::{
    api::{ScratchOwnedAlloc, ScratchOwnedBorrow},
    layouts::{DeviceBuf, ScratchOwned},
    source::Source,
};
use proptest::prelude::*;
use pzv_be::{Be, FullBackend};
use pzv_common::driver::{Ctx, Verdict};
use pzv_common::model::SplitMix;
use serde::{Deserialize, Serialize};
use std::sync::LazyLock;

pub static CTX_FFT_REF: LazyLock<TestContext<CGGI, FFT64Ref>> = LazyLock::new(TestContext::<CGGI, FFT64Ref>::new);
pub static CTX_FFT_AVX: LazyLock<TestContext<CGGI, FFT64Avx>> = LazyLock::new(TestContext::<CGGI, FFT64Avx>::new);
pub static CTX_NTT_REF: LazyLock<TestContext<CGGI, NTT120Ref>> = LazyLock::new(TestContext::<CGGI, NTT120Ref>::new);
pub static CTX_NTT_AVX: LazyLock<TestContext<CGGI, NTT120Avx>> = LazyLock::new(TestContext::<CGGI, NTT120Avx>::new);

/// A second key shape per backend: no GLWE-to-GLWE rank-reduction key (`ks_glwe_layout: None`), the bits are taken
/// straight from the packed rank-2 GLWE with a rank-2 GLWE-to-LWE key.  Same secrets / seeds as the shipped context.
pub fn alt_context<B: FullBackend>() -> TestContext<CGGI, B>
where
    poulpy_hal::layouts::Module<B>: poulpy_hal::api::ModuleNew<B>
        + poulpy_bin_fhe::bdd_arithmetic::BDDKeyEncryptSk<CGGI, B>
        + poulpy_core::layouts::GLWESecretPreparedFactory<B>
        + poulpy_bin_fhe::blind_rotation::BlindRotationKeyPreparedFactory<CGGI, B>
        + poulpy_bin_fhe::bdd_arithmetic::BDDKeyPreparedFactory<CGGI, B>,
    ScratchOwned<B>: ScratchOwnedAlloc<B> + ScratchOwnedBorrow<B>,
    poulpy_hal::layouts::Scratch<B>: poulpy_core::ScratchTakeCore<B>,
{
    use poulpy_bin_fhe::bdd_arithmetic::{BDDEncryptionInfos, BDDKey, BDDKeyLayout, BDDKeyPrepared};
    use poulpy_bin_fhe::blind_rotation::BlindRotationKeyLayout;
    use poulpy_bin_fhe::circuit_bootstrapping::CircuitBootstrappingKeyLayout;
    use poulpy_core::layouts::{Base2K, Degree, Dnum, Dsize, GGLWEToGGSWKeyLayout, GLWEAutomorphismKeyLayout, GLWESecret, GLWEToLWEKeyLayout, LWESecret, Rank, TorusPrecision};
    use poulpy_hal::api::ModuleNew;
    let (n, n_lwe, rank) = (256u32, 77u32, 2u32);
    let module: poulpy_hal::layouts::Module<B> = poulpy_hal::layouts::Module::<B>::new(n as u64);
    let mut xs = Source::new([1u8; 32]);
    let mut xa = Source::new([2u8; 32]);
    let mut xe = Source::new([3u8; 32]);
    let mut scratch: ScratchOwned<B> = ScratchOwned::alloc(1 << 22);
    let mut sk_glwe: GLWESecret<Vec<u8>> = GLWESecret::alloc(n.into(), rank.into());
    sk_glwe.fill_ternary_prob(0.5, &mut xs);
    let mut sk_glwe_prep = poulpy_core::layouts::GLWESecretPreparedFactory::glwe_secret_prepared_alloc(&module, rank.into());
    poulpy_core::layouts::GLWESecretPreparedFactory::glwe_secret_prepare(&module, &mut sk_glwe_prep, &sk_glwe);
    let mut sk_lwe: LWESecret<Vec<u8>> = LWESecret::alloc(n_lwe.into());
    sk_lwe.fill_binary_block(7, &mut xs);
    let layout = BDDKeyLayout {
        cbt_layout: CircuitBootstrappingKeyLayout {
            brk_layout: BlindRotationKeyLayout { n_glwe: Degree(n), n_lwe: Degree(n_lwe), base2k: Base2K(12), k: TorusPrecision(52), dnum: Dnum(4), rank: Rank(rank) },
            atk_layout: GLWEAutomorphismKeyLayout { n: Degree(n), base2k: Base2K(11), k: TorusPrecision(52), rank: Rank(rank), dnum: Dnum(4), dsize: Dsize(1) },
            tsk_layout: GGLWEToGGSWKeyLayout { n: Degree(n), base2k: Base2K(10), k: TorusPrecision(52), rank: Rank(rank), dnum: Dnum(4), dsize: Dsize(1) },
        },
        ks_glwe_layout: None,
        ks_lwe_layout: GLWEToLWEKeyLayout { n: Degree(n), base2k: Base2K(4), k: TorusPrecision(16), rank_in: Rank(rank), dnum: Dnum(3) },
    };
    let mut key: BDDKey<Vec<u8>, CGGI> = BDDKey::alloc_from_infos(&layout);
    let enc = BDDEncryptionInfos::from_default_sigma(&layout).unwrap();
    key.encrypt_sk(&module, &sk_lwe, &sk_glwe, &enc, &mut xe, &mut xa, scratch.borrow());
    let mut prep: BDDKeyPrepared<DeviceBuf<B>, CGGI, B> = BDDKeyPrepared::alloc_from_infos(&module, &layout);
    prep.prepare(&module, &key, scratch.borrow());
    TestContext { bdd_key: prep, sk_glwe: sk_glwe_prep, sk_lwe, module }
}

pub static ALT_FFT_REF: LazyLock<TestContext<CGGI, FFT64Ref>> = LazyLock::new(alt_context::<FFT64Ref>);
pub static ALT_FFT_AVX: LazyLock<TestContext<CGGI, FFT64Avx>> = LazyLock::new(alt_context::<FFT64Avx>);
pub static ALT_NTT_REF: LazyLock<TestContext<CGGI, NTT120Ref>> = LazyLock::new(alt_context::<NTT120Ref>);
pub static ALT_NTT_AVX: LazyLock<TestContext<CGGI, NTT120Avx>> = LazyLock::new(alt_context::<NTT120Avx>);

/// `with_ctx!` with a choice of the key shape (`alt` = the context without the rank-reduction key)
#[macro_export]
macro_rules! with_ctx_alt {
    ($be:expr, $alt:expr, |$c:ident| $body:expr) => {
        match ($be, $alt) {
            (pzv_be::Be::FftRef, true) => {
                let $c = &*$crate::c15::ALT_FFT_REF;
                $body
            }
            (pzv_be::Be::FftAvx, true) => {
                let $c = &*$crate::c15::ALT_FFT_AVX;
                $body
            }
            (pzv_be::Be::NttRef, true) => {
                let $c = &*$crate::c15::ALT_NTT_REF;
                $body
            }
            (pzv_be::Be::NttAvx, true) => {
                let $c = &*$crate::c15::ALT_NTT_AVX;
                $body
            }
            (be, false) => $crate::with_ctx!(be, |$c| $body),
        }
    };
}

#[macro_export]
macro_rules! with_ctx {
    ($be:expr, |$c:ident| $body:expr) => {
        match $be {
            pzv_be::Be::FftRef => {
                let $c = &*$crate::c15::CTX_FFT_REF;
                $body
            }
            pzv_be::Be::FftAvx => {
                let $c = &*$crate::c15::CTX_FFT_AVX;
                $body
            }
            pzv_be::Be::NttRef => {
                let $c = &*$crate::c15::CTX_NTT_REF;
                $body
            }
            pzv_be::Be::NttAvx => {
                let $c = &*$crate::c15::CTX_NTT_AVX;
                $body
            }
        }
    };
}

pub fn seed32(s: u64, salt: u64) -> [u8; 32] {
    SplitMix::new(s ^ salt.wrapping_mul(0x9E3779B97F4A7C15)).seed32()
}

#[derive(Clone, Debug, Serialize, Deserialize)]
pub struct WordCase {
    pub be: Be,
    /// index into c13::NAMES
    pub op: u8,
    pub a: u32,
    pub b: u32,
    /// operands: false = FheUintPrepared::encrypt_sk, true = FheUint::encrypt_sk + prepare (circuit bootstrapping)
    pub bootstrap: bool,
    /// chain: feed the result back (re-prepared) this many more times with the same op and operand b
    pub chain: u8,
    pub seed: u64,
}

pub type Prep<B> = FheUintPrepared<DeviceBuf<B>, u32, B>;

pub fn apply_op_s<B: FullBackend>(c: &TestContext<CGGI, B>, op: &str, res: &mut FheUint<Vec<u8>, u32>, a: &Prep<B>, b: &Prep<B>, threads: usize, s: &mut poulpy_hal::layouts::Scratch<B>)
where
    ScratchOwned<B>: ScratchOwnedAlloc<B> + ScratchOwnedBorrow<B>,
{
    let m = &c.module;
    let k = &c.bdd_key;
    if threads <= 1 {
        match op {
            "add" => res.add(m, a, b, k, s),
            "sub" => res.sub(m, a, b, k, s),
            "sll" => res.sll(m, a, b, k, s),
            "srl" => res.srl(m, a, b, k, s),
            "sra" => res.sra(m, a, b, k, s),
            "slt" => res.slt(m, a, b, k, s),
            "sltu" => res.sltu(m, a, b, k, s),
            "and" => res.and(m, a, b, k, s),
            "or" => res.or(m, a, b, k, s),
            "xor" => res.xor(m, a, b, k, s),
            "identity" => res.identity(m, a, k, s),
            _ => panic!("harness: unknown op {op}"),
        }
    } else {
        match op {
            "add" => res.add_multi_thread(threads, m, a, b, k, s),
            "sub" => res.sub_multi_thread(threads, m, a, b, k, s),
            "sll" => res.sll_multi_thread(threads, m, a, b, k, s),
            "srl" => res.srl_multi_thread(threads, m, a, b, k, s),
            "sra" => res.sra_multi_thread(threads, m, a, b, k, s),
            "slt" => res.slt_multi_thread(threads, m, a, b, k, s),
            "sltu" => res.sltu_multi_thread(threads, m, a, b, k, s),
            "and" => res.and_multi_thread(threads, m, a, b, k, s),
            "or" => res.or_multi_thread(threads, m, a, b, k, s),
            "xor" => res.xor_multi_thread(threads, m, a, b, k, s),
            "identity" => res.identity_multi_thread(threads, m, a, k, s),
            _ => panic!("harness: unknown op {op}"),
        }
    }
}

pub fn apply_op<B: FullBackend>(c: &TestContext<CGGI, B>, op: &str, res: &mut FheUint<Vec<u8>, u32>, a: &Prep<B>, b: &Prep<B>, threads: usize, scratch: &mut ScratchOwned<B>)
where
    ScratchOwned<B>: ScratchOwnedAlloc<B> + ScratchOwnedBorrow<B>,
{
    apply_op_s(c, op, res, a, b, threads, scratch.borrow())
}

/// the size query that belongs to `apply_op_s(op, threads)`
pub fn op_tmp_bytes<B: FullBackend>(c: &TestContext<CGGI, B>, op: &str, res: &FheUint<Vec<u8>, u32>, threads: usize) -> usize {
    let m = &c.module;
    let k = &c.bdd_key;
    let (gl, gg) = (c.glwe_infos(), c.ggsw_infos());
    if threads <= 1 {
        match op {
            "add" => res.add_tmp_bytes(m, &gl, &gg, k),
            "sub" => res.sub_tmp_bytes(m, &gl, &gg, k),
            "sll" => res.sll_tmp_bytes(m, &gl, &gg, k),
            "srl" => res.srl_tmp_bytes(m, &gl, &gg, k),
            "sra" => res.sra_tmp_bytes(m, &gl, &gg, k),
            "slt" => res.slt_tmp_bytes(m, &gl, &gg, k),
            "sltu" => res.sltu_tmp_bytes(m, &gl, &gg, k),
            "and" => res.and_tmp_bytes(m, &gl, &gg, k),
            "or" => res.or_tmp_bytes(m, &gl, &gg, k),
            "xor" => res.xor_tmp_bytes(m, &gl, &gg, k),
            _ => panic!("harness: unknown op {op}"),
        }
    } else {
        match op {
            "add" => res.add_multi_thread_tmp_bytes(m, threads, &gl, &gg, k),
            "sub" => res.sub_multi_thread_tmp_bytes(m, threads, &gl, &gg, k),
            "sll" => res.sll_multi_thread_tmp_bytes(m, threads, &gl, &gg, k),
            "srl" => res.srl_multi_thread_tmp_bytes(m, threads, &gl, &gg, k),
            "sra" => res.sra_multi_thread_tmp_bytes(m, threads, &gl, &gg, k),
            "slt" => res.slt_multi_thread_tmp_bytes(m, threads, &gl, &gg, k),
            "sltu" => res.sltu_multi_thread_tmp_bytes(m, threads, &gl, &gg, k),
            "and" => res.and_multi_thread_tmp_bytes(m, threads, &gl, &gg, k),
            "or" => res.or_multi_thread_tmp_bytes(m, threads, &gl, &gg, k),
            "xor" => res.xor_multi_thread_tmp_bytes(m, threads, &gl, &gg, k),
            _ => panic!("harness: unknown op {op}"),
        }
    }
}

pub fn encrypt_prepared<B: FullBackend>(c: &TestContext<CGGI, B>, v: u32, bootstrap: bool, seed: u64, scratch: &mut ScratchOwned<B>) -> Prep<B>
where
    ScratchOwned<B>: ScratchOwnedAlloc<B> + ScratchOwnedBorrow<B>,
{
    let m = &c.module;
    let glwe_infos: GLWELayout = c.glwe_infos();
    let ggsw_infos: GGSWLayout = c.ggsw_infos();
    let mut p: Prep<B> = FheUintPrepared::alloc_from_infos(m, &ggsw_infos);
    let mut xe = Source::new(seed32(seed, 1));
    let mut xa = Source::new(seed32(seed, 2));
    if bootstrap {
        let enc = EncryptionLayout::new_from_default_sigma(glwe_infos).unwrap();
        let mut ct: FheUint<Vec<u8>, u32> = FheUint::alloc_from_infos(&glwe_infos);
        ct.encrypt_sk(m, v, &c.sk_glwe, &enc, &mut xe, &mut xa, scratch.borrow());
        p.prepare(m, &ct, &c.bdd_key, scratch.borrow());
    } else {
        let enc = EncryptionLayout::new_from_default_sigma(ggsw_infos).unwrap();
        p.encrypt_sk(m, v, &c.sk_glwe, &enc, &mut xe, &mut xa, scratch.borrow());
    }
    p
}

/// one word operation through the public entry point (`threads` <= 1: single-thread form) on freshly encrypted
/// prepared operands; returns the decrypted result (used by C13's evaluator sub-check)
pub fn hom_word(be: Be, name: &str, a: u32, b: u32, threads: usize, seed: u64) -> u32 {
    fn go<B: FullBackend>(c: &TestContext<CGGI, B>, name: &str, a: u32, b: u32, threads: usize, seed: u64) -> u32
    where
        ScratchOwned<B>: ScratchOwnedAlloc<B> + ScratchOwnedBorrow<B>,
    {
        let mut scratch = pzv_be::dirty_scratch::<B>(1 << 24);
        let a_p = encrypt_prepared(c, a, false, seed, &mut scratch);
        let b_p = encrypt_prepared(c, b, false, seed ^ 0xB, &mut scratch);
        let mut res: FheUint<Vec<u8>, u32> = FheUint::alloc_from_infos(&c.glwe_infos());
        apply_op(c, name, &mut res, &a_p, &b_p, threads, &mut scratch);
        res.decrypt(&c.module, &c.sk_glwe, scratch.borrow())
    }
    with_ctx!(be, |c| go(c, name, a, b, threads, seed))
}

fn word_run<B: FullBackend>(c: &TestContext<CGGI, B>, w: &WordCase) -> Verdict
where
    ScratchOwned<B>: ScratchOwnedAlloc<B> + ScratchOwnedBorrow<B>,
{
    let name = NAMES[w.op as usize % NAMES.len()];
    let m = &c.module;
    // (roomy: the multi-thread entry points need threads x per-thread size)
    let mut scratch = pzv_be::dirty_scratch::<B>(1 << 24);
    let glwe_infos: GLWELayout = c.glwe_infos();
    let mut a_p = encrypt_prepared(c, w.a, w.bootstrap, w.seed, &mut scratch);
    let b_p = encrypt_prepared(c, w.b, w.bootstrap, w.seed ^ 0xB, &mut scratch);
    let mut res: FheUint<Vec<u8>, u32> = FheUint::alloc_from_infos(&glwe_infos);
    let mut cur = w.a;
    let steps = 1 + (w.chain % 3) as usize;
    // a third of the cases go through the *_multi_thread entry point with a thread count that does not divide the 32 output bits
    let threads = [1usize, 1, 1, 1, 3, 5, 6, 7, 1, 1, 11, 1][((w.seed >> 17) % 12) as usize];
    for step in 0..steps {
        apply_op(c, name, &mut res, &a_p, &b_p, threads, &mut scratch);
        let want = reference(name, cur, w.b);
        let got: u32 = res.decrypt(m, &c.sk_glwe, scratch.borrow());
        if got != want {
            return Verdict::fail(
                format!("{name}|wrong-result"),
                format!(
                    "backend={} step {step}: {name}({cur:#010x}, {:#010x}) decrypts to {got:#010x}, expected {want:#010x} (bootstrap={}, differing bits {:#010x})\ncase={w:?}",
                    w.be.name(),
                    w.b,
                    w.bootstrap,
                    got ^ want
                ),
            );
        }
        cur = want;
        if step + 1 < steps {
            // re-preparation through circuit bootstrapping
            a_p.prepare(m, &res, &c.bdd_key, scratch.borrow());
        }
    }
    let nt = (name != "identity" && w.a != 0 && w.b != 0) || steps >= 2;
    let mut cl: Vec<&str> = vec![name, w.be.name()];
    if w.bootstrap {
        cl.push("via_circuit_bootstrapping");
    }
    if steps >= 2 {
        cl.push("program_len>=2");
    }
    if threads > 1 {
        cl.push("multi_thread_entry_point");
    }
    Verdict::pass(nt, &cl)
}

fn tag_alt(v: Verdict, alt: bool) -> Verdict {
    match v {
        Verdict::Pass(mut p) if alt => {
            p.classes.push("key_without_rank_reduction".into());
            Verdict::Pass(p)
        }
        Verdict::Fail { sig, detail } if alt => Verdict::Fail { sig, detail: format!("{detail}\n(BDD key without the GLWE-to-GLWE rank-reduction key: ks_glwe_layout = None, rank-2 GLWE-to-LWE key)") },
        v => v,
    }
}

pub fn word_test(w: &WordCase) -> Verdict {
    // operands prepared through circuit bootstrapping: both legal key shapes
    let alt = w.bootstrap && w.seed & 1 == 1;
    tag_alt(with_ctx_alt!(w.be, alt, |c| word_run(c, w)), alt)
}

// ---------------------------------------------------------------------------
// bit surgery
// ---------------------------------------------------------------------------

#[derive(Clone, Debug, Serialize, Deserialize)]
pub struct BitCase {
    pub be: Be,
    /// 0 sext, 1 splice_u8, 2 splice_u16, 3 get_bit_glwe, 4 get_byte/zero_byte, 5 partial prepare
    pub kind: u8,
    pub a: u32,
    pub b: u32,
    pub i: u8,
    pub j: u8,
    pub seed: u64,
}

fn sext(x: u32, bits: u32) -> u32 {
    let lo: u32 = x << (u32::BITS - bits) >> (u32::BITS - bits);
    let hi: u32 = ((x >> bits) & 1) * (0xFFFF_FFFFu32.checked_shl(bits).unwrap_or(0));
    hi | lo
}

fn bit_run<B: FullBackend>(c: &TestContext<CGGI, B>, w: &BitCase) -> Verdict
where
    ScratchOwned<B>: ScratchOwnedAlloc<B> + ScratchOwnedBorrow<B>,
{
    let m = &c.module;
    let keys = &c.bdd_key;
    let sk = &c.sk_glwe;
    let glwe_infos: GLWELayout = c.glwe_infos();
    let enc = EncryptionLayout::new_from_default_sigma(glwe_infos).unwrap();
    let mut scratch = pzv_be::dirty_scratch::<B>(1 << 23);
    let mut xe = Source::new(seed32(w.seed, 1));
    let mut xa = Source::new(seed32(w.seed, 2));
    let mut a_enc: FheUint<Vec<u8>, u32> = FheUint::alloc_from_infos(&glwe_infos);
    let mut b_enc: FheUint<Vec<u8>, u32> = FheUint::alloc_from_infos(&glwe_infos);
    let mut c_enc: FheUint<Vec<u8>, u32> = FheUint::alloc_from_infos(&glwe_infos);
    a_enc.encrypt_sk(m, w.a, sk, &enc, &mut xe, &mut xa, scratch.borrow());
    b_enc.encrypt_sk(m, w.b, sk, &enc, &mut xe, &mut xa, scratch.borrow());
    let fail = |what: &str, got: u32, want: u32| Verdict::fail(format!("{what}|wrong-result"), format!("backend={} {what}: decrypts to {got:#010x}, expected {want:#010x}\ncase={w:?}", w.be.name()));
    let kind = w.kind % 8;
    let name;
    match kind {
        0 => {
            name = "sext";
            let j = (w.i % 3) as usize;
            a_enc.sext(m, j, keys, scratch.borrow());
            let want = sext(w.a, ((1 + j as u32) << 3) - 1);
            let got = a_enc.decrypt(m, sk, scratch.borrow());
            if got != want {
                return fail(name, got, want);
            }
        }
        1 => {
            name = "splice_u8";
            let (dst, src) = ((w.i % 4) as usize, (w.j % 4) as usize);
            c_enc.splice_u8(m, dst, src, &a_enc, &b_enc, keys, scratch.borrow());
            let (rj, ri) = ((dst << 3) as u32, (src << 3) as u32);
            let want = ((w.a.rotate_right(rj) & 0xFFFF_FF00) | (w.b.rotate_right(ri) & 0xFF)).rotate_left(rj);
            let got = c_enc.decrypt(m, sk, scratch.borrow());
            if got != want {
                return fail(name, got, want);
            }
        }
        2 => {
            name = "splice_u16";
            let (dst, src) = ((w.i % 2) as usize, (w.j % 2) as usize);
            c_enc.splice_u16(m, dst, src, &a_enc, &b_enc, keys, scratch.borrow());
            let (rj, ri) = ((dst << 4) as u32, (src << 4) as u32);
            let want = ((w.a.rotate_right(rj) & 0xFFFF_0000) | (w.b.rotate_right(ri) & 0xFFFF)).rotate_left(rj);
            let got = c_enc.decrypt(m, sk, scratch.borrow());
            if got != want {
                return fail(name, got, want);
            }
        }
        3 => {
            name = "get_bit_glwe";
            let i = (w.i % 32) as usize;
            a_enc.get_bit_glwe(m, i, &mut c_enc, keys, scratch.borrow());
            let want = (w.a >> i) & 1;
            let got = c_enc.decrypt(m, sk, scratch.borrow());
            if got != want {
                return fail(name, got, want);
            }
        }
        7 => {
            name = "from_fhe_uint_prepared";
            // prepared bits (GGSW per bit) back to the packed word, into a used receiver
            let p = encrypt_prepared(c, w.a, false, w.seed ^ 9, &mut scratch);
            c_enc.encrypt_sk(m, w.b, sk, &enc, &mut xe, &mut xa, scratch.borrow());
            c_enc.from_fhe_uint_prepared(m, &p, keys, scratch.borrow());
            let got = c_enc.decrypt(m, sk, scratch.borrow());
            if got != w.a {
                return fail(name, got, w.a);
            }
        }
        6 => {
            name = "get_byte";
            // byte `byte` of the word, as a word whose other bytes are zero; into a used receiver
            let byte = (w.i % 4) as usize;
            c_enc.encrypt_sk(m, w.b, sk, &enc, &mut xe, &mut xa, scratch.borrow());
            a_enc.get_byte(m, byte, &mut c_enc, keys, scratch.borrow());
            let want = (w.a >> (8 * byte)) & 0xFF;
            let got = c_enc.decrypt(m, sk, scratch.borrow());
            if got != want {
                return fail(name, got, want);
            }
        }
        4 => {
            name = "zero_byte";
            let byte = (w.i % 4) as usize;
            a_enc.zero_byte(m, byte, keys, scratch.borrow());
            let want = w.a & !(0xFFu32 << (8 * byte));
            let got = a_enc.decrypt(m, sk, scratch.borrow());
            if got != want {
                return fail(name, got, want);
            }
        }
        _ => {
            name = "prepare_custom";
            // partial preparation (bit_start, bit_count) at the trait level, then identity on the prepared bits:
            // the bits inside the window carry a, the others are reset to zero (ggsw_zero) whatever they held before
            let start = (w.i % 32) as usize;
            let count = 1 + (w.j as usize % (32 - start));
            let mut p = encrypt_prepared(c, w.b, false, w.seed ^ 5, &mut scratch);
            m.fhe_uint_prepare_custom(&mut p, &a_enc, start, count, keys, scratch.borrow());
            c_enc.identity(m, &p, keys, scratch.borrow());
            let mask: u32 = if count == 32 { u32::MAX } else { ((1u32 << count) - 1) << start };
            let want = w.a & mask;
            let got = c_enc.decrypt(m, sk, scratch.borrow());
            if got != want {
                return fail(name, got, want);
            }
        }
    }
    Verdict::pass(w.a != 0, &[name, w.be.name()])
}

pub fn bit_test(w: &BitCase) -> Verdict {
    let alt = w.kind % 8 == 5 && w.seed & 1 == 1;
    tag_alt(with_ctx_alt!(w.be, alt, |c| bit_run(c, w)), alt)
}

fn word_strategy(bootstrap_weight: f64, bes: &'static [Be]) -> BoxedStrategy<WordCase> {
    let word = prop_oneof![
        3 => any::<u32>(),
        2 => prop_oneof![Just(0u32), Just(1), Just(0x8000_0000), Just(0xFFFF_FFFF), Just(0x7FFF_FFFF), Just(0xAAAA_AAAA), Just(0x5555_5555)],
        1 => (0u32..32).prop_map(|i| 1u32 << i),
        1 => 0u32..64,
    ];
    (0..bes.len(), 0u8..11, word.clone(), word, proptest::bool::weighted(bootstrap_weight), 0u8..3, any::<u64>())
        .prop_map(move |(bi, op, a, b, bootstrap, chain, seed)| WordCase {
            be: bes[bi],
            op,
            a,
            b,
            bootstrap,
            chain: if bootstrap { chain } else { 0 },
            seed,
        })
        .boxed()
}

fn bit_strategy(bes: &'static [Be]) -> BoxedStrategy<BitCase> {
    (0..bes.len(), 0u8..8, any::<u32>(), any::<u32>(), any::<u8>(), any::<u8>(), any::<u64>())
        .prop_map(move |(bi, kind, a, b, i, j, seed)| BitCase {
            be: bes[bi],
            kind,
            a,
            b,
            i,
            j,
            seed,
        })
        .boxed()
}

pub fn word_strategy_c17() -> BoxedStrategy<WordCase> {
    word_strategy(0.15, BES3)
}

pub fn bit_strategy_c17() -> BoxedStrategy<BitCase> {
    bit_strategy(BES3)
}

pub const BES3: &[Be] = &[Be::FftRef, Be::FftAvx, Be::NttRef];

pub fn run(ctx: &Ctx) {
    let t = ctx.tier;
    // force the contexts (key generation) before timing the sub-checks
    let _ = (&*CTX_FFT_REF, &*CTX_FFT_AVX, &*CTX_NTT_REF);
    ctx.run_sub("word_ops_prepared_operands", t.pick(480, 6_000), 16, || word_strategy(0.0, BES3), word_test);
    ctx.run_sub("word_ops_and_programs_via_bootstrapping", t.pick(48, 600), 16, || word_strategy(1.0, BES3), word_test);
    ctx.run_sub("bit_surgery", t.pick(288, 3_200), 16, || bit_strategy(BES3), bit_test);
    crate::c15b::run_all(ctx);
}

pub fn replay(ctx: &Ctx, sub: &str, case: &serde_json::Value) -> i32 {
    match sub {
        "bit_surgery" => ctx.replay_case::<BitCase, _>(sub, case, bit_test),
        "swap_selection_retrieval_bootstrapping_cells" => crate::c15b::replay(ctx, sub, case),
        _ => ctx.replay_case::<WordCase, _>(sub, case, word_test),
    }
}

pub const RULE: &str = "cases = (backend in FFT64Ref/FFT64Avx/NTT120Ref, word op in add/sub/sll/srl/sra/slt/sltu/and/or/xor/identity, operands from boundary classes (0, 1, 2^31, 2^32-1, alternating patterns, single bits, shift amounts 0..63) and random, operands either encrypted directly as prepared GGSW bits or encrypted as packed FheUint and prepared through circuit bootstrapping, chains of 1..3 operations with re-preparation of the result, a third of the cases through the *_multi_thread entry points with 3/5/6/7/11 threads); bit surgery: sext(byte 0..2), splice_u8/u16 at every (dst, src), get_bit_glwe at every index, get_byte of every byte (into a used receiver), from_fhe_uint_prepared (prepared bits back to the packed word), zero_byte, partial preparation fhe_uint_prepare_custom at every (start, count). Oracle: plain Rust u32 result after decryption with the clear key. non-trivial = op != identity with both operands != 0, or program length >= 2. Sub-check swap_selection_retrieval_bootstrapping_cells: cswap of two words (selector GGSW in the radix of the words or in radix 12 / 9), glwe_blind_selection over generated slot subsets, glwe_blind_retrieval_statefull and its inverse on 2^bits..2^bits+2 words, GLWE blind rotation (both forms) and the three GGSW blind rotations by sign * (((k >> rsh) % 2^mask) << lsh), circuit bootstrapping to constant and to exponent (domain 2^1..2^4, every log_gap_out <= log_gap_in); oracle = u32 / index semantics after decryption, negacyclic rotation of the encrypted polynomial, and for every GGSW cell the exact phase under the clear secret (regenerated from the fixed seed of TestContext) minus value * gadget (* s_col) below half a unit of the row's gadget level (one unit for the last row of bootstrapped GGSWs, whose noise reaches 0.49 units on the shipped layout).";

pub fn ctx_infos() -> (usize, usize) {
    let c = &*CTX_FFT_REF;
    (c.glwe_infos().size(), c.ggsw_infos().size())
}
