//! C10, binary-FHE layer: a word operation (operands encrypted directly as prepared GGSW bits, or
//! packed and prepared through circuit bootstrapping) gives the same ciphertext bytes on FFT64Ref,
//! FFT64Avx and NTT120Ref for equal keys, inputs and seeds.

use crate::c13::NAMES;
use crate::c15::{WordCase, apply_op, encrypt_prepared};
use crate::with_ctx;
use poulpy_bin_fhe::bdd_arithmetic::{FheUint, tests::test_suite::TestContext};
use poulpy_bin_fhe::blind_rotation::CGGI;
use poulpy_core::layouts::GLWELayout;
use poulpy_hal::{
    api::{ScratchOwnedAlloc, ScratchOwnedBorrow},
    layouts::ScratchOwned,
};
use pzv_be::{Be, FullBackend};
use pzv_common::driver::{Ctx, Verdict, guarded};

fn one<B: FullBackend>(c: &TestContext<CGGI, B>, w: &WordCase) -> Vec<i64>
where
    ScratchOwned<B>: ScratchOwnedAlloc<B> + ScratchOwnedBorrow<B>,
{
    let name = NAMES[w.op as usize % NAMES.len()];
    let mut scratch = pzv_be::dirty_scratch::<B>(1 << 24);
    let glwe_infos: GLWELayout = c.glwe_infos();
    let a_p = encrypt_prepared(c, w.a, w.bootstrap, w.seed, &mut scratch);
    let b_p = encrypt_prepared(c, w.b, w.bootstrap, w.seed ^ 0xB, &mut scratch);
    let mut res: FheUint<Vec<u8>, u32> = FheUint::alloc_from_infos(&glwe_infos);
    apply_op(c, name, &mut res, &a_p, &b_p, 1, &mut scratch);
    crate::c20::bytes_of(&res)
}

pub fn test(w: &WordCase) -> Verdict {
    let name = NAMES[w.op as usize % NAMES.len()];
    let mut outs: Vec<(Be, Vec<i64>)> = vec![];
    for be in [Be::FftRef, Be::FftAvx, Be::NttRef] {
        match guarded(|| with_ctx!(be, |c| one(c, w))) {
            Ok(o) => outs.push((be, o)),
            Err(_) => return Verdict::pass(false, &[name, "skipped:panics_on_one_backend(C15)"]),
        }
    }
    for (be, o) in &outs[1..] {
        if *o != outs[0].1 {
            let fam = if be.is_fft() { "fft64-ref-vs-avx" } else { "fft64-vs-ntt120" };
            return Verdict::fail(format!("{name}|{fam}"), format!("word operation {name}: {} and {} give different ciphertext bytes for equal keys, operands and seeds (bootstrap={})\ncase={w:?}", outs[0].0.name(), be.name(), w.bootstrap));
        }
    }
    let mut cl = vec![name, "three_backends_identical"];
    if w.bootstrap {
        cl.push("via_circuit_bootstrapping");
    }
    Verdict::pass(true, &cl)
}

pub fn run_all(ctx: &Ctx) {
    let t = ctx.tier;
    ctx.run_sub("binfhe_cross_backend", t.pick(96, 1_600), 16, crate::c15::word_strategy_c17, test);
}

pub fn replay(ctx: &Ctx, sub: &str, case: &serde_json::Value) -> i32 {
    ctx.replay_case::<WordCase, _>(sub, case, test)
}

pub const RULE: &str = "binary-FHE layer: cases = (word operation, generated operands and seeds, operands encrypted directly as prepared GGSW bits or packed and prepared through circuit bootstrapping, shipped layout); the pipeline runs with identical keys and seeds on FFT64Ref, FFT64Avx and NTT120Ref and the result ciphertexts must be identical byte for byte. non-trivial = every case that runs on the three backends.";
