//! C17, binary-FHE level: lookup tables, blind rotation, word operations, bit surgery and preparation
//! through circuit bootstrapping in the AddressSanitizer build.  Only memory safety is judged here.

use crate::{c12b, c14, c15};
use pzv_common::driver::{Ctx, Verdict, arm_sanitizer_callback};

fn mem<C>(f: fn(&C) -> Verdict) -> impl Fn(&C) -> Verdict + Sync {
    move |c| match f(c) {
        Verdict::Fail { sig, .. } if !sig.contains("guard-damaged") => Verdict::pass(false, &["value_oracle_or_panic_ignored_here"]),
        v => v,
    }
}

macro_rules! table {
    ($m:ident) => {
        $m!("asan_binfhe_lookup_tables", 1_500, 30_000, 64, c14::LutCase, || c14::lut_strategy(false), c14::test_lut);
        $m!("asan_binfhe_blind_rotation", 1_000, 20_000, 64, c14::BrCase, c14::br_strategy, c14::test_br);
        $m!("asan_binfhe_blind_rotation_exact_scratch", 600, 12_000, 64, c14::BrCase, c14::br_strategy, c14::test_br_c12);
        $m!("asan_binfhe_word_ops", 48, 600, 16, c15::WordCase, c15::word_strategy_c17, c15::word_test);
        $m!("asan_binfhe_bit_surgery", 32, 400, 16, c15::BitCase, c15::bit_strategy_c17, c15::bit_test);
        $m!("asan_binfhe_exact_scratch", 32, 400, 16, c12b::Case, c12b::strategy, c12b::test);
    };
}

pub fn run_all(ctx: &Ctx) {
    let armed = arm_sanitizer_callback(&ctx.property, &ctx.root);
    eprintln!("[C17] pzv-bin: sanitizer runtime {}", if armed { "present: death callback armed" } else { "ABSENT" });
    let t = ctx.tier;
    macro_rules! run {
        ($name:expr, $q:expr, $th:expr, $shards:expr, $case:ty, $strat:expr, $test:expr) => {
            ctx.run_sub($name, t.pick($q, $th), $shards, $strat, mem::<$case>($test));
        };
    }
    table!(run);
}

pub fn replay(ctx: &Ctx, sub: &str, case: &serde_json::Value) -> i32 {
    let _ = arm_sanitizer_callback(&ctx.property, &ctx.root);
    macro_rules! rp {
        ($name:expr, $q:expr, $th:expr, $shards:expr, $case:ty, $strat:expr, $test:expr) => {
            if sub == $name {
                return ctx.replay_case::<$case, _>(sub, case, mem::<$case>($test));
            }
        };
    }
    table!(rp);
    eprintln!("harness error: unknown C17 sub-check {sub}");
    2
}

pub const RULE: &str = "binary-FHE level (AddressSanitizer build of pzv-bin): the generated cases of C14 (lookup tables, blind rotation at N 8..64 with extension factors 1..8, also with exact-size scratch windows) and of C15 / C12 (word operations single / multi-thread, bit surgery, encryption / decryption, preparation through circuit bootstrapping on the shipped layout) with every operand an exact-size heap block. Oracle: no sanitizer report, guard regions intact. non-trivial = the owning sub-check's rule.";
