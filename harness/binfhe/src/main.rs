//! pzv-bin: checks on poulpy-bin-fhe (C13, C14, C15, C20).
#![allow(clippy::too_many_arguments, clippy::needless_range_loop, clippy::type_complexity)]

pub mod c13;
pub mod c14;
#[path = "../../scheme/src/gad.rs"]
pub mod gad;
#[path = "../../scheme/src/sch.rs"]
pub mod sch;
pub mod c10b;
pub mod c12b;
pub mod c15;
pub mod c15b;
pub mod c17b;
pub mod spb;
pub mod c20;

use pzv_common::driver::{Ctx, install_panic_hook, read_replay};

fn main() {
    install_panic_hook();
    let args: Vec<String> = std::env::args().skip(1).collect();
    if args.is_empty() {
        eprintln!("usage: pzv-bin <property> [quick|thorough] | replay <file>");
        std::process::exit(2);
    }
    if args[0] == "replay" {
        let (prop, sub, case) = read_replay(&args[1]);
        let ctx = Ctx::from_args(&prop, &[]);
        let code = match prop.as_str() {
            "C10" => c10b::replay(&ctx, &sub, &case),
            "C12" => c12b::replay(&ctx, &sub, &case),
            "C17" => c17b::replay(&ctx, &sub, &case),
            "C13" => c13::replay(&ctx, &sub, &case),
            "C14" => c14::replay(&ctx, &sub, &case),
            "C15" => c15::replay(&ctx, &sub, &case),
            "C20" => c20::replay(&ctx, &sub, &case),
            _ => {
                eprintln!("harness error: pzv-bin cannot replay property {prop}");
                2
            }
        };
        std::process::exit(code);
    }
    let prop = args[0].clone();
    let ctx = Ctx::from_args(&prop, &args[1..]);
    let code = match prop.as_str() {
        "C10" => {
            c10b::run_all(&ctx);
            ctx.finish(c10b::RULE, &["the keys of TestContext are generated per backend from the same fixed seeds: a difference in key generation shows up as a difference of the results"], &[("three_backends_identical", 20)])
        }
        "C12" => {
            c12b::run_all(&ctx);
            ctx.finish(c12b::RULE, &["blind rotation, circuit bootstrapping and the key encryption / preparation routines are reached through fhe_uint_prepare and TestContext only; their own size queries are not audited separately"], &[("multi_thread", 20), ("fhe_uint_prepare", 4)])
        }
        "C17" => {
            c17b::run_all(&ctx);
            ctx.finish(c17b::RULE, &["value oracles and clean panics are ignored here (C14 / C15 / C12 own them)"], &[])
        }
        "C13" => {
            c13::run(&ctx);
            ctx.finish(c13::RULE, c13::ASSUMPTIONS, &[("edge_directed", 100), ("exhaustive_low_bytes", 1)])
        }
        "C14" => {
            c14::run_all(&ctx);
            ctx.finish(c14::RULE, &["table limbs are read through hook H2, the clear GLWE secret through hook H4", "the blind-path noise tolerance is a worst-case bound from the key parameters (every key error coefficient at its truncation bound); cases whose bound exceeds a quarter of the table resolution are run for crashes only and counted as vacuous", "the library's modulus switch is not mirrored: any rounding inside the window (1+|s|_1)/2+1 is accepted"], &[("ext>1", 100), ("all_rotations", 50), ("block_binary_extended", 50), ("standard_binary", 50), ("entry_checked", 50), ("wrap_around_sign", 10), ("modswitch_multi_limb", 50)])
        }
        "C15" => {
            c15::run(&ctx);
            ctx.finish(c15::RULE, &["parameter set = the shipped test layout (N=256, n_lwe=77, rank 2, block-binary LWE key, CGGI) with the keys of TestContext; operand seeds are generated", "the clear secret key is used only for the final decryption"], &[("via_circuit_bootstrapping", 10), ("program_len>=2", 5), ("prepare_custom", 5)])
        }
        "C20" => {
            c20::run_all(&ctx);
            ctx.finish(c20::RULE, &["schedules are perturbed (thread counts, oversubscription by the 16 parallel shards, concurrent workloads), not enumerated: a data race that needs one specific interleaving is only sampled", "no yield-injection hook (H3) is installed; the work-item census is replaced by byte equality of every output bit"], &[("threads_not_dividing", 20), ("threads_exceed_items", 10), ("shared_module_concurrent", 20), ("partial_prepare", 20), ("receiver_held_another_word", 8)])
        }
        _ => {
            eprintln!("harness error: unknown property {prop}");
            2
        }
    };
    std::process::exit(code);
}
