//! pzv-bin: checks on poulpy-bin-fhe (C13, C14, C15, C20).
#![allow(clippy::too_many_arguments, clippy::needless_range_loop, clippy::type_complexity)]

pub mod c13;

use pzv_common::driver::{Ctx, install_panic_hook, read_replay};

fn main() {
    install_panic_hook();
    let args: Vec<String> = std::env::args().skip(1).collect();
    if args.is_empty() {
        eprintln!("usage: pzv-bin <property> [quick|thorough] | replay <file>");
        std::process::exit(2);
    }
    if args[0] == "replay" {
        let (prop, sub, case) = read_replay(&args[1]);
        let ctx = Ctx::from_args(&prop, &[]);
        let code = match prop.as_str() {
            "C13" => c13::replay(&ctx, &sub, &case),
            _ => {
                eprintln!("harness error: pzv-bin cannot replay property {prop}");
                2
            }
        };
        std::process::exit(code);
    }
    let prop = args[0].clone();
    let ctx = Ctx::from_args(&prop, &args[1..]);
    let code = match prop.as_str() {
        "C13" => {
            c13::run(&ctx);
            ctx.finish(c13::RULE, c13::ASSUMPTIONS, &[("edge_directed", 100), ("exhaustive_low_bytes", 1)])
        }
        _ => {
            eprintln!("harness error: unknown property {prop}");
            2
        }
    };
    std::process::exit(code);
}
