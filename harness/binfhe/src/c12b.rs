//! C12, binary-FHE layer: word operations (single- and multi-threaded), encryption / decryption of
//! packed integers and preparation through circuit bootstrapping, each with a scratch window of
//! exactly the bytes of its own size query (two garbage fills) against the run with ample scratch.

use crate::c13::NAMES;
use crate::c15::{Prep, apply_op_s, encrypt_prepared, op_tmp_bytes, seed32};
use crate::with_ctx;
use poulpy_bin_fhe::bdd_arithmetic::{FheUint, FheUintPrepare, FheUintPrepared, tests::test_suite::TestContext};
use poulpy_bin_fhe::blind_rotation::CGGI;
use poulpy_core::EncryptionLayout;
use poulpy_core::layouts::{GGSWLayout, GLWELayout};
use poulpy_hal::{
    api::{ScratchFromBytes, ScratchOwnedAlloc, ScratchOwnedBorrow},
    layouts::{Scratch, ScratchOwned},
    source::Source,
};
use proptest::prelude::*;
use pzv_be::{Be, FullBackend};
use pzv_common::driver::{Ctx, Verdict, guarded, panic_sig};
use serde::{Deserialize, Serialize};

#[derive(Clone, Debug, Serialize, Deserialize)]
pub struct Case {
    pub be: Be,
    /// 0 word op, 1 word op multi-thread, 2 encrypt_sk, 3 decrypt, 4 prepare, 5 prepare multi-thread
    pub kind: u8,
    pub op: u8,
    pub threads: u8,
    pub a: u32,
    pub b: u32,
    pub seed: u64,
}

const GUARD: usize = 256;

pub struct Win {
    buf: Vec<u8>,
    off: usize,
    len: usize,
}

impl Win {
    pub fn new(bytes: usize, fill: u64) -> Win {
        let mut buf = vec![0u8; bytes + 2 * GUARD + 64];
        let base = buf.as_ptr() as usize;
        let off = GUARD + (64 - (base + GUARD) % 64) % 64;
        let mut x = fill | 1;
        for v in buf.iter_mut() {
            x ^= x << 13;
            x ^= x >> 7;
            x ^= x << 17;
            *v = x as u8;
        }
        for i in 0..GUARD {
            buf[off - GUARD + i] = 0xA5 ^ i as u8;
            buf[off + bytes + i] = 0x5A ^ i as u8;
        }
        Win { buf, off, len: bytes }
    }
    /// large window for reference runs: lazily mapped zero pages, garbage in the first 64 KiB only
    pub fn roomy(bytes: usize, fill: u64) -> Win {
        let mut buf = vec![0u8; bytes + 2 * GUARD + 64];
        let base = buf.as_ptr() as usize;
        let off = GUARD + (64 - (base + GUARD) % 64) % 64;
        let mut x = fill | 1;
        for v in buf[off..off + bytes.min(1 << 16)].iter_mut() {
            x ^= x << 13;
            x ^= x >> 7;
            x ^= x << 17;
            *v = x as u8;
        }
        for i in 0..GUARD {
            buf[off - GUARD + i] = 0xA5 ^ i as u8;
            buf[off + bytes + i] = 0x5A ^ i as u8;
        }
        Win { buf, off, len: bytes }
    }
    pub fn scratch<B: FullBackend>(&mut self) -> &mut Scratch<B> {
        let (o, l) = (self.off, self.len);
        Scratch::<B>::from_bytes(&mut self.buf[o..o + l])
    }
    pub fn intact(&self) -> bool {
        let (o, l) = (self.off, self.len);
        self.buf[o - GUARD..o].iter().enumerate().all(|(i, x)| *x == (0xA5 ^ i as u8)) && self.buf[o + l..o + l + GUARD].iter().enumerate().all(|(i, x)| *x == (0x5A ^ i as u8))
    }
}

pub const KINDS: [&str; 6] = ["word_op", "word_op_multi_thread", "fhe_uint_encrypt_sk", "fhe_uint_decrypt", "fhe_uint_prepare", "fhe_uint_prepare_multi_thread"];

fn run<B: FullBackend>(c: &TestContext<CGGI, B>, w: &Case) -> Verdict
where
    ScratchOwned<B>: ScratchOwnedAlloc<B> + ScratchOwnedBorrow<B>,
{
    let m = &c.module;
    let kind = w.kind as usize % KINDS.len();
    // (identity has no size query of its own)
    let opn = NAMES[w.op as usize % (NAMES.len() - 1)];
    let threads = if kind == 1 || kind == 5 { [2usize, 3, 5, 7][w.threads as usize % 4] } else { 1 };
    let glwe_infos: GLWELayout = c.glwe_infos();
    let ggsw_infos: GGSWLayout = c.ggsw_infos();
    let mut roomy = ScratchOwned::<B>::alloc(1 << 24);
    let name: String = match kind {
        0 => opn.to_string(),
        1 => format!("{opn}_multi_thread"),
        k => KINDS[k].to_string(),
    };
    // fixtures (ample scratch)
    let enc = EncryptionLayout::new_from_default_sigma(glwe_infos).unwrap();
    let mut ct: FheUint<Vec<u8>, u32> = FheUint::alloc_from_infos(&glwe_infos);
    ct.encrypt_sk(m, w.a, &c.sk_glwe, &enc, &mut Source::new(seed32(w.seed, 1)), &mut Source::new(seed32(w.seed, 2)), roomy.borrow());
    let (a_p, b_p): (Option<Prep<B>>, Option<Prep<B>>) = if kind <= 1 { (Some(encrypt_prepared(c, w.a, false, w.seed, &mut roomy)), Some(encrypt_prepared(c, w.b, false, w.seed ^ 0xB, &mut roomy))) } else { (None, None) };
    // the call under audit; returns the bytes of its result
    let call = |s: &mut Scratch<B>| -> Vec<u8> {
        let mut out = vec![];
        match kind {
            0 | 1 => {
                let mut res: FheUint<Vec<u8>, u32> = FheUint::alloc_from_infos(&glwe_infos);
                apply_op_s(c, opn, &mut res, a_p.as_ref().unwrap(), b_p.as_ref().unwrap(), threads, s);
                out.extend(crate::c20::bytes_of(&res).iter().flat_map(|x| x.to_le_bytes()));
            }
            2 => {
                let mut res: FheUint<Vec<u8>, u32> = FheUint::alloc_from_infos(&glwe_infos);
                res.encrypt_sk(m, w.b, &c.sk_glwe, &enc, &mut Source::new(seed32(w.seed, 3)), &mut Source::new(seed32(w.seed, 4)), s);
                out.extend(crate::c20::bytes_of(&res).iter().flat_map(|x| x.to_le_bytes()));
            }
            3 => {
                let v: u32 = ct.decrypt(m, &c.sk_glwe, s);
                out.extend(v.to_le_bytes());
            }
            _ => {
                let mut p: Prep<B> = FheUintPrepared::alloc_from_infos(m, &ggsw_infos);
                if threads <= 1 {
                    m.fhe_uint_prepare(&mut p, &ct, &c.bdd_key, s);
                } else {
                    m.fhe_uint_prepare_custom_multi_thread(threads, &mut p, &ct, 0, 32, &c.bdd_key, s);
                }
                // the prepared bits are backend data: observe them through an identity circuit with ample scratch
                let mut res: FheUint<Vec<u8>, u32> = FheUint::alloc_from_infos(&glwe_infos);
                let mut tmp = ScratchOwned::<B>::alloc(1 << 23);
                apply_op_s(c, "identity", &mut res, &p, &p, 1, tmp.borrow());
                out.extend(crate::c20::bytes_of(&res).iter().flat_map(|x| x.to_le_bytes()));
            }
        }
        out
    };
    let probe: FheUint<Vec<u8>, u32> = FheUint::alloc_from_infos(&glwe_infos);
    let bytes = match kind {
        0 | 1 => op_tmp_bytes(c, opn, &probe, threads),
        2 => probe.encrypt_sk_tmp_bytes(m),
        3 => ct.decrypt_tmp_bytes(m),
        _ => {
            let p: Prep<B> = FheUintPrepared::alloc_from_infos(m, &ggsw_infos);
            threads * m.fhe_uint_prepare_tmp_bytes(7, 1, &p, &ct, &c.bdd_key)
        }
    };
    let want = match guarded(|| call(roomy.borrow())) {
        Ok(x) => x,
        Err(p) => return Verdict::fail(format!("{name}|panic-with-slack|{}", panic_sig(&p)), format!("backend={} {name} panics with ample scratch: {p}\ncase={w:?}", w.be.name())),
    };
    for fill in [0x1111_2222_3333_4444u64, 0xDEAD_BEEF_0BAD_F00D] {
        let mut win = Win::new(bytes, fill ^ w.seed);
        match guarded(|| call(win.scratch::<B>())) {
            Err(p) => {
                return Verdict::fail(
                    format!("{name}|exact-scratch-panic|{}", panic_sig(&p)),
                    format!("backend={} {name}: panicked with a scratch window of exactly the {bytes} bytes its size query returns (threads={threads}): {p}\ncase={w:?}", w.be.name()),
                );
            }
            Ok(got) => {
                if !win.intact() {
                    return Verdict::fail(format!("{name}|guard-damaged"), format!("backend={} {name}: bytes outside the exact scratch window were modified\ncase={w:?}", w.be.name()));
                }
                if got != want {
                    return Verdict::fail(format!("{name}|result-depends-on-scratch-size-or-content"), format!("backend={} {name}: result with an exact garbage-filled window differs from the run with ample scratch\ncase={w:?}", w.be.name()));
                }
            }
        }
    }
    let mut cl: Vec<&str> = vec![KINDS[kind], w.be.name()];
    if threads > 1 {
        cl.push("multi_thread");
    }
    Verdict::pass(bytes > 0, &cl)
}

pub fn test(w: &Case) -> Verdict {
    with_ctx!(w.be, |c| run(c, w))
}

pub fn strategy() -> BoxedStrategy<Case> {
    // preparation runs 32 circuit bootstrappings: keep it a small share
    (prop_oneof![Just(Be::FftRef), Just(Be::FftAvx), Just(Be::NttRef)], prop_oneof![6 => 0u8..2, 3 => 2u8..4, 1 => 4u8..6], 0u8..11, 0u8..4, any::<u32>(), any::<u32>(), any::<u64>())
        .prop_map(|(be, kind, op, threads, a, b, seed)| Case { be, kind, op, threads, a, b, seed })
        .boxed()
}

pub fn run_all(ctx: &Ctx) {
    let t = ctx.tier;
    ctx.run_sub("binfhe_exact_scratch", t.pick(256, 4_000), 16, strategy, test);
    ctx.run_sub("binfhe_blind_rotation_exact_scratch", t.pick(4_000, 100_000), 64, crate::c14::br_strategy, crate::c14::test_br_c12);
    ctx.run_sub("binfhe_wrapped_cells", t.pick(512, 20_000), 16, crate::c15b::strategy, test_wrapped);
}

/// the cell-level cases of C15 (swap, selection, retrieval, blind rotations of the BDD layer, circuit bootstrapping)
/// once with ample windows and once with every converted call site on exactly its own query (see `spb.rs`)
pub fn test_wrapped(c: &crate::c15b::Case) -> Verdict {
    use crate::spb::*;
    use pzv_common::driver::{guarded, panic_sig};
    let mut res: Vec<Result<Verdict, String>> = vec![];
    let mut last = ("", 0usize);
    let mut seen: Vec<&'static str> = vec![];
    for exact in [false, true] {
        SP_MODE.with(|m| m.set(Some((exact, 0x6161 + exact as u64))));
        SP_SEEN.with(|s| s.borrow_mut().clear());
        SP_LAST.with(|l| l.set(("", 0)));
        let r = guarded(|| crate::c15b::test(c));
        SP_MODE.with(|m| m.set(None));
        last = SP_LAST.with(|l| l.get());
        seen = SP_SEEN.with(|s| s.borrow().clone());
        if !sp_finish() {
            return Verdict::fail(format!("{}|guard-damaged", last.0), format!("bytes outside a scratch window were written (last exact window: {} with {} bytes)\ncase={c:?}", last.0, last.1));
        }
        if !exact && r.is_err() {
            return Verdict::pass(false, &["panics_with_ample_scratch"]);
        }
        res.push(r);
    }
    match (&res[0], &res[1]) {
        (Ok(_), Err(p)) => Verdict::fail(format!("{}|exact-scratch-panic|{}", last.0, panic_sig(p)), format!("routine={}: panics when its call gets a window of exactly the queried {} bytes (no panic with ample scratch): {p}\ncase={c:?}", last.0, last.1)),
        (Ok(Verdict::Pass(_)), Ok(Verdict::Fail { sig, detail })) => Verdict::fail(format!("{}|oracle-fails-only-with-exact-scratch|{sig}", last.0), format!("the value oracle passes with ample scratch and fails when every call gets exactly its queried bytes: {detail}")),
        (Ok(Verdict::Pass(_)), Ok(_)) => Verdict::pass(!seen.is_empty(), &seen),
        _ => Verdict::pass(false, &["value_oracle_fails_with_ample_scratch"]),
    }
}

pub fn replay(ctx: &Ctx, sub: &str, case: &serde_json::Value) -> i32 {
    if sub == "binfhe_wrapped_cells" {
        return ctx.replay_case::<crate::c15b::Case, _>(sub, case, test_wrapped);
    }
    if sub == "binfhe_blind_rotation_exact_scratch" {
        return ctx.replay_case::<crate::c14::BrCase, _>(sub, case, crate::c14::test_br_c12);
    }
    ctx.replay_case::<Case, _>(sub, case, test)
}

pub const RULE: &str = "binary-FHE layer: cases = (backend in FFT64Ref/FFT64Avx/NTT120Ref, shipped test layout, call in {the 11 word operations single-threaded, the same through *_multi_thread with 2/3/5/7 threads, FheUint::encrypt_sk, FheUint::decrypt, fhe_uint_prepare, fhe_uint_prepare_custom_multi_thread}, generated operands and seeds). The call under audit receives a 64-byte aligned scratch window of exactly the bytes of its own size query (<op>_tmp_bytes, <op>_multi_thread_tmp_bytes, encrypt_sk_tmp_bytes, decrypt_tmp_bytes, threads x fhe_uint_prepare_tmp_bytes) inside guard regions, twice with different garbage; the result bytes must equal those of the run with ample scratch. non-trivial = query > 0. Sub-check binfhe_blind_rotation_exact_scratch: the blind-rotation cases of C14 (N 8..64, extension factor 1..8, standard / block-binary keys, ranks, radices, result sizes): BlindRotationKeyPrepared::execute on a window of exactly execute_tmp_bytes(block_size, extension_factor, result layout, key layout), two garbage fills and two different prior contents of the destination, against the run on ample garbage-filled scratch. Sub-check binfhe_wrapped_cells: the cell-level cases of C15 (word swap, blind selection, stateful retrieval and its inverse, the blind retriever, GLWE / GGSW blind rotations of the BDD layer, circuit bootstrapping to a constant / an exponent) run once with ample windows and once with each of these calls (and ggsw_prepare) on a window of exactly its own *_tmp_bytes query; violation = a panic or a failing value oracle only the exact run shows, or a damaged guard region.";
