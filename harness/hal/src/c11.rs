//! C11 — outputs are fully determined by inputs: no stale data, no stray writes.
//!
//! Oracle-free metamorphic check: every call runs twice from two different garbage
//! fills of every byte the operation must not depend on (outputs incl. non-selected
//! columns and limbs beyond the active size, unused parts of inputs, scratch).

use crate::env::{Kind, Outcome, ScratchMode};
use crate::mods::Be;
use crate::ops::{self, Fam, OpCase, adapt, exec};
use pzv_be::with_backend;
use proptest::prelude::*;
use pzv_common::driver::{Ctx, Verdict};
use pzv_common::model::VClass;

pub use crate::c09::BeCase;

/// audit of one run: stray writes, read-only operands, canaries
pub fn audit(c: &OpCase, be: Be, o: &Outcome) -> Result<(), Verdict> {
    for s in &o.slots {
        if !s.canary_ok {
            return Err(Verdict::fail(
                format!("{}|canary|{}", c.op, s.label),
                format!("backend={} op={}: bytes outside operand `{}` were modified (guard region damaged)\ncase={c:?}", be.name(), c.op, s.label),
            ));
        }
        if let Some(at) = s.stray_writes() {
            let poly = at / (s.n * s.sb).max(1);
            let (limb, col) = (poly / s.cols.max(1), poly % s.cols.max(1));
            let kind = if s.writable { "stray-write" } else { "input-modified" };
            return Err(Verdict::fail(
                format!("{}|{kind}|{}", c.op, s.label),
                format!(
                    "backend={} op={}: operand `{}` byte {at} (limb {limb}, column {col}; selected column {}, active size {} of capacity {}) changed although it is outside the selected output column\ncase={c:?}",
                    be.name(),
                    c.op,
                    s.label,
                    s.col,
                    s.size,
                    s.max_size
                ),
            ));
        }
    }
    Ok(())
}

/// compares everything the op determines (declared ranges of non-scratch writable operands + coefficient image)
pub fn same_outputs(a: &Outcome, b: &Outcome) -> Result<(), String> {
    for (x, y) in a.slots.iter().zip(b.slots.iter()) {
        if x.kind == Kind::Scratch || !x.writable {
            continue;
        }
        let (dx, dy) = (x.declared_post(), y.declared_post());
        if dx != dy {
            let at = dx.iter().zip(dy.iter()).position(|(p, q)| p != q).unwrap_or(0);
            let poly = at / (x.n * x.sb).max(1);
            return Err(format!("operand `{}`: declared output differs at byte {at} of the selected region (limb index {poly} of the selected column)", x.label));
        }
    }
    if a.coeff_out != b.coeff_out {
        return Err("coefficient image of the output differs".into());
    }
    if a.aux != b.aux {
        return Err("auxiliary outputs (random stream position / sizes) differ".into());
    }
    Ok(())
}

pub fn run_case<B: ops::HalBackend>(m: &poulpy_hal::layouts::Module<B>, be: Be, c: &OpCase) -> Verdict {
    let o0 = exec(m, c, 0, ScratchMode::Roomy);
    if let Err(v) = audit(c, be, &o0) {
        return v;
    }
    let o1 = exec(m, c, 1, ScratchMode::Roomy);
    if let Err(v) = audit(c, be, &o1) {
        return v;
    }
    if let Err(e) = same_outputs(&o0, &o1) {
        return Verdict::fail(
            format!("{}|stale-output", c.op),
            format!("backend={} op={}: result depends on the previous contents of writable buffers: {e}\ncase={c:?}", be.name(), c.op),
        );
    }
    // column honoured: moving the target column moves the result and nothing else
    let single_col = o0.slots.iter().find(|s| s.label == "res").map(|s| s.cols > 1).unwrap_or(false) && !c.op.starts_with("vmp") && c.op != "vec_znx_idft_apply_consume";
    let mut moved = false;
    if single_col {
        let mut c2 = c.clone();
        c2.col[0] = (c.col[0] + 1) % c.cols[0];
        adapt(&mut c2);
        if c2.col[0] != c.col[0] && c2.size == c.size && c2.cols == c.cols {
            let o2 = exec(m, &c2, 0, ScratchMode::Roomy);
            if let Err(v) = audit(&c2, be, &o2) {
                return v;
            }
            let (r0, r2) = (o0.slot("res"), o2.slot("res"));
            if r0.declared_post() != r2.declared_post() {
                return Verdict::fail(
                    format!("{}|column-not-honoured", c.op),
                    format!("backend={} op={}: writing to column {} instead of {} changes the result\ncase={c:?}", be.name(), c.op, c2.col[0], c.col[0]),
                );
            }
            moved = true;
        }
    }
    let multi = c.cols[0] > 1 || c.cols[1] > 1;
    let mism = c.size[0] != c.size[1] || c.slack[0] > 0;
    let nt = (multi || mism) && c.cls[1] != VClass::Zero;
    let mut classes: Vec<&str> = vec![&c.op, be.name()];
    if multi {
        classes.push("multi_column");
    }
    if c.slack[0] > 0 {
        classes.push("size_below_capacity");
    }
    if moved {
        classes.push("column_moved");
    }
    if c.size[0] > c.size[1] {
        classes.push("res_longer");
    }
    if c.size[0] < c.size[1] {
        classes.push("res_shorter");
    }
    classes.push(if nt { "nontrivial" } else { "trivial" });
    Verdict::pass(nt, &classes)
}

pub fn test(bc: &BeCase) -> Verdict {
    let mut c = bc.c.clone();
    adapt(&mut c);
    if c.log_n < bc.be.min_log_n() {
        c.log_n = bc.be.min_log_n();
        adapt(&mut c);
    }
    let be = match (c.wide, bc.be) {
        (true, Be::FftRef) => Be::NttRef,
        (true, Be::FftAvx) => Be::NttAvx,
        (_, b) => b,
    };
    with_backend!(be, c.log_n, |m| run_case(m, be, &c))
}

pub fn all_fams() -> Vec<Fam> {
    vec![Fam::Ring, Fam::Norm, Fam::BigRing, Fam::BigNorm, Fam::Dft, Fam::Sample]
}

fn strategy(fams: &'static [Fam], max_log_n: u8) -> BoxedStrategy<BeCase> {
    let ops = ops::ops_of(fams);
    (crate::c09::be_strategy(), ops::case_strategy(ops, max_log_n)).prop_map(|(be, c)| BeCase { be, c }).boxed()
}

// ---------------------------------------------------------------------------
// secret / plaintext sampling on ScalarZnx: the selected column is a function of (parameters, seed) only
// ---------------------------------------------------------------------------

#[derive(Clone, Debug, serde::Serialize, serde::Deserialize)]
pub struct FillCase {
    pub kind: u8,
    pub log_n: u8,
    pub cols: u8,
    pub col: u8,
    pub param: u16,
    pub seed: u64,
    /// sample twice into the same object (re-keying) with this second parameter / seed
    pub again: Option<(u16, u64)>,
}

pub const FILLS: [&str; 5] = ["fill_ternary_prob", "fill_ternary_hw", "fill_binary_prob", "fill_binary_hw", "fill_binary_block"];

fn do_fill(v: &mut poulpy_hal::layouts::ScalarZnx<Vec<u8>>, kind: usize, col: usize, param: u16, n: usize, seed: u64) {
    let mut src = poulpy_hal::source::Source::new(pzv_common::model::SplitMix::new(seed).seed32());
    match kind {
        0 => v.fill_ternary_prob(col, (param % 17) as f64 / 16.0, &mut src),
        1 => v.fill_ternary_hw(col, param as usize % (n + 1), &mut src),
        2 => v.fill_binary_prob(col, (param % 17) as f64 / 16.0, &mut src),
        3 => v.fill_binary_hw(col, param as usize % (n + 1), &mut src),
        _ => {
            // block size dividing n
            let bs = 1usize << (param as usize % (n.trailing_zeros() as usize + 1));
            v.fill_binary_block(col, bs, &mut src)
        }
    }
}

pub fn fill_test(c: &FillCase) -> Verdict {
    use poulpy_hal::layouts::{ScalarZnx, ZnxView, ZnxViewMut};
    let n = 1usize << c.log_n.min(10);
    let cols = c.cols.clamp(1, 3) as usize;
    let col = c.col as usize % cols;
    let kind = c.kind as usize % FILLS.len();
    let name = FILLS[kind];
    let mut clean = ScalarZnx::alloc(n, cols);
    let mut dirty = ScalarZnx::alloc(n, cols);
    let mut r = pzv_common::model::SplitMix::new(c.seed ^ 0xD1);
    for x in dirty.raw_mut().iter_mut() {
        *x = r.signed(40) | 1;
    }
    let before = dirty.raw().to_vec();
    if let Some((p2, s2)) = c.again {
        // an earlier sampling into the same object (other parameter, other seed) must leave no trace
        do_fill(&mut dirty, kind, col, p2, n, s2);
    }
    let (ra, rb) = (pzv_common::driver::guarded(|| do_fill(&mut clean, kind, col, c.param, n, c.seed)), pzv_common::driver::guarded(|| do_fill(&mut dirty, kind, col, c.param, n, c.seed)));
    match (ra, rb) {
        (Ok(()), Ok(())) => {}
        (Err(_), Err(_)) => return Verdict::pass(false, &[name, "rejected_parameters"]),
        (a, b) => return Verdict::fail(format!("{name}|panic-depends-on-prior-content"), format!("{name}: sampling into a zeroed object {:?}, into a used one {:?}\ncase={c:?}", a.err(), b.err())),
    }
    if clean.at(col, 0) != dirty.at(col, 0) {
        let i = (0..n).find(|i| clean.at(col, 0)[*i] != dirty.at(col, 0)[*i]).unwrap();
        return Verdict::fail(format!("{name}|stale-output"), format!("{name}: column {col} of a used object differs from the same sampling into a zeroed object at coefficient {i}: {} vs {} (N={n}, {} earlier sampling)\ncase={c:?}", dirty.at(col, 0)[i], clean.at(col, 0)[i], if c.again.is_some() { "with an" } else { "no" }));
    }
    for other in 0..cols {
        if other != col && (dirty.at(other, 0) != &before[other * n..(other + 1) * n] || clean.at(other, 0).iter().any(|x| *x != 0)) {
            return Verdict::fail(format!("{name}|stray-write"), format!("{name} on column {col} modified column {other}\ncase={c:?}"));
        }
    }
    let mut cl = vec![name];
    if c.again.is_some() {
        cl.push("second_sampling_into_the_same_object");
    }
    if cols > 1 {
        cl.push("multi_column");
    }
    Verdict::pass(n >= 2, &cl)
}

fn fill_strategy() -> BoxedStrategy<FillCase> {
    (0u8..5, 0u8..=10, 1u8..=3, any::<u8>(), any::<u16>(), any::<u64>(), proptest::option::weighted(0.5, (any::<u16>(), any::<u64>())))
        .prop_map(|(kind, log_n, cols, col, param, seed, again)| FillCase { kind, log_n, cols, col, param, seed, again })
        .boxed()
}

pub fn run(ctx: &Ctx) {
    let t = ctx.tier;
    ctx.run_sub("coefficient_ops_two_fills", t.pick(200_000, 2_000_000), 64, || strategy(&[Fam::Ring, Fam::Norm, Fam::BigRing, Fam::BigNorm, Fam::Sample], 8), test);
    ctx.run_sub("dft_ops_two_fills", t.pick(150_000, 1_500_000), 64, || strategy(&[Fam::Dft], 8), test);
    ctx.run_sub("all_ops_two_fills_large_n", t.pick(6_000, 60_000), 64, || strategy(&[Fam::Ring, Fam::Norm, Fam::BigRing, Fam::BigNorm, Fam::Dft, Fam::Sample], 13), test);
    ctx.run_sub("secret_sampling_overwrites", t.pick(100_000, 1_000_000), 64, fill_strategy, fill_test);
}

pub fn replay(ctx: &Ctx, sub: &str, case: &serde_json::Value) -> i32 {
    if sub == "secret_sampling_overwrites" {
        return ctx.replay_case::<FillCase, _>(sub, case, fill_test);
    }
    ctx.replay_case::<BeCase, _>(sub, case, test)
}

pub const RULE: &str = "cases = (backend, any registry op (HAL coefficient, big, DFT, svp, vmp, convolution, sampling), shapes with 1..3 columns and every target column, res shorter/equal/longer than inputs, size < max_size, selections past the input); each case runs twice from two garbage fills of every writable byte and of every byte of the inputs that is not selected, plus once with the target column moved. Checks: declared output identical across fills; no byte outside the selected column changes (other columns, limbs beyond size, read-only operands, guard regions); moving the column moves the result. non-trivial = (multi-column or size mismatch or size < capacity) and input != 0. Sub-check secret_sampling_overwrites: the five ScalarZnx sampling functions (ternary / binary with probability or fixed weight, block-binary) on N = 1..1024, 1..3 columns: sampling into a used object (optionally after an earlier sampling with other parameters) gives exactly the column that the same (parameters, seed) give in a zeroed object, and no other column changes.";
