//! C11 — outputs are fully determined by inputs: no stale data, no stray writes.
//!
//! Oracle-free metamorphic check: every call runs twice from two different garbage
//! fills of every byte the operation must not depend on (outputs incl. non-selected
//! columns and limbs beyond the active size, unused parts of inputs, scratch).

use crate::env::{Kind, Outcome, ScratchMode};
use crate::mods::Be;
use crate::ops::{self, Fam, OpCase, adapt, exec};
use pzv_be::with_backend;
use proptest::prelude::*;
use pzv_common::driver::{Ctx, Verdict};
use pzv_common::model::VClass;

pub use crate::c09::BeCase;

/// audit of one run: stray writes, read-only operands, canaries
pub fn audit(c: &OpCase, be: Be, o: &Outcome) -> Result<(), Verdict> {
    for s in &o.slots {
        if !s.canary_ok {
            return Err(Verdict::fail(
                format!("{}|canary|{}", c.op, s.label),
                format!("backend={} op={}: bytes outside operand `{}` were modified (guard region damaged)\ncase={c:?}", be.name(), c.op, s.label),
            ));
        }
        if let Some(at) = s.stray_writes() {
            let poly = at / (s.n * s.sb).max(1);
            let (limb, col) = (poly / s.cols.max(1), poly % s.cols.max(1));
            let kind = if s.writable { "stray-write" } else { "input-modified" };
            return Err(Verdict::fail(
                format!("{}|{kind}|{}", c.op, s.label),
                format!(
                    "backend={} op={}: operand `{}` byte {at} (limb {limb}, column {col}; selected column {}, active size {} of capacity {}) changed although it is outside the selected output column\ncase={c:?}",
                    be.name(),
                    c.op,
                    s.label,
                    s.col,
                    s.size,
                    s.max_size
                ),
            ));
        }
    }
    Ok(())
}

/// compares everything the op determines (declared ranges of non-scratch writable operands + coefficient image)
pub fn same_outputs(a: &Outcome, b: &Outcome) -> Result<(), String> {
    for (x, y) in a.slots.iter().zip(b.slots.iter()) {
        if x.kind == Kind::Scratch || !x.writable {
            continue;
        }
        let (dx, dy) = (x.declared_post(), y.declared_post());
        if dx != dy {
            let at = dx.iter().zip(dy.iter()).position(|(p, q)| p != q).unwrap_or(0);
            let poly = at / (x.n * x.sb).max(1);
            return Err(format!("operand `{}`: declared output differs at byte {at} of the selected region (limb index {poly} of the selected column)", x.label));
        }
    }
    if a.coeff_out != b.coeff_out {
        return Err("coefficient image of the output differs".into());
    }
    if a.aux != b.aux {
        return Err("auxiliary outputs (random stream position / sizes) differ".into());
    }
    Ok(())
}

pub fn run_case<B: ops::HalBackend>(m: &poulpy_hal::layouts::Module<B>, be: Be, c: &OpCase) -> Verdict {
    let o0 = exec(m, c, 0, ScratchMode::Roomy);
    if let Err(v) = audit(c, be, &o0) {
        return v;
    }
    let o1 = exec(m, c, 1, ScratchMode::Roomy);
    if let Err(v) = audit(c, be, &o1) {
        return v;
    }
    if let Err(e) = same_outputs(&o0, &o1) {
        return Verdict::fail(
            format!("{}|stale-output", c.op),
            format!("backend={} op={}: result depends on the previous contents of writable buffers: {e}\ncase={c:?}", be.name(), c.op),
        );
    }
    // column honoured: moving the target column moves the result and nothing else
    let single_col = o0.slots.iter().find(|s| s.label == "res").map(|s| s.cols > 1).unwrap_or(false) && !c.op.starts_with("vmp") && c.op != "vec_znx_idft_apply_consume";
    let mut moved = false;
    if single_col {
        let mut c2 = c.clone();
        c2.col[0] = (c.col[0] + 1) % c.cols[0];
        adapt(&mut c2);
        if c2.col[0] != c.col[0] && c2.size == c.size && c2.cols == c.cols {
            let o2 = exec(m, &c2, 0, ScratchMode::Roomy);
            if let Err(v) = audit(&c2, be, &o2) {
                return v;
            }
            let (r0, r2) = (o0.slot("res"), o2.slot("res"));
            if r0.declared_post() != r2.declared_post() {
                return Verdict::fail(
                    format!("{}|column-not-honoured", c.op),
                    format!("backend={} op={}: writing to column {} instead of {} changes the result\ncase={c:?}", be.name(), c.op, c2.col[0], c.col[0]),
                );
            }
            moved = true;
        }
    }
    let multi = c.cols[0] > 1 || c.cols[1] > 1;
    let mism = c.size[0] != c.size[1] || c.slack[0] > 0;
    let nt = (multi || mism) && c.cls[1] != VClass::Zero;
    let mut classes: Vec<&str> = vec![&c.op, be.name()];
    if multi {
        classes.push("multi_column");
    }
    if c.slack[0] > 0 {
        classes.push("size_below_capacity");
    }
    if moved {
        classes.push("column_moved");
    }
    if c.size[0] > c.size[1] {
        classes.push("res_longer");
    }
    if c.size[0] < c.size[1] {
        classes.push("res_shorter");
    }
    classes.push(if nt { "nontrivial" } else { "trivial" });
    Verdict::pass(nt, &classes)
}

pub fn test(bc: &BeCase) -> Verdict {
    let mut c = bc.c.clone();
    adapt(&mut c);
    if c.log_n < bc.be.min_log_n() {
        c.log_n = bc.be.min_log_n();
        adapt(&mut c);
    }
    let be = match (c.wide, bc.be) {
        (true, Be::FftRef) => Be::NttRef,
        (true, Be::FftAvx) => Be::NttAvx,
        (_, b) => b,
    };
    with_backend!(be, c.log_n, |m| run_case(m, be, &c))
}

pub fn all_fams() -> Vec<Fam> {
    vec![Fam::Ring, Fam::Norm, Fam::BigRing, Fam::BigNorm, Fam::Dft, Fam::Sample]
}

fn strategy(fams: &'static [Fam], max_log_n: u8) -> BoxedStrategy<BeCase> {
    let ops = ops::ops_of(fams);
    (crate::c09::be_strategy(), ops::case_strategy(ops, max_log_n)).prop_map(|(be, c)| BeCase { be, c }).boxed()
}

pub fn run(ctx: &Ctx) {
    let t = ctx.tier;
    ctx.run_sub("coefficient_ops_two_fills", t.pick(200_000, 2_000_000), 64, || strategy(&[Fam::Ring, Fam::Norm, Fam::BigRing, Fam::BigNorm, Fam::Sample], 8), test);
    ctx.run_sub("dft_ops_two_fills", t.pick(150_000, 1_500_000), 64, || strategy(&[Fam::Dft], 8), test);
    ctx.run_sub("all_ops_two_fills_large_n", t.pick(6_000, 60_000), 64, || strategy(&[Fam::Ring, Fam::Norm, Fam::BigRing, Fam::BigNorm, Fam::Dft, Fam::Sample], 13), test);
}

pub fn replay(ctx: &Ctx, sub: &str, case: &serde_json::Value) -> i32 {
    ctx.replay_case::<BeCase, _>(sub, case, test)
}

pub const RULE: &str = "cases = (backend, any registry op (HAL coefficient, big, DFT, svp, vmp, convolution, sampling), shapes with 1..3 columns and every target column, res shorter/equal/longer than inputs, size < max_size, selections past the input); each case runs twice from two garbage fills of every writable byte and of every byte of the inputs that is not selected, plus once with the target column moved. Checks: declared output identical across fills; no byte outside the selected column changes (other columns, limbs beyond size, read-only operands, guard regions); moving the column moves the result. non-trivial = (multi-column or size mismatch or size < capacity) and input != 0.";
