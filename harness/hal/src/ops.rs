//! The operation registry: every HAL operation described once (admissible-shape
//! canonicalisation + how to call it inside a guarded environment).

use crate::env::{Env, Kind, Outcome, ScratchMode, Slot};
use poulpy_hal::{
    api::*,
    layouts::{Backend, Module, NoiseInfos, VecZnx},
    oep::HalImpl,
    source::Source,
};
use proptest::prelude::*;
use pzv_common::model::VClass;
use rand_core::Rng;
use serde::{Deserialize, Serialize};

pub trait HalBackend: Backend + HalImpl<Self> + 'static {}
impl<T: Backend + HalImpl<T> + 'static> HalBackend for T {}

#[derive(Clone, Debug, Serialize, Deserialize, PartialEq)]
pub struct OpCase {
    pub op: String,
    pub log_n: u8,
    /// second ring degree (switch/split/merge)
    pub log_n2: u8,
    pub b: u8,
    pub b2: u8,
    /// columns of (res, a, b)
    pub cols: [u8; 3],
    /// selected column of (res, a, b)
    pub col: [u8; 3],
    /// active limbs of (res, a, b)
    pub size: [u8; 3],
    /// max_size - size of (res, a, b)
    pub slack: [u8; 3],
    /// signed scalar argument: rotation, Galois element, offset, ...
    pub p: i64,
    /// small unsigned arguments: step / limb index / rows / cnv_offset ...
    pub q: u32,
    pub r: u32,
    /// extra small arguments of the DFT-domain family (step, offset, rows, limb_offset, cnv_offset, pair indices)
    #[serde(default)]
    pub x: [u32; 4],
    /// magnitudes beyond the FFT64 exactness domain (NTT120 backends only)
    #[serde(default)]
    pub wide: bool,
    pub cls: [VClass; 3],
    pub seed: u64,
}

impl OpCase {
    pub fn n(&self) -> usize {
        1usize << self.log_n
    }
    pub fn n2(&self) -> usize {
        1usize << self.log_n2
    }
    pub fn bb(&self) -> usize {
        self.b as usize
    }
    pub fn shape(&self, i: usize) -> (usize, usize, usize, usize) {
        (self.cols[i] as usize, self.size[i] as usize, self.slack[i] as usize, self.col[i] as usize)
    }
}

#[derive(Clone, Copy, Debug, PartialEq, Eq)]
pub enum Fam {
    /// coefficient-domain ring ops (C09)
    Ring,
    /// normalisation / shifts (C08)
    Norm,
    /// big accumulator ring ops (C09)
    BigRing,
    /// big normalisation (C08)
    BigNorm,
    /// DFT-domain (C07)
    Dft,
    /// sampling
    Sample,
}

#[derive(Clone, Copy, Debug)]
pub struct OpInfo {
    pub name: &'static str,
    pub fam: Fam,
    pub scratch: bool,
    /// minimum log_n
    pub min_log_n: u8,
}

macro_rules! op {
    ($n:expr, $f:expr, $s:expr) => {
        OpInfo { name: $n, fam: $f, scratch: $s, min_log_n: 0 }
    };
    ($n:expr, $f:expr, $s:expr, $m:expr) => {
        OpInfo { name: $n, fam: $f, scratch: $s, min_log_n: $m }
    };
}

pub const OPS: &[OpInfo] = &[
    op!("vec_znx_zero", Fam::Ring, false),
    op!("vec_znx_add_into", Fam::Ring, false),
    op!("vec_znx_add_assign", Fam::Ring, false),
    op!("vec_znx_add_scalar_into", Fam::Ring, false),
    op!("vec_znx_add_scalar_assign", Fam::Ring, false),
    op!("vec_znx_sub", Fam::Ring, false),
    op!("vec_znx_sub_assign", Fam::Ring, false),
    op!("vec_znx_sub_negate_assign", Fam::Ring, false),
    op!("vec_znx_sub_scalar", Fam::Ring, false),
    op!("vec_znx_sub_scalar_assign", Fam::Ring, false),
    op!("vec_znx_negate", Fam::Ring, false),
    op!("vec_znx_negate_assign", Fam::Ring, false),
    op!("vec_znx_rotate", Fam::Ring, false),
    op!("vec_znx_rotate_assign", Fam::Ring, true),
    op!("vec_znx_automorphism", Fam::Ring, false),
    op!("vec_znx_automorphism_assign", Fam::Ring, true),
    op!("vec_znx_mul_xp_minus_one", Fam::Ring, false),
    op!("vec_znx_mul_xp_minus_one_assign", Fam::Ring, true),
    op!("vec_znx_split_ring", Fam::Ring, true),
    op!("vec_znx_merge_rings", Fam::Ring, true),
    op!("vec_znx_switch_ring", Fam::Ring, false),
    op!("vec_znx_copy", Fam::Ring, false),
    op!("vec_znx_normalize", Fam::Norm, true),
    op!("vec_znx_normalize_assign", Fam::Norm, true),
    op!("vec_znx_lsh", Fam::Norm, true),
    op!("vec_znx_lsh_add_into", Fam::Norm, true),
    op!("vec_znx_lsh_sub", Fam::Norm, true),
    op!("vec_znx_lsh_assign", Fam::Norm, true),
    op!("vec_znx_rsh", Fam::Norm, true),
    op!("vec_znx_rsh_add_into", Fam::Norm, true),
    op!("vec_znx_rsh_sub", Fam::Norm, true),
    op!("vec_znx_rsh_assign", Fam::Norm, true),
    op!("vec_znx_fill_uniform", Fam::Sample, false),
    op!("vec_znx_fill_normal", Fam::Sample, false),
    op!("vec_znx_add_normal", Fam::Sample, false),
    op!("vec_znx_big_from_small", Fam::BigRing, false),
    op!("vec_znx_big_add_into", Fam::BigRing, false),
    op!("vec_znx_big_add_assign", Fam::BigRing, false),
    op!("vec_znx_big_add_small_into", Fam::BigRing, false),
    op!("vec_znx_big_add_small_assign", Fam::BigRing, false),
    op!("vec_znx_big_sub", Fam::BigRing, false),
    op!("vec_znx_big_sub_assign", Fam::BigRing, false),
    op!("vec_znx_big_sub_negate_assign", Fam::BigRing, false),
    op!("vec_znx_big_sub_small_a", Fam::BigRing, false),
    op!("vec_znx_big_sub_small_assign", Fam::BigRing, false),
    op!("vec_znx_big_sub_small_b", Fam::BigRing, false),
    op!("vec_znx_big_sub_small_negate_assign", Fam::BigRing, false),
    op!("vec_znx_big_negate", Fam::BigRing, false),
    op!("vec_znx_big_negate_assign", Fam::BigRing, false),
    op!("vec_znx_big_automorphism", Fam::BigRing, false),
    op!("vec_znx_big_automorphism_assign", Fam::BigRing, true),
    op!("vec_znx_big_normalize", Fam::BigNorm, true),
    op!("vec_znx_big_normalize_add_assign", Fam::BigNorm, true),
    op!("vec_znx_big_normalize_sub_assign", Fam::BigNorm, true),
    op!("vec_znx_big_normalize_negate", Fam::BigNorm, true),
    op!("vec_znx_big_add_normal", Fam::Sample, false),
];

pub fn op_info(name: &str) -> OpInfo {
    *OPS.iter()
        .chain(crate::ops_dft::DFT_OPS.iter())
        .find(|o| o.name == name)
        .unwrap_or_else(|| panic!("harness: unknown op {name}"))
}

pub fn all_ops() -> Vec<OpInfo> {
    OPS.iter().chain(crate::ops_dft::DFT_OPS.iter()).copied().collect()
}

/// C08 explores shifts beyond the vector's precision (where `vec_znx_rsh_assign` is known to
/// panic); every other consumer of the registry stays inside it by construction.
pub static ALLOW_BEYOND_PRECISION: std::sync::atomic::AtomicBool = std::sync::atomic::AtomicBool::new(false);

fn odd(p: i64) -> i64 {
    p | 1
}

/// Headroom (in bits) available for un-normalised digits of this op's inputs in the
/// `checked` profile (the reference kernels use `+`/`-`, which would trip the
/// overflow checks where user builds wrap).
fn clamp_class(c: VClass, b: usize, max_h: u8) -> VClass {
    match c {
        VClass::Unnorm(h) => VClass::Unnorm(h.min(max_h).max(1)),
        VClass::FullI64 => VClass::Unnorm(max_h),
        VClass::CarryRipple if b >= 62 => VClass::Uniform,
        x => x,
    }
}

/// Canonicalises a raw generated case into an admissible one for its op
/// (construction instead of rejection).  Idempotent.
pub fn adapt(c: &mut OpCase) {
    let info = op_info(&c.op);
    if info.fam == Fam::Dft {
        crate::ops_dft::adapt_dft(c);
        return;
    }
    c.log_n = c.log_n.clamp(info.min_log_n, 12);
    c.b = c.b.clamp(1, 62);
    c.b2 = c.b2.clamp(1, 62);
    for i in 0..3 {
        c.cols[i] = c.cols[i].clamp(1, 3);
        c.col[i] %= c.cols[i];
        c.size[i] = c.size[i].clamp(1, 6);
        c.slack[i] = c.slack[i].min(2);
    }
    let b = c.b as usize;
    // default: values that cannot overflow a single add/sub
    for i in 0..3 {
        c.cls[i] = clamp_class(c.cls[i], b, 61);
    }
    let op = c.op.as_str();
    match op {
        "vec_znx_add_scalar_into" | "vec_znx_sub_scalar" => {
            // limb index must be < min(b.size, res.size)
            let m = c.size[0].min(c.size[2]) as u32;
            c.q %= m;
        }
        "vec_znx_add_scalar_assign" | "vec_znx_sub_scalar_assign" => {
            c.q %= c.size[0] as u32;
        }
        "vec_znx_automorphism" | "vec_znx_automorphism_assign" | "vec_znx_big_automorphism" | "vec_znx_big_automorphism_assign" => {
            c.p = odd(c.p);
        }
        "vec_znx_split_ring" | "vec_znx_merge_rings" => {
            // big ring 2^log_n, small ring 2^log_n2 < 2^log_n, ratio 2..16
            c.log_n = c.log_n.clamp(1, 10);
            if !(c.log_n2 < c.log_n && c.log_n - c.log_n2 <= 4) {
                let ratio_log = ((c.log_n2 % 4) + 1).min(c.log_n);
                c.log_n2 = c.log_n - ratio_log;
            }
        }
        "vec_znx_switch_ring" => {
            c.log_n2 = c.log_n2.min(12);
        }
        "vec_znx_normalize" | "vec_znx_big_normalize" | "vec_znx_big_normalize_add_assign" | "vec_znx_big_normalize_sub_assign"
        | "vec_znx_big_normalize_negate" => {
            // offset range: -(a_bits + 2b) ..= a_bits + 2b
            let a_bits = (c.size[1] as i64) * (c.b2 as i64);
            let lim = a_bits + 2 * (c.b2.max(c.b) as i64);
            c.p = c.p.clamp(-lim, lim);
        }
        "vec_znx_lsh" | "vec_znx_lsh_add_into" | "vec_znx_lsh_sub" | "vec_znx_lsh_assign" | "vec_znx_rsh" | "vec_znx_rsh_add_into"
        | "vec_znx_rsh_sub" | "vec_znx_rsh_assign" => {
            let lim = (c.size[0].max(c.size[1]) as i64 + 2) * b as i64;
            c.p = c.p.rem_euclid(lim + 1);
            if op == "vec_znx_rsh_assign" && !ALLOW_BEYOND_PRECISION.load(std::sync::atomic::Ordering::Relaxed) {
                c.p = c.p.min(c.size[0] as i64 * b as i64);
            }
        }
        "vec_znx_fill_normal" | "vec_znx_add_normal" | "vec_znx_big_add_normal" => {
            // noise precision k in 1..=size*b
            // noise is added to normalised limbs: keep digit + noise * scale far from the i64 range
            c.b = c.b.clamp(2, 50);
            if matches!(c.cls[0], VClass::Unnorm(_) | VClass::FullI64) {
                c.cls[0] = VClass::Uniform;
            }
            let lim = (c.size[0] as i64) * c.b as i64;
            if !(1..=lim).contains(&c.p) {
                c.p = c.p.rem_euclid(lim) + 1;
            }
        }
        _ => {}
    }
    // big accumulators: i64 on FFT64 -> keep magnitudes addable
    if matches!(info.fam, Fam::BigRing | Fam::BigNorm) {
        c.q = c.q.clamp(1, 60);
    }
}

/// limb count of part `i` of a split / merge: half of the cases give the parts limb counts of their own (1..6)
pub fn part_size(c: &OpCase, base: usize, i: usize) -> usize {
    let bits = (c.x[2] as usize) | ((c.x[3] as usize) << 4);
    if c.q & 1 == 1 && (bits >> (i % 8)) & 1 == 1 { 1 + (base + i) % 6 } else { base }
}

/// Runs the case on one backend in a guarded environment.
pub fn exec<B: HalBackend>(m: &Module<B>, c: &OpCase, fill: u64, mode: ScratchMode) -> Outcome {
    let mut env = Env::new(m, c.seed, fill, mode);
    if op_info(&c.op).fam == Fam::Dft {
        crate::ops_dft::exec_dft(&mut env, c);
    } else {
        exec_coeff(&mut env, c);
    }
    env.finish()
}

fn exec_coeff<B: HalBackend>(env: &mut Env<B>, c: &OpCase) {
    let m = env.module;
    let n = c.n();
    let b = c.bb();
    let (rc, rs, rk, ri) = c.shape(0);
    let (ac, as_, ak, ai) = c.shape(1);
    let (bc, bs, bk, bi) = c.shape(2);
    let [c0, c1, c2] = c.cls;
    let op = c.op.as_str();
    match op {
        "vec_znx_zero" => {
            let mut r = env.out("res", Kind::Znx, n, rc, rs, rk, ri);
            m.vec_znx_zero(&mut r.znx_mut(), ri);
            env.push(r);
        }
        "vec_znx_add_into" | "vec_znx_sub" => {
            let mut r = env.out("res", Kind::Znx, n, rc, rs, rk, ri);
            let a = env.in_znx("a", n, ac, as_, ak, ai, c1, b);
            let bb = env.in_znx("b", n, bc, bs, bk, bi, c2, b);
            if op == "vec_znx_add_into" {
                m.vec_znx_add_into(&mut r.znx_mut(), ri, &a.znx(), ai, &bb.znx(), bi);
            } else {
                m.vec_znx_sub(&mut r.znx_mut(), ri, &a.znx(), ai, &bb.znx(), bi);
            }
            env.push(r);
            env.push(a);
            env.push(bb);
        }
        "vec_znx_add_assign" | "vec_znx_sub_assign" | "vec_znx_sub_negate_assign" => {
            let mut r = env.inout_znx("res", n, rc, rs, rk, ri, c0, b);
            let a = env.in_znx("a", n, ac, as_, ak, ai, c1, b);
            match op {
                "vec_znx_add_assign" => m.vec_znx_add_assign(&mut r.znx_mut(), ri, &a.znx(), ai),
                "vec_znx_sub_assign" => m.vec_znx_sub_assign(&mut r.znx_mut(), ri, &a.znx(), ai),
                _ => m.vec_znx_sub_negate_assign(&mut r.znx_mut(), ri, &a.znx(), ai),
            }
            env.push(r);
            env.push(a);
        }
        "vec_znx_add_scalar_into" | "vec_znx_sub_scalar" => {
            let mut r = env.out("res", Kind::Znx, n, rc, rs, rk, ri);
            let a = env.in_scalar("a", n, ac, ai, c1, b);
            let bb = env.in_znx("b", n, bc, bs, bk, bi, c2, b);
            if op == "vec_znx_add_scalar_into" {
                m.vec_znx_add_scalar_into(&mut r.znx_mut(), ri, &a.scalar(), ai, &bb.znx(), bi, c.q as usize);
            } else {
                m.vec_znx_sub_scalar(&mut r.znx_mut(), ri, &a.scalar(), ai, &bb.znx(), bi, c.q as usize);
            }
            env.push(r);
            env.push(a);
            env.push(bb);
        }
        "vec_znx_add_scalar_assign" | "vec_znx_sub_scalar_assign" => {
            let mut r = env.inout_znx("res", n, rc, rs, rk, ri, c0, b);
            let a = env.in_scalar("a", n, ac, ai, c1, b);
            if op == "vec_znx_add_scalar_assign" {
                m.vec_znx_add_scalar_assign(&mut r.znx_mut(), ri, c.q as usize, &a.scalar(), ai);
            } else {
                m.vec_znx_sub_scalar_assign(&mut r.znx_mut(), ri, c.q as usize, &a.scalar(), ai);
            }
            env.push(r);
            env.push(a);
        }
        "vec_znx_negate" | "vec_znx_copy" | "vec_znx_rotate" | "vec_znx_automorphism" | "vec_znx_mul_xp_minus_one" => {
            let mut r = env.out("res", Kind::Znx, n, rc, rs, rk, ri);
            let a = env.in_znx("a", n, ac, as_, ak, ai, c1, b);
            match op {
                "vec_znx_negate" => m.vec_znx_negate(&mut r.znx_mut(), ri, &a.znx(), ai),
                "vec_znx_copy" => m.vec_znx_copy(&mut r.znx_mut(), ri, &a.znx(), ai),
                "vec_znx_rotate" => m.vec_znx_rotate(c.p, &mut r.znx_mut(), ri, &a.znx(), ai),
                "vec_znx_automorphism" => m.vec_znx_automorphism(c.p, &mut r.znx_mut(), ri, &a.znx(), ai),
                _ => m.vec_znx_mul_xp_minus_one(c.p, &mut r.znx_mut(), ri, &a.znx(), ai),
            }
            env.push(r);
            env.push(a);
        }
        "vec_znx_negate_assign" => {
            let mut r = env.inout_znx("res", n, rc, rs, rk, ri, c0, b);
            m.vec_znx_negate_assign(&mut r.znx_mut(), ri);
            env.push(r);
        }
        "vec_znx_rotate_assign" | "vec_znx_automorphism_assign" | "vec_znx_mul_xp_minus_one_assign" => {
            let mut r = env.inout_znx("res", n, rc, rs, rk, ri, c0, b);
            let q = match op {
                "vec_znx_rotate_assign" => m.vec_znx_rotate_assign_tmp_bytes(),
                "vec_znx_automorphism_assign" => m.vec_znx_automorphism_assign_tmp_bytes(),
                _ => m.vec_znx_mul_xp_minus_one_assign_tmp_bytes(),
            };
            let mut s = env.scratch(q);
            match op {
                "vec_znx_rotate_assign" => m.vec_znx_rotate_assign(c.p, &mut r.znx_mut(), ri, s.scratch::<B>()),
                "vec_znx_automorphism_assign" => m.vec_znx_automorphism_assign(c.p, &mut r.znx_mut(), ri, s.scratch::<B>()),
                _ => m.vec_znx_mul_xp_minus_one_assign(c.p, &mut r.znx_mut(), ri, s.scratch::<B>()),
            }
            env.push(r);
            env.push(s);
        }
        "vec_znx_switch_ring" => {
            let n2 = c.n2();
            let mut r = env.out("res", Kind::Znx, n2, rc, rs, rk, ri);
            let a = env.in_znx("a", n, ac, as_, ak, ai, c1, b);
            m.vec_znx_switch_ring(&mut r.znx_mut(), ri, &a.znx(), ai);
            env.push(r);
            env.push(a);
        }
        "vec_znx_split_ring" => {
            let n2 = c.n2();
            let parts = n / n2;
            let a = env.in_znx("a", n, ac, as_, ak, ai, c1, b);
            const LABELS: [&str; 16] = ["p0", "p1", "p2", "p3", "p4", "p5", "p6", "p7", "p8", "p9", "p10", "p11", "p12", "p13", "p14", "p15"];
            let mut outs: Vec<Slot> = (0..parts).map(|i| env.out(LABELS[i], Kind::Znx, n2, rc, part_size(c, rs, i), rk, ri)).collect();
            let mut s = env.scratch(m.vec_znx_split_ring_tmp_bytes());
            {
                let mut views: Vec<VecZnx<&mut [u8]>> = outs.iter_mut().map(|o| o.znx_mut()).collect();
                m.vec_znx_split_ring(&mut views, ri, &a.znx(), ai, s.scratch::<B>());
            }
            for o in outs {
                env.push(o);
            }
            env.push(a);
            env.push(s);
        }
        "vec_znx_merge_rings" => {
            let n2 = c.n2();
            let parts = n / n2;
            const LABELS: [&str; 16] = ["p0", "p1", "p2", "p3", "p4", "p5", "p6", "p7", "p8", "p9", "p10", "p11", "p12", "p13", "p14", "p15"];
            let ins: Vec<Slot> = (0..parts).map(|i| env.in_znx(LABELS[i], n2, ac, part_size(c, as_, i), ak, ai, c1, b)).collect();
            let mut r = env.out("res", Kind::Znx, n, rc, rs, rk, ri);
            let mut s = env.scratch(m.vec_znx_merge_rings_tmp_bytes());
            {
                let views: Vec<VecZnx<&[u8]>> = ins.iter().map(|o| o.znx()).collect();
                m.vec_znx_merge_rings(&mut r.znx_mut(), ri, &views, ai, s.scratch::<B>());
            }
            env.push(r);
            for o in ins {
                env.push(o);
            }
            env.push(s);
        }
        "vec_znx_normalize" => {
            let mut r = env.out("res", Kind::Znx, n, rc, rs, rk, ri);
            let a = env.in_znx("a", n, ac, as_, ak, ai, c1, c.b2 as usize);
            let mut s = env.scratch(m.vec_znx_normalize_tmp_bytes());
            m.vec_znx_normalize(&mut r.znx_mut(), b, c.p, ri, &a.znx(), c.b2 as usize, ai, s.scratch::<B>());
            env.push(r);
            env.push(a);
            env.push(s);
        }
        "vec_znx_normalize_assign" => {
            let mut r = env.inout_znx("res", n, rc, rs, rk, ri, c0, b);
            let mut s = env.scratch(m.vec_znx_normalize_tmp_bytes());
            m.vec_znx_normalize_assign(b, &mut r.znx_mut(), ri, s.scratch::<B>());
            env.push(r);
            env.push(s);
        }
        "vec_znx_lsh" | "vec_znx_rsh" => {
            let mut r = env.out("res", Kind::Znx, n, rc, rs, rk, ri);
            let a = env.in_znx("a", n, ac, as_, ak, ai, c1, b);
            let k = c.p as usize;
            if op == "vec_znx_lsh" {
                let mut s = env.scratch(m.vec_znx_lsh_tmp_bytes());
                m.vec_znx_lsh(b, k, &mut r.znx_mut(), ri, &a.znx(), ai, s.scratch::<B>());
                env.push(s);
            } else {
                let mut s = env.scratch(m.vec_znx_rsh_tmp_bytes());
                m.vec_znx_rsh(b, k, &mut r.znx_mut(), ri, &a.znx(), ai, s.scratch::<B>());
                env.push(s);
            }
            env.push(r);
            env.push(a);
        }
        "vec_znx_lsh_add_into" | "vec_znx_lsh_sub" | "vec_znx_rsh_add_into" | "vec_znx_rsh_sub" => {
            let mut r = env.inout_znx("res", n, rc, rs, rk, ri, c0, b);
            let a = env.in_znx("a", n, ac, as_, ak, ai, c1, b);
            let k = c.p as usize;
            let q = if op.starts_with("vec_znx_lsh") { m.vec_znx_lsh_tmp_bytes() } else { m.vec_znx_rsh_tmp_bytes() };
            let mut s = env.scratch(q);
            match op {
                "vec_znx_lsh_add_into" => m.vec_znx_lsh_add_into(b, k, &mut r.znx_mut(), ri, &a.znx(), ai, s.scratch::<B>()),
                "vec_znx_lsh_sub" => m.vec_znx_lsh_sub(b, k, &mut r.znx_mut(), ri, &a.znx(), ai, s.scratch::<B>()),
                "vec_znx_rsh_add_into" => m.vec_znx_rsh_add_into(b, k, &mut r.znx_mut(), ri, &a.znx(), ai, s.scratch::<B>()),
                _ => m.vec_znx_rsh_sub(b, k, &mut r.znx_mut(), ri, &a.znx(), ai, s.scratch::<B>()),
            }
            env.push(r);
            env.push(a);
            env.push(s);
        }
        "vec_znx_lsh_assign" | "vec_znx_rsh_assign" => {
            let mut r = env.inout_znx("res", n, rc, rs, rk, ri, c0, b);
            let k = c.p as usize;
            if op == "vec_znx_lsh_assign" {
                let mut s = env.scratch(m.vec_znx_lsh_tmp_bytes());
                m.vec_znx_lsh_assign(b, k, &mut r.znx_mut(), ri, s.scratch::<B>());
                env.push(s);
            } else {
                let mut s = env.scratch(m.vec_znx_rsh_tmp_bytes());
                m.vec_znx_rsh_assign(b, k, &mut r.znx_mut(), ri, s.scratch::<B>());
                env.push(s);
            }
            env.push(r);
        }
        "vec_znx_fill_uniform" | "vec_znx_fill_normal" | "vec_znx_add_normal" => {
            let mut seed = [0u8; 32];
            seed[..8].copy_from_slice(&c.seed.to_le_bytes());
            seed[8] = c.q as u8;
            let mut src = Source::new(seed);
            let ni = NoiseInfos::new(c.p as usize, 3.2, 19.2).unwrap();
            let mut r = if op == "vec_znx_add_normal" {
                env.inout_znx("res", n, rc, rs, rk, ri, c0, b)
            } else {
                env.out("res", Kind::Znx, n, rc, rs, rk, ri)
            };
            if op == "vec_znx_fill_normal" {
                // documented behaviour as implemented: only the limb that carries the noise is written
                let limb = (c.p as usize).div_ceil(b) - 1;
                r.declared.clear();
                r.declare_col(ri, limb..limb + 1);
            }
            match op {
                "vec_znx_fill_uniform" => m.vec_znx_fill_uniform(b, &mut r.znx_mut(), ri, &mut src),
                "vec_znx_fill_normal" => m.vec_znx_fill_normal(b, &mut r.znx_mut(), ri, ni, &mut src),
                _ => m.vec_znx_add_normal(b, &mut r.znx_mut(), ri, ni, &mut src),
            }
            if op == "vec_znx_fill_normal" || op == "vec_znx_add_normal" {
                // only the target limb is touched by add_normal; fill_normal determines it too
                // (declared stays the whole column: untouched limbs of an InOut keep their input)
            }
            env.aux.push(src.next_u64());
            env.push(r);
        }
        // ------------------------------------------------------------------ big
        "vec_znx_big_from_small" => {
            let mut r = env.out("res", Kind::Big, n, rc, rs, rk, ri);
            let a = env.in_znx("a", n, ac, as_, ak, ai, c1, b);
            m.vec_znx_big_from_small(&mut r.big_mut::<B>(), ri, &a.znx(), ai);
            env.push(r);
            env.push(a);
        }
        "vec_znx_big_add_into" | "vec_znx_big_sub" => {
            let bits = c.q;
            let ext = c1 == VClass::ExtremePos;
            let mut r = env.out("res", Kind::Big, n, rc, rs, rk, ri);
            let a = env.in_big("a", n, ac, as_, ak, ai, bits, ext);
            let bb = env.in_big("b", n, bc, bs, bk, bi, bits, ext);
            if op == "vec_znx_big_add_into" {
                m.vec_znx_big_add_into(&mut r.big_mut::<B>(), ri, &a.big::<B>(), ai, &bb.big::<B>(), bi);
            } else {
                m.vec_znx_big_sub(&mut r.big_mut::<B>(), ri, &a.big::<B>(), ai, &bb.big::<B>(), bi);
            }
            env.push(r);
            env.push(a);
            env.push(bb);
        }
        "vec_znx_big_add_assign" | "vec_znx_big_sub_assign" | "vec_znx_big_sub_negate_assign" => {
            let bits = c.q;
            let ext = c1 == VClass::ExtremePos;
            let mut r = env.inout_big("res", n, rc, rs, rk, ri, bits, ext);
            let a = env.in_big("a", n, ac, as_, ak, ai, bits, ext);
            match op {
                "vec_znx_big_add_assign" => m.vec_znx_big_add_assign(&mut r.big_mut::<B>(), ri, &a.big::<B>(), ai),
                "vec_znx_big_sub_assign" => m.vec_znx_big_sub_assign(&mut r.big_mut::<B>(), ri, &a.big::<B>(), ai),
                _ => m.vec_znx_big_sub_negate_assign(&mut r.big_mut::<B>(), ri, &a.big::<B>(), ai),
            }
            env.push(r);
            env.push(a);
        }
        "vec_znx_big_add_small_into" | "vec_znx_big_sub_small_b" => {
            let mut r = env.out("res", Kind::Big, n, rc, rs, rk, ri);
            let a = env.in_big("a", n, ac, as_, ak, ai, c.q, false);
            let bb = env.in_znx("b", n, bc, bs, bk, bi, c2, b);
            if op == "vec_znx_big_add_small_into" {
                m.vec_znx_big_add_small_into(&mut r.big_mut::<B>(), ri, &a.big::<B>(), ai, &bb.znx(), bi);
            } else {
                m.vec_znx_big_sub_small_b(&mut r.big_mut::<B>(), ri, &a.big::<B>(), ai, &bb.znx(), bi);
            }
            env.push(r);
            env.push(a);
            env.push(bb);
        }
        "vec_znx_big_sub_small_a" => {
            let mut r = env.out("res", Kind::Big, n, rc, rs, rk, ri);
            let a = env.in_znx("a", n, ac, as_, ak, ai, c1, b);
            let bb = env.in_big("b", n, bc, bs, bk, bi, c.q, false);
            m.vec_znx_big_sub_small_a(&mut r.big_mut::<B>(), ri, &a.znx(), ai, &bb.big::<B>(), bi);
            env.push(r);
            env.push(a);
            env.push(bb);
        }
        "vec_znx_big_add_small_assign" | "vec_znx_big_sub_small_assign" | "vec_znx_big_sub_small_negate_assign" => {
            let mut r = env.inout_big("res", n, rc, rs, rk, ri, c.q, false);
            let a = env.in_znx("a", n, ac, as_, ak, ai, c1, b);
            match op {
                "vec_znx_big_add_small_assign" => m.vec_znx_big_add_small_assign(&mut r.big_mut::<B>(), ri, &a.znx(), ai),
                "vec_znx_big_sub_small_assign" => m.vec_znx_big_sub_small_assign(&mut r.big_mut::<B>(), ri, &a.znx(), ai),
                _ => m.vec_znx_big_sub_small_negate_assign(&mut r.big_mut::<B>(), ri, &a.znx(), ai),
            }
            env.push(r);
            env.push(a);
        }
        "vec_znx_big_negate" | "vec_znx_big_automorphism" => {
            let mut r = env.out("res", Kind::Big, n, rc, rs, rk, ri);
            let a = env.in_big("a", n, ac, as_, ak, ai, c.q, false);
            if op == "vec_znx_big_negate" {
                m.vec_znx_big_negate(&mut r.big_mut::<B>(), ri, &a.big::<B>(), ai);
            } else {
                m.vec_znx_big_automorphism(c.p, &mut r.big_mut::<B>(), ri, &a.big::<B>(), ai);
            }
            env.push(r);
            env.push(a);
        }
        "vec_znx_big_negate_assign" => {
            let mut r = env.inout_big("res", n, rc, rs, rk, ri, c.q, false);
            m.vec_znx_big_negate_assign(&mut r.big_mut::<B>(), ri);
            env.push(r);
        }
        "vec_znx_big_automorphism_assign" => {
            let mut r = env.inout_big("res", n, rc, rs, rk, ri, c.q, false);
            let mut s = env.scratch(m.vec_znx_big_automorphism_assign_tmp_bytes());
            m.vec_znx_big_automorphism_assign(c.p, &mut r.big_mut::<B>(), ri, s.scratch::<B>());
            env.push(r);
            env.push(s);
        }
        "vec_znx_big_normalize" | "vec_znx_big_normalize_negate" => {
            let mut r = env.out("res", Kind::Znx, n, rc, rs, rk, ri);
            let a = env.in_big("a", n, ac, as_, ak, ai, c.q, c1 == VClass::ExtremePos);
            let mut s = env.scratch(m.vec_znx_big_normalize_tmp_bytes());
            if op == "vec_znx_big_normalize" {
                m.vec_znx_big_normalize(&mut r.znx_mut(), b, c.p, ri, &a.big::<B>(), c.b2 as usize, ai, s.scratch::<B>());
            } else {
                m.vec_znx_big_normalize_negate(&mut r.znx_mut(), b, c.p, ri, &a.big::<B>(), c.b2 as usize, ai, s.scratch::<B>());
            }
            env.push(r);
            env.push(a);
            env.push(s);
        }
        "vec_znx_big_normalize_add_assign" | "vec_znx_big_normalize_sub_assign" => {
            let mut r = env.inout_znx("res", n, rc, rs, rk, ri, c0, b);
            let a = env.in_big("a", n, ac, as_, ak, ai, c.q, c1 == VClass::ExtremePos);
            let mut s = env.scratch(m.vec_znx_big_normalize_tmp_bytes());
            if op == "vec_znx_big_normalize_add_assign" {
                m.vec_znx_big_normalize_add_assign(&mut r.znx_mut(), b, c.p, ri, &a.big::<B>(), c.b2 as usize, ai, s.scratch::<B>());
            } else {
                m.vec_znx_big_normalize_sub_assign(&mut r.znx_mut(), b, c.p, ri, &a.big::<B>(), c.b2 as usize, ai, s.scratch::<B>());
            }
            env.push(r);
            env.push(a);
            env.push(s);
        }
        "vec_znx_big_add_normal" => {
            let mut seed = [0u8; 32];
            seed[..8].copy_from_slice(&c.seed.to_le_bytes());
            let mut src = Source::new(seed);
            let ni = NoiseInfos::new(c.p as usize, 3.2, 19.2).unwrap();
            let mut r = env.inout_big("res", n, rc, rs, rk, ri, c.q.min(40), false);
            m.vec_znx_big_add_normal(b, &mut r.big_mut::<B>(), ri, ni, &mut src);
            env.aux.push(src.next_u64());
            env.push(r);
        }
        _ => panic!("harness: op {op} not wired"),
    }
}

// ---------------------------------------------------------------------------
// generator
// ---------------------------------------------------------------------------

pub fn vclass_strategy() -> impl Strategy<Value = VClass> {
    prop_oneof![
        4 => Just(VClass::Uniform),
        1 => Just(VClass::ExtremePos),
        1 => Just(VClass::ExtremeNeg),
        1 => Just(VClass::ExtremeMixed),
        2 => (1u8..=61).prop_map(VClass::Unnorm),
        1 => Just(VClass::CarryRipple),
        1 => Just(VClass::Sparse),
        1 => Just(VClass::Zero),
        1 => Just(VClass::Monomial),
    ]
}

/// rotation / Galois / offset arguments with the interesting classes
pub fn p_strategy() -> impl Strategy<Value = i64> {
    prop_oneof![
        4 => -70i64..=70,
        2 => -20000i64..=20000,
        1 => prop_oneof![Just(0i64), Just(1), Just(-1), Just(i64::MAX), Just(i64::MIN + 1), Just(i64::MIN), Just(1 << 40), Just(-(1 << 40) + 3)],
        1 => any::<i64>(),
    ]
}

pub fn case_strategy(ops: Vec<&'static str>, max_log_n: u8) -> BoxedStrategy<OpCase> {
    let nops = ops.len();
    (
        (0..nops, 0u8..=max_log_n, 0u8..=12, 1u8..=62, 1u8..=62),
        ([1u8..=3, 1u8..=3, 1u8..=3], [0u8..3, 0u8..3, 0u8..3]),
        ([1u8..=6, 1u8..=6, 1u8..=6], [0u8..=2, 0u8..=2, 0u8..=2]),
        (p_strategy(), any::<u32>(), any::<u32>(), [0u32..16, 0u32..16, 0u32..16, 0u32..16], proptest::bool::weighted(0.2)),
        ([vclass_strategy(), vclass_strategy(), vclass_strategy()], any::<u64>()),
    )
        .prop_map(move |((oi, log_n, log_n2, b, b2), (cols, col), (size, slack), (p, q, r, x, wide), (cls, seed))| {
            let mut c = OpCase {
                op: ops[oi].to_string(),
                log_n,
                log_n2,
                b,
                b2,
                cols,
                col,
                size,
                slack,
                p,
                q,
                r,
                x,
                wide,
                cls,
                seed,
            };
            adapt(&mut c);
            c
        })
        .boxed()
}

pub fn ops_of(fams: &[Fam]) -> Vec<&'static str> {
    all_ops().iter().filter(|o| fams.contains(&o.fam)).map(|o| o.name).collect()
}
