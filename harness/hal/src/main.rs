//! pzv-hal: HAL-level checks (C07–C12, C17).  Usage:
//!   pzv-hal <C07|C08|...> [quick|thorough]
//!   pzv-hal replay <file>
#![allow(clippy::too_many_arguments, clippy::needless_range_loop, clippy::type_complexity)]

pub mod c07;
pub mod c08;
pub mod c09;
pub mod c10;
pub mod c11;
pub mod c12;
pub mod c17;
pub mod c17arena;
pub mod env;
pub mod mods;
pub mod ops;
pub mod ops_dft;

use pzv_common::driver::{Ctx, install_panic_hook, read_replay};

fn main() {
    install_panic_hook();
    let args: Vec<String> = std::env::args().skip(1).collect();
    if args.is_empty() {
        eprintln!("usage: pzv-hal <property> [quick|thorough] | replay <file>");
        std::process::exit(2);
    }
    if args[0] == "replay" {
        let (prop, sub, case) = read_replay(&args[1]);
        let ctx = Ctx::from_args(&prop, &[]);
        let code = match prop.as_str() {
            "C07" => c07::replay(&ctx, &sub, &case),
            "C08" => c08::replay(&ctx, &sub, &case),
            "C09" => c09::replay(&ctx, &sub, &case),
            "C10" => c10::replay(&ctx, &sub, &case),
            "C11" => c11::replay(&ctx, &sub, &case),
            "C12" => c12::replay(&ctx, &sub, &case),
            "C17" => c17::replay(&ctx, &sub, &case),
            _ => {
                eprintln!("harness error: pzv-hal cannot replay property {prop}");
                2
            }
        };
        std::process::exit(code);
    }
    let prop = args[0].clone();
    let ctx = Ctx::from_args(&prop, &args[1..]);
    let code = match prop.as_str() {
        "C07" => {
            c07::run(&ctx);
            ctx.finish(
                c07::RULE,
                &["exactness is demanded only inside the conservative magnitude domain derived in DESIGN C07; behaviour between that domain and the library's practical limit is not judged", "transform-domain inputs are produced with the library's own forward transform and outputs are read back with its inverse transform (both are themselves ops under test here)"],
                &[("extreme_aligned", 100), ("large_n", 20), ("wide_magnitude", 100)],
            )
        }
        "C08" => {
            c08::run(&ctx);
            ctx.finish(
                c08::RULE,
                &["un-normalised digits are limited to 61 bits (i64 accumulators) so that the reference kernels' + and << cannot overflow in the checked profile", "i64 encode/decode is exercised for k <= 62 at full magnitude and for larger k with values that fit the element type"],
                &[("truncating_output", 100), ("cross_radix", 100), ("carry_ripple", 50)],
            )
        }
        "C09" => {
            c09::run(&ctx);
            ctx.finish(
                c09::RULE,
                &["checked profile: un-normalised digits limited to 61 bits so that a single add/sub cannot overflow (the reference kernels use +/-); the full-i64 wrapping domain is exercised by C10 in the release profile", "FFT64 modules cannot be created for N=1, so N=1 runs on the NTT120 backends only"],
                &[("nontrivial", 100)],
            )
        }
        "C10" => {
            c10::run(&ctx);
            ctx.finish(c10::RULE, &["FFT64 transform-domain cases stay inside the C07 exactness domain: outside it the two FFT64 backends legitimately differ (FMA vs separate rounding)"], &[("n_below_simd_width", 100), ("four_backends", 100)])
        }
        "C11" => {
            c11::run(&ctx);
            ctx.finish(c11::RULE, &["transform-domain outputs are compared as raw bytes on the same backend"], &[("multi_column", 100), ("size_below_capacity", 100), ("column_moved", 100)])
        }
        "C12" => {
            c12::run(&ctx);
            ctx.finish(c12::RULE, &["this binary covers the HAL layer; the core / CKKS / binary-FHE (operation, tmp_bytes) pairs are covered by the scheme-level parts of C12"], &[("query_not_multiple_of_64", 50)])
        }
        "C17" => {
            c17::run(&ctx);
            ctx.finish(c17::RULE, &["AddressSanitizer instruments Rust code and intrinsics of the harness and of the poulpy crates (std is not rebuilt); inline/global assembly is covered by guard margins only", "uninitialised reads are not detected here (no MSan: it needs -Zbuild-std and does not understand the assembly); C11/C12 two-fill determinism approximates them"], &[("n_not_multiple_of_8", 100), ("size_below_capacity", 100), ("deserialise_corrupted", 50)])
        }
        _ => {
            eprintln!("harness error: unknown property {prop}");
            2
        }
    };
    std::process::exit(code);
}
