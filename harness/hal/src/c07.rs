//! C07 — DFT-domain products equal exact negacyclic (bivariate) convolution.
//!
//! Oracle: schoolbook integer arithmetic in i128 (pzv_common::model), truncated to the
//! requested limbs with the zero-fill rule.  Inside the magnitude domain (enforced by
//! construction in `ops_dft::adapt_dft`) equality is demanded limb for limb, bit for bit.

use crate::env::{Outcome, ScratchMode};
use crate::mods::Be;
use crate::ops::{self, Fam, OpCase, adapt, exec};
use pzv_be::with_backend;
use proptest::prelude::*;
use pzv_common::driver::{Ctx, Verdict};
use pzv_common::model::*;

pub use crate::c09::BeCase;

type Col = Vec<Vec<i64>>;

fn zeros(n: usize) -> Vec<i128> {
    vec![0i128; n]
}

fn w(v: &[i64]) -> Vec<i128> {
    v.iter().map(|x| *x as i128).collect()
}

fn nnz(v: &[i64]) -> usize {
    v.iter().filter(|x| **x != 0).count()
}

/// acc += x (*) y, iterating over the sparser operand
fn mac(acc: &mut [i128], x: &[i64], y: &[i64]) {
    if nnz(x) <= nnz(y) { negacyclic_mac_i128(acc, x, y) } else { negacyclic_mac_i128(acc, y, x) }
}

fn limb_or_zero<'a>(c: &'a Col, j: usize, z: &'a [i64]) -> &'a [i64] {
    if j < c.len() { &c[j] } else { z }
}

fn znx_src(o: &Outcome, label: &str) -> Col {
    o.slot(label).pre_col()
}

fn masked(col: &Col, take: usize, mask: i64) -> Col {
    let mut v: Col = col.iter().take(take).cloned().collect();
    if let Some(last) = v.last_mut() {
        for x in last.iter_mut() {
            *x &= mask;
        }
    }
    v
}

/// bivariate convolution with limb offset: res_l = sum_{i+j = l+off} a_i (*) b_j
fn bivariate(n: usize, rs: usize, off: usize, a: &Col, b: &Col) -> Vec<Vec<i128>> {
    let mut out = vec![zeros(n); rs];
    for (l, o) in out.iter_mut().enumerate() {
        let t = l + off;
        for i in 0..a.len() {
            if t >= i && t - i < b.len() {
                mac(o, &a[i], &b[t - i]);
            }
        }
    }
    out
}

pub fn expected(c: &OpCase, o: &Outcome) -> Vec<Vec<i128>> {
    let n = c.n();
    let rs = c.size[0] as usize;
    let z = vec![0i64; n];
    let op = c.op.as_str();
    let (ai, bi) = (c.col[1] as usize, c.col[2] as usize);
    let mut out: Vec<Vec<i128>> = vec![];
    match op {
        "vec_znx_dft_apply" | "vec_znx_dft_copy" => {
            let a = if op == "vec_znx_dft_apply" { znx_src(o, "a") } else { o.src("a")[ai].clone() };
            let (step, offset) = (c.x[0] as usize, c.x[1] as usize);
            for j in 0..rs {
                out.push(w(limb_or_zero(&a, offset + j * step, &z)));
            }
        }
        "vec_znx_idft_apply" | "vec_znx_idft_apply_tmpa" | "vec_znx_idft_apply_consume" => {
            let a = &o.src("a")[ai];
            for j in 0..rs {
                out.push(w(limb_or_zero(a, j, &z)));
            }
        }
        "vec_znx_dft_add_into" | "vec_znx_dft_sub" => {
            let (a, b) = (&o.src("a")[ai], &o.src("b")[bi]);
            for j in 0..rs {
                let (x, y) = (limb_or_zero(a, j, &z), limb_or_zero(b, j, &z));
                out.push(x.iter().zip(y).map(|(p, q)| if op == "vec_znx_dft_add_into" { *p as i128 + *q as i128 } else { *p as i128 - *q as i128 }).collect());
            }
        }
        "vec_znx_dft_add_assign" | "vec_znx_dft_sub_assign" | "vec_znx_dft_sub_negate_assign" => {
            let (r, a) = (&o.src("res")[c.col[0] as usize], &o.src("a")[ai]);
            for j in 0..rs {
                let (x, y) = (limb_or_zero(r, j, &z), limb_or_zero(a, j, &z));
                out.push(
                    x.iter()
                        .zip(y)
                        .map(|(p, q)| match op {
                            "vec_znx_dft_add_assign" => *p as i128 + *q as i128,
                            "vec_znx_dft_sub_assign" => *p as i128 - *q as i128,
                            _ => *q as i128 - *p as i128,
                        })
                        .collect(),
                );
            }
        }
        "vec_znx_dft_add_scaled_assign" => {
            let (r, a) = (&o.src("res")[c.col[0] as usize], &o.src("a")[ai]);
            let s = c.p;
            for j in 0..rs {
                let x = limb_or_zero(r, j, &z);
                let y: &[i64] = if s >= 0 {
                    limb_or_zero(a, j + s as usize, &z)
                } else if j as i64 + s >= 0 {
                    limb_or_zero(a, (j as i64 + s) as usize, &z)
                } else {
                    &z
                };
                out.push(x.iter().zip(y).map(|(p, q)| *p as i128 + *q as i128).collect());
            }
        }
        "vec_znx_dft_zero" => {
            for _ in 0..rs {
                out.push(zeros(n));
            }
        }
        "svp_prepare" | "svp_apply_dft" | "svp_apply_dft_to_dft" | "svp_apply_dft_to_dft_assign" => {
            let s = {
                let sl = o.slot("a");
                let off = sl.n * sl.col * 8;
                sl.pre[off..off + sl.n * 8].chunks_exact(8).map(|c| i64::from_le_bytes(c.try_into().unwrap())).collect::<Vec<i64>>()
            };
            let b: Col = match op {
                "svp_prepare" | "svp_apply_dft" => znx_src(o, "b"),
                "svp_apply_dft_to_dft" => o.src("b")[bi].clone(),
                _ => o.src("res")[c.col[0] as usize].clone(),
            };
            for j in 0..rs {
                let mut acc = zeros(n);
                if j < b.len() {
                    mac(&mut acc, &s, &b[j]);
                }
                out.push(acc);
            }
        }
        "vmp_prepare" | "vmp_apply_dft" | "vmp_apply_dft_to_dft" | "vmp_zero" => {
            let rows = c.x[0] as usize;
            let (cols_in, cols_out, msize) = (c.cols[1] as usize, c.cols[0] as usize, c.size[2] as usize);
            let a = o.src("a");
            let a_size = c.size[1] as usize;
            let lo = c.x[3] as usize;
            let mat = o.slot("mat");
            // entry (row, col_in) is a VecZnx(n, cols_out, msize): limb-major, column-minor
            let mat_poly = |r: usize, ci: usize, co: usize, l: usize| -> Vec<i64> {
                let entry = (r * cols_in + ci) * (cols_out * msize * n);
                let off = (entry + n * (l * cols_out + co)) * 8;
                mat.pre[off..off + n * 8].chunks_exact(8).map(|c| i64::from_le_bytes(c.try_into().unwrap())).collect()
            };
            for co in 0..cols_out {
                for l in 0..rs {
                    let mut acc = zeros(n);
                    if op != "vmp_zero" && l + lo < msize {
                        for r in 0..rows.min(a_size) {
                            for ci in 0..cols_in {
                                mac(&mut acc, &a[ci][r], &mat_poly(r, ci, co, l + lo));
                            }
                        }
                    }
                    out.push(acc);
                }
            }
        }
        "cnv_prepare_left" | "cnv_prepare_right" | "cnv_prepare_self" | "cnv_apply_dft" | "cnv_pairwise_apply_dft" => {
            let selfp = op == "cnv_prepare_self";
            let (pl, pr) = (o.aux[0] as usize, o.aux[1] as usize);
            let a_all = o.src("a");
            let b_all = if selfp { a_all } else { o.src("b") };
            let mask = c.p;
            let (mask_l, mask_r) = match op {
                "cnv_prepare_left" => (mask, !0i64),
                "cnv_prepare_right" => (!0i64, mask),
                _ => (mask, mask),
            };
            let prep_l = |ci: usize| masked(&a_all[ci], pl.min(c.size[1] as usize), mask_l);
            let b_src_size = if selfp { c.size[1] as usize } else { c.size[2] as usize };
            let prep_r = |ci: usize| masked(&b_all[ci], pr.min(b_src_size), mask_r);
            let off = c.x[0] as usize;
            if op == "cnv_pairwise_apply_dft" && c.x[1] != c.x[2] {
                let (i, j) = (c.x[1] as usize, c.x[2] as usize);
                let add = |x: Col, y: Col| -> Col { x.iter().zip(y.iter()).map(|(p, q)| p.iter().zip(q).map(|(u, v)| u + v).collect()).collect() };
                let a = add(prep_l(i), prep_l(j));
                let b = add(prep_r(i), prep_r(j));
                out = bivariate(n, rs, off, &a, &b);
            } else if op == "cnv_pairwise_apply_dft" {
                let i = c.x[1] as usize;
                out = bivariate(n, rs, off, &prep_l(i), &prep_r(i));
            } else {
                let bcol = if selfp { ai } else { bi };
                out = bivariate(n, rs, off, &prep_l(ai), &prep_r(bcol));
            }
        }
        "cnv_by_const_apply" => {
            let a = znx_src(o, "a");
            let cst = &o.src("const")[0][0];
            let off = c.x[0] as usize;
            for l in 0..rs {
                let t = l + off;
                let mut acc = zeros(n);
                for i in 0..a.len() {
                    if t >= i && t - i < cst.len() {
                        let k = cst[t - i] as i128;
                        for (x, y) in acc.iter_mut().zip(a[i].iter()) {
                            *x += *y as i128 * k;
                        }
                    }
                }
                out.push(acc);
            }
        }
        _ => panic!("harness: no C07 model for {op}"),
    }
    out
}

pub fn run_case<B: ops::HalBackend>(m: &poulpy_hal::layouts::Module<B>, be: Be, c: &OpCase) -> Verdict {
    let o = exec(m, c, 0, ScratchMode::Roomy);
    let exp = expected(c, &o);
    let got = o.coeff_out.as_ref().expect("harness: op without coefficient image");
    if exp.len() != got.len() {
        return Verdict::fail("harness|shape", format!("model has {} limbs, implementation {}", exp.len(), got.len()));
    }
    for (j, (e, g)) in exp.iter().zip(got).enumerate() {
        for (i, (x, y)) in e.iter().zip(g).enumerate() {
            if x != y {
                let past = match c.op.as_str() {
                    "vec_znx_dft_apply" => (c.x[1] as usize + j * c.x[0] as usize) >= c.size[1] as usize,
                    "vmp_apply_dft_to_dft" => c.x[3] > 0,
                    _ => false,
                };
                let region = if past { "selection-past-end" } else { "value" };
                let fam = if be.is_fft() { "fft64" } else { "ntt120" };
                return Verdict::fail(
                    format!("{}|{region}|{fam}", c.op),
                    format!("backend={} op={} limb {j} coeff {i}: exact integer result {x}, implementation {y}\ncase={c:?}", be.name(), c.op),
                );
            }
        }
    }
    let mism = c.size[0] != c.size[1] || c.size[1] != c.size[2] || c.cols[0] > 1;
    let extreme = matches!(c.cls[1], VClass::ExtremePos | VClass::ExtremeNeg | VClass::ExtremeMixed);
    let nt = (mism || extreme || c.log_n >= 12 || c.x[3] > 0) && c.cls[1] != VClass::Zero;
    let mut classes: Vec<&str> = vec![&c.op, be.name(), c.cls[1].name()];
    if c.log_n >= 12 {
        classes.push("large_n");
    }
    if c.wide {
        classes.push("wide_magnitude");
    }
    if extreme {
        classes.push("extreme_aligned");
    }
    classes.push(if nt { "nontrivial" } else { "trivial" });
    Verdict::pass(nt, &classes)
}

pub fn test(bc: &BeCase) -> Verdict {
    let mut c = bc.c.clone();
    adapt(&mut c);
    // wide magnitudes are outside the FFT64 exactness domain: run them on the NTT120 twin
    let be = match (c.wide, bc.be) {
        (true, Be::FftRef) => Be::NttRef,
        (true, Be::FftAvx) => Be::NttAvx,
        (_, b) => b,
    };
    with_backend!(be, c.log_n, |m| run_case(m, be, &c))
}

fn strategy(max_log_n: u8, ops_filter: Option<&'static str>) -> BoxedStrategy<BeCase> {
    let mut ops = ops::ops_of(&[Fam::Dft]);
    if let Some(f) = ops_filter {
        ops.retain(|o| o.starts_with(f));
    }
    (crate::c09::be_strategy(), ops::case_strategy(ops, max_log_n)).prop_map(|(be, c)| BeCase { be, c }).boxed()
}

pub fn run(ctx: &Ctx) {
    let t = ctx.tier;
    ctx.run_sub("dft_ops_vs_exact_small_n", t.pick(300_000, 3_000_000), 64, || strategy(7, None), test);
    ctx.run_sub("dft_ops_vs_exact_mid_n", t.pick(40_000, 400_000), 64, || strategy(11, None), test);
    ctx.run_sub("dft_ops_vs_exact_large_n", t.pick(4_000, 40_000), 64, || strategy(16, None), test);
}

pub fn replay(ctx: &Ctx, sub: &str, case: &serde_json::Value) -> i32 {
    ctx.replay_case::<BeCase, _>(sub, case, test)
}

pub const RULE: &str = "cases = (backend, DFT-domain op, N = 2^3..2^16, sizes 1..6 (res/a/b independent), cols 1..3, (step, offset) incl. selections past the last limb, limb_offset 0..size+1, cnv_offset 0..a+b, pair indices, top-limb masks, value class incl. all digits at +-extreme with aligned or mixed signs); digit width chosen by construction inside the backend's exactness domain (FFT64: N*terms*2^(2(b-1))*(8 log2 N + 8) < 2^51; NTT120: < 2^116; 'wide' cases run on NTT120 only); oracle = schoolbook negacyclic / bivariate product in i128 with zero-fill rule, exact equality after the library's inverse transform. non-trivial = (size mismatch or multi-column or extreme aligned digits or N >= 2^12 or limb_offset > 0) and input != 0.";
