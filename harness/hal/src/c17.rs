//! C17 — safe API calls never access memory outside the buffers they were given (HAL layer).
//!
//! This check is meant to run in the AddressSanitizer build (`./check C17` builds it): every
//! operand and every scratch window is then an exact-size heap block with ASan redzones
//! directly next to it, so any out-of-bounds read or write of Rust or intrinsic code
//! aborts with a report (turned into a VIOLATION line by the death callback).  A second
//! pass uses guard margins with a position-dependent pattern for code ASan cannot
//! instrument (the assembly FFT kernels).  Uninitialised reads are approximated by the
//! two-fill determinism of C11/C12.

use crate::c11::audit;
use crate::env::{MARGIN, MARGIN_NOW, ScratchMode};
use crate::mods::Be;
use crate::ops::{self, Fam, OpCase, adapt, exec};
use poulpy_hal::layouts::{VecZnx, ZnxInfos, ZnxView, ZnxViewMut};
use proptest::prelude::*;
use pzv_be::with_backend;
use pzv_common::driver::{Ctx, Verdict, guarded, panic_sig};
use pzv_common::model::VClass;
use std::sync::atomic::Ordering;

pub use crate::c09::BeCase;

fn run_case<B: ops::HalBackend>(m: &poulpy_hal::layouts::Module<B>, be: Be, c: &OpCase) -> Verdict {
    // roomy scratch and exact scratch: both must stay inside their windows
    for mode in [ScratchMode::Roomy, ScratchMode::Exact] {
        let info = ops::op_info(&c.op);
        if mode == ScratchMode::Exact && !info.scratch {
            continue;
        }
        match guarded(|| exec(m, c, 0, mode)) {
            Ok(o) => {
                if let Err(v) = audit(c, be, &o) {
                    return v;
                }
            }
            Err(p) => {
                // a clean panic is not a memory-safety violation (and exact-scratch panics are C12's subject)
                if mode == ScratchMode::Roomy {
                    return Verdict::fail(format!("{}|panic|{}", c.op, panic_sig(&p)), format!("backend={} op={} panicked: {p}\ncase={c:?}", be.name(), c.op));
                }
            }
        }
    }
    let n = c.n();
    let nt = c.cls[1] != VClass::Zero;
    let mut cl: Vec<&str> = vec![&c.op, be.name()];
    if n % 8 != 0 {
        cl.push("n_not_multiple_of_8");
    }
    if c.slack[0] > 0 || c.slack[1] > 0 {
        cl.push("size_below_capacity");
    }
    if c.size[0] % 2 == 1 {
        cl.push("odd_limb_count");
    }
    Verdict::pass(nt, &cl)
}

pub fn test(bc: &BeCase) -> Verdict {
    let mut c = bc.c.clone();
    adapt(&mut c);
    if c.log_n < bc.be.min_log_n() {
        c.log_n = bc.be.min_log_n();
        adapt(&mut c);
    }
    let be = match (c.wide, bc.be) {
        (true, Be::FftRef) => Be::NttRef,
        (true, Be::FftAvx) => Be::NttAvx,
        (_, b) => b,
    };
    with_backend!(be, c.log_n, |m| run_case(m, be, &c))
}

fn strategy(fams: &'static [Fam], max_log_n: u8) -> BoxedStrategy<BeCase> {
    let ops = ops::ops_of(fams);
    (crate::c09::be_strategy(), ops::case_strategy(ops, max_log_n)).prop_map(|(be, c)| BeCase { be, c }).boxed()
}

// ---------------------------------------------------------------------------
// histories: resize / reallocate / deserialise, then use
// ---------------------------------------------------------------------------

#[derive(Clone, Debug, serde::Serialize, serde::Deserialize)]
pub struct HistCase {
    pub be: Be,
    pub log_n: u8,
    pub cols: u8,
    pub size: u8,
    pub steps: Vec<(u8, u8)>,
    pub seed: u64,
}

fn hist_run<B: ops::HalBackend>(m: &poulpy_hal::layouts::Module<B>, c: &HistCase) -> Verdict {
    use poulpy_hal::api::*;
    use poulpy_hal::layouts::{ReaderFrom, ScratchOwned, WriterTo};
    let n = m.n();
    let cols = c.cols.clamp(1, 3) as usize;
    let size = c.size.clamp(1, 6) as usize;
    let mut a = VecZnx::alloc(n, cols, size);
    let mut r = pzv_common::model::SplitMix::new(c.seed);
    for x in a.raw_mut().iter_mut() {
        *x = r.signed(20);
    }
    let mut scratch = ScratchOwned::<B>::alloc(m.vec_znx_normalize_tmp_bytes().max(1 << 12));
    let mut classes = vec![c.be.name().to_string()];
    for (op, arg) in &c.steps {
        match op % 5 {
            0 => {
                // shrink / regrow within capacity
                let ns = 1 + (*arg as usize) % a.max_size().max(1);
                a.set_size(ns.min(a.max_size()));
                classes.push("set_size".into());
            }
            1 => {
                let ns = 1 + (*arg as usize) % 7;
                a.reallocate_limbs(ns);
                classes.push("reallocate_limbs".into());
            }
            2 => {
                // serialise, corrupt a header field, read back into the same object
                let mut bytes = vec![];
                a.write_to(&mut bytes).unwrap();
                let off = ((*arg as usize) % 5) * 8;
                let v = [0u64, 1, 1 << 61, u64::MAX, 7][(*arg as usize / 5) % 5];
                bytes[off..off + 8].copy_from_slice(&v.to_le_bytes());
                let _ = a.read_from(&mut &bytes[..]);
                classes.push("deserialise_corrupted".into());
            }
            3 => {
                let mut bytes = vec![];
                a.write_to(&mut bytes).unwrap();
                let mut b = VecZnx::alloc(n, cols, a.size().max(1) + (*arg as usize % 2));
                let _ = b.read_from(&mut &bytes[..]);
                a = b;
                classes.push("deserialise_valid".into());
            }
            _ => {}
        }
        // use it: every accessor the safe API offers, plus a HAL call on each column
        if a.size() > 0 && a.cols() > 0 && a.n() == n {
            let mut s = 0i64;
            for i in 0..a.cols() {
                for j in 0..a.size() {
                    s = s.wrapping_add(a.at(i, j).iter().fold(0i64, |x, y| x.wrapping_add(*y)));
                }
                m.vec_znx_normalize_assign(17, &mut a, i, scratch.borrow());
            }
            let ms = a.max_size();
            a.set_size(ms);
            for i in 0..a.cols() {
                for j in 0..a.size() {
                    s = s.wrapping_add(a.at(i, j)[n - 1]);
                }
            }
            std::hint::black_box(s);
        }
    }
    let cl: Vec<&str> = classes.iter().map(|x| x.as_str()).collect();
    Verdict::pass(c.steps.len() >= 2, &cl)
}

pub fn hist_test(c: &HistCase) -> Verdict {
    let log_n = c.log_n.clamp(c.be.min_log_n(), 7);
    with_backend!(c.be, log_n, |m| hist_run(m, c))
}

fn hist_strategy() -> BoxedStrategy<HistCase> {
    (crate::c09::be_strategy(), 0u8..=7, 1u8..=3, 1u8..=6, proptest::collection::vec((any::<u8>(), any::<u8>()), 1..8), any::<u64>())
        .prop_map(|(be, log_n, cols, size, steps, seed)| HistCase { be, log_n, cols, size, steps, seed })
        .boxed()
}

pub fn run(ctx: &Ctx) {
    let t = ctx.tier;
    let armed = pzv_common::driver::arm_sanitizer_callback(&ctx.property, &ctx.root);
    eprintln!("[C17] sanitizer runtime {}", if armed { "present: death callback armed" } else { "ABSENT: guard-margin mode only" });
    // pass 1: exact-size heap blocks (ASan redzones adjacent)
    MARGIN_NOW.store(0, Ordering::Relaxed);
    ctx.run_sub("exact_blocks_coefficient_ops", t.pick(60_000, 600_000), 64, || strategy(&[Fam::Ring, Fam::Norm, Fam::BigRing, Fam::BigNorm, Fam::Sample], 7), test);
    ctx.run_sub("exact_blocks_dft_ops", t.pick(40_000, 400_000), 64, || strategy(&[Fam::Dft], 7), test);
    ctx.run_sub("exact_blocks_large_n", t.pick(2_000, 20_000), 64, || strategy(&[Fam::Ring, Fam::Norm, Fam::BigRing, Fam::BigNorm, Fam::Dft, Fam::Sample], 12), test);
    ctx.run_sub("histories_resize_deserialise_use", t.pick(20_000, 200_000), 32, hist_strategy, hist_test);
    ctx.run_sub("scratch_arena_histories", t.pick(200_000, 2_000_000), 64, crate::c17arena::arena_strategy, crate::c17arena::arena_test);
    // pass 2: guard margins (assembly kernels)
    MARGIN_NOW.store(MARGIN, Ordering::Relaxed);
    ctx.run_sub("guard_margins_dft_ops", t.pick(20_000, 200_000), 64, || strategy(&[Fam::Dft], 10), test);
    let mut rep = pzv_common::driver::SubReport {
        name: "sanitizer".into(),
        ..Default::default()
    };
    rep.extra.insert("address_sanitizer_armed".into(), serde_json::json!(armed));
    ctx.add_report(rep);
}

pub fn replay(ctx: &Ctx, sub: &str, case: &serde_json::Value) -> i32 {
    let _ = pzv_common::driver::arm_sanitizer_callback(&ctx.property, &ctx.root);
    if !sub.starts_with("guard") {
        MARGIN_NOW.store(0, Ordering::Relaxed);
    }
    match sub {
        "histories_resize_deserialise_use" => ctx.replay_case::<HistCase, _>(sub, case, hist_test),
        "scratch_arena_histories" => ctx.replay_case::<crate::c17arena::ArenaCase, _>(sub, case, crate::c17arena::arena_test),
        _ => ctx.replay_case::<BeCase, _>(sub, case, test),
    }
}

pub const RULE: &str = "cases = registry operations of C07-C12 (all four backends, N from 1, odd limb counts, 1..3 columns, size < max_size, roomy and exact-size scratch) executed in the AddressSanitizer build with every operand and scratch window as an exact-size heap block; histories of set_size / reallocate_limbs / write_to + corrupted or valid read_from followed by use of every accessor and a HAL call; histories of takes / splits (take_slice of three element types, take_vec_znx / scalar_znx / vec_znx_dft / vec_znx_big, split_at_mut with a take inside the split-off part, split_mut) on a scratch window of 0..4096 bytes starting at any alignment, against a byte-level model of the arena rule (64-byte re-alignment; a take that does not fit panics; regions and remainder inside the window, disjoint; available() equals the model); a second pass with patterned guard margins for assembly kernels. Oracle: no sanitizer report, guard regions intact, no panic. non-trivial = input != 0 (ops) / >= 2 history steps.";
