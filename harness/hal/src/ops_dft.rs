//! DFT-domain part of the registry (C07 family).
use crate::env::Env;
use crate::ops::{HalBackend, OpCase, OpInfo};

pub const DFT_OPS: &[OpInfo] = &[];

pub fn adapt_dft(_c: &mut OpCase) {}

pub fn exec_dft<B: HalBackend>(_env: &mut Env<B>, c: &OpCase) {
    panic!("harness: op {} not wired", c.op);
}
