//! DFT-domain part of the registry (C07 family): forward/inverse transforms,
//! transform-domain arithmetic, svp, vmp and bivariate convolution.
//!
//! Transform-domain *inputs* are produced from generated coefficient vectors with the
//! library's own forward transform; the coefficient sources are recorded in
//! `Env::srcs` so that the model can compute the expected integer result.  Outputs in
//! the transform domain are brought back with the library's inverse transform into
//! `Env::coeff_out`.

use crate::env::{Env, Kind, Slot};
use crate::ops::{Fam, HalBackend, OpCase, OpInfo};
use poulpy_hal::{
    api::*,
    layouts::{DataViewMut, VecZnx, VecZnxBig, VecZnxDft, ZnxInfos, ZnxView, ZnxViewMut},
};
use pzv_common::model::{VClass, gen_column};

macro_rules! op {
    ($n:expr, $s:expr) => {
        OpInfo { name: $n, fam: Fam::Dft, scratch: $s, min_log_n: 3 }
    };
}

pub const DFT_OPS: &[OpInfo] = &[
    op!("vec_znx_dft_apply", false),
    op!("vec_znx_idft_apply", true),
    op!("vec_znx_idft_apply_tmpa", false),
    op!("vec_znx_idft_apply_consume", false),
    op!("vec_znx_dft_add_into", false),
    op!("vec_znx_dft_add_assign", false),
    op!("vec_znx_dft_add_scaled_assign", false),
    op!("vec_znx_dft_sub", false),
    op!("vec_znx_dft_sub_assign", false),
    op!("vec_znx_dft_sub_negate_assign", false),
    op!("vec_znx_dft_copy", false),
    op!("vec_znx_dft_zero", false),
    op!("svp_prepare", false),
    op!("svp_apply_dft", false),
    op!("svp_apply_dft_to_dft", false),
    op!("svp_apply_dft_to_dft_assign", false),
    op!("vmp_prepare", true),
    op!("vmp_apply_dft", true),
    op!("vmp_apply_dft_to_dft", true),
    op!("vmp_zero", false),
    op!("cnv_prepare_left", true),
    op!("cnv_prepare_right", true),
    op!("cnv_prepare_self", true),
    op!("cnv_apply_dft", true),
    op!("cnv_pairwise_apply_dft", true),
    op!("cnv_by_const_apply", true),
];

fn ceil_log2(x: usize) -> u32 {
    if x <= 1 { 0 } else { usize::BITS - (x - 1).leading_zeros() }
}

/// number of integer products accumulated per output coefficient (besides the N of the ring)
pub fn product_terms(c: &OpCase) -> Option<usize> {
    let op = c.op.as_str();
    if op.starts_with("svp") {
        Some(1)
    } else if op.starts_with("vmp") && op != "vmp_zero" {
        Some((c.x[0] as usize).min(c.size[1] as usize).max(1) * c.cols[1] as usize)
    } else if op.starts_with("cnv") {
        let t = (c.size[1].min(c.size[2]) as usize).max(1);
        Some(if op == "cnv_pairwise_apply_dft" { 4 * t } else { t })
    } else {
        None
    }
}

/// largest digit width (bits incl. sign) for which every value class keeps the
/// exact result inside the FFT64 exactness domain  M*(8 log2 N + 8) < 2^51
pub fn fft_safe_bits(c: &OpCase) -> u8 {
    let log_n = c.log_n as u32;
    let guard = ceil_log2(8 * log_n as usize + 8);
    match product_terms(c) {
        Some(t) => {
            // N * t * 2^(2(b-1)) * guard < 2^51
            let budget = 51i64 - log_n as i64 - ceil_log2(t) as i64 - guard as i64 - 1;
            ((budget / 2) + 1).clamp(1, 50) as u8
        }
        None => {
            // linear: at most 2 summands (scaled assign: 2) of magnitude 2^(b-1)
            (51i64 - guard as i64 - 2).clamp(1, 50) as u8
        }
    }
}

pub fn ntt_safe_bits(c: &OpCase) -> u8 {
    match product_terms(c) {
        Some(t) => {
            let budget = 116i64 - c.log_n as i64 - ceil_log2(t) as i64;
            ((budget / 2) + 1).clamp(1, 52) as u8
        }
        None => 58,
    }
}

pub fn adapt_dft(c: &mut OpCase) {
    let op = c.op.clone();
    let op = op.as_str();
    c.log_n = c.log_n.clamp(3, 16);
    for i in 0..3 {
        c.cols[i] = c.cols[i].clamp(1, 3);
        c.size[i] = c.size[i].clamp(1, 6);
        c.slack[i] = c.slack[i].min(2);
    }
    // prepared containers have no capacity slack
    if op.starts_with("vmp") || op.starts_with("cnv") || op.starts_with("svp") {
        c.slack[1] = 0;
        c.slack[2] = 0;
    }
    if op == "vec_znx_idft_apply_consume" {
        c.slack = [0; 3];
        c.cols[0] = c.cols[1];
        c.size[0] = c.size[1];
    }
    match op {
        "vec_znx_dft_apply" | "vec_znx_dft_copy" => {
            c.x[0] = 1 + c.x[0].wrapping_sub(1) % 4; // step
            c.x[1] %= c.x[0] + 3; // offset (may point past the last limb)
        }
        "vec_znx_dft_add_scaled_assign" => {
            if c.p.unsigned_abs() > 4 {
                c.p = c.p.rem_euclid(9) - 4;
            }
            // for positive scales the documented rule and the natural one coincide only when `a` is not longer than `res`
            if c.p > 0 {
                c.size[1] = c.size[1].min(c.size[0]);
            }
        }
        "vmp_prepare" | "vmp_apply_dft" | "vmp_apply_dft_to_dft" | "vmp_zero" => {
            c.x[0] = 1 + c.x[0].wrapping_sub(1) % 6; // rows
            c.x[3] %= c.size[2] as u32 + 2; // limb_offset
            if op != "vmp_apply_dft_to_dft" {
                c.x[3] = 0;
            }
            // res has cols_out columns, a has cols_in columns
        }
        "cnv_apply_dft" | "cnv_pairwise_apply_dft" | "cnv_by_const_apply" | "cnv_prepare_left" | "cnv_prepare_right" | "cnv_prepare_self" => {
            c.x[0] %= c.size[1] as u32 + c.size[2] as u32 + 1; // cnv_offset
            if op == "cnv_pairwise_apply_dft" {
                // the two prepared operands may have different column counts: only the selected columns must exist in both
                let mc = c.cols[1].min(c.cols[2]) as u32;
                c.x[1] %= mc;
                c.x[2] %= mc;
            }
            // mask: !0 << t with t < digit width (what msb_mask_bottom_limb produces); fixed after the
            // digit width is final, see below
            // (a third of the cases use no mask, independently of the prepared sizes that q % 9 selects)
            if c.q / 9 % 3 == 0 {
                c.p = !0i64;
            }
        }
        _ => {}
    }
    for i in 0..3 {
        c.col[i] %= c.cols[i];
    }
    // large rings: keep the exact oracle affordable with one structured operand
    if c.log_n > 9 && product_terms(c).is_some() {
        c.cls[2] = VClass::MonoEach;
        if op == "cnv_prepare_self" {
            c.cls[1] = VClass::MonoEach;
        }
    }
    if c.log_n > 12 {
        for i in 0..3 {
            c.size[i] = c.size[i].min(3);
        }
        c.x[0] = if op.starts_with("vmp") { c.x[0].min(3) } else { c.x[0] };
    }
    let maxb = if c.wide { ntt_safe_bits(c) } else { fft_safe_bits(c) };
    c.b = c.b.clamp(1, maxb.max(1));
    c.b2 = c.b;
    if op.starts_with("cnv") && c.p != !0i64 {
        let t = c.p.trailing_zeros();
        let is_mask = c.p != 0 && c.p == (!0i64) << t && (t as u8) < c.b;
        if !is_mask {
            c.p = (!0i64) << (c.p.rem_euclid(c.b as i64) as u32);
        }
    }
    for i in 0..3 {
        c.cls[i] = match c.cls[i] {
            VClass::Unnorm(_) | VClass::FullI64 | VClass::CarryRipple => VClass::ExtremeMixed,
            x => x,
        };
    }
}

// ---------------------------------------------------------------------------
// helpers on Env
// ---------------------------------------------------------------------------

fn alloc_znx(n: usize, vals: &[Vec<i64>]) -> VecZnx<Vec<u8>> {
    let mut v = VecZnx::alloc(n, 1, vals.len().max(1));
    for (j, l) in vals.iter().enumerate() {
        v.at_mut(0, j).copy_from_slice(l);
    }
    v
}

/// transform-domain input: every column `cols_filled` gets valid data (forward transform of a
/// generated coefficient vector); everything else is fill-dependent garbage.
#[allow(clippy::too_many_arguments)]
fn in_dft<B: HalBackend>(env: &mut Env<B>, label: &'static str, n: usize, cols: usize, size: usize, slack: usize, col: usize, fill_cols: &[usize], class: VClass, b: usize) -> Slot {
    let sb = env.sb(Kind::Dft);
    let mut s = env.mk(label, Kind::Dft, n, cols, size, slack, sb, 1, 1);
    let g = env.next_seed(true);
    s.buf.fill_garbage(g);
    let mut src = vec![vec![]; cols];
    for &ci in fill_cols {
        let seed = env.next_seed(false);
        let vals = gen_column(class, b, n, size, seed);
        let tmp = alloc_znx(n, &vals);
        env.module.vec_znx_dft_apply(1, 0, &mut s.dft_mut::<B>(), ci, &tmp, 0);
        src[ci] = vals;
    }
    env.srcs.push((label, src));
    s.col = col;
    s.snapshot();
    s
}

/// brings column `col` (limbs 0..size) of a transform-domain slot back to coefficients
fn coeff_of_dft<B: HalBackend>(env: &Env<B>, s: &Slot, col: usize) -> Vec<Vec<i128>> {
    let m = env.module;
    let size = s.size;
    let mut tmp = m.vec_znx_dft_alloc(1, size);
    {
        let pb = s.poly_bytes();
        let dst: &mut [u8] = tmp.data_mut().as_mut();
        for j in 0..size {
            let o = s.off(col, j);
            dst[j * pb..(j + 1) * pb].copy_from_slice(&s.buf.data()[o..o + pb]);
        }
    }
    let big = m.vec_znx_idft_apply_consume(tmp);
    big_to_i128::<B, _>(&big, 0)
}

fn big_to_i128<B: HalBackend, D: poulpy_hal::layouts::DataRef>(big: &VecZnxBig<D, B>, col: usize) -> Vec<Vec<i128>> {
    let n = big.n();
    let sb = B::size_of_scalar_big();
    (0..big.size())
        .map(|j| {
            let sl = big.at(col, j);
            let bytes: &[u8] = unsafe { std::slice::from_raw_parts(sl.as_ptr() as *const u8, n * sb) };
            if sb == 8 {
                bytes.chunks_exact(8).map(|c| i64::from_le_bytes(c.try_into().unwrap()) as i128).collect()
            } else {
                bytes.chunks_exact(16).map(|c| i128::from_le_bytes(c.try_into().unwrap())).collect()
            }
        })
        .collect()
}

fn slot_big_col(s: &Slot) -> Vec<Vec<i128>> {
    (0..s.size).map(|j| s.i128_at(s.buf.data(), s.col, j)).collect()
}

pub fn exec_dft<B: HalBackend>(env: &mut Env<B>, c: &OpCase) {
    let m = env.module;
    let n = c.n();
    let b = c.bb();
    let (rc, rs, rk, ri) = c.shape(0);
    let (ac, as_, ak, ai) = c.shape(1);
    let (bc, bs, bk, bi) = c.shape(2);
    let [c0, c1, c2] = c.cls;
    let op = c.op.as_str();
    match op {
        "vec_znx_dft_apply" => {
            let mut r = env.out("res", Kind::Dft, n, rc, rs, rk, ri);
            let a = env.in_znx("a", n, ac, as_, ak, ai, c1, b);
            m.vec_znx_dft_apply(c.x[0] as usize, c.x[1] as usize, &mut r.dft_mut::<B>(), ri, &a.znx(), ai);
            env.coeff_out = Some(coeff_of_dft(env, &r, ri));
            env.push(r);
            env.push(a);
        }
        "vec_znx_idft_apply" => {
            let mut r = env.out("res", Kind::Big, n, rc, rs, rk, ri);
            let a = in_dft(env, "a", n, ac, as_, ak, ai, &[ai], c1, b);
            let mut s = env.scratch(m.vec_znx_idft_apply_tmp_bytes());
            m.vec_znx_idft_apply(&mut r.big_mut::<B>(), ri, &a.dft::<B>(), ai, s.scratch::<B>());
            env.coeff_out = Some(slot_big_col(&r));
            env.push(r);
            env.push(a);
            env.push(s);
        }
        "vec_znx_idft_apply_tmpa" => {
            let mut r = env.out("res", Kind::Big, n, rc, rs, rk, ri);
            let mut a = in_dft(env, "a", n, ac, as_, ak, ai, &[ai], c1, b);
            // `a` is used as temporary storage: its selected column is unspecified afterwards
            a.writable = true;
            a.declare_col(ai, 0..as_);
            m.vec_znx_idft_apply_tmpa(&mut r.big_mut::<B>(), ri, &mut a.dft_mut::<B>(), ai);
            env.coeff_out = Some(slot_big_col(&r));
            env.push(r);
            env.push(a);
        }
        "vec_znx_idft_apply_consume" => {
            let all: Vec<usize> = (0..ac).collect();
            let mut a = in_dft(env, "a", n, ac, as_, 0, ai, &all, c1, b);
            a.writable = true;
            a.declare_all();
            let coeff = {
                let d: VecZnxDft<&mut [u8], B> = a.dft_mut::<B>();
                let big = m.vec_znx_idft_apply_consume(d);
                big_to_i128::<B, _>(&big, ai)
            };
            env.coeff_out = Some(coeff);
            env.push(a);
        }
        "vec_znx_dft_add_into" | "vec_znx_dft_sub" => {
            let mut r = env.out("res", Kind::Dft, n, rc, rs, rk, ri);
            let a = in_dft(env, "a", n, ac, as_, ak, ai, &[ai], c1, b);
            let bb = in_dft(env, "b", n, bc, bs, bk, bi, &[bi], c2, b);
            if op == "vec_znx_dft_add_into" {
                m.vec_znx_dft_add_into(&mut r.dft_mut::<B>(), ri, &a.dft::<B>(), ai, &bb.dft::<B>(), bi);
            } else {
                m.vec_znx_dft_sub(&mut r.dft_mut::<B>(), ri, &a.dft::<B>(), ai, &bb.dft::<B>(), bi);
            }
            env.coeff_out = Some(coeff_of_dft(env, &r, ri));
            env.push(r);
            env.push(a);
            env.push(bb);
        }
        "vec_znx_dft_add_assign" | "vec_znx_dft_sub_assign" | "vec_znx_dft_sub_negate_assign" | "vec_znx_dft_add_scaled_assign" => {
            let mut r = in_dft(env, "res", n, rc, rs, rk, ri, &[ri], c0, b);
            r.writable = true;
            r.declare_col(ri, 0..rs);
            let a = in_dft(env, "a", n, ac, as_, ak, ai, &[ai], c1, b);
            match op {
                "vec_znx_dft_add_assign" => m.vec_znx_dft_add_assign(&mut r.dft_mut::<B>(), ri, &a.dft::<B>(), ai),
                "vec_znx_dft_sub_assign" => m.vec_znx_dft_sub_assign(&mut r.dft_mut::<B>(), ri, &a.dft::<B>(), ai),
                "vec_znx_dft_sub_negate_assign" => m.vec_znx_dft_sub_negate_assign(&mut r.dft_mut::<B>(), ri, &a.dft::<B>(), ai),
                _ => m.vec_znx_dft_add_scaled_assign(&mut r.dft_mut::<B>(), ri, &a.dft::<B>(), ai, c.p),
            }
            env.coeff_out = Some(coeff_of_dft(env, &r, ri));
            env.push(r);
            env.push(a);
        }
        "vec_znx_dft_copy" => {
            let mut r = env.out("res", Kind::Dft, n, rc, rs, rk, ri);
            let a = in_dft(env, "a", n, ac, as_, ak, ai, &[ai], c1, b);
            m.vec_znx_dft_copy(c.x[0] as usize, c.x[1] as usize, &mut r.dft_mut::<B>(), ri, &a.dft::<B>(), ai);
            env.coeff_out = Some(coeff_of_dft(env, &r, ri));
            env.push(r);
            env.push(a);
        }
        "vec_znx_dft_zero" => {
            let mut r = env.out("res", Kind::Dft, n, rc, rs, rk, ri);
            m.vec_znx_dft_zero(&mut r.dft_mut::<B>(), ri);
            env.coeff_out = Some(coeff_of_dft(env, &r, ri));
            env.push(r);
        }
        "svp_prepare" | "svp_apply_dft" => {
            // prepare a scalar, apply it to a coefficient vector
            let mut p = env.out("svp", Kind::Svp, n, ac, 1, 0, ai);
            let a = env.in_scalar("a", n, ac, ai, c1, b);
            m.svp_prepare(&mut p.svp_mut::<B>(), ai, &a.scalar(), ai);
            let mut r = env.out("res", Kind::Dft, n, rc, rs, rk, ri);
            let bb = if op == "svp_prepare" {
                // multiply by the constant polynomial 1 on one limb: the result is the scalar itself
                let mut s = env.in_znx("b", n, bc, 1, 0, bi, VClass::Zero, b);
                let mut one = vec![0i64; n];
                one[0] = 1;
                s.write_i64(bi, 0, &one);
                s.snapshot();
                s
            } else {
                env.in_znx("b", n, bc, bs, bk, bi, c2, b)
            };
            m.svp_apply_dft(&mut r.dft_mut::<B>(), ri, &p.svp::<B>(), ai, &bb.znx(), bi);
            env.coeff_out = Some(coeff_of_dft(env, &r, ri));
            if op == "svp_apply_dft" {
                // only `res` is the output under audit; the prepared scalar is an input here
                p.writable = false;
                p.declared.clear();
                p.snapshot();
            } else {
                r.writable = true;
            }
            env.push(r);
            env.push(p);
            env.push(a);
            env.push(bb);
        }
        "svp_apply_dft_to_dft" | "svp_apply_dft_to_dft_assign" => {
            let mut p = env.out("svp", Kind::Svp, n, ac, 1, 0, ai);
            let a = env.in_scalar("a", n, ac, ai, c1, b);
            m.svp_prepare(&mut p.svp_mut::<B>(), ai, &a.scalar(), ai);
            p.writable = false;
            p.declared.clear();
            p.snapshot();
            if op == "svp_apply_dft_to_dft" {
                let mut r = env.out("res", Kind::Dft, n, rc, rs, rk, ri);
                let bb = in_dft(env, "b", n, bc, bs, bk, bi, &[bi], c2, b);
                m.svp_apply_dft_to_dft(&mut r.dft_mut::<B>(), ri, &p.svp::<B>(), ai, &bb.dft::<B>(), bi);
                env.coeff_out = Some(coeff_of_dft(env, &r, ri));
                env.push(r);
                env.push(bb);
            } else {
                let mut r = in_dft(env, "res", n, rc, rs, rk, ri, &[ri], c2, b);
                r.writable = true;
                r.declare_col(ri, 0..rs);
                m.svp_apply_dft_to_dft_assign(&mut r.dft_mut::<B>(), ri, &p.svp::<B>(), ai);
                env.coeff_out = Some(coeff_of_dft(env, &r, ri));
                env.push(r);
            }
            env.push(p);
            env.push(a);
        }
        "vmp_prepare" | "vmp_apply_dft" | "vmp_apply_dft_to_dft" | "vmp_zero" => {
            // res: cols_out = rc columns, a: cols_in = ac columns, matrix rows x ac x rc x bs
            let rows = c.x[0] as usize;
            let (cols_in, cols_out, msize) = (ac, rc, bs);
            let mat = env.in_mat("mat", n, rows, cols_in, cols_out, msize, c2, b);
            let mut pm = env.out_prepared("pmat", Kind::Vmp, n, rows, cols_in, cols_out, msize);
            if op == "vmp_zero" {
                m.vmp_zero(&mut pm.vmp_mut::<B>());
            } else {
                let mut s = env.scratch(m.vmp_prepare_tmp_bytes(rows, cols_in, cols_out, msize));
                m.vmp_prepare(&mut pm.vmp_mut::<B>(), &mat.mat(), s.scratch::<B>());
                if op == "vmp_prepare" {
                    env.push(s);
                }
            }
            let under_test_is_prepare = op == "vmp_prepare" || op == "vmp_zero";
            if !under_test_is_prepare {
                pm.writable = false;
                pm.declared.clear();
                pm.snapshot();
            }
            // result container: every column is written
            let mut r = env.out("res", Kind::Dft, n, cols_out, rs, rk, 0);
            r.declared.clear();
            for co in 0..cols_out {
                r.declare_col(co, 0..rs);
            }
            let all_in: Vec<usize> = (0..cols_in).collect();
            let mut coeff: Vec<Vec<i128>> = vec![];
            if op == "vmp_apply_dft_to_dft" {
                let a = in_dft(env, "a", n, cols_in, as_, ak, 0, &all_in, c1, b);
                let q = m.vmp_apply_dft_to_dft_tmp_bytes(rs, as_, rows, cols_in, cols_out, msize);
                let mut s = env.scratch(q);
                m.vmp_apply_dft_to_dft(&mut r.dft_mut::<B>(), &a.dft::<B>(), &pm.vmp::<B>(), c.x[3] as usize, s.scratch::<B>());
                env.push(a);
                env.push(s);
            } else {
                // vmp_apply_dft (also used to observe vmp_prepare / vmp_zero)
                // the one-shot product accepts an input with fewer (or more) columns than the matrix has input blocks: its
                // last min(a.cols, cols_in) columns meet the last blocks, the leading blocks see zero
                let a_cols = if op == "vmp_apply_dft" { 1 + (c.x[2] as usize) % (cols_in + 1) } else { cols_in };
                let used = a_cols.min(cols_in);
                let (a_start, offset) = (a_cols - used, cols_in - used);
                let mut a = env.in_znx("a", n, a_cols, as_, ak, 0, c1, b);
                let mut src = vec![vec![vec![0i64; n]; as_]; cols_in];
                for ci in 0..a_cols {
                    let seed = env.next_seed(false);
                    let vals = gen_column(c1, b, n, as_, seed);
                    for (j, l) in vals.iter().enumerate() {
                        a.write_i64(ci, j, l);
                    }
                    if ci >= a_start {
                        src[offset + ci - a_start] = vals;
                    }
                }
                a.snapshot();
                env.srcs.push(("a", src));
                let q = m.vmp_apply_dft_tmp_bytes(rs, as_, rows, cols_in, cols_out, msize);
                let mut s = if under_test_is_prepare { env.aux_scratch(q) } else { env.scratch(q) };
                m.vmp_apply_dft(&mut r.dft_mut::<B>(), &a.znx(), &pm.vmp::<B>(), s.scratch::<B>());
                env.push(a);
                if !under_test_is_prepare {
                    env.push(s);
                }
            }
            // all output columns, concatenated column-major: coeff[co*rs + l]
            for co in 0..cols_out {
                coeff.extend(coeff_of_dft(env, &r, co));
            }
            env.coeff_out = Some(coeff);
            if under_test_is_prepare {
                // the audited output is the prepared matrix; `res` is only the observation device
                r.writable = true;
            }
            env.push(r);
            env.push(pm);
            env.push(mat);
        }
        "cnv_prepare_left" | "cnv_prepare_right" | "cnv_prepare_self" | "cnv_apply_dft" | "cnv_pairwise_apply_dft" => {
            // prepared operands: left from `a` (ac columns, size as_), right from `b` (bc columns, size bs)
            let under_prepare = op.starts_with("cnv_prepare");
            let selfp = op == "cnv_prepare_self";
            let a = fill_all_cols(env, "a", n, ac, as_, c1, b);
            let bbs = if selfp { None } else { Some(fill_all_cols(env, "b", n, bc, bs, c2, b)) };
            // prepared sizes: q selects a prepared size different from the source size
            let pl_size = if under_prepare { (as_ + (c.q as usize % 3)).saturating_sub(1).max(1) } else { as_ };
            let pr_size = if under_prepare { if selfp { pl_size } else { (bs + (c.q as usize / 3 % 3)).saturating_sub(1).max(1) } } else { bs };
            let mut pl = env.out_prepared("left", Kind::CnvL, n, 1, ac, 1, pl_size);
            let rcols = if selfp { ac } else { bc };
            let mut pr = env.out_prepared("right", Kind::CnvR, n, 1, rcols, 1, pr_size);
            let mask = c.p;
            if selfp {
                let mut s = env.scratch(m.cnv_prepare_self_tmp_bytes(pl_size, as_));
                m.cnv_prepare_self(&mut pl.cnvl_mut::<B>(), &mut pr.cnvr_mut::<B>(), &a.znx(), mask, s.scratch::<B>());
                env.push(s);
            } else {
                let ql = m.cnv_prepare_left_tmp_bytes(pl_size, as_);
                let qr = m.cnv_prepare_right_tmp_bytes(pr_size, bs);
                let b_ref = bbs.as_ref().unwrap();
                match op {
                    "cnv_prepare_left" => {
                        let mut s = env.scratch(ql);
                        m.cnv_prepare_left(&mut pl.cnvl_mut::<B>(), &a.znx(), mask, s.scratch::<B>());
                        env.push(s);
                        let mut s2 = env.aux_scratch(qr);
                        m.cnv_prepare_right(&mut pr.cnvr_mut::<B>(), &b_ref.znx(), !0i64, s2.scratch::<B>());
                    }
                    "cnv_prepare_right" => {
                        let mut s = env.scratch(qr);
                        m.cnv_prepare_right(&mut pr.cnvr_mut::<B>(), &b_ref.znx(), mask, s.scratch::<B>());
                        env.push(s);
                        let mut s2 = env.aux_scratch(ql);
                        m.cnv_prepare_left(&mut pl.cnvl_mut::<B>(), &a.znx(), !0i64, s2.scratch::<B>());
                    }
                    _ => {
                        let mut s2 = env.aux_scratch(ql.max(qr));
                        m.cnv_prepare_left(&mut pl.cnvl_mut::<B>(), &a.znx(), mask, s2.scratch::<B>());
                        m.cnv_prepare_right(&mut pr.cnvr_mut::<B>(), &b_ref.znx(), mask, s2.scratch::<B>());
                    }
                }
            }
            if !under_prepare {
                for p in [&mut pl, &mut pr] {
                    p.writable = false;
                    p.declared.clear();
                    p.snapshot();
                }
            }
            let mut r = env.out("res", Kind::Dft, n, rc, rs, rk, ri);
            let off = c.x[0] as usize;
            // the observation (for prepare ops) / the op under test
            if op == "cnv_pairwise_apply_dft" {
                let q = m.cnv_pairwise_apply_dft_tmp_bytes(off, rs, pl_size, pr_size);
                let mut s = env.scratch(q);
                m.cnv_pairwise_apply_dft(off, &mut r.dft_mut::<B>(), ri, &pl.cnvl::<B>(), &pr.cnvr::<B>(), c.x[1] as usize, c.x[2] as usize, s.scratch::<B>());
                env.push(s);
            } else {
                let q = m.cnv_apply_dft_tmp_bytes(off, rs, pl_size, pr_size);
                let bcol = if selfp { ai } else { bi };
                if under_prepare {
                    let mut s = env.aux_scratch(q);
                    m.cnv_apply_dft(off, &mut r.dft_mut::<B>(), ri, &pl.cnvl::<B>(), ai, &pr.cnvr::<B>(), bcol, s.scratch::<B>());
                } else {
                    let mut s = env.scratch(q);
                    m.cnv_apply_dft(off, &mut r.dft_mut::<B>(), ri, &pl.cnvl::<B>(), ai, &pr.cnvr::<B>(), bcol, s.scratch::<B>());
                    env.push(s);
                }
            }
            env.coeff_out = Some(coeff_of_dft(env, &r, ri));
            env.aux.push(pl_size as u64);
            env.aux.push(pr_size as u64);
            env.push(r);
            env.push(pl);
            env.push(pr);
            env.push(a);
            if let Some(bb) = bbs {
                env.push(bb);
            }
        }
        "cnv_by_const_apply" => {
            let mut r = env.out("res", Kind::Big, n, rc, rs, rk, ri);
            let a = env.in_znx("a", n, ac, as_, ak, ai, c1, b);
            let seed = env.next_seed(false);
            let cst: Vec<i64> = gen_column(c2, b, 1, bs, seed).iter().map(|l| l[0]).collect();
            env.srcs.push(("const", vec![vec![cst.clone()]]));
            let off = c.x[0] as usize;
            let mut s = env.scratch(m.cnv_by_const_apply_tmp_bytes(off, rs, as_, bs));
            m.cnv_by_const_apply(off, &mut r.big_mut::<B>(), ri, &a.znx(), ai, &cst, s.scratch::<B>());
            env.coeff_out = Some(slot_big_col(&r));
            env.push(r);
            env.push(a);
            env.push(s);
        }
        _ => panic!("harness: op {op} not wired"),
    }
}

/// coefficient-domain input whose every column holds class data (sources recorded)
fn fill_all_cols<B: HalBackend>(env: &mut Env<B>, label: &'static str, n: usize, cols: usize, size: usize, class: VClass, b: usize) -> Slot {
    let mut s = env.in_znx(label, n, cols, size, 0, 0, class, b);
    let mut src = vec![vec![]; cols];
    for ci in 0..cols {
        let seed = env.next_seed(false);
        let vals = gen_column(class, b, n, size, seed);
        for (j, l) in vals.iter().enumerate() {
            s.write_i64(ci, j, l);
        }
        src[ci] = vals;
    }
    s.snapshot();
    env.srcs.push((label, src));
    s
}
