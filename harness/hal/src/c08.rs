//! C08 — limb representation: normalisation, shifts and integer encoding are exact.
//!
//! Oracle: the dyadic-rational value model.  A column with digits a_0..a_{s-1} in
//! radix 2^b denotes sum_j a_j 2^{-(j+1)b}; every operation must map values as
//! `out ≡ ±res_before ± in * 2^off (mod 1)` within one unit of the output's last
//! limb, exactly when the output has enough limbs.

use crate::env::{Kind, Outcome, ScratchMode};
use crate::mods::Be;
use crate::ops::{self, Fam, OpCase, adapt, exec};
use pzv_be::with_backend;
use dashu_int::IBig;
use poulpy_hal::layouts::{VecZnx, ZnxView, ZnxViewMut};
use proptest::prelude::*;
use pzv_common::driver::{Ctx, PassInfo, Verdict};
use pzv_common::model::*;
use serde::{Deserialize, Serialize};

pub use crate::c09::BeCase;

/// relation an op must satisfy: out ≡ sr*res_before + sa*in*2^off
pub struct Rel {
    pub sr: i32,
    pub sa: i32,
    pub off: i64,
    pub b_in: usize,
    pub b_out: usize,
    /// label of the input slot ("a" or "res" for assign forms)
    pub input: &'static str,
    pub range_check: bool,
}

pub fn relation(c: &OpCase) -> Rel {
    let b = c.bb();
    let b2 = c.b2 as usize;
    let k = c.p;
    let r = |sr, sa, off, b_in, input, range_check| Rel {
        sr,
        sa,
        off,
        b_in,
        b_out: b,
        input,
        range_check,
    };
    match c.op.as_str() {
        "vec_znx_normalize" | "vec_znx_big_normalize" => r(0, 1, k, b2, "a", b == b2),
        "vec_znx_normalize_assign" => r(0, 1, 0, b, "res", true),
        "vec_znx_lsh" => r(0, 1, k, b, "a", true),
        "vec_znx_rsh" => r(0, 1, -k, b, "a", true),
        "vec_znx_lsh_assign" => r(0, 1, k, b, "res", true),
        "vec_znx_rsh_assign" => r(0, 1, -k, b, "res", true),
        "vec_znx_lsh_add_into" => r(1, 1, k, b, "a", false),
        "vec_znx_lsh_sub" => r(1, -1, k, b, "a", false),
        "vec_znx_rsh_add_into" => r(1, 1, -k, b, "a", false),
        "vec_znx_rsh_sub" => r(1, -1, -k, b, "a", false),
        "vec_znx_big_normalize_add_assign" => r(1, 1, k, b2, "a", false),
        "vec_znx_big_normalize_sub_assign" => r(1, -1, k, b2, "a", false),
        "vec_znx_big_normalize_negate" => r(0, -1, k, b2, "a", false),
        x => panic!("harness: no C08 relation for {x}"),
    }
}

/// Checks one coefficient.  `inp` digits (any magnitude), `pre`/`out` digits of the result.
/// Returns deviation description on failure.
#[allow(clippy::too_many_arguments)]
pub fn check_coeff(rel: &Rel, inp: &[i128], pre: &[i64], out: &[i64]) -> Result<bool, String> {
    let ea = inp.len() * rel.b_in;
    let er = out.len() * rel.b_out;
    // bit budget for the i128 fast path
    let need_a = ea as i64 - rel.off;
    let e = (er as i64).max(need_a).max(0) as usize;
    let exact = er as i64 >= need_a;
    let max_in_bits = inp.iter().map(|x| 128 - x.unsigned_abs().leading_zeros()).max().unwrap_or(0) as usize;
    let max_out_bits = out.iter().chain(pre.iter()).map(|x| 64 - x.unsigned_abs().leading_zeros()).max().unwrap_or(0) as usize;
    let fast = (e as i64) + rel.off.max(0) + (max_in_bits.max(max_out_bits) as i64) + 8 < 126 && (e as i64 - ea as i64 + rel.off) >= 0;
    if fast {
        let mut a: i128 = 0;
        for d in inp {
            a = (a << rel.b_in) + *d;
        }
        let mut r: i128 = 0;
        for d in out {
            r = (r << rel.b_out) + *d as i128;
        }
        let mut p: i128 = 0;
        if rel.sr != 0 {
            for d in pre {
                p = (p << rel.b_out) + *d as i128;
            }
        }
        let sh_r = e - er;
        let sh_a = (e as i64 - ea as i64 + rel.off) as usize;
        let want = (rel.sr as i128) * (p << sh_r) + (rel.sa as i128) * (a << sh_a);
        let mut d = (r << sh_r) - want;
        // centred mod 2^e
        if e < 127 {
            let m = 1i128 << e;
            d = d.rem_euclid(m);
            if d >= m / 2 && e > 0 {
                d -= m;
            }
            if e == 0 {
                d = 0;
            }
        }
        let unit = 1i128 << sh_r;
        if exact {
            if d != 0 {
                return Err(format!("output has enough limbs but deviates by {:.4} units of its last limb", d as f64 / unit as f64));
            }
        } else if d.abs() > unit {
            return Err(format!("deviation {:.4} units of the last output limb (> 1)", d as f64 / unit as f64));
        }
        return Ok(exact);
    }
    // big path
    let a = Dyadic::from_limbs_i128(inp, rel.b_in).shl(rel.off);
    let a = if rel.sa < 0 { a.neg() } else { a };
    let want = if rel.sr != 0 {
        let p = Dyadic::from_limbs_i64(pre, rel.b_out);
        let p = if rel.sr < 0 { p.neg() } else { p };
        p.add(&a)
    } else {
        a
    };
    let got = Dyadic::from_limbs_i64(out, rel.b_out);
    let tol = if exact { 0 } else { 1 };
    torus_close(&got, &want, er, tol).map(|_| exact).map_err(|e| if exact { format!("output has enough limbs but: {e}") } else { e })
}

fn input_limbs(o: &Outcome, label: &str) -> Vec<Vec<i128>> {
    let s = o.slot(label);
    match s.kind {
        Kind::Big => s.pre_col_big(),
        _ => s.pre_col().iter().map(|l| l.iter().map(|x| *x as i128).collect()).collect(),
    }
}

/// beyond-precision region of the documented normalisation defect (used only to
/// build the *signature* of a failure so that the known finding is keyed precisely)
fn beyond_precision(rel: &Rel, out_limbs: usize) -> bool {
    if rel.off >= 0 {
        return false;
    }
    let m = (-rel.off) as usize;
    let steps_bits = m.div_ceil(rel.b_in) * rel.b_in;
    steps_bits > out_limbs * rel.b_out
}

pub fn run_case<B: ops::HalBackend>(m: &poulpy_hal::layouts::Module<B>, be: Be, c: &OpCase) -> Verdict {
    let o = exec(m, c, 0, ScratchMode::Roomy);
    let rel = relation(c);
    let res = o.slot("res");
    let inp = input_limbs(&o, rel.input);
    let pre = res.pre_col();
    let out = res.post_col();
    let n = res.n;
    let mut all_exact = true;
    for i in 0..n {
        let di: Vec<i128> = inp.iter().map(|l| l[i]).collect();
        let dp: Vec<i64> = pre.iter().map(|l| l[i]).collect();
        let dout: Vec<i64> = out.iter().map(|l| l[i]).collect();
        match check_coeff(&rel, &di, &dp, &dout) {
            Ok(ex) => all_exact &= ex,
            Err(e) => {
                let region = if beyond_precision(&rel, dout.len()) { "offset-beyond-output-precision" } else { "value" };
                let radix = if rel.b_in == rel.b_out { "same-radix" } else { "cross-radix" };
                return Verdict::fail(
                    format!("{region}|{}|{radix}", c.op),
                    format!(
                        "backend={} op={} coeff {i}: {e}\n in digits (radix 2^{}) = {di:?}\n res before = {dp:?}\n res after (radix 2^{}) = {dout:?}\n offset = {}\ncase={c:?}",
                        be.name(),
                        c.op,
                        rel.b_in,
                        rel.b_out,
                        rel.off
                    ),
                );
            }
        }
        if rel.range_check {
            for (j, d) in dout.iter().enumerate() {
                if !in_digit_range(*d, rel.b_out) {
                    return Verdict::fail(
                        format!("{}|digit-range", c.op),
                        format!("backend={} op={} coeff {i} limb {j}: digit {d} outside [-2^{}, 2^{})\ncase={c:?}", be.name(), c.op, rel.b_out - 1, rel.b_out - 1),
                    );
                }
            }
        }
    }
    let cross = rel.b_in != rel.b_out;
    let nt = (cross || rel.off % rel.b_in as i64 != 0 || !all_exact || matches!(c.cls[1], VClass::CarryRipple | VClass::Unnorm(_))) && c.cls[1] != VClass::Zero;
    let mut classes: Vec<&str> = vec![&c.op, be.name(), c.cls[1].name()];
    classes.push(if cross { "cross_radix" } else { "same_radix" });
    classes.push(if all_exact { "exact_output" } else { "truncating_output" });
    if beyond_precision(&rel, out.len()) {
        classes.push("offset_beyond_precision");
    }
    if rel.off < 0 {
        classes.push("negative_offset");
    }
    classes.push(if nt { "nontrivial" } else { "trivial" });
    Verdict::pass(nt, &classes)
}

pub fn test(bc: &BeCase) -> Verdict {
    let mut c = bc.c.clone();
    adapt(&mut c);
    if c.log_n < bc.be.min_log_n() {
        c.log_n = bc.be.min_log_n();
        adapt(&mut c);
    }
    with_backend!(bc.be, c.log_n, |m| run_case(m, bc.be, &c))
}

fn strategy(max_log_n: u8) -> BoxedStrategy<BeCase> {
    let ops = ops::ops_of(&[Fam::Norm, Fam::BigNorm]);
    (crate::c09::be_strategy(), ops::case_strategy(ops, max_log_n), boundary_offsets())
        .prop_map(|(be, mut c, bo)| {
            // half of the cases use boundary offsets relative to the radix
            if let Some((mul, delta)) = bo {
                let b = c.b2.max(1) as i64;
                c.p = mul * b + delta;
                adapt(&mut c);
            }
            BeCase { be, c }
        })
        .boxed()
}

fn boundary_offsets() -> impl Strategy<Value = Option<(i64, i64)>> {
    prop_oneof![
        1 => Just(None),
        1 => (-8i64..=8, -1i64..=1).prop_map(Some),
    ]
}

// ---------------------------------------------------------------------------
// exhaustive small scope: all digit tuples, all offsets, radices 1..=4, sizes <= 3
// ---------------------------------------------------------------------------

#[derive(Clone, Debug, Serialize, Deserialize)]
pub struct ExhCase {
    pub be: Be,
    pub b_in: u8,
    pub b_out: u8,
    pub s_in: u8,
    pub s_out: u8,
    pub off: i64,
}

fn exh_run<B: ops::HalBackend>(m: &poulpy_hal::layouts::Module<B>, ec: &ExhCase, tuples: usize) -> Verdict {
    use poulpy_hal::api::*;
    use poulpy_hal::layouts::ScratchOwned;
    let n = m.n();
    let (b_in, b_out, s_in, s_out) = (ec.b_in as usize, ec.b_out as usize, ec.s_in as usize, ec.s_out as usize);
    let lo = -(1i64 << b_in);
    let span = (2i64 << b_in) + 1;
    let mut a = VecZnx::alloc(n, 1, s_in);
    for t in 0..n {
        let mut x = (t % tuples) as i64;
        for j in 0..s_in {
            a.at_mut(0, j)[t] = lo + x % span;
            x /= span;
        }
    }
    let mut res = VecZnx::alloc(n, 1, s_out);
    for j in 0..s_out {
        res.at_mut(0, j).fill(0x5555_5555_5555);
    }
    let mut scratch = ScratchOwned::<B>::alloc(m.vec_znx_normalize_tmp_bytes());
    m.vec_znx_normalize(&mut res, b_out, ec.off, 0, &a, b_in, 0, scratch.borrow());
    let rel = Rel {
        sr: 0,
        sa: 1,
        off: ec.off,
        b_in,
        b_out,
        input: "a",
        range_check: b_in == b_out,
    };
    for t in 0..tuples.min(n) {
        let di: Vec<i128> = (0..s_in).map(|j| a.at(0, j)[t] as i128).collect();
        let dout: Vec<i64> = (0..s_out).map(|j| res.at(0, j)[t]).collect();
        if let Err(e) = check_coeff(&rel, &di, &[], &dout) {
            let region = if beyond_precision(&rel, s_out) { "offset-beyond-output-precision" } else { "value" };
            let radix = if b_in == b_out { "same-radix" } else { "cross-radix" };
            return Verdict::fail(
                format!("{region}|vec_znx_normalize|{radix}"),
                format!("backend={} exhaustive small scope: {e}\n in digits (radix 2^{b_in}) = {di:?}\n out digits (radix 2^{b_out}) = {dout:?}\n offset = {}\ncase={ec:?}", ec.be.name(), ec.off),
            );
        }
        if rel.range_check {
            for d in &dout {
                if !in_digit_range(*d, b_out) {
                    return Verdict::fail("vec_znx_normalize|digit-range", format!("backend={} digit {d} out of range; in={di:?} out={dout:?} case={ec:?}", ec.be.name()));
                }
            }
        }
    }
    Verdict::Pass(PassInfo {
        nontrivial: true,
        classes: vec![ec.be.name().to_string(), if b_in == b_out { "same_radix".into() } else { "cross_radix".into() }],
        weight: tuples.min(n) as u64,
    })
}

pub fn exh_test(ec: &ExhCase) -> Verdict {
    let span = (2usize << ec.b_in) + 1;
    let tuples = span.pow(ec.s_in as u32);
    let log_n = (tuples.next_power_of_two().trailing_zeros() as u8).max(ec.be.min_log_n());
    with_backend!(ec.be, log_n, |m| exh_run(m, ec, tuples))
}

fn exh_blocks(thorough: bool) -> Vec<Vec<ExhCase>> {
    let mut blocks = vec![];
    let bes: &[Be] = if thorough { &Be::ALL } else { &[Be::FftRef, Be::FftAvx] };
    for be in bes {
        for b_in in 1u8..=4 {
            for b_out in 1u8..=4 {
                let mut block = vec![];
                for s_in in 1u8..=3 {
                    if !thorough && b_in == 4 && s_in == 3 {
                        continue;
                    }
                    for s_out in 1u8..=3 {
                        let a_bits = (s_in * b_in) as i64;
                        let lim = a_bits + 2 * b_in.max(b_out) as i64;
                        for off in -lim..=lim {
                            block.push(ExhCase {
                                be: *be,
                                b_in,
                                b_out,
                                s_in,
                                s_out,
                                off,
                            });
                        }
                    }
                }
                blocks.push(block);
            }
        }
    }
    blocks
}

// ---------------------------------------------------------------------------
// integer encoding
// ---------------------------------------------------------------------------

#[derive(Clone, Debug, Serialize, Deserialize)]
pub struct EncCase {
    pub b: u8,
    pub size: u8,
    pub k: u16,
    pub cols: u8,
    pub col: u8,
    pub log_n: u8,
    /// 0 = vec_i64, 1 = vec_i128, 2 = coeff_i64
    pub form: u8,
    pub vclass: u8,
    pub idx: u16,
    pub seed: u64,
}

fn enc_strategy() -> BoxedStrategy<EncCase> {
    (2u8..=62, 1u8..=5, any::<u16>(), 1u8..=3, 0u8..3, 0u8..=5, 0u8..3, 0u8..6, any::<u16>(), any::<u64>())
        .prop_map(|(b, size, k, cols, col, log_n, form, vclass, idx, seed)| {
            let max_k = size as u16 * b as u16;
            // classes of k: k<b, multiple of b, size*b, random
            let k = match k % 4 {
                0 => 1 + (k / 4) % (b as u16).min(max_k),
                1 => ((1 + (k / 4) % size as u16) * b as u16).min(max_k),
                2 => max_k,
                _ => 1 + (k / 4) % max_k,
            };
            EncCase {
                b,
                size,
                k,
                cols,
                col: col % cols,
                log_n,
                form,
                vclass,
                idx,
                seed,
            }
        })
        .boxed()
}

fn enc_values(ec: &EncCase, n: usize, kmax: u32) -> Vec<i128> {
    // kmax: largest k for which values are representable in the element type without overflow
    let k = (ec.k as u32).min(kmax);
    let mut r = SplitMix::new(ec.seed);
    (0..n)
        .map(|i| {
            let top: i128 = 1i128 << (k - 1);
            match (ec.vclass as usize + i) % 6 {
                0 => {
                    // uniform in [-2^(k-1), 2^(k-1))
                    let hi = r.signed(64) as i128;
                    let v = (hi << 64) | r.next() as i128;
                    if k >= 128 { v } else { (v << (128 - k)) >> (128 - k) }
                }
                1 => top - 1,
                2 => -top,
                3 => {
                    if k >= 3 { (top >> 1) - 1 } else { 0 }
                }
                4 => {
                    if k >= 3 { -((top >> 1) - 1) } else { 0 }
                }
                _ => (r.signed(8) as i128).clamp(-top, top - 1),
            }
        })
        .collect()
}

fn enc_test(ec: &EncCase) -> Verdict {
    let n = 1usize << ec.log_n;
    let (b, size, k) = (ec.b as usize, ec.size as usize, ec.k as usize);
    let cols = ec.cols as usize;
    let col = ec.col as usize;
    let mut v = VecZnx::alloc(n, cols, size);
    // garbage everywhere first
    let mut g = SplitMix::new(ec.seed ^ 0xABCD);
    for x in v.raw_mut().iter_mut() {
        *x = g.next() as i64;
    }
    let before = v.clone();
    let form = ec.form;
    // element type limits: i64 data with k<=62 avoids overflow inside decode's Horner accumulation
    let kmax: u32 = if form == 1 { 126 } else { 62 };
    if k as u32 > kmax {
        // value magnitudes are then limited by the element type, not by k
    }
    let vals = enc_values(ec, n, kmax);
    let idx = ec.idx as usize % n;
    match form {
        0 => {
            let d: Vec<i64> = vals.iter().map(|x| *x as i64).collect();
            v.encode_vec_i64(b, col, k, &d);
        }
        1 => v.encode_vec_i128(b, col, k, &vals),
        _ => v.encode_coeff_i64(b, col, k, idx, vals[idx] as i64),
    }
    // untouched: other columns (all forms); other coefficients (coeff form)
    for c in 0..cols {
        for j in 0..size {
            for i in 0..n {
                let touched = c == col && (form != 2 || i == idx);
                if !touched && v.at(c, j)[i] != before.at(c, j)[i] {
                    return Verdict::fail("encode|stray-write", format!("encode form {form} modified col {c} limb {j} coeff {i}; case={ec:?}"));
                }
            }
        }
    }
    // decode
    let dec: Vec<i128> = match form {
        0 => {
            let mut d = vec![0i64; n];
            v.decode_vec_i64(b, col, k, &mut d);
            d.iter().map(|x| *x as i128).collect()
        }
        1 => {
            let mut d = vec![0i128; n];
            v.decode_vec_i128(b, col, k, &mut d);
            d
        }
        _ => {
            let mut d = vals.clone();
            d[idx] = v.decode_coeff_i64(b, col, k, idx) as i128;
            d
        }
    };
    let mut exact_n = 0;
    for i in 0..n {
        if form == 2 && i != idx {
            continue;
        }
        let (want, got) = (vals[i], dec[i]);
        let kk = k.min(127) as u32;
        let small = kk >= 3 && want.unsigned_abs() < (1u128 << (kk - 2));
        if small {
            exact_n += 1;
            if want != got {
                return Verdict::fail("encode|roundtrip-exact", format!("|v| < 2^(k-2) but decode(encode(v)) = {got} != v = {want}; b={b} k={k} size={size} form={form} coeff {i}\ncase={ec:?}"));
            }
        } else if kk < 127 {
            let m = 1i128 << kk;
            if (want - got).rem_euclid(m) != 0 {
                return Verdict::fail("encode|roundtrip-mod", format!("decode(encode(v)) = {got} is not congruent to v = {want} mod 2^{k}; b={b} size={size} form={form} coeff {i}\ncase={ec:?}"));
            }
        }
        // the encoded limbs themselves: exact rational value == v * 2^-k mod 1, digits normalised
        let digits: Vec<i64> = (0..size).map(|j| v.at(col, j)[i]).collect();
        let val = Dyadic::from_limbs_i64(&digits, b);
        let wantd = Dyadic { num: IBig::from(want), exp: k };
        if let Err(e) = torus_close(&val, &wantd, size * b, 0) {
            return Verdict::fail("encode|limb-value", format!("limbs of encode(v) do not represent v*2^-k on the torus: {e}; v={want} digits={digits:?} b={b} k={k}\ncase={ec:?}"));
        }
        for d in &digits {
            if !in_digit_range(*d, b) {
                return Verdict::fail("encode|digit-range", format!("encode produced digit {d} outside the balanced range; v={want} digits={digits:?} b={b} k={k}\ncase={ec:?}"));
            }
        }
    }
    // arbitrary precision decoding equals the exact rational value of the limbs
    {
        use dashu_float::{FBig, round::mode::HalfEven};
        let mut fl: Vec<FBig<HalfEven>> = vec![FBig::ZERO; n];
        v.decode_vec_float(b, col, &mut fl);
        for i in 0..n {
            let digits: Vec<i64> = (0..size).map(|j| v.at(col, j)[i]).collect();
            let val = Dyadic::from_limbs_i64(&digits, b);
            let r = fl[i].repr();
            let (sig, exp) = (r.significand().clone(), r.exponent());
            // sig * 2^exp == val.num / 2^val.exp  <=>  sig * 2^(exp + val.exp) == val.num
            let sh = exp + val.exp as isize;
            let ok = if sh >= 0 { (sig << sh as usize) == val.num } else { sig == (val.num.clone() << (-sh) as usize) };
            if !ok {
                return Verdict::fail("decode_vec_float|value", format!("decode_vec_float differs from the exact rational value of the limbs: digits={digits:?} b={b}; float={}\ncase={ec:?}", fl[i]));
            }
        }
    }
    let nt = k % b != 0 || k < b || size > 1;
    let kc = if k < b {
        "k<b"
    } else if k == size * b {
        "k=size*b"
    } else if k % b == 0 {
        "k%b=0"
    } else {
        "k%b!=0"
    };
    Verdict::pass(nt && exact_n > 0, &[["vec_i64", "vec_i128", "coeff_i64"][form as usize], kc])
}

pub fn run(ctx: &Ctx) {
    ops::ALLOW_BEYOND_PRECISION.store(true, std::sync::atomic::Ordering::Relaxed);
    let t = ctx.tier;
    ctx.run_sub("normalize_shift_vs_value_model", t.pick(600_000, 6_000_000), 64, || strategy(6), test);
    ctx.run_sub("normalize_shift_large_n", t.pick(10_000, 100_000), 32, || strategy(11), test);
    ctx.run_enum("normalize_exhaustive_small_scope", true, exh_blocks(t == pzv_common::driver::Tier::Thorough), exh_test);
    ctx.run_sub("encode_decode", t.pick(300_000, 3_000_000), 32, enc_strategy, enc_test);
}

pub fn replay(ctx: &Ctx, sub: &str, case: &serde_json::Value) -> i32 {
    ops::ALLOW_BEYOND_PRECISION.store(true, std::sync::atomic::Ordering::Relaxed);
    match sub {
        "normalize_exhaustive_small_scope" => ctx.replay_case::<ExhCase, _>(sub, case, exh_test),
        "encode_decode" => ctx.replay_case::<EncCase, _>(sub, case, enc_test),
        _ => ctx.replay_case::<BeCase, _>(sub, case, test),
    }
}

pub const RULE: &str = "generated: (backend, op in normalize/normalize_assign/lsh*/rsh*/big_normalize*, radix pair 1..=62 x 1..=62, sizes 1..6, cols 1..3, offset in +-(a_bits+2b) with half of the cases at limb-boundary offsets m*b+{-1,0,1}, value class incl. 61-bit un-normalised digits and carry ripples); exhaustive: every digit tuple with digits in [-2^b,2^b], b_in,b_out in 1..=4, sizes<=3, every offset in +-(a_bits+2b); encoding: (b 2..=62, size 1..5, k classes k<b / multiple / size*b / random, vec_i64|vec_i128|coeff_i64, boundary values +-2^(k-1), +-(2^(k-2)-1)). Oracle = exact dyadic-rational value (i128 fast path, IBig otherwise): out == +-res_before +- in*2^off mod 1 within one unit of the last output limb, exactly if the output has enough limbs; digits in balanced range for same-radix overwrite forms. non-trivial = (cross radix or offset not a multiple of the radix or truncating output or un-normalised/rippling input) and input != 0.";
