//! C17 / C12 — the scratch arena: every region carved out of a scratch window lies inside the
//! window, is 64-byte aligned and disjoint from the others; a take that does not fit panics
//! instead of being served from memory behind the window.
//!
//! Histories of takes / splits on a window of generated length that starts at a generated
//! (mis)alignment; a byte-level model of the documented arena rule ("every take is re-aligned
//! to 64 bytes and panics when the remainder is too small") is the oracle.

use crate::env::GBuf;
use crate::mods::Be;
use crate::ops;
use poulpy_hal::api::*;
use poulpy_hal::layouts::{DataView, Module, Scratch};
use proptest::prelude::*;
use pzv_be::with_backend;
use pzv_common::driver::{Verdict, guarded};

#[derive(Clone, Debug, serde::Serialize, serde::Deserialize)]
pub struct ArenaCase {
    pub be: Be,
    pub log_n: u8,
    /// offset of the window inside its (64-byte aligned) allocation
    pub lead: u8,
    pub len: u16,
    pub steps: Vec<(u8, u16, u8)>,
}

#[derive(Clone, Copy)]
struct Cur {
    pos: usize,
    len: usize,
}

impl Cur {
    fn aligned(&self) -> (usize, usize) {
        let a = self.pos.div_ceil(64) * 64;
        (a, self.len.saturating_sub(a - self.pos))
    }
    /// model of one take of `l` bytes: Some(start address) or None = must panic
    fn take(&mut self, l: usize) -> Option<usize> {
        let (a, al) = self.aligned();
        if l > al {
            return None;
        }
        self.pos = a + l;
        self.len = al - l;
        Some(a)
    }
}

fn fail(sig: &str, c: &ArenaCase, step: usize, msg: String) -> Verdict {
    Verdict::fail(format!("scratch_arena|{sig}"), format!("step {step}: {msg}\ncase={c:?}"))
}

fn arena_run<B: ops::HalBackend>(m: &Module<B>, c: &ArenaCase) -> Verdict {
    let n = m.n();
    let lead = c.lead as usize;
    let wlen = c.len as usize;
    let mut buf = GBuf::new(lead + wlen);
    buf.fill_garbage(0x5eed ^ wlen as u64);
    let base = buf.data_mut().as_mut_ptr();
    let w0 = base as usize + lead;
    let w1 = w0 + wlen;
    let mk = |cur: Cur| -> &'static mut Scratch<B> {
        // the remainder according to the model (always inside the window, or empty)
        let (p, l) = if cur.pos >= w0 && cur.pos + cur.len <= w1 { (cur.pos, cur.len) } else { (w1, 0) };
        Scratch::<B>::from_bytes(unsafe { std::slice::from_raw_parts_mut(p as *mut u8, l) })
    };
    let mut cur = Cur { pos: w0, len: wlen };
    let mut s: Option<&mut Scratch<B>> = Some(mk(cur));
    // regions handed out so far: (start, len, tag)
    let mut regions: Vec<(usize, usize, u8)> = vec![];
    let mut classes: Vec<&'static str> = vec![c.be.name()];
    let mut misaligned_take = false;
    let mut panics = 0usize;
    for (step, (kind, arg, a2)) in c.steps.iter().enumerate() {
        let sc = s.take().unwrap();
        // available() against the model
        let av = sc.available();
        let (_, al) = cur.aligned();
        if av != al {
            return fail("available-differs-from-model", c, step, format!("available()={av}, model={al} (cursor offset {} of window {wlen})", cur.pos.wrapping_sub(w0)));
        }
        if cur.pos % 64 != 0 {
            misaligned_take = true;
        }
        let cols = 1 + (*a2 as usize) % 3;
        let size = 1 + (*arg as usize) % 3;
        // (bytes requested, closure result = (region ptr, region bytes, remainder))
        type R<'a, B> = (usize, usize, &'a mut Scratch<B>);
        let (want, res): (usize, Result<R<B>, String>) = match kind % 14 {
            0 => {
                let l = (*arg as usize) % 300;
                (l, guarded(move || {
                    let (t, r) = sc.take_slice::<u8>(l);
                    (t.as_ptr() as usize, t.len(), r)
                }))
            }
            1 => {
                let l = (*arg as usize) % 40;
                (l * 8, guarded(move || {
                    let (t, r) = sc.take_slice::<i64>(l);
                    (t.as_ptr() as usize, t.len() * 8, r)
                }))
            }
            2 => {
                let l = (*arg as usize) % 70;
                (l * 4, guarded(move || {
                    let (t, r) = sc.take_slice::<u32>(l);
                    (t.as_ptr() as usize, t.len() * 4, r)
                }))
            }
            3 => {
                classes.push("take_vec_znx");
                (n * cols * size * 8, guarded(move || {
                    let (t, r) = sc.take_vec_znx(n, cols, size);
                    (t.data.as_ptr() as usize, t.data.len(), r)
                }))
            }
            4 => {
                classes.push("take_scalar_znx");
                (n * cols * 8, guarded(move || {
                    let (t, r) = sc.take_scalar_znx(n, cols);
                    (t.data.as_ptr() as usize, t.data.len(), r)
                }))
            }
            5 => {
                classes.push("take_vec_znx_dft");
                (m.bytes_of_vec_znx_dft(cols, size), guarded(move || {
                    let (t, r) = sc.take_vec_znx_dft::<Module<B>, B>(m, cols, size);
                    (t.data.as_ptr() as usize, t.data.len(), r)
                }))
            }
            6 => {
                classes.push("take_vec_znx_big");
                (m.bytes_of_vec_znx_big(cols, size), guarded(move || {
                    let (t, r) = sc.take_vec_znx_big::<Module<B>, B>(m, cols, size);
                    (t.data.as_ptr() as usize, t.data.len(), r)
                }))
            }
            9 => {
                classes.push("take_svp_ppol");
                (m.bytes_of_svp_ppol(cols), guarded(move || {
                    let (t, r) = sc.take_svp_ppol::<Module<B>, B>(m, cols);
                    (t.data.as_ptr() as usize, t.data.len(), r)
                }))
            }
            10 => {
                classes.push("take_vmp_pmat");
                let (rows, ci, co) = (1 + (*arg as usize >> 2) % 2, cols, 1 + (*a2 as usize >> 2) % 2);
                (m.bytes_of_vmp_pmat(rows, ci, co, size), guarded(move || {
                    let (t, r) = sc.take_vmp_pmat::<Module<B>, B>(m, rows, ci, co, size);
                    { let d: &[u8] = t.data().as_ref(); (d.as_ptr() as usize, d.len(), r) }
                }))
            }
            11 => {
                classes.push("take_mat_znx");
                let (rows, ci, co) = (1 + (*arg as usize >> 2) % 2, cols, 1 + (*a2 as usize >> 2) % 2);
                (poulpy_hal::layouts::MatZnx::<Vec<u8>>::bytes_of(n, rows, ci, co, size), guarded(move || {
                    let (t, r) = sc.take_mat_znx(n, rows, ci, co, size);
                    { let d: &[u8] = t.data().as_ref(); (d.as_ptr() as usize, d.len(), r) }
                }))
            }
            12 => {
                classes.push("take_cnv_pvec_left");
                (m.bytes_of_cnv_pvec_left(cols, size), guarded(move || {
                    let (t, r) = sc.take_cnv_pvec_left::<Module<B>, B>(m, cols, size);
                    { let d: &[u8] = t.data().as_ref(); (d.as_ptr() as usize, d.len(), r) }
                }))
            }
            13 => {
                classes.push("take_cnv_pvec_right");
                (m.bytes_of_cnv_pvec_right(cols, size), guarded(move || {
                    let (t, r) = sc.take_cnv_pvec_right::<Module<B>, B>(m, cols, size);
                    { let d: &[u8] = t.data().as_ref(); (d.as_ptr() as usize, d.len(), r) }
                }))
            }
            7 => {
                classes.push("split_at_mut");
                let l = (*arg as usize) % 300;
                let inner = (*a2 as usize) % 80;
                // the split-off region is itself an arena: one take inside it, checked against the model of the sub-window
                let r = guarded(move || {
                    let (sub, r) = sc.split_at_mut(l);
                    let sp = sub.data.as_ptr() as usize;
                    let sl = sub.data.len();
                    let mut subcur = Cur { pos: sp, len: sl };
                    let exp = subcur.take(inner);
                    let got = guarded(|| {
                        let (t, _) = sub.take_slice::<u8>(inner);
                        (t.as_ptr() as usize, t.len())
                    });
                    let bad = match (exp, &got) {
                        (Some(a), Ok((p, gl))) => *p != a || *gl != inner || (inner > 0 && (*p < sp || p + gl > sp + sl)),
                        (None, Err(_)) => false,
                        (Some(_), Err(_)) => true,
                        (None, Ok(_)) => true,
                    };
                    ((sp, sl, bad, format!("inner take of {inner} in sub-window ({sp:#x},{sl}): model={exp:?} got={got:?}")), r)
                });
                match r {
                    Ok(((sp, sl, bad, msg), r)) => {
                        if bad {
                            return fail("sub-arena-take-differs-from-model", c, step, msg);
                        }
                        (l, Ok((sp, sl, r)))
                    }
                    Err(e) => (l, Err(e)),
                }
            }
            _ => {
                classes.push("split_mut");
                let k = 1 + (*a2 as usize) % 3;
                let l = (*arg as usize) % 200;
                // model: assert available >= k*l, then k sequential takes
                let mut mc = cur;
                let mut ok = al >= k * l;
                let mut starts = vec![];
                if ok {
                    for _ in 0..k {
                        match mc.take(l) {
                            Some(a) => starts.push(a),
                            None => {
                                ok = false;
                                break;
                            }
                        }
                    }
                }
                let got = guarded(move || {
                    let (v, r) = sc.split_mut(k, l);
                    (v.iter().map(|x| (x.data.as_ptr() as usize, x.data.len())).collect::<Vec<_>>(), r)
                });
                match (ok, got) {
                    (true, Ok((v, r))) => {
                        for (i, (p, gl)) in v.iter().enumerate() {
                            if *p != starts[i] || *gl != l {
                                return fail("split-region-differs-from-model", c, step, format!("split_mut({k},{l}) region {i}: got ({p:#x},{gl}) model ({:#x},{l})", starts[i]));
                            }
                            if l > 0 {
                                regions.push((*p, l, step as u8));
                            }
                        }
                        cur = mc;
                        if r.data.as_ptr() as usize != cur.pos && cur.len > 0 || r.data.len() != cur.len {
                            return fail("remainder-differs-from-model", c, step, format!("after split_mut: remainder ({:#x},{}) model ({:#x},{})", r.data.as_ptr() as usize, r.data.len(), cur.pos, cur.len));
                        }
                        s = Some(r);
                        continue;
                    }
                    (false, Err(_)) => {
                        panics += 1;
                        s = Some(mk(cur));
                        continue;
                    }
                    (true, Err(e)) => return fail("take-that-fits-panicked", c, step, format!("split_mut({k},{l}) with {al} aligned bytes left panicked: {e}")),
                    (false, Ok(_)) => return fail("take-served-beyond-window", c, step, format!("split_mut({k},{l}) with {al} aligned bytes left (cursor offset {}) did not panic", cur.pos - w0)),
                }
            }
        };
        let mut mc = cur;
        let exp = mc.take(want);
        match (exp, res) {
            (Some(a), Ok((p, gl, r))) => {
                if gl != want || (want > 0 && p != a) {
                    return fail("region-differs-from-model", c, step, format!("take of {want} bytes: got ({p:#x},{gl}), model ({a:#x},{want})"));
                }
                if want > 0 && (p < w0 || p + gl > w1) {
                    return fail("region-outside-window", c, step, format!("take of {want} bytes at window offset {} of {wlen}", p.wrapping_sub(w0)));
                }
                cur = mc;
                let (rp, rl) = (r.data.as_ptr() as usize, r.data.len());
                if rl != cur.len || (rl > 0 && rp != cur.pos) || (rl > 0 && rp + rl > w1) {
                    return fail("remainder-differs-from-model", c, step, format!("after a take of {want} bytes: remainder at window offset {} with {rl} bytes, model offset {} with {} bytes (window {wlen})", rp.wrapping_sub(w0), cur.pos.wrapping_sub(w0), cur.len));
                }
                if want > 0 {
                    regions.push((p, gl, step as u8));
                    unsafe { std::ptr::write_bytes(p as *mut u8, 0x40 + step as u8, gl) };
                }
                s = Some(r);
            }
            (None, Err(_)) => {
                panics += 1;
                s = Some(mk(cur));
            }
            (Some(_), Err(e)) => {
                let (_, al) = cur.aligned();
                return fail("take-that-fits-panicked", c, step, format!("take of {want} bytes with {al} aligned bytes left panicked: {e}"));
            }
            (None, Ok((p, gl, _))) => {
                let (_, al) = cur.aligned();
                return fail("take-served-beyond-window", c, step, format!("take of {want} bytes with only {al} aligned bytes left (cursor offset {} of window {wlen}) was served at window offset {} ({gl} bytes)", cur.pos - w0, p.wrapping_sub(w0)));
            }
        }
    }
    // regions are disjoint and still hold their tags (split_mut regions were not tagged)
    regions.sort();
    for w in regions.windows(2) {
        if w[0].0 + w[0].1 > w[1].0 {
            return fail("regions-overlap", c, c.steps.len(), format!("regions {:?} and {:?} overlap", w[0], w[1]));
        }
    }
    if !buf.canary_ok() {
        return fail("guard-damaged", c, c.steps.len(), "guard margin around the allocation damaged".into());
    }
    if misaligned_take {
        classes.push("take_from_misaligned_cursor");
    }
    if panics > 0 {
        classes.push("expected_panic");
    }
    if lead % 64 != 0 {
        classes.push("window_start_misaligned");
    }
    Verdict::pass(misaligned_take && c.steps.len() >= 2, &classes)
}

pub fn arena_test(c: &ArenaCase) -> Verdict {
    let log_n = c.log_n.clamp(c.be.min_log_n(), 5);
    with_backend!(c.be, log_n, |m| arena_run(m, c))
}

pub fn arena_strategy() -> BoxedStrategy<ArenaCase> {
    (
        crate::c09::be_strategy(),
        0u8..=5,
        prop_oneof![Just(0u8), 0u8..=130, Just(64u8), Just(63u8), Just(1u8)],
        prop_oneof![0u16..=512, 0u16..=4096, Just(64u16), Just(128u16)],
        proptest::collection::vec((0u8..14, any::<u16>(), any::<u8>()), 1..10),
    )
        .prop_map(|(be, log_n, lead, len, steps)| ArenaCase { be, log_n, lead, len, steps })
        .boxed()
}
