//! C12 — declared scratch size always suffices and scratch contents never matter (HAL layer).
//!
//! The scratch handed to each operation is a window of exactly the number of bytes its
//! companion size query returned, 64-byte aligned, inside a guarded allocation.

use crate::c11::{audit, same_outputs};
use crate::env::ScratchMode;
use crate::mods::Be;
use crate::ops::{self, Fam, OpCase, adapt, exec};
use pzv_be::with_backend;
use proptest::prelude::*;
use pzv_common::driver::{Ctx, Verdict, guarded, panic_sig};
use pzv_common::model::VClass;

pub use crate::c09::BeCase;

pub fn run_case<B: ops::HalBackend>(m: &poulpy_hal::layouts::Module<B>, be: Be, c: &OpCase, delta: usize) -> Verdict {
    // (1) exact window, two fills
    let o0 = match guarded(|| exec(m, c, 0, ScratchMode::Exact)) {
        Ok(o) => o,
        Err(p) => {
            return Verdict::fail(
                format!("{}|exact-scratch-panic|{}", c.op, panic_sig(&p)),
                format!("backend={} op={}: panicked with a scratch window of exactly the queried size: {p}\ncase={c:?}", be.name(), c.op),
            );
        }
    };
    if let Err(v) = audit(c, be, &o0) {
        return v;
    }
    let o1 = match guarded(|| exec(m, c, 1, ScratchMode::Exact)) {
        Ok(o) => o,
        Err(p) => return Verdict::fail(format!("{}|exact-scratch-panic|{}", c.op, panic_sig(&p)), format!("backend={} op={}: {p}\ncase={c:?}", be.name(), c.op)),
    };
    if let Err(v) = audit(c, be, &o1) {
        return v;
    }
    if let Err(e) = same_outputs(&o0, &o1) {
        return Verdict::fail(
            format!("{}|depends-on-scratch-or-output-contents", c.op),
            format!("backend={} op={}: result differs between two fills of scratch/output garbage: {e}\ncase={c:?}", be.name(), c.op),
        );
    }
    // (2) monotone: a larger window gives the identical result
    let o2 = match guarded(|| exec(m, c, 0, ScratchMode::Plus(delta))) {
        Ok(o) => o,
        Err(p) => return Verdict::fail(format!("{}|larger-scratch-panic", c.op), format!("backend={} op={}: panicked with query+{delta} bytes: {p}\ncase={c:?}", be.name(), c.op)),
    };
    if let Err(e) = same_outputs(&o0, &o2) {
        return Verdict::fail(
            format!("{}|result-depends-on-scratch-size", c.op),
            format!("backend={} op={}: result with query+{delta} bytes differs from the exact-window result: {e}\ncase={c:?}", be.name(), c.op),
        );
    }
    let q = o0.scratch_query.unwrap_or(0);
    let nt = q > 0 && c.cls[1] != VClass::Zero;
    let mut classes: Vec<&str> = vec![&c.op, be.name()];
    if q % 64 != 0 {
        classes.push("query_not_multiple_of_64");
    }
    if q == 0 {
        classes.push("query_zero");
    }
    classes.push(if nt { "nontrivial" } else { "trivial" });
    Verdict::pass(nt, &classes)
}

#[derive(Clone, Debug, serde::Serialize, serde::Deserialize)]
pub struct Case12 {
    pub bc: BeCase,
    pub delta: u16,
}

pub fn test(k: &Case12) -> Verdict {
    let bc = &k.bc;
    let mut c = bc.c.clone();
    adapt(&mut c);
    if c.log_n < bc.be.min_log_n() {
        c.log_n = bc.be.min_log_n();
        adapt(&mut c);
    }
    let be = match (c.wide, bc.be) {
        (true, Be::FftRef) => Be::NttRef,
        (true, Be::FftAvx) => Be::NttAvx,
        (_, b) => b,
    };
    let delta = 1 + k.delta as usize;
    with_backend!(be, c.log_n, |m| run_case(m, be, &c, delta))
}

fn strategy(max_log_n: u8) -> BoxedStrategy<Case12> {
    let ops: Vec<&'static str> = ops::all_ops().iter().filter(|o| o.scratch).map(|o| o.name).collect();
    (crate::c09::be_strategy(), ops::case_strategy(ops, max_log_n), any::<u16>()).prop_map(|(be, c, delta)| Case12 { bc: BeCase { be, c }, delta }).boxed()
}

pub fn run(ctx: &Ctx) {
    let t = ctx.tier;
    let _ = Fam::Ring;
    ctx.run_sub("hal_ops_exact_scratch", t.pick(200_000, 2_000_000), 64, || strategy(8), test);
    ctx.run_sub("hal_ops_exact_scratch_large_n", t.pick(4_000, 40_000), 64, || strategy(13), test);
    ctx.run_sub("scratch_arena_histories", t.pick(200_000, 2_000_000), 64, crate::c17arena::arena_strategy, crate::c17arena::arena_test);
}

pub fn replay(ctx: &Ctx, sub: &str, case: &serde_json::Value) -> i32 {
    if sub == "scratch_arena_histories" {
        return ctx.replay_case::<crate::c17arena::ArenaCase, _>(sub, case, crate::c17arena::arena_test);
    }
    ctx.replay_case::<Case12, _>(sub, case, test)
}

pub const RULE: &str = "cases = (backend, every HAL operation that takes scratch, shapes as in C07-C09 incl. N < 8 whose temporaries are not multiples of 64 bytes); scratch = Scratch::from_bytes of a 64-byte aligned window of exactly the queried size inside a guarded allocation. Checks: no panic; guard regions intact; identical result for two scratch fills; identical result with a window enlarged by a generated delta (monotonicity, hence max over a set of queries serves each). non-trivial = query > 0 and input != 0. Sub-check scratch_arena_histories: histories of takes / splits on a window of 0..4096 bytes at any start alignment against a byte-level model of the arena rule (a take that fits is served 64-byte aligned inside the window, one that does not fit panics, available() equals the model); non-trivial = a take from a cursor that is not 64-byte aligned.";
