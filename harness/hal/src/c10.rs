//! C10 — all backends give bit-identical results for identical inputs and seeds (HAL layer).
//!
//! Oracle: byte equality.  Reference vs AVX within a family on every coefficient-domain
//! output (and on the coefficient image of transform-domain outputs); FFT64 vs NTT120
//! wherever the case is inside both magnitude domains.

use crate::env::{Kind, Outcome, ScratchMode};
use crate::mods::Be;
use crate::ops::{self, Fam, OpCase, adapt, exec};
use proptest::prelude::*;
use pzv_common::driver::{Ctx, Verdict};
use pzv_common::model::VClass;

/// what must be equal: coefficient-domain declared outputs, coefficient image, aux
fn compare(a: &Outcome, b: &Outcome, cross_family: bool, radix: usize) -> Result<(), String> {
    for (x, y) in a.slots.iter().zip(b.slots.iter()) {
        if !x.writable || x.kind == Kind::Scratch {
            continue;
        }
        match x.kind {
            Kind::Znx | Kind::Scalar => {
                if x.declared_post() != y.declared_post() {
                    let mut d = String::new();
                    if x.kind == Kind::Znx {
                        'o: for j in 0..x.size {
                            let (p, q) = (x.post_i64(j), y.post_i64(j));
                            for i in 0..x.n {
                                if p[i] != q[i] {
                                    let cx: Vec<i64> = (0..x.size).map(|l| x.post_i64(l)[i]).collect();
                                    let cy: Vec<i64> = (0..y.size).map(|l| y.post_i64(l)[i]).collect();
                                    d = format!(" (coeff {i}: {cx:?} vs {cy:?})");
                                    break 'o;
                                }
                            }
                        }
                    }
                    // do the two results at least denote the same torus value?
                    let mut torus_equal = x.kind == Kind::Znx;
                    if x.kind == Kind::Znx {
                        let (cx, cy) = (x.post_col(), y.post_col());
                        for i in 0..x.n {
                            let dx: Vec<i64> = cx.iter().map(|l| l[i]).collect();
                            let dy: Vec<i64> = cy.iter().map(|l| l[i]).collect();
                            let (vx, vy) = (pzv_common::model::Dyadic::from_limbs_i64(&dx, radix), pzv_common::model::Dyadic::from_limbs_i64(&dy, radix));
                            if pzv_common::model::torus_close(&vx, &vy, dx.len() * radix, 0).is_err() {
                                torus_equal = false;
                                break;
                            }
                        }
                    }
                    let t = if torus_equal { "same-torus-value" } else { "different-value" };
                    return Err(format!("{t}: coefficient-domain output `{}` differs{d}", x.label));
                }
            }
            Kind::Big => {
                if cross_family {
                    // i64 vs i128 accumulators: compare values
                    for j in 0..x.size {
                        if x.post_big(j) != y.post_big(j) {
                            return Err(format!("big output `{}` limb {j} differs in value", x.label));
                        }
                    }
                } else if x.declared_post() != y.declared_post() {
                    return Err(format!("big output `{}` differs", x.label));
                }
            }
            _ => {} // transform-domain / prepared: compared through the coefficient image
        }
    }
    if a.coeff_out != b.coeff_out {
        let d = match (&a.coeff_out, &b.coeff_out) {
            (Some(p), Some(q)) => p.iter().zip(q).enumerate().find_map(|(j, (u, v))| u.iter().zip(v).position(|(s, t)| s != t).map(|i| format!("limb {j} coeff {i}: {} vs {}", u[i], v[i]))),
            _ => None,
        };
        return Err(format!("coefficient image of the transform-domain output differs ({})", d.unwrap_or_default()));
    }
    if a.aux != b.aux {
        return Err("random stream position after the call differs".into());
    }
    Ok(())
}

fn run_on(be: Be, c: &OpCase) -> Outcome {
    pzv_be::with_backend!(be, c.log_n, |m| exec(m, c, 0, ScratchMode::Roomy))
}

pub fn test(c0: &OpCase) -> Verdict {
    let mut c = c0.clone();
    adapt(&mut c);
    let mut outs: Vec<(Be, Outcome)> = vec![];
    for be in Be::ALL {
        if c.log_n < be.min_log_n() || (c.wide && be.is_fft()) {
            continue;
        }
        outs.push((be, run_on(be, &c)));
    }
    for i in 0..outs.len() {
        for j in i + 1..outs.len() {
            let (ba, bb) = (outs[i].0, outs[j].0);
            let cross = ba.is_fft() != bb.is_fft();
            if let Err(e) = compare(&outs[i].1, &outs[j].1, cross, c.bb()) {
                let pair = if cross { "fft64-vs-ntt120" } else if ba.is_fft() { "fft64-ref-vs-avx" } else { "ntt120-ref-vs-avx" };
                let radix = if c.op.contains("normalize") && !c.op.ends_with("normalize_assign") { if c.b == c.b2 { "|same-radix" } else { "|cross-radix" } } else { "" };
                let t = if e.starts_with("same-torus-value") { "|same-torus-value" } else { "" };
                return Verdict::fail(format!("{}|{pair}{radix}{t}", c.op), format!("op={}: {} and {} disagree: {e}\ncase={c:?}", c.op, ba.name(), bb.name()));
            }
        }
    }
    let n = c.n();
    let tail = n % 4 != 0 || n < 4;
    let nt = c.cls[1] != VClass::Zero && outs.len() >= 2;
    let mut classes: Vec<&str> = vec![&c.op, c.cls[1].name()];
    if tail {
        classes.push("n_below_simd_width");
    }
    if outs.len() == 4 {
        classes.push("four_backends");
    }
    if c.cls[1] == VClass::FullI64 {
        classes.push("full_i64_wrapping");
    }
    classes.push(if nt { "nontrivial" } else { "trivial" });
    Verdict::pass(nt, &classes)
}

fn strategy(fams: &'static [Fam], max_log_n: u8) -> BoxedStrategy<OpCase> {
    ops::case_strategy(ops::ops_of(fams), max_log_n)
}

pub fn run(ctx: &Ctx) {
    let t = ctx.tier;
    ctx.run_sub("coefficient_ops_cross_backend", t.pick(150_000, 1_500_000), 64, || strategy(&[Fam::Ring, Fam::Norm, Fam::BigRing, Fam::BigNorm, Fam::Sample], 8), test);
    ctx.run_sub("dft_ops_cross_backend", t.pick(100_000, 1_000_000), 64, || strategy(&[Fam::Dft], 8), test);
    ctx.run_sub("all_ops_cross_backend_large_n", t.pick(3_000, 30_000), 64, || strategy(&[Fam::Ring, Fam::Norm, Fam::BigRing, Fam::BigNorm, Fam::Dft, Fam::Sample], 13), test);
}

pub fn replay(ctx: &Ctx, sub: &str, case: &serde_json::Value) -> i32 {
    ctx.replay_case::<OpCase, _>(sub, case, test)
}

pub const RULE: &str = "cases = (registry op, shape, value class) issued with identical inputs/seeds on FFT64Ref, FFT64Avx, NTT120Ref, NTT120Avx (N from 1; FFT64 from 2; 'wide' magnitude cases on the NTT120 pair only); compared pairwise: coefficient-domain outputs byte for byte (big accumulators by value across families), transform-domain outputs through their coefficient image, and the position of the random stream after sampling. In the release-profile pass the value classes include the full i64 range (wrapping kernels). non-trivial = input != 0 and at least two backends ran.";
