//! C09 — coefficient-domain ring operations match Z[X]/(X^N+1) exactly.
//!
//! Oracle: index-level model written from the definition (pzv_common::model) plus the
//! documented size rule; group laws as metamorphic sub-checks.

use crate::env::{Outcome, ScratchMode};
use crate::mods::Be;
use crate::ops::{self, Fam, OpCase, adapt, exec};
use pzv_be::with_backend;
use proptest::prelude::*;
use pzv_common::driver::{Ctx, Verdict};
use pzv_common::model::*;
use serde::{Deserialize, Serialize};

#[derive(Clone, Debug, Serialize, Deserialize)]
pub struct BeCase {
    pub be: Be,
    pub c: OpCase,
}

fn zero(n: usize) -> Vec<i128> {
    vec![0i128; n]
}

fn w(v: &[i64]) -> Vec<i128> {
    v.iter().map(|x| *x as i128).collect()
}

fn limb<'a>(col: &'a [Vec<i128>], j: usize, z: &'a [i128]) -> &'a [i128] {
    if j < col.len() { &col[j] } else { z }
}

fn add(a: &[i128], b: &[i128]) -> Vec<i128> {
    a.iter().zip(b).map(|(x, y)| x.wrapping_add(*y)).collect()
}
fn sub(a: &[i128], b: &[i128]) -> Vec<i128> {
    a.iter().zip(b).map(|(x, y)| x.wrapping_sub(*y)).collect()
}
fn neg(a: &[i128]) -> Vec<i128> {
    a.iter().map(|x| x.wrapping_neg()).collect()
}

fn switch_ring(a: &[i128], n_out: usize) -> Vec<i128> {
    let n_in = a.len();
    let mut out = vec![0i128; n_out];
    if n_in >= n_out {
        let gap = n_in / n_out;
        for i in 0..n_out {
            out[i] = a[i * gap];
        }
    } else {
        let gap = n_out / n_in;
        for i in 0..n_in {
            out[i * gap] = a[i];
        }
    }
    out
}

/// Expected content of the selected output column(s): label -> limbs.
pub fn expected(c: &OpCase, o: &Outcome) -> Vec<(&'static str, Vec<Vec<i128>>)> {
    let op = c.op.as_str();
    let big_res = o.try_slot("res").map(|s| s.kind == crate::env::Kind::Big).unwrap_or(false);
    let col_of = |label: &str| -> Vec<Vec<i128>> {
        let s = o.slot(label);
        match s.kind {
            crate::env::Kind::Big => s.pre_col_big(),
            crate::env::Kind::Scalar => {
                let off = s.n * s.col * 8;
                vec![s.pre[off..off + s.n * 8].chunks_exact(8).map(|c| i64::from_le_bytes(c.try_into().unwrap()) as i128).collect()]
            }
            _ => s.pre_col().iter().map(|l| w(l)).collect(),
        }
    };
    let _ = big_res;
    if op == "vec_znx_split_ring" {
        let a = col_of("a");
        let n = c.n();
        let n2 = c.n2();
        let gap = n / n2;
        let mut outs = vec![];
        const LABELS: [&str; 16] = ["p0", "p1", "p2", "p3", "p4", "p5", "p6", "p7", "p8", "p9", "p10", "p11", "p12", "p13", "p14", "p15"];
        for i in 0..gap {
            let mut limbs = vec![];
            // (every part has its own limb count)
            let rs = o.slot(LABELS[i]).size;
            for j in 0..rs {
                if j < a.len() {
                    limbs.push((0..n2).map(|t| a[j][t * gap + i]).collect());
                } else {
                    limbs.push(zero(n2));
                }
            }
            outs.push((LABELS[i], limbs));
        }
        return outs;
    }
    let res = o.slot("res");
    let n = res.n;
    let rs = res.size;
    let z = zero(n);
    let mut out: Vec<Vec<i128>> = Vec::with_capacity(rs);
    match op {
        "vec_znx_zero" => {
            for _ in 0..rs {
                out.push(zero(n));
            }
        }
        "vec_znx_add_into" | "vec_znx_big_add_into" | "vec_znx_big_add_small_into" => {
            let (a, b) = (col_of("a"), col_of("b"));
            for j in 0..rs {
                out.push(add(limb(&a, j, &z), limb(&b, j, &z)));
            }
        }
        "vec_znx_sub" | "vec_znx_big_sub" | "vec_znx_big_sub_small_a" | "vec_znx_big_sub_small_b" => {
            let (a, b) = (col_of("a"), col_of("b"));
            for j in 0..rs {
                out.push(sub(limb(&a, j, &z), limb(&b, j, &z)));
            }
        }
        "vec_znx_add_assign" | "vec_znx_big_add_assign" | "vec_znx_big_add_small_assign" => {
            let (r, a) = (col_of("res"), col_of("a"));
            for j in 0..rs {
                out.push(add(&r[j], limb(&a, j, &z)));
            }
        }
        "vec_znx_sub_assign" | "vec_znx_big_sub_assign" | "vec_znx_big_sub_small_assign" => {
            let (r, a) = (col_of("res"), col_of("a"));
            for j in 0..rs {
                out.push(sub(&r[j], limb(&a, j, &z)));
            }
        }
        "vec_znx_sub_negate_assign" | "vec_znx_big_sub_negate_assign" | "vec_znx_big_sub_small_negate_assign" => {
            let (r, a) = (col_of("res"), col_of("a"));
            for j in 0..rs {
                out.push(sub(limb(&a, j, &z), &r[j]));
            }
        }
        "vec_znx_add_scalar_into" | "vec_znx_sub_scalar" => {
            let (a, b) = (col_of("a"), col_of("b"));
            for j in 0..rs {
                let base = limb(&b, j, &z).to_vec();
                if j == c.q as usize {
                    out.push(if op == "vec_znx_add_scalar_into" { add(&base, &a[0]) } else { sub(&base, &a[0]) });
                } else {
                    out.push(base);
                }
            }
        }
        "vec_znx_add_scalar_assign" | "vec_znx_sub_scalar_assign" => {
            let (r, a) = (col_of("res"), col_of("a"));
            for j in 0..rs {
                if j == c.q as usize {
                    out.push(if op == "vec_znx_add_scalar_assign" { add(&r[j], &a[0]) } else { sub(&r[j], &a[0]) });
                } else {
                    out.push(r[j].clone());
                }
            }
        }
        "vec_znx_negate" | "vec_znx_big_negate" => {
            let a = col_of("a");
            for j in 0..rs {
                out.push(neg(limb(&a, j, &z)));
            }
        }
        "vec_znx_negate_assign" | "vec_znx_big_negate_assign" => {
            let r = col_of("res");
            for j in 0..rs {
                out.push(neg(&r[j]));
            }
        }
        "vec_znx_copy" | "vec_znx_big_from_small" => {
            let a = col_of("a");
            for j in 0..rs {
                out.push(limb(&a, j, &z).to_vec());
            }
        }
        "vec_znx_rotate" | "vec_znx_rotate_assign" => {
            let a = if op == "vec_znx_rotate" { col_of("a") } else { col_of("res") };
            for j in 0..rs {
                out.push(rotate_i128(limb(&a, j, &z), c.p));
            }
        }
        "vec_znx_mul_xp_minus_one" | "vec_znx_mul_xp_minus_one_assign" => {
            let a = if op == "vec_znx_mul_xp_minus_one" { col_of("a") } else { col_of("res") };
            for j in 0..rs {
                let x = limb(&a, j, &z);
                out.push(sub(&rotate_i128(x, c.p), x));
            }
        }
        "vec_znx_automorphism" | "vec_znx_big_automorphism" => {
            let a = col_of("a");
            for j in 0..rs {
                out.push(automorphism_i128(limb(&a, j, &z), c.p));
            }
        }
        "vec_znx_automorphism_assign" | "vec_znx_big_automorphism_assign" => {
            let a = col_of("res");
            for j in 0..rs {
                out.push(automorphism_i128(&a[j], c.p));
            }
        }
        "vec_znx_switch_ring" => {
            let a = col_of("a");
            let za = zero(c.n());
            for j in 0..rs {
                out.push(switch_ring(limb(&a, j, &za), n));
            }
        }
        "vec_znx_merge_rings" => {
            let n2 = c.n2();
            let gap = n / n2;
            const LABELS: [&str; 16] = ["p0", "p1", "p2", "p3", "p4", "p5", "p6", "p7", "p8", "p9", "p10", "p11", "p12", "p13", "p14", "p15"];
            let parts: Vec<Vec<Vec<i128>>> = (0..gap).map(|i| col_of(LABELS[i])).collect();
            for j in 0..rs {
                let mut l = zero(n);
                for (i, p) in parts.iter().enumerate() {
                    if j < p.len() {
                        for t in 0..n2 {
                            l[t * gap + i] = p[j][t];
                        }
                    }
                }
                out.push(l);
            }
        }
        _ => panic!("harness: no C09 model for {op}"),
    }
    vec![("res", out)]
}

pub fn actual(o: &Outcome, label: &str) -> Vec<Vec<i128>> {
    let s = o.slot(label);
    match s.kind {
        crate::env::Kind::Big => s.post_col_big(),
        _ => s.post_col().iter().map(|l| w(l)).collect(),
    }
}

fn first_diff(exp: &[Vec<i128>], got: &[Vec<i128>]) -> Option<String> {
    for (j, (e, g)) in exp.iter().zip(got).enumerate() {
        for (i, (x, y)) in e.iter().zip(g).enumerate() {
            if x != y {
                return Some(format!("limb {j} coeff {i}: expected {x}, got {y}"));
            }
        }
    }
    None
}

pub fn run_case<B: ops::HalBackend>(m: &poulpy_hal::layouts::Module<B>, be: Be, c: &OpCase) -> Verdict {
    let o = exec(m, c, 0, ScratchMode::Roomy);
    for (label, exp) in expected(c, &o) {
        let got = actual(&o, label);
        if let Some(d) = first_diff(&exp, &got) {
            return Verdict::fail(format!("{}|model-mismatch", c.op), format!("backend={} op={} slot={label}: {d}\ncase={c:?}", be.name(), c.op));
        }
    }
    let nt = nontrivial(c);
    Verdict::pass(nt, &[&c.op, be.name(), c.cls[1].name(), if nt { "nontrivial" } else { "trivial" }])
}

fn nontrivial(c: &OpCase) -> bool {
    let n = c.n() as i64;
    let sizes_differ = c.size[0] != c.size[1] || c.size[0] != c.size[2];
    let cols = c.col[0] != c.col[1] || c.cols[0] > 1;
    let op = c.op.as_str();
    let k_wide = (op.contains("rotate") || op.contains("xp_minus")) && (c.p < 0 || c.p >= n);
    let g = op.contains("automorphism") && c.p != 1;
    let ratio = (op.contains("split") || op.contains("merge")) && c.log_n - c.log_n2 > 1;
    (sizes_differ || cols || k_wide || g || ratio) && c.cls[1] != VClass::Zero
}

pub fn test(bc: &BeCase) -> Verdict {
    let mut c = bc.c.clone();
    adapt(&mut c);
    if c.log_n < bc.be.min_log_n() {
        c.log_n = bc.be.min_log_n();
        adapt(&mut c);
    }
    with_backend!(bc.be, c.log_n, |m| run_case(m, bc.be, &c))
}

pub fn be_strategy() -> impl Strategy<Value = Be> {
    prop_oneof![Just(Be::FftRef), Just(Be::FftAvx), Just(Be::NttRef), Just(Be::NttAvx)]
}

fn strategy(max_log_n: u8) -> BoxedStrategy<BeCase> {
    let ops = ops::ops_of(&[Fam::Ring, Fam::BigRing]);
    (be_strategy(), ops::case_strategy(ops, max_log_n)).prop_map(|(be, c)| BeCase { be, c }).boxed()
}

// ---------------------------------------------------------------------------
// group laws (metamorphic, through the library only)
// ---------------------------------------------------------------------------

#[derive(Clone, Debug, Serialize, Deserialize)]
pub struct LawCase {
    pub be: Be,
    pub law: u8,
    pub log_n: u8,
    pub ratio_log: u8,
    pub size: u8,
    pub j: i64,
    pub k: i64,
    pub seed: u64,
}

fn law_strategy() -> BoxedStrategy<LawCase> {
    (be_strategy(), 0u8..6, 0u8..=10, 1u8..=4, 1u8..=4, ops::p_strategy(), ops::p_strategy(), any::<u64>())
        .prop_map(|(be, law, log_n, ratio_log, size, j, k, seed)| LawCase {
            be,
            law,
            log_n,
            ratio_log,
            size,
            j,
            k,
            seed,
        })
        .boxed()
}

fn law_run<B: ops::HalBackend>(m: &poulpy_hal::layouts::Module<B>, lc: &LawCase) -> Verdict {
    use poulpy_hal::api::*;
    use poulpy_hal::layouts::{GaloisElement, ScratchOwned, VecZnx, ZnxView, ZnxViewMut};
    let n = m.n();
    let size = lc.size as usize;
    let vals = gen_column(VClass::Uniform, 40, n, size, lc.seed);
    let mut a = VecZnx::alloc(n, 1, size);
    for j in 0..size {
        a.at_mut(0, j).copy_from_slice(&vals[j]);
    }
    let mut scratch = ScratchOwned::<B>::alloc(1 << 16);
    let mut r1 = VecZnx::alloc(n, 1, size);
    let mut r2 = VecZnx::alloc(n, 1, size);
    let two_n = 2 * n as i64;
    let name;
    let ok = match lc.law {
        0 => {
            // rot_j . rot_k = rot_{j+k}
            name = "rot_compose";
            let (j, k) = (lc.j % (1 << 40), lc.k % (1 << 40));
            m.vec_znx_rotate(j, &mut r1, 0, &a, 0);
            m.vec_znx_rotate_assign(k, &mut r1, 0, scratch.borrow());
            m.vec_znx_rotate(j + k, &mut r2, 0, &a, 0);
            r1 == r2
        }
        1 => {
            // rot_{2N} = id, rot_N = -id
            name = "rot_order";
            m.vec_znx_rotate(two_n, &mut r1, 0, &a, 0);
            m.vec_znx_rotate(n as i64, &mut r2, 0, &a, 0);
            m.vec_znx_negate_assign(&mut r2, 0);
            r1 == a && r2 == a
        }
        2 => {
            // aut_g . aut_h = aut_{gh}
            name = "aut_compose";
            let g = (lc.j | 1).rem_euclid(two_n.max(2));
            let h = (lc.k | 1).rem_euclid(two_n.max(2));
            m.vec_znx_automorphism(g, &mut r1, 0, &a, 0);
            m.vec_znx_automorphism_assign(h, &mut r1, 0, scratch.borrow());
            let gh = ((g as i128 * h as i128) % two_n.max(2) as i128) as i64;
            m.vec_znx_automorphism(gh, &mut r2, 0, &a, 0);
            r1 == r2
        }
        3 => {
            // aut_g . aut_{g^-1} = id with the library's inverse, and the signed generator convention
            name = "aut_inverse";
            if n < 2 {
                return Verdict::pass(false, &["law_skip_n1"]);
            }
            let gen_ = lc.j % 4096;
            let g = m.galois_element(gen_);
            let gm = galois_element_model(gen_, two_n as u64);
            if g != gm {
                return Verdict::fail("law|galois_element", format!("galois_element({gen_}) = {g}, model {gm}, N={n}"));
            }
            // the inverse is defined on the whole group (Z/2NZ)*: half of the cases take any odd representative in (-4N, 4N)
            let g = if lc.k & 2 == 0 { g } else { ((lc.k >> 2).rem_euclid(8 * n as i64) - 4 * n as i64) | 1 };
            let ginv = m.galois_element_inv(g);
            if (g as i128 * ginv as i128).rem_euclid(two_n as i128) != 1 {
                return Verdict::fail("law|galois_element_inv", format!("g={g} ginv={ginv} g*ginv mod 2N != 1, N={n}"));
            }
            m.vec_znx_automorphism(g, &mut r1, 0, &a, 0);
            m.vec_znx_automorphism(ginv, &mut r2, 0, &r1, 0);
            r2 == a
        }
        4 => {
            // merge(split(a)) = a and split(merge(parts)) = parts
            name = "split_merge";
            let rl = (lc.ratio_log as usize).min(lc.log_n as usize);
            if rl == 0 {
                return Verdict::pass(false, &["law_skip_n1"]);
            }
            let n2 = n >> rl;
            let parts = n / n2;
            let mut ps: Vec<VecZnx<Vec<u8>>> = (0..parts).map(|_| VecZnx::alloc(n2, 1, size)).collect();
            m.vec_znx_split_ring(&mut ps, 0, &a, 0, scratch.borrow());
            m.vec_znx_merge_rings(&mut r1, 0, &ps, 0, scratch.borrow());
            let mut ps2: Vec<VecZnx<Vec<u8>>> = (0..parts).map(|_| VecZnx::alloc(n2, 1, size)).collect();
            m.vec_znx_split_ring(&mut ps2, 0, &r1, 0, scratch.borrow());
            r1 == a && ps == ps2
        }
        _ => {
            // switch_ring: down . up = id
            name = "switch_ring_roundtrip";
            let rl = (lc.ratio_log as usize).min(16 - lc.log_n as usize);
            let nbig = n << rl;
            let mut up = VecZnx::alloc(nbig, 1, size);
            m.vec_znx_switch_ring(&mut up, 0, &a, 0);
            m.vec_znx_switch_ring(&mut r1, 0, &up, 0);
            // and the up image only populates multiples of the gap
            let gap = nbig / n;
            let mut sparse_ok = true;
            for j in 0..size {
                for (i, x) in up.at(0, j).iter().enumerate() {
                    if i % gap != 0 && *x != 0 {
                        sparse_ok = false;
                    }
                }
            }
            r1 == a && sparse_ok
        }
    };
    if ok {
        Verdict::pass(true, &[name, lc.be.name()])
    } else {
        Verdict::fail(format!("law|{name}"), format!("law {name} violated: backend={} case={lc:?}", lc.be.name()))
    }
}

pub fn law_test(lc: &LawCase) -> Verdict {
    let mut lc = lc.clone();
    lc.log_n = lc.log_n.max(lc.be.min_log_n());
    with_backend!(lc.be, lc.log_n, |m| law_run(m, &lc))
}

// ---------------------------------------------------------------------------
// exhaustive small scope: every k in [-4N,4N], every odd g, N <= 64
// ---------------------------------------------------------------------------

fn exhaustive_blocks(max_log_n: u8) -> Vec<Vec<BeCase>> {
    let mut blocks = vec![];
    for be in Be::ALL {
        for log_n in be.min_log_n()..=max_log_n {
            let n = 1i64 << log_n;
            let mut block = vec![];
            for (op, ks) in [
                ("vec_znx_rotate", (-4 * n..=4 * n).collect::<Vec<i64>>()),
                ("vec_znx_rotate_assign", (-4 * n..=4 * n).collect()),
                ("vec_znx_mul_xp_minus_one", (-4 * n..=4 * n).collect()),
                ("vec_znx_mul_xp_minus_one_assign", (-2 * n..=2 * n).collect()),
                ("vec_znx_automorphism", (-2 * n..=2 * n).filter(|g| g & 1 == 1).collect()),
                ("vec_znx_automorphism_assign", (-2 * n..=2 * n).filter(|g| g & 1 == 1).collect()),
                ("vec_znx_big_automorphism", (-2 * n..=2 * n).filter(|g| g & 1 == 1).collect()),
                ("vec_znx_big_automorphism_assign", (-2 * n..=2 * n).filter(|g| g & 1 == 1).collect()),
            ] {
                for k in ks {
                    let mut c = OpCase {
                        op: op.to_string(),
                        log_n,
                        log_n2: 0,
                        b: 17,
                        b2: 17,
                        cols: [2, 2, 1],
                        col: [1, 0, 0],
                        size: [2, 2, 1],
                        slack: [0, 0, 0],
                        p: k,
                        q: 40,
                        r: 0,
                        x: [0; 4],
                        wide: false,
                        cls: [VClass::Uniform, VClass::Uniform, VClass::Uniform],
                        seed: (k as u64).wrapping_mul(0x9E37) ^ (log_n as u64) << 32,
                    };
                    adapt(&mut c);
                    block.push(BeCase { be, c });
                }
            }
            blocks.push(block);
        }
    }
    blocks
}

pub fn run(ctx: &Ctx) {
    let t = ctx.tier;
    ctx.run_sub("ring_ops_vs_model", t.pick(400_000, 4_000_000), 64, || strategy(10), test);
    ctx.run_sub("ring_ops_vs_model_large_n", t.pick(20_000, 200_000), 32, || strategy(12), test);
    ctx.run_sub("group_laws", t.pick(60_000, 600_000), 32, law_strategy, law_test);
    ctx.run_enum("exhaustive_k_and_g_small_n", true, exhaustive_blocks(t.pick(5, 6)), test);
}

pub fn replay(ctx: &Ctx, sub: &str, case: &serde_json::Value) -> i32 {
    match sub {
        "group_laws" => ctx.replay_case::<LawCase, _>(sub, case, law_test),
        _ => ctx.replay_case::<BeCase, _>(sub, case, test),
    }
}

pub const RULE: &str = "cases = (backend, op, N=2^0..2^12, cols 1..3 with generated source/target columns, sizes 1..6 each for res/a/b, max_size slack, k/g from all of Z incl. i64 extremes, value class); oracle = index-level model of Z[X]/(X^N+1) + size rule, exact equality on every limb; laws = rotation/automorphism composition & inverses, split/merge and switch_ring round trips; exhaustive: every k in [-4N,4N] and every odd g in [-2N,2N] for N<=32 (quick) / 64 (thorough). non-trivial = (size mismatch or multi-column or k outside [0,N) or g != 1 or ring ratio > 2) and input != 0; distinct = hash of the canonical case.";
