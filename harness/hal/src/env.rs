//! Guarded buffers and the per-call environment of the operation registry.
//!
//! Every operand of a registry call lives in its own 64-byte aligned allocation.
//! In canary mode the allocation has a margin on both sides filled with a
//! position dependent pattern that is checked after the call; with `PZV_NOMARGIN=1`
//! (used by the AddressSanitizer build) the allocation has exactly the operand's
//! size so that ASan's heap redzones sit directly next to it.

use poulpy_hal::{
    api::ScratchFromBytes,
    layouts::{Backend, CnvPVecL, CnvPVecR, MatZnx, Module, ScalarZnx, Scratch, SvpPPol, VecZnx, VecZnxBig, VecZnxDft, VmpPMat},
};
use pzv_common::model::{SplitMix, VClass, gen_column};
use std::alloc::{Layout, alloc, dealloc};
use std::marker::PhantomData;

pub const MARGIN: usize = 256;

/// 0 = operands are exact-size heap blocks (sanitizer redzones directly adjacent); otherwise guard margin in bytes
pub static MARGIN_NOW: std::sync::atomic::AtomicUsize = std::sync::atomic::AtomicUsize::new(MARGIN);

pub fn margin() -> usize {
    MARGIN_NOW.load(std::sync::atomic::Ordering::Relaxed)
}

#[inline]
fn canary(i: usize) -> u8 {
    (0xC3usize ^ i.wrapping_mul(7) ^ (i >> 8)) as u8
}

pub struct GBuf {
    ptr: *mut u8,
    layout: Layout,
    margin: usize,
    len: usize,
}

unsafe impl Send for GBuf {}

impl GBuf {
    pub fn new(len: usize) -> GBuf {
        let margin = margin();
        let total = (len + 2 * margin).max(1);
        let layout = Layout::from_size_align(total, 64).unwrap();
        let ptr = unsafe { alloc(layout) };
        assert!(!ptr.is_null());
        let g = GBuf { ptr, layout, margin, len };
        unsafe {
            for i in 0..margin {
                *ptr.add(i) = canary(i);
                *ptr.add(margin + len + i) = canary(i + 1000);
            }
        }
        g
    }
    pub fn len(&self) -> usize {
        self.len
    }
    pub fn data(&self) -> &[u8] {
        unsafe { std::slice::from_raw_parts(self.ptr.add(self.margin), self.len) }
    }
    #[allow(clippy::mut_from_ref)]
    pub fn data_mut(&mut self) -> &mut [u8] {
        unsafe { std::slice::from_raw_parts_mut(self.ptr.add(self.margin), self.len) }
    }
    pub fn canary_ok(&self) -> bool {
        unsafe {
            for i in 0..self.margin {
                if *self.ptr.add(i) != canary(i) || *self.ptr.add(self.margin + self.len + i) != canary(i + 1000) {
                    return false;
                }
            }
        }
        true
    }
    pub fn fill_garbage(&mut self, seed: u64) {
        let mut r = SplitMix::new(seed);
        let d = self.data_mut();
        let mut i = 0;
        while i + 8 <= d.len() {
            d[i..i + 8].copy_from_slice(&r.next().to_le_bytes());
            i += 8;
        }
        while i < d.len() {
            d[i] = r.next() as u8;
            i += 1;
        }
    }
}

impl Drop for GBuf {
    fn drop(&mut self) {
        unsafe { dealloc(self.ptr, self.layout) }
    }
}

#[derive(Clone, Copy, Debug, PartialEq, Eq)]
pub enum Kind {
    Znx,
    Scalar,
    Big,
    Dft,
    Svp,
    Vmp,
    Mat,
    CnvL,
    CnvR,
    Scratch,
}

/// One operand of a registry call.
pub struct Slot {
    pub label: &'static str,
    pub kind: Kind,
    pub n: usize,
    pub cols: usize,
    pub size: usize,
    pub max_size: usize,
    pub rows: usize,
    pub cols_out: usize,
    /// scalar size in bytes
    pub sb: usize,
    pub buf: GBuf,
    pub pre: Vec<u8>,
    pub writable: bool,
    /// byte ranges the operation is allowed (and expected) to determine
    pub declared: Vec<(usize, usize)>,
    /// selected column
    pub col: usize,
}

impl Slot {
    pub fn poly_bytes(&self) -> usize {
        self.n * self.sb
    }
    /// byte offset of (col, limb) in the limb-major / column-minor layout
    pub fn off(&self, col: usize, limb: usize) -> usize {
        self.n * (limb * self.cols + col) * self.sb
    }
    pub fn declare_col(&mut self, col: usize, limbs: std::ops::Range<usize>) {
        for j in limbs {
            let o = self.off(col, j);
            self.declared.push((o, o + self.poly_bytes()));
        }
    }
    pub fn declare_all(&mut self) {
        self.declared.push((0, self.buf.len()));
    }
    pub fn snapshot(&mut self) {
        self.pre = self.buf.data().to_vec();
    }
    pub fn i64_at(&self, bytes: &[u8], col: usize, limb: usize) -> Vec<i64> {
        let o = self.off(col, limb);
        bytes[o..o + self.n * 8].chunks_exact(8).map(|c| i64::from_le_bytes(c.try_into().unwrap())).collect()
    }
    pub fn i128_at(&self, bytes: &[u8], col: usize, limb: usize) -> Vec<i128> {
        let o = self.off(col, limb);
        if self.sb == 8 {
            bytes[o..o + self.n * 8].chunks_exact(8).map(|c| i64::from_le_bytes(c.try_into().unwrap()) as i128).collect()
        } else {
            bytes[o..o + self.n * 16].chunks_exact(16).map(|c| i128::from_le_bytes(c.try_into().unwrap())).collect()
        }
    }
    pub fn write_i64(&mut self, col: usize, limb: usize, v: &[i64]) {
        let o = self.off(col, limb);
        let d = self.buf.data_mut();
        for (i, x) in v.iter().enumerate() {
            d[o + i * 8..o + i * 8 + 8].copy_from_slice(&x.to_le_bytes());
        }
    }
    /// writes big scalars (i64 or i128 depending on the backend)
    pub fn write_big(&mut self, col: usize, limb: usize, v: &[i128]) {
        let o = self.off(col, limb);
        let sb = self.sb;
        let d = self.buf.data_mut();
        for (i, x) in v.iter().enumerate() {
            if sb == 8 {
                d[o + i * 8..o + i * 8 + 8].copy_from_slice(&(*x as i64).to_le_bytes());
            } else {
                d[o + i * 16..o + i * 16 + 16].copy_from_slice(&x.to_le_bytes());
            }
        }
    }
    pub fn post(&self) -> &[u8] {
        self.buf.data()
    }

    // ---- typed views -------------------------------------------------------
    pub fn znx(&self) -> VecZnx<&[u8]> {
        VecZnx {
            data: self.buf.data(),
            n: self.n,
            cols: self.cols,
            size: self.size,
            max_size: self.max_size,
        }
    }
    pub fn znx_mut(&mut self) -> VecZnx<&mut [u8]> {
        let (n, cols, size, max_size) = (self.n, self.cols, self.size, self.max_size);
        VecZnx {
            data: self.buf.data_mut(),
            n,
            cols,
            size,
            max_size,
        }
    }
    pub fn scalar(&self) -> ScalarZnx<&[u8]> {
        ScalarZnx {
            data: self.buf.data(),
            n: self.n,
            cols: self.cols,
        }
    }
    pub fn big<B: Backend>(&self) -> VecZnxBig<&[u8], B> {
        VecZnxBig {
            data: self.buf.data(),
            n: self.n,
            cols: self.cols,
            size: self.size,
            max_size: self.max_size,
            _phantom: PhantomData,
        }
    }
    pub fn big_mut<B: Backend>(&mut self) -> VecZnxBig<&mut [u8], B> {
        let (n, cols, size, max_size) = (self.n, self.cols, self.size, self.max_size);
        VecZnxBig {
            data: self.buf.data_mut(),
            n,
            cols,
            size,
            max_size,
            _phantom: PhantomData,
        }
    }
    pub fn dft<B: Backend>(&self) -> VecZnxDft<&[u8], B> {
        VecZnxDft {
            data: self.buf.data(),
            n: self.n,
            cols: self.cols,
            size: self.size,
            max_size: self.max_size,
            _phantom: PhantomData,
        }
    }
    pub fn dft_mut<B: Backend>(&mut self) -> VecZnxDft<&mut [u8], B> {
        let (n, cols, size, max_size) = (self.n, self.cols, self.size, self.max_size);
        VecZnxDft {
            data: self.buf.data_mut(),
            n,
            cols,
            size,
            max_size,
            _phantom: PhantomData,
        }
    }
    pub fn svp<B: Backend>(&self) -> SvpPPol<&[u8], B> {
        SvpPPol::from_data(self.buf.data(), self.n, self.cols)
    }
    pub fn svp_mut<B: Backend>(&mut self) -> SvpPPol<&mut [u8], B> {
        let (n, cols) = (self.n, self.cols);
        SvpPPol::from_data(self.buf.data_mut(), n, cols)
    }
    pub fn mat(&self) -> MatZnx<&[u8]> {
        MatZnx::from_data(self.buf.data(), self.n, self.rows, self.cols, self.cols_out, self.size)
    }
    pub fn vmp<B: Backend>(&self) -> VmpPMat<&[u8], B> {
        VmpPMat::from_data(self.buf.data(), self.n, self.rows, self.cols, self.cols_out, self.size)
    }
    pub fn vmp_mut<B: Backend>(&mut self) -> VmpPMat<&mut [u8], B> {
        let (n, rows, cols, cols_out, size) = (self.n, self.rows, self.cols, self.cols_out, self.size);
        VmpPMat::from_data(self.buf.data_mut(), n, rows, cols, cols_out, size)
    }
    pub fn cnvl<B: Backend>(&self) -> CnvPVecL<&[u8], B> {
        CnvPVecL::from_data(self.buf.data(), self.n, self.cols, self.size)
    }
    pub fn cnvl_mut<B: Backend>(&mut self) -> CnvPVecL<&mut [u8], B> {
        let (n, cols, size) = (self.n, self.cols, self.size);
        CnvPVecL::from_data(self.buf.data_mut(), n, cols, size)
    }
    pub fn cnvr<B: Backend>(&self) -> CnvPVecR<&[u8], B> {
        CnvPVecR::from_data(self.buf.data(), self.n, self.cols, self.size)
    }
    pub fn cnvr_mut<B: Backend>(&mut self) -> CnvPVecR<&mut [u8], B> {
        let (n, cols, size) = (self.n, self.cols, self.size);
        CnvPVecR::from_data(self.buf.data_mut(), n, cols, size)
    }
    pub fn scratch<B: Backend>(&mut self) -> &mut Scratch<B>
    where
        Scratch<B>: ScratchFromBytes<B>,
    {
        Scratch::<B>::from_bytes(self.buf.data_mut())
    }
}

#[derive(Clone, Copy, Debug, PartialEq, Eq)]
pub enum ScratchMode {
    /// query + 4 KiB (used where C12's subject is not under test)
    Roomy,
    /// exactly the number of bytes the size query returned
    Exact,
    /// query + delta
    Plus(usize),
}

/// Per-call environment: creates operands, remembers them for the post-call audit.
pub struct Env<'m, B: Backend> {
    pub module: &'m Module<B>,
    /// garbage variant (0 or 1): changes every byte that the operation must not depend on
    pub fill: u64,
    pub scratch_mode: ScratchMode,
    pub case_seed: u64,
    counter: u64,
    pub slots: Vec<Slot>,
    /// coefficient-domain image of the selected output column (limb-major), when the op provides it
    pub coeff_out: Option<Vec<Vec<i128>>>,
    /// number of bytes the scratch size query returned (if the op has one)
    pub scratch_query: Option<usize>,
    /// extra scalar outputs (e.g. bytes consumed from a Source)
    pub aux: Vec<u64>,
    /// coefficient-domain sources of transform-domain inputs: label -> [col][limb][coeff]
    pub srcs: Vec<(&'static str, Vec<Vec<Vec<i64>>>)>,
}

impl<'m, B: Backend> Env<'m, B> {
    pub fn new(module: &'m Module<B>, case_seed: u64, fill: u64, scratch_mode: ScratchMode) -> Self {
        Env {
            module,
            fill,
            scratch_mode,
            case_seed,
            counter: 0,
            slots: vec![],
            coeff_out: None,
            scratch_query: None,
            aux: vec![],
            srcs: vec![],
        }
    }

    pub fn next_seed(&mut self, depends_on_fill: bool) -> u64 {
        self.counter += 1;
        let base = pzv_common::driver::mix(self.case_seed, self.counter);
        if depends_on_fill { pzv_common::driver::mix(base, 0xF111 + self.fill) } else { base }
    }

    #[allow(clippy::too_many_arguments)]
    pub fn mk(&mut self, label: &'static str, kind: Kind, n: usize, cols: usize, size: usize, slack: usize, sb: usize, rows: usize, cols_out: usize) -> Slot {
        let max_size = size + slack;
        let polys = match kind {
            Kind::Scalar | Kind::Svp => cols,
            Kind::Mat | Kind::Vmp => rows * cols * cols_out * max_size,
            _ => cols * max_size,
        };
        let len = n * polys * sb;
        Slot {
            label,
            kind,
            n,
            cols,
            size,
            max_size,
            rows,
            cols_out,
            sb,
            buf: GBuf::new(len),
            pre: vec![],
            writable: false,
            declared: vec![],
            col: 0,
        }
    }

    /// Output container (any vector kind): every byte is garbage that depends on the
    /// fill variant; the selected column's active limbs are declared.
    pub fn out(&mut self, label: &'static str, kind: Kind, n: usize, cols: usize, size: usize, slack: usize, col: usize) -> Slot {
        let sb = self.sb(kind);
        let mut s = self.mk(label, kind, n, cols, size, slack, sb, 1, 1);
        let seed = self.next_seed(true);
        s.buf.fill_garbage(seed);
        s.writable = true;
        s.col = col;
        match kind {
            Kind::Scalar | Kind::Svp => {
                let o = n * col * sb;
                s.declared.push((o, o + n * sb));
            }
            _ => s.declare_col(col, 0..size),
        }
        s.snapshot();
        s
    }

    pub fn sb(&self, kind: Kind) -> usize {
        match kind {
            Kind::Znx | Kind::Scalar | Kind::Mat => 8,
            Kind::Big => B::size_of_scalar_big(),
            Kind::Dft | Kind::Svp | Kind::Vmp | Kind::CnvL | Kind::CnvR => B::size_of_scalar_prep(),
            Kind::Scratch => 1,
        }
    }

    /// Read-only VecZnx input: selected column from the value class, everything else
    /// (other columns, limbs beyond `size`) garbage that depends on the fill variant
    /// (the result must not depend on it).
    #[allow(clippy::too_many_arguments)]
    pub fn in_znx(&mut self, label: &'static str, n: usize, cols: usize, size: usize, slack: usize, col: usize, class: VClass, b: usize) -> Slot {
        let mut s = self.mk(label, Kind::Znx, n, cols, size, slack, 8, 1, 1);
        let g = self.next_seed(true);
        s.buf.fill_garbage(g);
        let seed = self.next_seed(false);
        let vals = gen_column(class, b, n, size, seed);
        for (j, l) in vals.iter().enumerate() {
            s.write_i64(col, j, l);
        }
        s.col = col;
        s.snapshot();
        s
    }

    /// In/out VecZnx: like `in_znx` but writable with the selected column declared.
    #[allow(clippy::too_many_arguments)]
    pub fn inout_znx(&mut self, label: &'static str, n: usize, cols: usize, size: usize, slack: usize, col: usize, class: VClass, b: usize) -> Slot {
        let mut s = self.in_znx(label, n, cols, size, slack, col, class, b);
        s.writable = true;
        s.declare_col(col, 0..size);
        s
    }

    pub fn in_scalar(&mut self, label: &'static str, n: usize, cols: usize, col: usize, class: VClass, b: usize) -> Slot {
        let mut s = self.mk(label, Kind::Scalar, n, cols, 1, 0, 8, 1, 1);
        let g = self.next_seed(true);
        s.buf.fill_garbage(g);
        let seed = self.next_seed(false);
        let vals = gen_column(class, b, n, 1, seed);
        let o = n * col * 8;
        let d = s.buf.data_mut();
        for (i, x) in vals[0].iter().enumerate() {
            d[o + i * 8..o + i * 8 + 8].copy_from_slice(&x.to_le_bytes());
        }
        s.col = col;
        s.snapshot();
        s
    }

    /// Big accumulator input with values of magnitude < 2^bits.
    #[allow(clippy::too_many_arguments)]
    pub fn in_big(&mut self, label: &'static str, n: usize, cols: usize, size: usize, slack: usize, col: usize, bits: u32, extreme: bool) -> Slot {
        let sb = B::size_of_scalar_big();
        let mut s = self.mk(label, Kind::Big, n, cols, size, slack, sb, 1, 1);
        let g = self.next_seed(true);
        s.buf.fill_garbage(g);
        let seed = self.next_seed(false);
        let mut r = SplitMix::new(seed);
        for j in 0..size {
            let v: Vec<i128> = (0..n)
                .map(|_| {
                    if extreme {
                        let m = (1i128 << bits) - 1;
                        if r.next() & 1 == 0 { m } else { -m }
                    } else if bits <= 63 {
                        r.signed(bits + 1) as i128
                    } else {
                        let hi = r.signed(bits + 1 - 64) as i128;
                        (hi << 64) | (r.next() as i128)
                    }
                })
                .collect();
            s.write_big(col, j, &v);
        }
        s.col = col;
        s.snapshot();
        s
    }

    #[allow(clippy::too_many_arguments)]
    pub fn inout_big(&mut self, label: &'static str, n: usize, cols: usize, size: usize, slack: usize, col: usize, bits: u32, extreme: bool) -> Slot {
        let mut s = self.in_big(label, n, cols, size, slack, col, bits, extreme);
        s.writable = true;
        s.declare_col(col, 0..size);
        s
    }

    pub fn in_mat(&mut self, label: &'static str, n: usize, rows: usize, cols_in: usize, cols_out: usize, size: usize, class: VClass, b: usize) -> Slot {
        let mut s = self.mk(label, Kind::Mat, n, cols_in, size, 0, 8, rows, cols_out);
        let seed = self.next_seed(false);
        // entry (row, col_in) is a VecZnx(n, cols_out, size), limb-major
        let vals = gen_column(class, b, n, rows * cols_in * cols_out * size, seed);
        let d = s.buf.data_mut();
        for (p, l) in vals.iter().enumerate() {
            for (i, x) in l.iter().enumerate() {
                let o = (p * n + i) * 8;
                d[o..o + 8].copy_from_slice(&x.to_le_bytes());
            }
        }
        s.snapshot();
        s
    }

    /// prepared / opaque container of a given kind, garbage filled, fully declared
    pub fn out_prepared(&mut self, label: &'static str, kind: Kind, n: usize, rows: usize, cols: usize, cols_out: usize, size: usize) -> Slot {
        let sb = self.sb(kind);
        let mut s = self.mk(label, kind, n, cols, size, 0, sb, rows, cols_out);
        let seed = self.next_seed(true);
        s.buf.fill_garbage(seed);
        s.writable = true;
        s.declare_all();
        s.snapshot();
        s
    }

    /// scratch window of the size implied by the scratch mode
    pub fn scratch(&mut self, query: usize) -> Slot {
        self.scratch_query = Some(query);
        let len = match self.scratch_mode {
            ScratchMode::Roomy => query + 4096,
            ScratchMode::Exact => query,
            ScratchMode::Plus(d) => query + d,
        };
        let mut s = self.mk("scratch", Kind::Scratch, len, 1, 1, 0, 1, 1, 1);
        let seed = self.next_seed(true);
        s.buf.fill_garbage(seed);
        s.writable = true;
        s.declare_all();
        s.snapshot();
        s
    }

    /// roomy scratch for auxiliary library calls that are not the operation under audit
    pub fn aux_scratch(&mut self, query: usize) -> Slot {
        let len = query + 4096;
        let mut s = self.mk("aux_scratch", Kind::Scratch, len, 1, 1, 0, 1, 1, 1);
        let seed = self.next_seed(true);
        s.buf.fill_garbage(seed);
        s
    }

    pub fn push(&mut self, s: Slot) {
        self.slots.push(s);
    }
}

/// What a registry call left behind.
pub struct Outcome {
    pub srcs: Vec<(&'static str, Vec<Vec<Vec<i64>>>)>,
    pub slots: Vec<SlotRec>,
    pub coeff_out: Option<Vec<Vec<i128>>>,
    pub scratch_query: Option<usize>,
    pub aux: Vec<u64>,
}

pub struct SlotRec {
    pub label: &'static str,
    pub kind: Kind,
    pub n: usize,
    pub cols: usize,
    pub size: usize,
    pub max_size: usize,
    pub sb: usize,
    pub col: usize,
    pub writable: bool,
    pub declared: Vec<(usize, usize)>,
    pub pre: Vec<u8>,
    pub post: Vec<u8>,
    pub canary_ok: bool,
}

impl SlotRec {
    pub fn off(&self, col: usize, limb: usize) -> usize {
        self.n * (limb * self.cols + col) * self.sb
    }
    pub fn i64_of(&self, bytes: &[u8], col: usize, limb: usize) -> Vec<i64> {
        let o = self.off(col, limb);
        bytes[o..o + self.n * 8].chunks_exact(8).map(|c| i64::from_le_bytes(c.try_into().unwrap())).collect()
    }
    pub fn pre_i64(&self, limb: usize) -> Vec<i64> {
        self.i64_of(&self.pre, self.col, limb)
    }
    pub fn post_i64(&self, limb: usize) -> Vec<i64> {
        self.i64_of(&self.post, self.col, limb)
    }
    pub fn big_of(&self, bytes: &[u8], col: usize, limb: usize) -> Vec<i128> {
        let o = self.off(col, limb);
        if self.sb == 8 {
            bytes[o..o + self.n * 8].chunks_exact(8).map(|c| i64::from_le_bytes(c.try_into().unwrap()) as i128).collect()
        } else {
            bytes[o..o + self.n * 16].chunks_exact(16).map(|c| i128::from_le_bytes(c.try_into().unwrap())).collect()
        }
    }
    pub fn pre_big(&self, limb: usize) -> Vec<i128> {
        self.big_of(&self.pre, self.col, limb)
    }
    pub fn post_big(&self, limb: usize) -> Vec<i128> {
        self.big_of(&self.post, self.col, limb)
    }
    /// all active limbs of the selected column before the call
    pub fn pre_col(&self) -> Vec<Vec<i64>> {
        (0..self.size).map(|j| self.pre_i64(j)).collect()
    }
    pub fn post_col(&self) -> Vec<Vec<i64>> {
        (0..self.size).map(|j| self.post_i64(j)).collect()
    }
    pub fn pre_col_big(&self) -> Vec<Vec<i128>> {
        (0..self.size).map(|j| self.pre_big(j)).collect()
    }
    pub fn post_col_big(&self) -> Vec<Vec<i128>> {
        (0..self.size).map(|j| self.post_big(j)).collect()
    }
    pub fn in_declared(&self, byte: usize) -> bool {
        self.declared.iter().any(|(a, b)| byte >= *a && byte < *b)
    }
    /// bytes outside the declared ranges that changed during the call
    pub fn stray_writes(&self) -> Option<usize> {
        if self.kind == Kind::Scratch {
            return None;
        }
        let mut i = 0;
        let mut ranges = self.declared.clone();
        ranges.sort();
        let mut cur = 0usize;
        for (a, b) in ranges.iter().chain(std::iter::once(&(self.pre.len(), self.pre.len()))) {
            while i < *a {
                if self.pre[i] != self.post[i] {
                    return Some(i);
                }
                i += 1;
            }
            i = i.max(*b);
            cur = cur.max(*b);
        }
        let _ = cur;
        None
    }
    /// concatenation of the declared byte ranges after the call
    pub fn declared_post(&self) -> Vec<u8> {
        let mut v = vec![];
        for (a, b) in &self.declared {
            v.extend_from_slice(&self.post[*a..*b]);
        }
        v
    }
}

impl<'m, B: Backend> Env<'m, B> {
    pub fn finish(self) -> Outcome {
        let slots = self
            .slots
            .into_iter()
            .map(|s| SlotRec {
                label: s.label,
                kind: s.kind,
                n: s.n,
                cols: s.cols,
                size: s.size,
                max_size: s.max_size,
                sb: s.sb,
                col: s.col,
                writable: s.writable,
                declared: s.declared.clone(),
                post: s.buf.data().to_vec(),
                canary_ok: s.buf.canary_ok(),
                pre: s.pre,
            })
            .collect();
        Outcome {
            srcs: self.srcs,
            slots,
            coeff_out: self.coeff_out,
            scratch_query: self.scratch_query,
            aux: self.aux,
        }
    }
}

impl Outcome {
    pub fn slot(&self, label: &str) -> &SlotRec {
        self.slots.iter().find(|s| s.label == label).unwrap_or_else(|| panic!("harness: no slot {label}"))
    }
    pub fn src(&self, label: &str) -> &Vec<Vec<Vec<i64>>> {
        &self.srcs.iter().find(|s| s.0 == label).unwrap_or_else(|| panic!("harness: no source {label}")).1
    }
    pub fn try_slot(&self, label: &str) -> Option<&SlotRec> {
        self.slots.iter().find(|s| s.label == label)
    }
}
