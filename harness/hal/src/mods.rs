//! Module cache (shared crate pzv-be).
pub use pzv_be::*;
