//! Module cache: one immutable Module per (backend, log_n).
use poulpy_cpu_avx::{FFT64Avx, NTT120Avx};
use poulpy_cpu_ref::{FFT64Ref, NTT120Ref};
use poulpy_hal::{api::ModuleNew, layouts::Module};
use std::sync::OnceLock;

pub const MAX_LOG_N: usize = 17;

pub struct Mods {
    pub fft_ref: Vec<OnceLock<Module<FFT64Ref>>>,
    pub fft_avx: Vec<OnceLock<Module<FFT64Avx>>>,
    pub ntt_ref: Vec<OnceLock<Module<NTT120Ref>>>,
    pub ntt_avx: Vec<OnceLock<Module<NTT120Avx>>>,
}

static MODS: OnceLock<Mods> = OnceLock::new();

fn mods() -> &'static Mods {
    MODS.get_or_init(|| Mods {
        fft_ref: (0..MAX_LOG_N).map(|_| OnceLock::new()).collect(),
        fft_avx: (0..MAX_LOG_N).map(|_| OnceLock::new()).collect(),
        ntt_ref: (0..MAX_LOG_N).map(|_| OnceLock::new()).collect(),
        ntt_avx: (0..MAX_LOG_N).map(|_| OnceLock::new()).collect(),
    })
}

/// FFT64 modules cannot be built for N=1 (the constructor panics by design); for
/// coefficient-domain operations a marker-free N=1 FFT64 module is not available,
/// so N=1 cases run on NTT120 only.
pub fn fft_ref(log_n: u8) -> &'static Module<FFT64Ref> {
    mods().fft_ref[log_n as usize].get_or_init(|| Module::<FFT64Ref>::new(1u64 << log_n))
}
pub fn fft_avx(log_n: u8) -> &'static Module<FFT64Avx> {
    mods().fft_avx[log_n as usize].get_or_init(|| Module::<FFT64Avx>::new(1u64 << log_n))
}
pub fn ntt_ref(log_n: u8) -> &'static Module<NTT120Ref> {
    mods().ntt_ref[log_n as usize].get_or_init(|| Module::<NTT120Ref>::new(1u64 << log_n))
}
pub fn ntt_avx(log_n: u8) -> &'static Module<NTT120Avx> {
    mods().ntt_avx[log_n as usize].get_or_init(|| Module::<NTT120Avx>::new(1u64 << log_n))
}

#[derive(Clone, Copy, Debug, PartialEq, Eq, serde::Serialize, serde::Deserialize)]
pub enum Be {
    FftRef,
    FftAvx,
    NttRef,
    NttAvx,
}

impl Be {
    pub const ALL: [Be; 4] = [Be::FftRef, Be::FftAvx, Be::NttRef, Be::NttAvx];
    pub fn name(self) -> &'static str {
        match self {
            Be::FftRef => "fft64_ref",
            Be::FftAvx => "fft64_avx",
            Be::NttRef => "ntt120_ref",
            Be::NttAvx => "ntt120_avx",
        }
    }
    pub fn is_fft(self) -> bool {
        matches!(self, Be::FftRef | Be::FftAvx)
    }
    pub fn min_log_n(self) -> u8 {
        if self.is_fft() { 1 } else { 0 }
    }
}

/// Dispatches a generic function over the backend enum.
#[macro_export]
macro_rules! with_backend {
    ($be:expr, $log_n:expr, |$m:ident| $body:expr) => {
        match $be {
            $crate::Be::FftRef => {
                let $m = $crate::fft_ref($log_n);
                $body
            }
            $crate::Be::FftAvx => {
                let $m = $crate::fft_avx($log_n);
                $body
            }
            $crate::Be::NttRef => {
                let $m = $crate::ntt_ref($log_n);
                $body
            }
            $crate::Be::NttAvx => {
                let $m = $crate::ntt_avx($log_n);
                $body
            }
        }
    };
}

/// Every backend implements the HAL and the core extension points.
pub trait FullBackend: poulpy_hal::layouts::Backend + poulpy_hal::oep::HalImpl<Self> + poulpy_core::oep::CoreImpl<Self> + 'static {}
impl<T: poulpy_hal::layouts::Backend + poulpy_hal::oep::HalImpl<T> + poulpy_core::oep::CoreImpl<T> + 'static> FullBackend for T {}

/// A scratch buffer that has "been used before": every byte holds a position-dependent non-zero
/// pattern (digits of about 2^40..2^62 when read as i64, NaN-free bit patterns are not guaranteed
/// when read as f64).  Library calls must not depend on what the scratch holds.
/// `PZV_CLEAN_SCRATCH=1` switches back to zeroed scratch (to tell a content dependence from another defect).
pub fn dirty_scratch<B: poulpy_hal::layouts::Backend>(bytes: usize) -> poulpy_hal::layouts::ScratchOwned<B>
where
    poulpy_hal::layouts::ScratchOwned<B>: poulpy_hal::api::ScratchOwnedAlloc<B>,
{
    use poulpy_hal::api::ScratchOwnedAlloc;
    let mut s = poulpy_hal::layouts::ScratchOwned::<B>::alloc(bytes);
    static CLEAN: OnceLock<bool> = OnceLock::new();
    if *CLEAN.get_or_init(|| std::env::var("PZV_CLEAN_SCRATCH").is_ok()) {
        return s;
    }
    let d: &mut [u8] = s.data.as_mut();
    let mut i = 0usize;
    while i + 8 <= d.len() {
        let w: u64 = 0x2F3A_5C71_9E37_79B9u64 ^ ((i as u64) << 7).wrapping_mul(0x9E37_79B9_7F4A_7C15) >> 2;
        d[i..i + 8].copy_from_slice(&w.to_le_bytes());
        i += 8;
    }
    for x in d[i..].iter_mut() {
        *x = 0xA7;
    }
    s
}
