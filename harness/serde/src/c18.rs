//! C18 engine: every `ReaderFrom` implementation, round trips and injected faults.

use poulpy_core::layouts::{
    Base2K, Degree, Dnum, Dsize, GGLWE, GGLWEInfos, GGLWEToGGSWKey, GGSW, GGSWInfos, GLWE, GLWEAutomorphismKey, GLWEInfos, GLWEPublicKey, GLWESwitchingKey, GLWETensorKey,
    GLWEToLWEKey, LWE, LWEInfos, LWESwitchingKey, LWEToGLWEKey, Rank, TorusPrecision,
    compressed::{
        GGLWECompressed, GGLWEToGGSWKeyCompressed, GGSWCompressed, GLWEAutomorphismKeyCompressed, GLWECompressed, GLWESwitchingKeyCompressed, GLWETensorKeyCompressed,
        GLWEToLWESwitchingKeyCompressed, LWECompressed, LWESwitchingKeyCompressed, LWEToGLWEKeyCompressed,
    },
};
use poulpy_hal::{
    layouts::{DataView, FillUniform, MatZnx, ReaderFrom, ScalarZnx, VecZnx, WriterTo, ZnxInfos, ZnxView},
    source::Source,
};
use proptest::prelude::*;
use pzv_common::driver::{Ctx, Verdict, guarded, panic_sig};
use serde::{Deserialize, Serialize};

#[derive(Clone, Debug, Serialize, Deserialize, PartialEq)]
pub struct P {
    pub ty: u8,
    pub log_n: u8,
    pub n_lwe: u8,
    pub base2k: u8,
    pub extra: u8,
    pub krem: u8,
    pub rank: u8,
    pub rank_out: u8,
    pub dnum: u8,
    pub dsize: u8,
    pub cols: u8,
}

impl P {
    fn adapt(&mut self) {
        self.ty %= TYPES.len() as u8;
        self.log_n = self.log_n.clamp(1, 6);
        self.n_lwe = self.n_lwe.clamp(1, 40);
        self.base2k = self.base2k.clamp(2, 24);
        self.extra %= 3;
        self.krem %= self.base2k;
        self.rank = self.rank.clamp(1, 3);
        self.rank_out = self.rank_out.clamp(1, 3);
        self.dnum = self.dnum.clamp(1, 3);
        self.dsize = self.dsize.clamp(1, 2);
        self.cols = self.cols.clamp(1, 3);
    }
    fn n(&self) -> Degree {
        Degree(1 << self.log_n)
    }
    fn b(&self) -> Base2K {
        Base2K(self.base2k as u32)
    }
    fn size(&self) -> usize {
        (self.dnum * self.dsize + 1 + self.extra) as usize
    }
    fn k(&self) -> TorusPrecision {
        TorusPrecision(((self.size() - 1) * self.base2k as usize + 1 + self.krem as usize) as u32)
    }
}

/// one inner container as seen through public fields: (n, polynomials per limb, size, max_size, data bytes)
pub type Dims = [u64; 5];

fn vz<D: poulpy_hal::layouts::DataRef>(v: &VecZnx<D>) -> Dims {
    [v.n as u64, v.cols as u64, v.size as u64, v.max_size as u64, v.data.as_ref().len() as u64]
}

fn mz<D: poulpy_hal::layouts::DataRef>(m: &MatZnx<D>) -> Dims {
    // (an accepted empty matrix may carry huge row / column counts: saturate instead of overflowing)
    let polys = (m.rows() as u128 * m.cols_in() as u128).saturating_mul(m.cols_out() as u128).min(u64::MAX as u128) as u64;
    [m.n() as u64, polys, m.size() as u64, m.size() as u64, m.data().as_ref().len() as u64]
}

fn consistent(d: &Dims) -> Result<(), String> {
    let [n, polys, size, max_size, len] = *d;
    let need = (n as u128) * (polys as u128) * (size as u128) * 8;
    let need_max = (n as u128) * (polys as u128) * (max_size as u128) * 8;
    if size > max_size {
        return Err(format!("size {size} > max_size {max_size}"));
    }
    if need > len as u128 {
        return Err(format!("n*cols*size*8 = {need} exceeds the buffer of {len} bytes"));
    }
    if need_max > len as u128 {
        return Err(format!("n*cols*max_size*8 = {need_max} exceeds the buffer of {len} bytes (set_size({max_size}) would be accepted)"));
    }
    Ok(())
}

pub trait Subj: WriterTo + ReaderFrom + PartialEq + Clone + FillUniform + Sized {
    const NAME: &'static str;
    fn mk(p: &P) -> Self;
    /// scalar dimension fields visible through public accessors
    fn infos(&self) -> Vec<u64>;
    /// inner containers visible through public fields/accessors
    fn dims(&self) -> Vec<Dims> {
        vec![]
    }
    /// reads every in-range coefficient through the public API
    fn touch(&self) -> i64 {
        0
    }
    /// uses fewer limbs than the buffer holds (size < max_size) where the type offers that; returns whether it did
    fn shrink(&mut self, _by: usize) -> bool {
        false
    }
    /// gives the scalar metadata the stream carries (secret degrees, Galois element) other values, on a receiver
    fn scramble_meta(&mut self) {}
}

fn sum(v: &[i64]) -> i64 {
    v.iter().fold(0i64, |a, b| a.wrapping_add(*b))
}

impl Subj for VecZnx<Vec<u8>> {
    const NAME: &'static str = "VecZnx";
    fn mk(p: &P) -> Self {
        VecZnx::alloc(p.n().0 as usize, p.cols as usize, p.size())
    }
    fn shrink(&mut self, by: usize) -> bool {
        if self.size >= 2 {
            let ns = (self.size - 1 - by % (self.size - 1)).max(1);
            self.set_size(ns);
            true
        } else {
            false
        }
    }
    fn infos(&self) -> Vec<u64> {
        vec![self.n as u64, self.cols as u64, self.size as u64, self.max_size as u64]
    }
    fn dims(&self) -> Vec<Dims> {
        vec![vz(self)]
    }
    fn touch(&self) -> i64 {
        let mut s = 0i64;
        for i in 0..self.cols.min(1024) {
            for j in 0..self.size.min(1024) {
                s = s.wrapping_add(sum(self.at(i, j)));
            }
        }
        s
    }
}

impl Subj for ScalarZnx<Vec<u8>> {
    const NAME: &'static str = "ScalarZnx";
    fn mk(p: &P) -> Self {
        ScalarZnx::alloc(p.n().0 as usize, p.cols as usize)
    }
    fn infos(&self) -> Vec<u64> {
        vec![self.n as u64, self.cols as u64]
    }
    fn dims(&self) -> Vec<Dims> {
        vec![[self.n as u64, self.cols as u64, 1, 1, self.data.len() as u64]]
    }
    fn touch(&self) -> i64 {
        (0..self.cols).map(|i| sum(self.at(i, 0))).fold(0, |a, b| a.wrapping_add(b))
    }
}

impl Subj for MatZnx<Vec<u8>> {
    const NAME: &'static str = "MatZnx";
    fn mk(p: &P) -> Self {
        MatZnx::alloc(p.n().0 as usize, p.dnum as usize, p.rank as usize, p.rank_out as usize, p.size())
    }
    fn infos(&self) -> Vec<u64> {
        vec![self.n() as u64, self.rows() as u64, self.cols_in() as u64, self.cols_out() as u64, self.size() as u64]
    }
    fn dims(&self) -> Vec<Dims> {
        vec![mz(self)]
    }
    fn touch(&self) -> i64 {
        let mut s = 0i64;
        // (an accepted empty matrix may carry up to 2^16 rows and columns: the loops are bounded like those of the wrappers)
        for r in 0..self.rows().min(64) {
            for c in 0..self.cols_in().min(64) {
                let v = self.at(r, c);
                for i in 0..v.cols.min(1024) {
                    for j in 0..v.size.min(1024) {
                        s = s.wrapping_add(sum(v.at(i, j)));
                    }
                }
            }
        }
        s
    }
}

fn glwe_touch<D: poulpy_hal::layouts::DataRef>(g: &GLWE<D>) -> i64 {
    let v = g.data();
    let mut s = 0i64;
    for i in 0..v.cols.min(1024) {
        for j in 0..v.size.min(1024) {
            s = s.wrapping_add(sum(v.at(i, j)));
        }
    }
    s
}

impl Subj for GLWE<Vec<u8>> {
    const NAME: &'static str = "GLWE";
    fn mk(p: &P) -> Self {
        GLWE::alloc(p.n(), p.b(), p.k(), Rank(p.rank as u32))
    }
    fn shrink(&mut self, by: usize) -> bool {
        let sz = self.size();
        if sz >= 2 {
            self.data_mut().set_size((sz - 1 - by % (sz - 1)).max(1));
            true
        } else {
            false
        }
    }
    fn infos(&self) -> Vec<u64> {
        vec![self.n().0 as u64, self.size() as u64, self.rank().0 as u64, self.max_size() as u64]
    }
    fn dims(&self) -> Vec<Dims> {
        vec![vz(self.data())]
    }
    fn touch(&self) -> i64 {
        glwe_touch(self)
    }
}

impl Subj for LWE<Vec<u8>> {
    const NAME: &'static str = "LWE";
    fn mk(p: &P) -> Self {
        LWE::alloc(Degree(p.n_lwe as u32), p.b(), p.k())
    }
    fn infos(&self) -> Vec<u64> {
        vec![self.n().0 as u64, self.size() as u64]
    }
    fn dims(&self) -> Vec<Dims> {
        vec![vz(self.data())]
    }
    fn touch(&self) -> i64 {
        let v = self.data();
        if v.cols == 0 {
            return 0;
        }
        (0..v.size).map(|j| sum(v.at(0, j))).fold(0, |a, b| a.wrapping_add(b))
    }
}

impl Subj for GGLWE<Vec<u8>> {
    const NAME: &'static str = "GGLWE";
    fn mk(p: &P) -> Self {
        GGLWE::alloc(p.n(), p.b(), p.k(), Rank(p.rank as u32), Rank(p.rank_out as u32), Dnum(p.dnum as u32), Dsize(p.dsize as u32))
    }
    fn infos(&self) -> Vec<u64> {
        let m = self.data();
        vec![m.n() as u64, m.size() as u64, m.rows() as u64, m.cols_in() as u64, m.cols_out() as u64]
    }
    fn dims(&self) -> Vec<Dims> {
        vec![mz(self.data())]
    }
    fn touch(&self) -> i64 {
        let mut s = 0i64;
        // iterate over what the container itself declares
        let m = self.data();
        for r in 0..m.rows().min(64) {
            for c in 0..m.cols_in().min(64) {
                let v = m.at(r, c);
                for i in 0..v.cols.min(1024) {
                    for j in 0..v.size.min(1024) {
                        s = s.wrapping_add(sum(v.at(i, j)));
                    }
                }
                let _ = glwe_touch::<&[u8]>;
            }
        }
        s
    }
}

impl Subj for GGSW<Vec<u8>> {
    const NAME: &'static str = "GGSW";
    fn mk(p: &P) -> Self {
        GGSW::alloc(p.n(), p.b(), p.k(), Rank(p.rank as u32), Dnum(p.dnum as u32), Dsize(p.dsize as u32))
    }
    fn infos(&self) -> Vec<u64> {
        vec![self.n().0 as u64, self.size() as u64, self.rank().0 as u64]
    }
    fn touch(&self) -> i64 {
        let mut s = 0i64;
        for r in 0..(self.dnum().0 as usize).min(64) {
            for c in 0..(self.rank().0 as usize + 1).min(64) {
                s = s.wrapping_add(glwe_touch(&self.at(r, c)));
            }
        }
        s
    }
}

macro_rules! gglwe_like {
    ($ty:ty, $name:expr, |$p:ident| $mk:expr, |$k:ident| $scr:expr) => {
        impl Subj for $ty {
            const NAME: &'static str = $name;
            fn mk($p: &P) -> Self {
                $mk
            }
            fn infos(&self) -> Vec<u64> {
                let _ = (self.n(), self.size(), self.rank_in(), self.rank_out(), self.dnum(), self.dsize());
                vec![]
            }
            fn scramble_meta(&mut self) {
                let $k = self;
                $scr
            }
        }
    };
    ($ty:ty, $name:expr, |$p:ident| $mk:expr) => {
        impl Subj for $ty {
            const NAME: &'static str = $name;
            fn mk($p: &P) -> Self {
                $mk
            }
            fn infos(&self) -> Vec<u64> {
                // derived from wrapper scalars (k, base2k, dsize) that are committed before delegating: not judged
                let _ = (self.n(), self.size(), self.rank_in(), self.rank_out(), self.dnum(), self.dsize());
                vec![]
            }
        }
    };
}

gglwe_like!(GLWESwitchingKey<Vec<u8>>, "GLWESwitchingKey", |p| {
    // (distinct non-zero secret degrees, so that their transport is observable)
    use poulpy_core::layouts::GLWESwitchingKeyDegreesMut;
    let mut k = GLWESwitchingKey::alloc(p.n(), p.b(), p.k(), Rank(p.rank as u32), Rank(p.rank_out as u32), Dnum(p.dnum as u32), Dsize(p.dsize as u32));
    *k.input_degree() = Degree(p.n().0);
    *k.output_degree() = Degree(2 * p.n().0 + 1);
    k
}, |k| {
    use poulpy_core::layouts::GLWESwitchingKeyDegreesMut;
    *k.input_degree() = Degree(7);
    *k.output_degree() = Degree(9);
});
// (automorphism keys carry a Galois element: a negative odd value derived from the parameters, so that its transport is observable)
gglwe_like!(GLWEAutomorphismKey<Vec<u8>>, "GLWEAutomorphismKey", |p| {
    use poulpy_core::layouts::SetGaloisElement;
    let mut k = GLWEAutomorphismKey::alloc(p.n(), p.b(), p.k(), Rank(p.rank as u32), Dnum(p.dnum as u32), Dsize(p.dsize as u32));
    k.set_p(-(2 * (p.n_lwe as i64 + p.krem as i64) + 1));
    k
}, |k| {
    use poulpy_core::layouts::SetGaloisElement;
    k.set_p(3);
});
gglwe_like!(GLWETensorKey<Vec<u8>>, "GLWETensorKey", |p| GLWETensorKey::alloc(p.n(), p.b(), p.k(), Rank(p.rank as u32), Dnum(p.dnum as u32), Dsize(p.dsize as u32)));
gglwe_like!(GGLWEToGGSWKey<Vec<u8>>, "GGLWEToGGSWKey", |p| GGLWEToGGSWKey::alloc(p.n(), p.b(), p.k(), Rank(p.rank as u32), Dnum(p.dnum as u32), Dsize(p.dsize as u32)));
gglwe_like!(GLWEToLWEKey<Vec<u8>>, "GLWEToLWEKey", |p| {
    // (distinct non-zero secret degrees, so that their transport is observable)
    use poulpy_core::layouts::GLWESwitchingKeyDegreesMut;
    let mut k = GLWEToLWEKey::alloc(p.n(), p.b(), p.k(), Rank(p.rank as u32), Dnum(p.dnum as u32));
    *k.input_degree() = Degree(p.n().0);
    *k.output_degree() = Degree(2 * p.n().0 + 1);
    k
}, |k| {
    use poulpy_core::layouts::GLWESwitchingKeyDegreesMut;
    *k.input_degree() = Degree(7);
    *k.output_degree() = Degree(9);
});
gglwe_like!(LWEToGLWEKey<Vec<u8>>, "LWEToGLWEKey", |p| {
    // (distinct non-zero secret degrees, so that their transport is observable)
    use poulpy_core::layouts::GLWESwitchingKeyDegreesMut;
    let mut k = LWEToGLWEKey::alloc(p.n(), p.b(), p.k(), Rank(p.rank_out as u32), Dnum(p.dnum as u32));
    *k.input_degree() = Degree(p.n().0);
    *k.output_degree() = Degree(2 * p.n().0 + 1);
    k
}, |k| {
    use poulpy_core::layouts::GLWESwitchingKeyDegreesMut;
    *k.input_degree() = Degree(7);
    *k.output_degree() = Degree(9);
});
gglwe_like!(LWESwitchingKey<Vec<u8>>, "LWESwitchingKey", |p| {
    // (distinct non-zero secret degrees, so that their transport is observable)
    use poulpy_core::layouts::GLWESwitchingKeyDegreesMut;
    let mut k = LWESwitchingKey::alloc(p.n(), p.b(), p.k(), Dnum(p.dnum as u32));
    *k.input_degree() = Degree(p.n().0);
    *k.output_degree() = Degree(2 * p.n().0 + 1);
    k
}, |k| {
    use poulpy_core::layouts::GLWESwitchingKeyDegreesMut;
    *k.input_degree() = Degree(7);
    *k.output_degree() = Degree(9);
});
gglwe_like!(GGLWECompressed<Vec<u8>>, "GGLWECompressed", |p| GGLWECompressed::alloc(p.n(), p.b(), p.k(), Rank(p.rank as u32), Rank(p.rank_out as u32), Dnum(p.dnum as u32), Dsize(p.dsize as u32)));
gglwe_like!(GLWESwitchingKeyCompressed<Vec<u8>>, "GLWESwitchingKeyCompressed", |p| {
    // (distinct non-zero secret degrees, so that their transport is observable)
    use poulpy_core::layouts::GLWESwitchingKeyDegreesMut;
    let mut k = GLWESwitchingKeyCompressed::alloc(p.n(), p.b(), p.k(), Rank(p.rank as u32), Rank(p.rank_out as u32), Dnum(p.dnum as u32), Dsize(p.dsize as u32));
    *k.input_degree() = Degree(p.n().0);
    *k.output_degree() = Degree(2 * p.n().0 + 1);
    k
}, |k| {
    use poulpy_core::layouts::GLWESwitchingKeyDegreesMut;
    *k.input_degree() = Degree(7);
    *k.output_degree() = Degree(9);
});
gglwe_like!(GLWEAutomorphismKeyCompressed<Vec<u8>>, "GLWEAutomorphismKeyCompressed", |p| {
    use poulpy_core::layouts::SetGaloisElement;
    let mut k = GLWEAutomorphismKeyCompressed::alloc(p.n(), p.b(), p.k(), Rank(p.rank as u32), Dnum(p.dnum as u32), Dsize(p.dsize as u32));
    k.set_p(-(2 * (p.n_lwe as i64 + p.krem as i64) + 1));
    k
}, |k| {
    use poulpy_core::layouts::SetGaloisElement;
    k.set_p(3);
});
gglwe_like!(GLWETensorKeyCompressed<Vec<u8>>, "GLWETensorKeyCompressed", |p| GLWETensorKeyCompressed::alloc(p.n(), p.b(), p.k(), Rank(p.rank as u32), Dnum(p.dnum as u32), Dsize(p.dsize as u32)));
gglwe_like!(GGLWEToGGSWKeyCompressed<Vec<u8>>, "GGLWEToGGSWKeyCompressed", |p| GGLWEToGGSWKeyCompressed::alloc(p.n(), p.b(), p.k(), Rank(p.rank as u32), Dnum(p.dnum as u32), Dsize(p.dsize as u32)));
gglwe_like!(GLWEToLWESwitchingKeyCompressed<Vec<u8>>, "GLWEToLWEKeyCompressed", |p| GLWEToLWESwitchingKeyCompressed::alloc(p.n(), p.b(), p.k(), Rank(p.rank as u32), Dnum(p.dnum as u32)));
gglwe_like!(LWEToGLWEKeyCompressed<Vec<u8>>, "LWEToGLWEKeyCompressed", |p| LWEToGLWEKeyCompressed::alloc(p.n(), p.b(), p.k(), Rank(p.rank_out as u32), Dnum(p.dnum as u32)));
gglwe_like!(LWESwitchingKeyCompressed<Vec<u8>>, "LWESwitchingKeyCompressed", |p| LWESwitchingKeyCompressed::alloc(p.n(), p.b(), p.k(), Dnum(p.dnum as u32)));

impl Subj for GGSWCompressed<Vec<u8>> {
    const NAME: &'static str = "GGSWCompressed";
    fn mk(p: &P) -> Self {
        GGSWCompressed::alloc(p.n(), p.b(), p.k(), Rank(p.rank as u32), Dnum(p.dnum as u32), Dsize(p.dsize as u32))
    }
    fn infos(&self) -> Vec<u64> {
        let _ = (self.n(), self.size(), self.rank(), self.dnum());
        vec![]
    }
}

impl Subj for GLWECompressed<Vec<u8>> {
    const NAME: &'static str = "GLWECompressed";
    fn mk(p: &P) -> Self {
        GLWECompressed::alloc(p.n(), p.b(), p.k(), Rank(p.rank as u32))
    }
    fn infos(&self) -> Vec<u64> {
        let _ = (self.n(), self.size(), self.rank());
        vec![]
    }
}

impl Subj for LWECompressed<Vec<u8>> {
    const NAME: &'static str = "LWECompressed";
    fn mk(p: &P) -> Self {
        LWECompressed::alloc(p.b(), p.k())
    }
    fn infos(&self) -> Vec<u64> {
        let _ = self.size();
        vec![]
    }
}

// GLWEPublicKey has no FillUniform / Clone: handled through a thin newtype
#[derive(PartialEq)]
pub struct Pk(pub GLWEPublicKey<Vec<u8>>, P);
impl Clone for Pk {
    fn clone(&self) -> Self {
        let mut c = Pk(GLWEPublicKey::alloc(self.1.n(), self.1.b(), self.1.k(), Rank(self.1.rank as u32)), self.1.clone());
        let mut buf = vec![];
        self.0.write_to(&mut buf).unwrap();
        c.0.read_from(&mut &buf[..]).unwrap();
        c
    }
}
impl WriterTo for Pk {
    fn write_to<W: std::io::Write>(&self, w: &mut W) -> std::io::Result<()> {
        self.0.write_to(w)
    }
}
impl ReaderFrom for Pk {
    fn read_from<R: std::io::Read>(&mut self, r: &mut R) -> std::io::Result<()> {
        self.0.read_from(r)
    }
}
impl FillUniform for Pk {
    fn fill_uniform(&mut self, log_bound: usize, source: &mut Source) {
        use poulpy_core::layouts::GLWEToMut;
        self.0.to_mut().data_mut().fill_uniform(log_bound, source);
    }
}
impl Subj for Pk {
    const NAME: &'static str = "GLWEPublicKey";
    fn mk(p: &P) -> Self {
        Pk(GLWEPublicKey::alloc(p.n(), p.b(), p.k(), Rank(p.rank as u32)), p.clone())
    }
    fn infos(&self) -> Vec<u64> {
        vec![self.0.n().0 as u64, self.0.size() as u64, self.0.rank().0 as u64]
    }
    fn dims(&self) -> Vec<Dims> {
        use poulpy_core::layouts::GLWEToRef;
        vec![vz(self.0.to_ref().data())]
    }
}

#[derive(Clone, Copy, Debug, Serialize, Deserialize, PartialEq)]
pub enum Fault {
    None,
    /// keep the first `permille/1000` of the stream (plus `delta` bytes)
    Truncate { permille: u16, delta: i8 },
    /// replace the little-endian field of `width` bytes at `off` by dictionary entry `val`
    Field { off: u16, width: u8, val: u8 },
    /// two fields (products that overflow / wrap to the expected length)
    Field2 { off1: u16, val1: u8, off2: u16, val2: u8 },
    Flip { pos: u32, bit: u8 },
}

#[derive(Clone, Debug, Serialize, Deserialize)]
pub struct Case {
    pub p: P,
    /// 0 = same shape, 1 = larger receiver, 2 = smaller receiver
    pub recv: u8,
    pub fault: Fault,
    pub seed: u64,
    /// coverage-guided fuzzing: the stream handed to `read_from`, replacing the (faulted) valid stream
    #[serde(default)]
    pub raw: Option<Vec<u8>>,
}

const DICT: [u64; 14] = [0, 1, 2, 3, 1 << 31, 1 << 32, 1 << 61, (1 << 61) + 1, u64::MAX, u64::MAX - 1, 8, 1 << 60, 1 << 58, 1 << 63];

fn apply_fault(bytes: &mut Vec<u8>, f: Fault) -> &'static str {
    match f {
        Fault::None => "no_fault",
        Fault::Truncate { permille, delta } => {
            let l = bytes.len();
            let cut = ((l as u64 * (permille as u64 % 1001) / 1000) as i64 + delta as i64).clamp(0, l.saturating_sub(1) as i64) as usize;
            bytes.truncate(cut);
            "truncated"
        }
        Fault::Field { off, width, val } => {
            let w = if width % 2 == 0 { 8 } else { 4 };
            let hdr = bytes.len().min(160);
            if hdr >= w {
                let o = (off as usize % (hdr - w + 1)) / 4 * 4;
                let cur = if w == 8 { u64::from_le_bytes(bytes[o..o + 8].try_into().unwrap()) } else { u32::from_le_bytes(bytes[o..o + 4].try_into().unwrap()) as u64 };
                let v = match val % 18 {
                    14 => cur.wrapping_add(1),
                    15 => cur.wrapping_sub(1),
                    16 => cur.wrapping_mul(2),
                    17 => cur / 2,
                    i => DICT[i as usize],
                };
                if w == 8 {
                    bytes[o..o + 8].copy_from_slice(&v.to_le_bytes());
                } else {
                    bytes[o..o + 4].copy_from_slice(&(v as u32).to_le_bytes());
                }
            }
            "header_field"
        }
        Fault::Field2 { off1, val1, off2, val2 } => {
            apply_fault(bytes, Fault::Field { off: off1, width: 0, val: val1 });
            apply_fault(bytes, Fault::Field { off: off2, width: 0, val: val2 });
            "header_field"
        }
        Fault::Flip { pos, bit } => {
            if !bytes.is_empty() {
                let i = pos as usize % bytes.len();
                bytes[i] ^= 1 << (bit % 8);
            }
            "bit_flip"
        }
    }
}

fn run_subject<T: Subj>(c: &Case) -> Verdict {
    let mut src = Source::new([c.seed as u8; 32]);
    let mut original = T::mk(&c.p);
    original.fill_uniform(50, &mut src);
    // a third of the undamaged same-shape cases: an object that uses fewer limbs than its buffer holds
    let shrunk = c.seed % 3 == 0 && c.recv % 3 == 0 && c.raw.is_none() && original.shrink((c.seed >> 8) as usize);
    let mut bytes = vec![];
    if let Err(e) = original.write_to(&mut bytes) {
        return Verdict::fail(format!("{}|write-failed", T::NAME), format!("write_to of a freshly allocated {} failed: {e}\ncase={c:?}", T::NAME));
    }
    let pristine = bytes.clone();
    // receiver
    let mut rp = c.p.clone();
    match c.recv % 3 {
        1 => {
            rp.extra = (rp.extra + 1).min(3);
            rp.dnum = (rp.dnum + 1).min(4);
            rp.n_lwe += 3;
            rp.cols = (rp.cols + 1).min(4);
        }
        2 => {
            if rp.extra > 0 {
                rp.extra -= 1;
            } else if rp.dnum > 1 {
                rp.dnum -= 1;
            } else if rp.log_n > 1 {
                rp.log_n -= 1;
            }
            rp.n_lwe = rp.n_lwe.saturating_sub(1).max(1);
        }
        _ => {}
    }
    let mut receiver = T::mk(&rp);
    receiver.fill_uniform(50, &mut src);
    // half of the cases: the receiver's scalar metadata (secret degrees, Galois element) differs from the stream's
    if (c.seed >> 20) & 1 == 1 {
        receiver.scramble_meta();
    }
    let mut fault_class = apply_fault(&mut bytes, c.fault);
    if let Some(r) = &c.raw {
        bytes = r.clone();
        fault_class = "raw_stream";
    }
    let damaged = bytes != pristine;
    let infos_before = receiver.infos();
    let dims_before = receiver.dims();
    let res = guarded(|| receiver.read_from(&mut &bytes[..]));
    let tname = T::NAME;
    let res = match res {
        Ok(r) => r,
        Err(p) => {
            return Verdict::fail(format!("{tname}|read-panic|{}", panic_sig(&p)), format!("{tname}::read_from panicked on a {fault_class} stream of {} bytes: {p}\ncase={c:?}", bytes.len()));
        }
    };
    // (3) receiver invariant after either outcome
    for d in receiver.dims() {
        if let Err(e) = consistent(&d) {
            return Verdict::fail(
                format!("{tname}|inconsistent-receiver|{}", if res.is_ok() { "after-ok" } else { "after-err" }),
                format!("{tname}: after read_from returned {:?} on a {fault_class} stream the receiver is inconsistent with its buffer: {e} (n, cols, size, max_size, bytes = {d:?})\ncase={c:?}", res.as_ref().map(|_| ())),
            );
        }
    }
    match &res {
        Err(_) => {
            // (4) documented atomicity: dimensions unchanged on failure
            // (accessors of wrappers subtract 1 from a container dimension; a zero there is an empty object, not judged)
            let infos_after = guarded(|| receiver.infos()).unwrap_or_else(|_| infos_before.clone());
            if infos_after != infos_before || receiver.dims().iter().map(|d| &d[..4]).ne(dims_before.iter().map(|d| &d[..4])) {
                return Verdict::fail(
                    format!("{tname}|dims-changed-on-error"),
                    format!("{tname}: read_from failed but the receiver's dimensions changed: {:?} -> {:?}\ncase={c:?}", infos_before, infos_after),
                );
            }
        }
        Ok(()) => {
            if !damaged && c.recv % 3 != 2 {
                // (1) round trip
                let same_shape = c.recv % 3 == 0;
                // (the limbs a shrunk object does not use are not part of its value: those cases are compared below)
                if same_shape && !shrunk && receiver != original {
                    return Verdict::fail(format!("{tname}|roundtrip"), format!("{tname}: read(write(x)) != x for a receiver cloned from the original shape\ncase={c:?}"));
                }
                // an object with size < max_size comes back with its capacity (the receiver's buffer holds it)
                if same_shape && shrunk && receiver.infos() != original.infos() {
                    return Verdict::fail(format!("{tname}|roundtrip-dimensions"), format!("{tname}: an object that uses fewer limbs than its buffer holds comes back with other dimensions: wrote {:?}, read {:?} into a receiver of the same capacity\ncase={c:?}", original.infos(), receiver.infos()));
                }
                if same_shape && shrunk {
                    let mut w = vec![];
                    let ok = guarded(|| receiver.write_to(&mut w)).map(|r| r.is_ok()).unwrap_or(false);
                    if !ok || w != pristine {
                        return Verdict::fail(format!("{tname}|roundtrip"), format!("{tname}: write(read(write(x))) != write(x) for an object that uses fewer limbs than its buffer holds\ncase={c:?}"));
                    }
                }
            }
        }
    }
    // use the receiver: re-serialise (exercises every dimension against the buffer) and touch every coefficient
    let mut again = vec![];
    match guarded(|| receiver.write_to(&mut again)) {
        Err(p) => {
            return Verdict::fail(
                format!("{tname}|unusable-receiver|write-panic"),
                format!("{tname}: after read_from ({}) on a {fault_class} stream, write_to of the receiver panics: {p}\ncase={c:?}", if res.is_ok() { "Ok" } else { "Err" }),
            );
        }
        Ok(Err(e)) => {
            return Verdict::fail(
                format!("{tname}|unusable-receiver|write-error"),
                format!("{tname}: after read_from ({}) on a {fault_class} stream the receiver can no longer be serialised: {e}\ncase={c:?}", if res.is_ok() { "Ok" } else { "Err" }),
            );
        }
        Ok(Ok(())) => {}
    }
    // an accepted damaged stream may describe an empty object (a zero dimension): nothing to touch then
    // ... and a zero dimension next to a huge one is consistent with the buffer but not worth iterating over
    let huge = receiver.dims().iter().any(|d| d[..4].iter().any(|x| *x > (1 << 16))) || guarded(|| receiver.infos()).map(|v| v.iter().any(|x| *x > (1 << 16))).unwrap_or(true);
    // wrappers whose container is not reachable through the public API are only touched on undamaged streams:
    // an accepted damaged stream may describe a container the wrapper's own accessors do not expect (e.g. cols_in != cols_out)
    let degenerate = huge || (damaged && receiver.dims().is_empty());
    if degenerate {
        // fallthrough
    } else if let Err(p) = guarded(|| receiver.touch()) {
        return Verdict::fail(format!("{tname}|unusable-receiver|access-panic"), format!("{tname}: accessing the receiver after read_from panics: {p}\ncase={c:?}"));
    }
    if res.is_ok() && !damaged {
        // byte-level round trip (also for larger receivers)
        if again != pristine {
            return Verdict::fail(format!("{tname}|roundtrip-bytes"), format!("{tname}: write(read(write(x))) differs from write(x) (receiver class {})\ncase={c:?}", c.recv % 3));
        }
    }
    let recv_class = ["receiver_same", "receiver_larger", "receiver_smaller"][(c.recv % 3) as usize];
    let mut cl = vec![tname, fault_class, recv_class];
    if res.is_ok() && damaged {
        cl.push("accepted_after_fault");
    }
    if res.is_err() {
        cl.push("rejected");
    }
    let nt = damaged || c.recv % 3 != 0;
    Verdict::pass(nt, &cl)
}

type Runner = fn(&Case) -> Verdict;

pub const TYPES: &[(&str, Runner)] = &[
    ("VecZnx", run_subject::<VecZnx<Vec<u8>>>),
    ("ScalarZnx", run_subject::<ScalarZnx<Vec<u8>>>),
    ("MatZnx", run_subject::<MatZnx<Vec<u8>>>),
    ("GLWE", run_subject::<GLWE<Vec<u8>>>),
    ("LWE", run_subject::<LWE<Vec<u8>>>),
    ("GGLWE", run_subject::<GGLWE<Vec<u8>>>),
    ("GGSW", run_subject::<GGSW<Vec<u8>>>),
    ("GLWEPublicKey", run_subject::<Pk>),
    ("GLWESwitchingKey", run_subject::<GLWESwitchingKey<Vec<u8>>>),
    ("GLWEAutomorphismKey", run_subject::<GLWEAutomorphismKey<Vec<u8>>>),
    ("GLWETensorKey", run_subject::<GLWETensorKey<Vec<u8>>>),
    ("GGLWEToGGSWKey", run_subject::<GGLWEToGGSWKey<Vec<u8>>>),
    ("GLWEToLWEKey", run_subject::<GLWEToLWEKey<Vec<u8>>>),
    ("LWEToGLWEKey", run_subject::<LWEToGLWEKey<Vec<u8>>>),
    ("LWESwitchingKey", run_subject::<LWESwitchingKey<Vec<u8>>>),
    ("GLWECompressed", run_subject::<GLWECompressed<Vec<u8>>>),
    ("LWECompressed", run_subject::<LWECompressed<Vec<u8>>>),
    ("GGLWECompressed", run_subject::<GGLWECompressed<Vec<u8>>>),
    ("GGSWCompressed", run_subject::<GGSWCompressed<Vec<u8>>>),
    ("GLWESwitchingKeyCompressed", run_subject::<GLWESwitchingKeyCompressed<Vec<u8>>>),
    ("GLWEAutomorphismKeyCompressed", run_subject::<GLWEAutomorphismKeyCompressed<Vec<u8>>>),
    ("GLWETensorKeyCompressed", run_subject::<GLWETensorKeyCompressed<Vec<u8>>>),
    ("GGLWEToGGSWKeyCompressed", run_subject::<GGLWEToGGSWKeyCompressed<Vec<u8>>>),
    ("GLWEToLWEKeyCompressed", run_subject::<GLWEToLWESwitchingKeyCompressed<Vec<u8>>>),
    ("LWEToGLWEKeyCompressed", run_subject::<LWEToGLWEKeyCompressed<Vec<u8>>>),
    ("LWESwitchingKeyCompressed", run_subject::<LWESwitchingKeyCompressed<Vec<u8>>>),
];

/// Decodes a fuzz input: 14 parameter bytes (type, shape, receiver class, seed) followed by the stream
/// handed to `read_from`.  An empty stream part means "the valid stream".
pub fn case_from_fuzz_bytes(data: &[u8]) -> Option<Case> {
    if data.len() < 14 {
        return None;
    }
    let h = &data[..14];
    let mut p = P { ty: h[0], log_n: h[1], n_lwe: h[2], base2k: h[3], extra: h[4], krem: h[5], rank: h[6], rank_out: h[7], dnum: h[8], dsize: h[9], cols: h[10] };
    p.adapt();
    let raw = if data.len() > 14 { Some(data[14..].to_vec()) } else { None };
    Some(Case { p, recv: h[11], fault: Fault::None, seed: u16::from_le_bytes([h[12], h[13]]) as u64, raw })
}

/// Seed corpus for the fuzz target: for every type a few shapes, header + valid stream.
pub fn fuzz_seed_corpus() -> Vec<(String, Vec<u8>)> {
    let mut out = vec![];
    for ty in 0..TYPES.len() as u8 {
        for (i, shape) in [[1u8, 3, 8, 0, 0, 1, 1, 1, 1, 1], [3, 5, 12, 1, 3, 2, 1, 2, 1, 2], [2, 2, 17, 0, 5, 1, 2, 2, 2, 3]].iter().enumerate() {
            let mut h = vec![ty];
            h.extend_from_slice(shape);
            h.extend_from_slice(&[(i % 3) as u8, 7, 0]);
            let c = case_from_fuzz_bytes(&h).unwrap();
            let bytes = pristine_stream(&c);
            let mut f = h.clone();
            f.extend(bytes);
            out.push((format!("{}-{i}", TYPES[ty as usize].0), f));
        }
    }
    out
}

fn pristine_of<T: Subj>(c: &Case) -> Vec<u8> {
    let mut src = Source::new([c.seed as u8; 32]);
    let mut original = T::mk(&c.p);
    original.fill_uniform(50, &mut src);
    let mut bytes = vec![];
    original.write_to(&mut bytes).unwrap();
    bytes
}

type Streamer = fn(&Case) -> Vec<u8>;

pub const STREAMERS: &[Streamer] = &[
    pristine_of::<VecZnx<Vec<u8>>>,
    pristine_of::<ScalarZnx<Vec<u8>>>,
    pristine_of::<MatZnx<Vec<u8>>>,
    pristine_of::<GLWE<Vec<u8>>>,
    pristine_of::<LWE<Vec<u8>>>,
    pristine_of::<GGLWE<Vec<u8>>>,
    pristine_of::<GGSW<Vec<u8>>>,
    pristine_of::<Pk>,
    pristine_of::<GLWESwitchingKey<Vec<u8>>>,
    pristine_of::<GLWEAutomorphismKey<Vec<u8>>>,
    pristine_of::<GLWETensorKey<Vec<u8>>>,
    pristine_of::<GGLWEToGGSWKey<Vec<u8>>>,
    pristine_of::<GLWEToLWEKey<Vec<u8>>>,
    pristine_of::<LWEToGLWEKey<Vec<u8>>>,
    pristine_of::<LWESwitchingKey<Vec<u8>>>,
    pristine_of::<GLWECompressed<Vec<u8>>>,
    pristine_of::<LWECompressed<Vec<u8>>>,
    pristine_of::<GGLWECompressed<Vec<u8>>>,
    pristine_of::<GGSWCompressed<Vec<u8>>>,
    pristine_of::<GLWESwitchingKeyCompressed<Vec<u8>>>,
    pristine_of::<GLWEAutomorphismKeyCompressed<Vec<u8>>>,
    pristine_of::<GLWETensorKeyCompressed<Vec<u8>>>,
    pristine_of::<GGLWEToGGSWKeyCompressed<Vec<u8>>>,
    pristine_of::<GLWEToLWESwitchingKeyCompressed<Vec<u8>>>,
    pristine_of::<LWEToGLWEKeyCompressed<Vec<u8>>>,
    pristine_of::<LWESwitchingKeyCompressed<Vec<u8>>>,
];

pub fn pristine_stream(c: &Case) -> Vec<u8> {
    (STREAMERS[c.p.ty as usize % STREAMERS.len()])(c)
}

pub fn test(c0: &Case) -> Verdict {
    let mut c = c0.clone();
    c.p.adapt();
    (TYPES[c.p.ty as usize].1)(&c)
}

fn p_strategy() -> impl Strategy<Value = P> {
    (
        (0u8..TYPES.len() as u8, 1u8..=6, 1u8..=40, 2u8..=24, 0u8..3, any::<u8>()),
        (1u8..=3, 1u8..=3, 1u8..=3, 1u8..=2, 1u8..=3),
    )
        .prop_map(|((ty, log_n, n_lwe, base2k, extra, krem), (rank, rank_out, dnum, dsize, cols))| {
            let mut p = P {
                ty,
                log_n,
                n_lwe,
                base2k,
                extra,
                krem,
                rank,
                rank_out,
                dnum,
                dsize,
                cols,
            };
            p.adapt();
            p
        })
}

fn fault_strategy() -> impl Strategy<Value = Fault> {
    prop_oneof![
        1 => Just(Fault::None),
        3 => (0u16..=1000, -9i8..=9).prop_map(|(permille, delta)| Fault::Truncate { permille, delta }),
        2 => (0u16..64, -9i8..=9).prop_map(|(o, delta)| Fault::Truncate { permille: o / 8, delta }),
        5 => (any::<u16>(), any::<u8>(), 0u8..18).prop_map(|(off, width, val)| Fault::Field { off, width, val }),
        2 => (any::<u16>(), 0u8..18, any::<u16>(), 0u8..18).prop_map(|(off1, val1, off2, val2)| Fault::Field2 { off1, val1, off2, val2 }),
        1 => (any::<u32>(), 0u8..8).prop_map(|(pos, bit)| Fault::Flip { pos, bit }),
    ]
}

fn strategy() -> BoxedStrategy<Case> {
    (p_strategy(), 0u8..3, fault_strategy(), any::<u64>()).prop_map(|(p, recv, fault, seed)| Case { p, recv, fault, seed, raw: None }).boxed()
}

/// every truncation point of small objects, for every type
fn truncation_blocks(max_len: usize) -> Vec<Vec<Case>> {
    let mut blocks = vec![];
    for ty in 0..TYPES.len() as u8 {
        let mut p = P {
            ty,
            log_n: 1,
            n_lwe: 3,
            base2k: 8,
            extra: 0,
            krem: 3,
            rank: 1,
            rank_out: 1,
            dnum: 1,
            dsize: 1,
            cols: 2,
        };
        p.adapt();
        // length of the stream: encode once
        let probe = Case {
            p: p.clone(),
            recv: 0,
            fault: Fault::None,
            seed: 1,
            raw: None,
        };
        let _ = probe;
        let mut block = vec![];
        for cut in 0..max_len {
            block.push(Case {
                p: p.clone(),
                recv: (cut % 3) as u8,
                fault: Fault::Truncate { permille: 0, delta: 0 },
                seed: cut as u64,
                raw: None,
            });
        }
        blocks.push(block);
    }
    blocks
}

/// exhaustive truncation: the cut position is carried in `seed`
pub fn trunc_test(c0: &Case) -> Verdict {
    let mut c = c0.clone();
    c.p.adapt();
    // translate the absolute cut into the generic fault by computing the stream length first
    let cut = c.seed as usize;
    c.fault = Fault::Truncate { permille: 0, delta: 0 };
    // delta is i8: express the cut through permille of a known length instead -> run a dedicated path
    run_with_cut(&c, cut)
}

fn run_with_cut(c: &Case, cut: usize) -> Verdict {
    // Build a case whose Truncate fault cuts exactly at `cut` by searching permille/delta
    // (stream lengths here are < 4 KiB, so permille resolution + delta in -9..=9 reaches every byte)
    let mut probe = c.clone();
    probe.fault = Fault::None;
    let len = stream_len(&probe);
    if cut >= len {
        return Verdict::pass(false, &["beyond_end"]);
    }
    for permille in 0..=1000u16 {
        let base = (len as u64 * permille as u64 / 1000) as i64;
        let delta = cut as i64 - base;
        if (-9..=9).contains(&delta) {
            let mut cc = c.clone();
            cc.fault = Fault::Truncate { permille, delta: delta as i8 };
            return (TYPES[cc.p.ty as usize].1)(&cc);
        }
    }
    Verdict::pass(false, &["unreachable_cut"])
}

fn stream_len(c: &Case) -> usize {
    fn len_of<T: Subj>(p: &P) -> usize {
        let mut b = vec![];
        T::mk(p).write_to(&mut b).unwrap();
        b.len()
    }
    let p = &c.p;
    match TYPES[p.ty as usize].0 {
        "VecZnx" => len_of::<VecZnx<Vec<u8>>>(p),
        "ScalarZnx" => len_of::<ScalarZnx<Vec<u8>>>(p),
        "MatZnx" => len_of::<MatZnx<Vec<u8>>>(p),
        "GLWE" => len_of::<GLWE<Vec<u8>>>(p),
        "LWE" => len_of::<LWE<Vec<u8>>>(p),
        "GGLWE" => len_of::<GGLWE<Vec<u8>>>(p),
        "GGSW" => len_of::<GGSW<Vec<u8>>>(p),
        "GLWEPublicKey" => len_of::<Pk>(p),
        "GLWESwitchingKey" => len_of::<GLWESwitchingKey<Vec<u8>>>(p),
        "GLWEAutomorphismKey" => len_of::<GLWEAutomorphismKey<Vec<u8>>>(p),
        "GLWETensorKey" => len_of::<GLWETensorKey<Vec<u8>>>(p),
        "GGLWEToGGSWKey" => len_of::<GGLWEToGGSWKey<Vec<u8>>>(p),
        "GLWEToLWEKey" => len_of::<GLWEToLWEKey<Vec<u8>>>(p),
        "LWEToGLWEKey" => len_of::<LWEToGLWEKey<Vec<u8>>>(p),
        "LWESwitchingKey" => len_of::<LWESwitchingKey<Vec<u8>>>(p),
        "GLWECompressed" => len_of::<GLWECompressed<Vec<u8>>>(p),
        "LWECompressed" => len_of::<LWECompressed<Vec<u8>>>(p),
        "GGLWECompressed" => len_of::<GGLWECompressed<Vec<u8>>>(p),
        "GGSWCompressed" => len_of::<GGSWCompressed<Vec<u8>>>(p),
        "GLWESwitchingKeyCompressed" => len_of::<GLWESwitchingKeyCompressed<Vec<u8>>>(p),
        "GLWEAutomorphismKeyCompressed" => len_of::<GLWEAutomorphismKeyCompressed<Vec<u8>>>(p),
        "GLWETensorKeyCompressed" => len_of::<GLWETensorKeyCompressed<Vec<u8>>>(p),
        "GGLWEToGGSWKeyCompressed" => len_of::<GGLWEToGGSWKeyCompressed<Vec<u8>>>(p),
        "GLWEToLWEKeyCompressed" => len_of::<GLWEToLWESwitchingKeyCompressed<Vec<u8>>>(p),
        "LWEToGLWEKeyCompressed" => len_of::<LWEToGLWEKeyCompressed<Vec<u8>>>(p),
        _ => len_of::<LWESwitchingKeyCompressed<Vec<u8>>>(p),
    }
}

// ---------------------------------------------------------------------------
// Distribution
// ---------------------------------------------------------------------------

#[derive(Clone, Debug, Serialize, Deserialize)]
pub struct DistCase {
    pub tag: u8,
    pub payload: u64,
    pub raw: Option<u64>,
}

pub fn dist_test(c: &DistCase) -> Verdict {
    use poulpy_core::Distribution;
    if let Some(w) = c.raw {
        // arbitrary word: must be Ok or Err, never panic
        let bytes = w.to_le_bytes();
        return match guarded(|| Distribution::read_from(&mut &bytes[..])) {
            Ok(_) => Verdict::pass(true, &["dist_raw_word"]),
            Err(p) => Verdict::fail("Distribution|read-panic", format!("Distribution::read_from panicked on word {w:#x}: {p}")),
        };
    }
    // probabilities representable in 44 mantissa bits round-trip exactly (documented 56-bit truncation)
    let prob = ((c.payload >> 20) as f64 + 1.0) / (1u64 << 44) as f64;
    let d = match c.tag % 7 {
        0 => Distribution::TernaryFixed((c.payload & 0xFFFF_FFFF) as usize),
        1 => Distribution::TernaryProb(prob),
        2 => Distribution::BinaryFixed((c.payload & 0xFFFF_FFFF) as usize),
        3 => Distribution::BinaryProb(prob),
        4 => Distribution::BinaryBlock((c.payload & 0xFFFF) as usize),
        5 => Distribution::ZERO,
        _ => Distribution::NONE,
    };
    let mut bytes = vec![];
    d.write_to(&mut bytes).unwrap();
    match Distribution::read_from(&mut &bytes[..]) {
        Ok(d2) if d2 == d => Verdict::pass(true, &["dist_roundtrip"]),
        Ok(d2) => Verdict::fail("Distribution|roundtrip", format!("Distribution round trip: wrote {d:?}, read {d2:?}")),
        Err(e) => Verdict::fail("Distribution|roundtrip", format!("Distribution round trip: wrote {d:?}, read failed: {e}")),
    }
}

fn dist_strategy() -> BoxedStrategy<DistCase> {
    (any::<u8>(), any::<u64>(), proptest::option::weighted(0.3, any::<u64>())).prop_map(|(tag, payload, raw)| DistCase { tag, payload, raw }).boxed()
}

pub fn run(ctx: &Ctx) {
    let t = ctx.tier;
    ctx.run_sub("faults_all_types", t.pick(1_000_000, 10_000_000), 64, strategy, test);
    ctx.run_enum("every_truncation_point_small_objects", true, truncation_blocks(t.pick(700, 4096)), trunc_test);
    ctx.run_sub("distribution", t.pick(20_000, 200_000), 16, dist_strategy, dist_test);
    // census: every ReaderFrom implementation in the tree must be registered
    census(ctx);
}

fn census(ctx: &Ctx) {
    use pzv_common::driver::SubReport;
    let mut found: Vec<String> = vec![];
    fn walk(dir: &std::path::Path, out: &mut Vec<String>) {
        if let Ok(rd) = std::fs::read_dir(dir) {
            for e in rd.flatten() {
                let p = e.path();
                if p.is_dir() {
                    if p.file_name().map(|n| n != "target").unwrap_or(true) {
                        walk(&p, out);
                    }
                } else if p.extension().map(|x| x == "rs").unwrap_or(false) {
                    if let Ok(s) = std::fs::read_to_string(&p) {
                        for l in s.lines() {
                            if let Some(i) = l.find("ReaderFrom for ") {
                                if l.trim_start().starts_with("impl") {
                                    let t: String = l[i + 15..].chars().take_while(|c| c.is_alphanumeric() || *c == '_').collect();
                                    out.push(t);
                                }
                            }
                        }
                    }
                }
            }
        }
    }
    for c in ["poulpy-hal", "poulpy-core", "poulpy-bin-fhe", "poulpy-ckks"] {
        walk(&std::path::Path::new("/repo").join(c).join("src"), &mut found);
    }
    found.sort();
    found.dedup();
    let registered: Vec<&str> = TYPES.iter().map(|t| t.0).collect();
    let alias = |s: &str| -> String {
        match s {
            "GLWEToLWESwitchingKeyCompressed" => "GLWEToLWEKeyCompressed".into(),
            x => x.into(),
        }
    };
    let missing: Vec<String> = found.iter().filter(|f| !registered.contains(&alias(f).as_str()) && !BINFHE_DEFERRED.contains(&f.as_str())).cloned().collect();
    let mut rep = SubReport {
        name: "census".into(),
        evaluations: found.len() as u64,
        ..Default::default()
    };
    rep.extra.insert("reader_from_impls_found".into(), serde_json::json!(found));
    rep.extra.insert("registered".into(), serde_json::json!(registered));
    rep.extra.insert("covered_elsewhere".into(), serde_json::json!(BINFHE_DEFERRED));
    rep.extra.insert("missing".into(), serde_json::json!(missing));
    if !missing.is_empty() {
        eprintln!("harness error: generator health: ReaderFrom implementations not registered in C18: {missing:?}");
        std::process::exit(2);
    }
    ctx.add_report(rep);
}

/// binary-FHE key types: exercised by the sub-check `binfhe_keys` (c18b.rs)
pub const BINFHE_DEFERRED: &[&str] = &["BlindRotationKey", "BlindRotationKeyCompressed", "CircuitBootstrappingKey", "BDDKey"];

pub fn replay(ctx: &Ctx, sub: &str, case: &serde_json::Value) -> i32 {
    match sub {
        "distribution" => ctx.replay_case::<DistCase, _>(sub, case, dist_test),
        "every_truncation_point_small_objects" => ctx.replay_case::<Case, _>(sub, case, trunc_test),
        _ => ctx.replay_case::<Case, _>(sub, case, test),
    }
}

pub const RULE: &str = "cases = (serialisable type (26 hal/core layouts incl. the eleven compressed forms; the four binary-FHE key types in sub-check binfhe_keys: valid streams assembled from public components, faults incl. damaged counts / Galois elements / tags), parameter set (N 2..64, radix 2..24, limbs, ranks, dnum, dsize), receiver of the same / larger / smaller shape, fault in {none, truncation at a generated or every (exhaustive for small objects) byte, header field at a 4-byte-aligned offset in the first 160 bytes replaced from the boundary dictionary {0,1,2,3,2^31,2^32,2^58,2^60,2^61,2^61+1,2^63,2^64-2,2^64-1,8} or value+-1, x2, /2, two fields at once, single bit flip}). Checks: no panic; round trip equality (object and bytes); receiver invariant after Ok and after Err (size <= max_size, n*cols*size*8 and n*cols*max_size*8 within the buffer, through public fields); dimensions unchanged on Err; the receiver is then used (re-serialised, every coefficient read). non-trivial = stream damaged or receiver shape differs.";

pub const ASSUMPTIONS: &[&str] = &[
    "checked profile: arithmetic overflow inside read_from surfaces as a panic, which the property forbids",
    "wrapper scalars (base2k, dsize, rank, seeds) that every wrapper commits before delegating are not dimension fields in the sense of the trait documentation and are not judged",
    "Distribution stores probabilities with a documented 56-bit truncation; exact round trip is demanded for probabilities representable in 44 mantissa bits",
];
