//! pzv-serde: C18 — serialisation round-trips, and rejects damaged input without corruption.
#![allow(clippy::too_many_arguments, clippy::needless_range_loop, clippy::type_complexity)]

use pzv_serde::{c18, c18b};

use pzv_common::driver::{Ctx, install_panic_hook, read_replay};

fn main() {
    install_panic_hook();
    let args: Vec<String> = std::env::args().skip(1).collect();
    if args.is_empty() {
        eprintln!("usage: pzv-serde C18 [quick|thorough] | replay <file>");
        std::process::exit(2);
    }
    if args[0] == "gen-corpus" {
        // seed corpus of the coverage-guided target (/verif/fuzz): header + valid stream per type and shape
        let dir = std::path::PathBuf::from(&args[1]);
        std::fs::create_dir_all(&dir).unwrap();
        let files = c18::fuzz_seed_corpus();
        for (name, bytes) in &files {
            std::fs::write(dir.join(name), bytes).unwrap();
        }
        println!("{} seed files", files.len());
        return;
    }
    if args[0] == "replay-bytes" {
        // a saved fuzz input (crash artifact), judged by the same oracle outside the fuzzer
        let data = std::fs::read(&args[1]).unwrap();
        let Some(c) = c18::case_from_fuzz_bytes(&data) else {
            println!("input shorter than the 14-byte header: nothing to run");
            return;
        };
        match c18::test(&c) {
            pzv_common::driver::Verdict::Fail { sig, detail } => {
                println!("VIOLATION property=C18 replay={}", args[1]);
                println!("  subcheck=fuzz_stream signature={sig}");
                for l in detail.lines().take(6) {
                    println!("  | {l}");
                }
                std::process::exit(1);
            }
            _ => {
                println!("[C18] replay {}: property held", args[1]);
                return;
            }
        }
    }
    if args[0] == "replay" {
        let (prop, sub, case) = read_replay(&args[1]);
        let ctx = Ctx::from_args(&prop, &[]);
        if sub == "binfhe_keys" {
            std::process::exit(ctx.replay_case::<c18b::Case, _>(&sub, &case, c18b::test));
        }
        std::process::exit(c18::replay(&ctx, &sub, &case));
    }
    let ctx = Ctx::from_args("C18", &args[1..]);
    c18::run(&ctx);
    c18b::run(&ctx);
    let code = ctx.finish(c18::RULE, c18::ASSUMPTIONS, &[("truncated", 100), ("header_field", 100), ("receiver_larger", 50), ("receiver_smaller", 50), ("accepted_after_fault", 10)]);
    std::process::exit(code);
}
