//! pzv-serde: C18 — serialisation round-trips, and rejects damaged input without corruption.
#![allow(clippy::too_many_arguments, clippy::needless_range_loop, clippy::type_complexity)]

pub mod c18;
pub mod c18b;

use pzv_common::driver::{Ctx, install_panic_hook, read_replay};

fn main() {
    install_panic_hook();
    let args: Vec<String> = std::env::args().skip(1).collect();
    if args.is_empty() {
        eprintln!("usage: pzv-serde C18 [quick|thorough] | replay <file>");
        std::process::exit(2);
    }
    if args[0] == "replay" {
        let (prop, sub, case) = read_replay(&args[1]);
        let ctx = Ctx::from_args(&prop, &[]);
        if sub == "binfhe_keys" {
            std::process::exit(ctx.replay_case::<c18b::Case, _>(&sub, &case, c18b::test));
        }
        std::process::exit(c18::replay(&ctx, &sub, &case));
    }
    let ctx = Ctx::from_args("C18", &args[1..]);
    c18::run(&ctx);
    c18b::run(&ctx);
    let code = ctx.finish(c18::RULE, c18::ASSUMPTIONS, &[("truncated", 100), ("header_field", 100), ("receiver_larger", 50), ("receiver_smaller", 50), ("accepted_after_fault", 10)]);
    std::process::exit(code);
}
