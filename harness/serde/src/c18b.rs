//! C18, binary-FHE key types: BlindRotationKey, BlindRotationKeyCompressed, CircuitBootstrappingKey,
//! BDDKey.  The two composite keys have no FillUniform / PartialEq, so a fully populated valid stream is
//! assembled from their public components (which do), read into a freshly allocated key, re-serialised
//! and compared byte for byte; then faults are injected (truncation at generated points, header fields
//! replaced from the boundary dictionary, damaged counts / Galois elements / tags) and the read must
//! return without panicking and leave a receiver that can still be serialised.

use poulpy_bin_fhe::{
    bdd_arithmetic::{BDDKey, BDDKeyLayout},
    blind_rotation::{BlindRotationKey, BlindRotationKeyCompressed, BlindRotationKeyLayout, CGGI},
    circuit_bootstrapping::{CircuitBootstrappingKey, CircuitBootstrappingKeyLayout},
};
use poulpy_core::{
    trace_galois_elements,
    layouts::{Base2K, Degree, Dnum, Dsize, GGLWEToGGSWKey, GGLWEToGGSWKeyLayout, GLWEAutomorphismKey, GLWEAutomorphismKeyLayout, GLWESwitchingKey, GLWESwitchingKeyLayout, GLWEToLWEKey, GLWEToLWEKeyLayout, Rank, TorusPrecision},
};
use poulpy_hal::{
    layouts::{FillUniform, ReaderFrom, WriterTo},
    source::Source,
};
use proptest::prelude::*;
use pzv_common::driver::{Ctx, Verdict, guarded, panic_sig};
use serde::{Deserialize, Serialize};

#[derive(Clone, Debug, Serialize, Deserialize)]
pub struct Case {
    /// 0 BlindRotationKey, 1 BlindRotationKeyCompressed, 2 CircuitBootstrappingKey, 3 BDDKey (no ks_glwe), 4 BDDKey (with ks_glwe)
    pub ty: u8,
    pub log_n: u8,
    pub n_lwe: u8,
    pub base2k: u8,
    pub dnum: u8,
    pub rank: u8,
    /// 0 none, 1 truncate, 2 header field, 3 structural field (count / Galois element / tag), 4 bit flip
    pub fault: u8,
    pub pos: u32,
    pub val: u8,
    /// receiver allocated with a different shape (n_lwe + 1)
    pub other_shape: bool,
    pub seed: u64,
}

const DICT: [u64; 14] = [0, 1, 2, 3, 1 << 31, 1 << 32, 1 << 58, 1 << 60, 1 << 61, (1 << 61) + 1, 1 << 63, u64::MAX - 1, u64::MAX, 8];

fn adapt(c: &mut Case) {
    c.ty %= 5;
    c.log_n = c.log_n.clamp(1, 4);
    c.n_lwe = c.n_lwe.clamp(1, 6);
    c.base2k = c.base2k.clamp(2, 20);
    c.dnum = c.dnum.clamp(1, 2);
    c.rank = c.rank.clamp(1, 2);
    c.fault %= 5;
}

struct Lays {
    brk: BlindRotationKeyLayout,
    atk: GLWEAutomorphismKeyLayout,
    tsk: GGLWEToGGSWKeyLayout,
    ksg: GLWESwitchingKeyLayout,
    ksl: GLWEToLWEKeyLayout,
}

fn lays(c: &Case, n_lwe: usize) -> Lays {
    let n = Degree(1 << c.log_n);
    let b = Base2K(c.base2k as u32);
    let k = TorusPrecision(((c.dnum as u32 + 1) * c.base2k as u32) as u32);
    let (dnum, rank) = (Dnum(c.dnum as u32), Rank(c.rank as u32));
    Lays {
        brk: BlindRotationKeyLayout { n_glwe: n, n_lwe: Degree(n_lwe as u32), base2k: b, k, dnum, rank },
        atk: GLWEAutomorphismKeyLayout { n, base2k: b, k, rank, dnum, dsize: Dsize(1) },
        tsk: GGLWEToGGSWKeyLayout { n, base2k: b, k, rank, dnum, dsize: Dsize(1) },
        ksg: GLWESwitchingKeyLayout { n, base2k: b, k, rank_in: rank, rank_out: Rank(1), dnum, dsize: Dsize(1) },
        ksl: GLWEToLWEKeyLayout { n, base2k: b, k, rank_in: Rank(1), dnum },
    }
}

/// (stream, offsets of structural fields: (offset, width in bytes))
fn valid_stream(c: &Case, n_lwe: usize) -> (Vec<u8>, Vec<(usize, usize)>) {
    let l = lays(c, n_lwe);
    let mut src = Source::new([c.seed as u8; 32]);
    let mut out = vec![];
    let mut fields = vec![];
    match c.ty {
        0 => {
            let mut k = BlindRotationKey::<Vec<u8>, CGGI>::alloc(&l.brk);
            k.fill_uniform(40, &mut src);
            k.write_to(&mut out).unwrap();
        }
        1 => {
            let mut k = BlindRotationKeyCompressed::<Vec<u8>, CGGI>::alloc(&l.brk);
            k.fill_uniform(40, &mut src);
            k.write_to(&mut out).unwrap();
        }
        _ => {
            let mut brk = BlindRotationKey::<Vec<u8>, CGGI>::alloc(&l.brk);
            brk.fill_uniform(40, &mut src);
            brk.write_to(&mut out).unwrap();
            let mut gals = trace_galois_elements(c.log_n as usize, 2 << c.log_n);
            gals.sort_unstable();
            fields.push((out.len(), 8));
            out.extend((gals.len() as u64).to_le_bytes());
            for g in gals {
                fields.push((out.len(), 8));
                out.extend(g.to_le_bytes());
                let mut a = GLWEAutomorphismKey::alloc_from_infos(&l.atk);
                a.fill_uniform(40, &mut src);
                a.write_to(&mut out).unwrap();
            }
            let mut t = GGLWEToGGSWKey::alloc_from_infos(&l.tsk);
            t.fill_uniform(40, &mut src);
            t.write_to(&mut out).unwrap();
            if c.ty >= 3 {
                fields.push((out.len(), 1));
                if c.ty == 4 {
                    out.push(1);
                    let mut g = GLWESwitchingKey::alloc_from_infos(&l.ksg);
                    g.fill_uniform(40, &mut src);
                    g.write_to(&mut out).unwrap();
                } else {
                    out.push(0);
                }
                let mut g = GLWEToLWEKey::alloc_from_infos(&l.ksl);
                g.fill_uniform(40, &mut src);
                g.write_to(&mut out).unwrap();
            }
        }
    }
    (out, fields)
}

enum Recv {
    Brk(BlindRotationKey<Vec<u8>, CGGI>),
    BrkC(BlindRotationKeyCompressed<Vec<u8>, CGGI>),
    Cbt(CircuitBootstrappingKey<Vec<u8>, CGGI>),
    Bdd(BDDKey<Vec<u8>, CGGI>),
}

impl Recv {
    fn alloc(c: &Case, n_lwe: usize) -> Recv {
        let l = lays(c, n_lwe);
        let cbt = CircuitBootstrappingKeyLayout { brk_layout: l.brk, atk_layout: l.atk, tsk_layout: l.tsk };
        match c.ty {
            0 => Recv::Brk(BlindRotationKey::alloc(&l.brk)),
            1 => Recv::BrkC(BlindRotationKeyCompressed::alloc(&l.brk)),
            2 => Recv::Cbt(CircuitBootstrappingKey::alloc_from_infos(&cbt)),
            3 => Recv::Bdd(BDDKey::alloc_from_infos(&BDDKeyLayout { cbt_layout: cbt, ks_glwe_layout: None, ks_lwe_layout: l.ksl })),
            _ => Recv::Bdd(BDDKey::alloc_from_infos(&BDDKeyLayout { cbt_layout: cbt, ks_glwe_layout: Some(l.ksg), ks_lwe_layout: l.ksl })),
        }
    }
    fn read(&mut self, mut b: &[u8]) -> std::io::Result<()> {
        match self {
            Recv::Brk(k) => k.read_from(&mut b),
            Recv::BrkC(k) => k.read_from(&mut b),
            Recv::Cbt(k) => k.read_from(&mut b),
            Recv::Bdd(k) => k.read_from(&mut b),
        }
    }
    fn write(&self) -> std::io::Result<Vec<u8>> {
        let mut v = vec![];
        match self {
            Recv::Brk(k) => k.write_to(&mut v)?,
            Recv::BrkC(k) => k.write_to(&mut v)?,
            Recv::Cbt(k) => k.write_to(&mut v)?,
            Recv::Bdd(k) => k.write_to(&mut v)?,
        }
        Ok(v)
    }
}

pub const NAMES: [&str; 5] = ["BlindRotationKey", "BlindRotationKeyCompressed", "CircuitBootstrappingKey", "BDDKey", "BDDKey+ks_glwe"];

pub fn test(c0: &Case) -> Verdict {
    let mut c = c0.clone();
    adapt(&mut c);
    let name = NAMES[c.ty as usize];
    let fail = |what: &str, d: String| Verdict::fail(format!("{name}|{what}"), format!("{name}: {d}\ncase={c:?}"));
    let n_lwe = c.n_lwe as usize;
    let (mut bytes, fields) = valid_stream(&c, n_lwe);
    let clean = bytes.clone();
    let mut damaged = false;
    match c.fault {
        1 => {
            let at = c.pos as usize % bytes.len();
            bytes.truncate(at);
            damaged = true;
        }
        2 => {
            let span = bytes.len().min(256) / 8;
            if span > 0 {
                let at = (c.pos as usize % span) * 8;
                let v = DICT[c.val as usize % DICT.len()];
                if bytes[at..at + 8] != v.to_le_bytes() {
                    bytes[at..at + 8].copy_from_slice(&v.to_le_bytes());
                    damaged = true;
                }
            }
        }
        3 => {
            if !fields.is_empty() {
                let (at, w) = fields[c.pos as usize % fields.len()];
                let v = DICT[c.val as usize % DICT.len()].to_le_bytes();
                if bytes[at..at + w] != v[..w] {
                    bytes[at..at + w].copy_from_slice(&v[..w]);
                    damaged = true;
                }
            }
        }
        4 => {
            let at = c.pos as usize % bytes.len();
            bytes[at] ^= 1 << (c.val % 8);
            damaged = true;
        }
        _ => {}
    }
    let shape = if c.other_shape { n_lwe + 1 } else { n_lwe };
    let mut recv = Recv::alloc(&c, shape);
    let r = guarded(|| recv.read(&bytes));
    let mut cl = vec![name];
    match r {
        Err(p) => return Verdict::fail(format!("{name}|read-panic|{}", panic_sig(&p)), format!("{name}: read_from panicked on a {} stream: {p}\ncase={c:?}", if damaged { "damaged" } else { "valid" })),
        Ok(Ok(())) => {
            if !damaged && !c.other_shape {
                match recv.write() {
                    Ok(b2) if b2 == clean => cl.push("roundtrip_ok"),
                    Ok(_) => return fail("roundtrip", "write(read(stream)) differs from the stream assembled from the key's public components".into()),
                    Err(e) => return fail("write-after-read", format!("write_to after a successful read failed: {e}")),
                }
            } else {
                cl.push("accepted_after_fault_or_other_shape");
            }
        }
        Ok(Err(_)) => {
            if !damaged && !c.other_shape {
                return fail("valid-stream-rejected", "a stream assembled from the key's public components in the documented order was rejected".into());
            }
            cl.push("rejected");
        }
    }
    // the receiver must still be usable (serialisable) whatever happened
    match guarded(|| recv.write()) {
        Err(p) => return Verdict::fail(format!("{name}|unusable-receiver|write-panic"), format!("{name}: write_to of the receiver panicked after read_from returned: {p}\ncase={c:?}")),
        Ok(Err(e)) => return fail("unusable-receiver", format!("write_to of the receiver fails after read_from returned: {e}")),
        // (a stream may legitimately describe a smaller object than the receiver was allocated for, so the
        // serialised length is not compared)
        Ok(Ok(_)) => {}
    }
    cl.push(["undamaged", "truncated", "header_field", "structural_field", "bit_flip"][c.fault as usize]);
    if c.other_shape {
        cl.push("receiver_other_shape");
    }
    Verdict::pass(damaged || c.other_shape || c.ty >= 2, &cl)
}

pub fn strategy() -> BoxedStrategy<Case> {
    (0u8..5, 1u8..=4, 1u8..=6, 2u8..=20, 1u8..=2, 1u8..=2, 0u8..5, any::<u32>(), any::<u8>(), prop::bool::weighted(0.15), any::<u64>())
        .prop_map(|(ty, log_n, n_lwe, base2k, dnum, rank, fault, pos, val, other_shape, seed)| {
            let mut c = Case { ty, log_n, n_lwe, base2k, dnum, rank, fault, pos, val, other_shape, seed };
            adapt(&mut c);
            c
        })
        .boxed()
}

pub fn run(ctx: &Ctx) {
    let t = ctx.tier;
    ctx.run_sub("binfhe_keys", t.pick(20_000, 400_000), 64, strategy, test);
}
