//! pzv-serde (library part): C18 subjects and oracles, shared by the proptest binary and the
//! coverage-guided fuzz target in /verif/fuzz.
#![allow(clippy::too_many_arguments, clippy::needless_range_loop, clippy::type_complexity)]

pub mod c18;
pub mod c18b;
