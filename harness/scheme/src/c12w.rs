//! C12, wrapped part: the scheme-level tests of C01-C05 run once with ample windows and once with every call
//! site that is not already judged by `core_exact_scratch` on a window of exactly its own `*_tmp_bytes` query
//! (`sp.rs`).  A panic that only the exact run shows, a damaged guard region, or a value oracle that only the
//! exact run fails is a violation; everything else belongs to the property that owns the test.

use crate::sp::*;
use crate::{c01, c02, c03, c04, c05};
use pzv_common::driver::{Ctx, Verdict, guarded, panic_sig};

pub fn wrap<C: std::fmt::Debug>(f: fn(&C) -> Verdict) -> impl Fn(&C) -> Verdict + Sync {
    move |c| {
        let mut res: Vec<Result<Verdict, String>> = vec![];
        let mut last = ("", 0usize);
        let mut seen: Vec<&'static str> = vec![];
        for exact in [false, true] {
            SP_MODE.with(|m| m.set(Some((exact, 0x5151 + exact as u64))));
            SP_SEEN.with(|s| s.borrow_mut().clear());
            SP_LAST.with(|l| l.set(("", 0)));
            let r = guarded(|| f(c));
            SP_MODE.with(|m| m.set(None));
            last = SP_LAST.with(|l| l.get());
            seen = SP_SEEN.with(|s| s.borrow().clone());
            let guards = sp_finish();
            if !guards {
                return Verdict::fail(format!("{}|guard-damaged", last.0), format!("bytes outside a scratch window were written (last exact window: {} with {} bytes)\ncase={c:?}", last.0, last.1));
            }
            if !exact && r.is_err() {
                // panics with ample scratch: the owning property's business
                return Verdict::pass(false, &["panics_with_ample_scratch"]);
            }
            res.push(r);
        }
        match (&res[0], &res[1]) {
            (Ok(_), Err(p)) => Verdict::fail(format!("{}|exact-scratch-panic|{}", last.0, panic_sig(p)), format!("routine={}: panics when its call gets a window of exactly the queried {} bytes (no panic with ample scratch): {p}\ncase={c:?}", last.0, last.1)),
            // some tests guard their calls themselves and report the panic as a failing verdict
            (Ok(Verdict::Pass(_)), Ok(Verdict::Fail { sig, detail })) if sig.contains("panic") => Verdict::fail(format!("{}|exact-scratch-panic|reported-by-the-test|{sig}", last.0), format!("routine={}: panics when its call gets a window of exactly the queried {} bytes (no panic with ample scratch): {detail}", last.0, last.1)),
            (Ok(Verdict::Pass(_)), Ok(Verdict::Fail { sig, detail })) => Verdict::fail(format!("{}|oracle-fails-only-with-exact-scratch|{sig}", last.0), format!("the value oracle passes with ample scratch and fails when every call gets exactly its queried bytes: {detail}")),
            (Ok(Verdict::Pass(p)), Ok(_)) => {
                let mut cl: Vec<&str> = seen.clone();
                let own: Vec<String> = p.classes.clone();
                cl.extend(own.iter().map(|s| s.as_str()));
                Verdict::pass(!seen.is_empty(), &cl)
            }
            _ => Verdict::pass(false, &["value_oracle_fails_with_ample_scratch"]),
        }
    }
}

macro_rules! table {
    ($m:ident) => {
        $m!("core_wrapped_encrypt_decrypt", 3_000, 40_000, c01::Case, || c01::strategy(7), c01::test);
        $m!("core_wrapped_noise_free_programs", 3_000, 60_000, c02::Case, || c02::strategy(12, 1), c02::test);
        $m!("core_wrapped_keyswitch", 800, 16_000, c03::Case, c03::strategy, c03::test_ks);
        $m!("core_wrapped_automorphism", 800, 16_000, c03::Case, c03::strategy, c03::test_aut);
        $m!("core_wrapped_lwe_conversions", 800, 16_000, c03::Case, c03::strategy, c03::test_lwe);
        $m!("core_wrapped_key_on_key", 1_200, 24_000, c03::Case, c03::strategy, c03::test_kk);
        $m!("core_wrapped_packing", 600, 12_000, c03::Case, c03::strategy, c03::test_pack);
        $m!("core_wrapped_external_product", 800, 16_000, c03::Case, c03::strategy, c04::test_ext);
        $m!("core_wrapped_matrix_external_product", 1_200, 24_000, c03::Case, c03::strategy, c04::test_mat);
        $m!("core_wrapped_ggsw_cells", 1_200, 24_000, c03::Case, c03::strategy, c04::test_cells);
        $m!("core_wrapped_relinearize", 600, 12_000, c05::Case, c05::strategy, c05::test_relin);
    };
}

pub fn run_all(ctx: &Ctx) {
    let t = ctx.tier;
    macro_rules! run {
        ($name:expr, $q:expr, $th:expr, $case:ty, $strat:expr, $test:expr) => {
            ctx.run_sub($name, t.pick($q, $th), 64, $strat, wrap::<$case>($test));
        };
    }
    table!(run);
}

pub fn replay(ctx: &Ctx, sub: &str, case: &serde_json::Value) -> i32 {
    macro_rules! rp {
        ($name:expr, $q:expr, $th:expr, $case:ty, $strat:expr, $test:expr) => {
            if sub == $name {
                return ctx.replay_case::<$case, _>(sub, case, wrap::<$case>($test));
            }
        };
    }
    table!(rp);
    eprintln!("harness error: unknown C12 sub-check {sub}");
    2
}

pub const RULE: &str = "wrapped part (sub-checks core_wrapped_*): the generated cases of the C01-C05 sub-checks, each run once with ample garbage-filled windows and once with every call site not already judged by core_exact_scratch (key preparation of every key type, gglwe_keyswitch(_assign), glwe_automorphism_key_automorphism(_assign), glwe_pack, the streaming packer, gglwe / ggsw external products, ggsw_from_gglwe, ggsw_keyswitch_assign, ggsw_automorphism(_assign), zero encryptions, rotations / shifts of the noise-free programs, ggsw_rotate) on a guarded window of exactly its own *_tmp_bytes query. Violation = a panic only the exact run shows, a damaged guard region, or a value oracle only the exact run fails. non-trivial = at least one call site got an exact window.";
