//! pzv-scheme: scheme-level checks on poulpy-core (C01–C06, C19 and the core parts of C10/C12).
#![allow(clippy::too_many_arguments, clippy::needless_range_loop, clippy::type_complexity)]

pub mod c01;
pub mod c02;
pub mod c03;
pub mod c04;
pub mod c05;
pub mod c06;
pub mod c06b;
pub mod c12k;
pub mod c12s;
pub mod c17s;
pub mod c17t;
pub mod c19;
pub mod enc;
pub mod gad;
pub mod sch;
pub mod sp;
pub mod c12w;

use pzv_common::driver::{Ctx, install_panic_hook, read_replay};

fn main() {
    install_panic_hook();
    let args: Vec<String> = std::env::args().skip(1).collect();
    if args.is_empty() {
        eprintln!("usage: pzv-scheme <property> [quick|thorough] | replay <file>");
        std::process::exit(2);
    }
    if args[0] == "replay" {
        let (prop, sub, case) = read_replay(&args[1]);
        let ctx = Ctx::from_args(&prop, &[]);
        let code = match prop.as_str() {
            "C01" => c01::replay(&ctx, &sub, &case),
            "C02" => c02::replay(&ctx, &sub, &case),
            "C03" => c03::replay(&ctx, &sub, &case),
            "C04" => c04::replay(&ctx, &sub, &case),
            "C05" => c05::replay(&ctx, &sub, &case),
            "C06" => c06::replay(&ctx, &sub, &case),
            "C19" => c19::replay(&ctx, &sub, &case),
            "C12" | "C17" if sub.ends_with("core_take_layouts") => c17t::replay(&ctx, &sub, &case),
            "C12" if sub.starts_with("core_wrapped") => c12w::replay(&ctx, &sub, &case),
            "C12" if sub.starts_with("core_keygen") => c12k::replay(&ctx, &sub, &case),
            "C10" | "C11" | "C12" => c12s::replay(&ctx, &sub, &case),
            "C17" => c17s::replay(&ctx, &sub, &case),
            _ => {
                eprintln!("harness error: pzv-scheme cannot replay property {prop}");
                2
            }
        };
        std::process::exit(code);
    }
    let prop = args[0].clone();
    let ctx = Ctx::from_args(&prop, &args[1..]);
    let code = match prop.as_str() {
        "C01" => {
            c01::run(&ctx);
            ctx.finish(
                c01::RULE,
                &["the clear GLWE secret is read through hook H4 (cfg poulpy_verif, read-only accessor)", "FFT64 cases keep |secret|_1 * 2^(base2k-1) inside the exactness domain of DESIGN C07, so every transform-domain product in encryption/decryption is exact integer arithmetic"],
                &[("k_not_multiple_of_radix", 100), ("cross_radix_decrypt", 100), ("pk", 50), ("compressed", 50), ("lwe", 50), ("rank0", 20)],
            )
        }
        "C02" => {
            c02::run_all(&ctx);
            ctx.finish(c02::RULE, &["operands are generated limb vectors, not encryptions: the property is linear algebra and needs no key", "programs keep digits below 2^61 (radix <= 40, <= 12 steps)"], &[("rank0_operand", 100), ("cross_radix", 100), ("program_len>=3", 100)])
        }
        "C03" => {
            c03::run_all(&ctx);
            ctx.finish(c03::RULE, &["the clear secrets are read through hook H4", "FFT64 cases keep N * digits * columns * 2^(2(b-1)) inside the exactness domain of DESIGN C07, so the gadget product is exact integer arithmetic and the bound needs no floating-point term", "inputs are arbitrary normalised GLWE-shaped vectors (valid ciphertexts of their own phase), keys come from the library's key-encryption routines"], &[("a_size_not_multiple_of_dsize", 100), ("three_way_radix", 100), ("rank_in!=rank_out", 100), ("bound<2^-8", 1000)])
        }
        "C04" => {
            c04::run_all(&ctx);
            ctx.finish(c04::RULE, &["the clear secrets are read through hook H4", "FFT64 cases keep the gadget product inside the exactness domain of DESIGN C07 (CMux: one bit of extra head-room for the un-normalised difference)", "inputs are arbitrary normalised GLWE-shaped vectors; GGSW, switching, automorphism and tensor keys come from the library's encryption routines"], &[("a_size_not_multiple_of_dsize", 100), ("three_way_radix", 100), ("bound<2^-8", 1000), ("m2=ternary_dense", 100)])
        }
        "C05" => {
            c05::run_all(&ctx);
            ctx.finish(c05::RULE, &["the clear secret is read through hook H4", "FFT64 cases keep N * min(sa,sb) * 4 * 2^(2(b-1)) inside the exactness domain of DESIGN C07", "operands are arbitrary normalised GLWE-shaped vectors: the product identity is on unreduced limb values and needs no particular plaintext"], &[("masked_top_limb_path", 100), ("a_k!=b_k", 100), ("result_truncates_product", 100), ("offset_general", 100), ("bound<2^-8", 1000)])
        }
        "C06" => {
            c06::run_all(&ctx);
            ctx.finish(c06::RULE, &["thresholds are rigorous concentration bounds (Bernstein / Hoeffding, alpha = 2^-54 per test): detection power is limited to variance errors above roughly 10-30 % and per-bit biases above roughly 3 %", "sub-check other_routines_noise_mask_seeds needs no secret: with identical masks the exact difference of two bodies is e1 - e2; blind-rotation and circuit-bootstrapping keys are read back through their public serialisation", "the seed-compressed blind-rotation / circuit-bootstrapping keys are not sampled (their cells are GGSWCompressed, sampled in the first sub-check)"], &[("variance_band_checked", 60), ("compressed", 40), ("glwe_encrypt_pk", 8), ("circuit_bootstrapping_key", 8), ("lwe", 8)])
        }
        "C10" => {
            c12s::run_all_c10(&ctx);
            ctx.finish(c12s::RULE_C10, &["scheme-level part of C10 (the HAL registry is served by pzv-hal); CKKS programs and binary-FHE pipelines are compared across backends only through their decrypted results (C15, C16 run on every backend)"], &[("four_backends_identical", 1000)])
        }
        "C11" => {
            c12s::run_all_c11(&ctx);
            ctx.finish(c12s::RULE_C11, &["core-level part of C11 (the HAL registry is served by pzv-hal); the noise-free core operations (add, sub, rotate, shifts, normalise, copy) run on registers that hold earlier results in the C02 programs"], &[("cross_radix", 500)])
        }
        "C17" => {
            c17s::run_all(&ctx);
            ctx.finish(c17s::RULE, &["AddressSanitizer instruments the harness and the poulpy crates (std is not rebuilt); assembly kernels are covered by the HAL-level guard-margin pass only"], &[])
        }
        "C12" => {
            c12s::run_all(&ctx);
            c12k::run_all(&ctx);
            c12w::run_all(&ctx);
            c17t::run_all(&ctx, "");
            ctx.finish(&format!("{} || {} || {} || {}", c12s::RULE, c12k::RULE, c12w::RULE, c17t::RULE), &["scheme-level part of C12/C11 (the HAL-level part is served by pzv-hal); keys are produced with roomy scratch, only the call under audit gets the exact window"], &[("dsize>2", 100), ("cross_radix", 500)])
        }
        "C19" => {
            c19::run_all(&ctx);
            ctx.finish(c19::RULE, &["the clear secret is read through hook H4", "LWE-related compressed keys and the blind-rotation key are wrappers over the GLWE switching key / GGSW forms covered here"], &[("multi_cell", 100), ("via_serialisation", 100), ("rank>=2", 100)])
        }
        _ => {
            eprintln!("harness error: unknown property {prop}");
            2
        }
    };
    std::process::exit(code);
}
