//! Gadget-product bookkeeping shared by C03 / C04 / C05: switching-key construction through the
//! library's own encryption routines, exact extraction of every key cell's error under the clear
//! secret (hook H4), and the deterministic worst-case bound of what one gadget product adds.
//!
//! Bound (all terms are absolute torus quantities, per coefficient, L-infinity):
//!   t2  digits of the input that the key has no row for (ignored):   sum_l 2^(b-1) 2^-(l+1)b |s_in|_1
//!   t3  key noise:  sum over used digits l (row j, digit shift di) of 2^(b-1) * |e_{j,c}|_1 * 2^(di b)
//!       with |e|_1 the *actual* 1-norm of the cell's error (extracted exactly), not a worst case
//!   t4  limbs of the digit-grouped partial products the library may drop (dsize > 1), taken one
//!       limb more generously than the current code drops
//!   t5  final normalisation into the result layout: one unit of its last limb per column
//!   t6  limbs of the added input that exceed the accumulator precision: one unit per column
//! A column error delta contributes |delta| (body) or |delta| * |s_col|_1 (mask) to the phase.

use crate::sch::*;
use poulpy_core::layouts::{GLWE, GLWEInfos, LWEInfos};
use poulpy_hal::layouts::{DataRef, NoiseInfos, VecZnx, ZnxInfos, ZnxViewMut};
use pzv_common::model::*;

pub fn p2(e: i64) -> f64 {
    (e as f64).exp2()
}

#[derive(Clone, Debug)]
pub struct KeyMeta {
    pub b: usize,
    pub dnum: usize,
    pub dsize: usize,
    pub size: usize,
    pub rank_in: usize,
    pub rank_out: usize,
    /// err_l1[row][col_in]: 1-norm over the N coefficients of the cell's exact error (torus units)
    pub err_l1: Vec<Vec<f64>>,
    /// largest single error coefficient (torus units)
    pub err_max: f64,
}

#[derive(Clone, Copy, Debug)]
pub struct Lay {
    pub b: usize,
    pub size: usize,
}

impl Lay {
    pub fn of<G: GLWEInfos>(g: &G) -> Lay {
        Lay { b: g.base2k().0 as usize, size: g.size() }
    }
    pub fn bits(&self) -> usize {
        self.b * self.size
    }
    pub fn unit(&self) -> f64 {
        p2(-(self.bits() as i64))
    }
}

/// torus value of every coefficient of the phase of a GLWE-shaped vector under `sk`
pub fn phase_vals<D: DataRef>(ct: &VecZnx<D>, sk: &[Vec<i64>], b: usize) -> Vec<Dyadic> {
    let ph = glwe_phase_limbs(ct, sk);
    (0..ct.n()).map(|i| value_of(&ph, b, i)).collect()
}

/// X -> X^p on a coefficient vector of torus values
pub fn aut_vals(v: &[Dyadic], p: i64) -> Vec<Dyadic> {
    let n = v.len();
    let two_n = 2 * n as i64;
    let p = p.rem_euclid(two_n);
    let mut out: Vec<Dyadic> = (0..n).map(|_| Dyadic::zero()).collect();
    for (i, x) in v.iter().enumerate() {
        let j = ((i as i64 * p) % two_n) as usize;
        if j < n {
            out[j] = x.clone();
        } else {
            out[j - n] = x.neg();
        }
    }
    out
}

/// multiplication by X^k (negacyclic)
pub fn rot_vals(v: &[Dyadic], k: i64) -> Vec<Dyadic> {
    let n = v.len();
    let two_n = 2 * n as i64;
    let k = k.rem_euclid(two_n) as usize;
    let mut out: Vec<Dyadic> = (0..n).map(|_| Dyadic::zero()).collect();
    for (i, x) in v.iter().enumerate() {
        let j = (i + k) % (2 * n);
        if j < n {
            out[j] = x.clone();
        } else {
            out[j - n] = x.neg();
        }
    }
    out
}

/// max_i |got_i - want_i| (torus distance) and its index
pub fn max_err(got: &[Dyadic], want: &[Dyadic]) -> (f64, usize) {
    let mut m = (0.0f64, 0usize);
    for (i, (g, w)) in got.iter().zip(want.iter()).enumerate() {
        let e = torus_err(g, w).approx_f64().abs();
        if e > m.0 {
            m = (e, i);
        }
    }
    m
}

/// Exact error (1-norm, max-norm; torus units) of every gadget cell under the clear secret.
/// `pt[col]` is the small polynomial the column encrypts, placed at 2^-((row+1) dsize b).
pub fn cell_errors(cells: &[VecZnx<Vec<u8>>], b: usize, dnum: usize, dsize: usize, rank_in: usize, sk_enc: &[Vec<i64>], pt: &[Vec<i64>]) -> Vec<Vec<(f64, f64, usize)>> {
    let n = cells[0].n();
    let mut out = vec![vec![(0f64, 0f64, 0usize); rank_in]; dnum];
    for row in 0..dnum {
        for col in 0..rank_in {
            let cell = &cells[row * rank_in + col];
            let ph = phase_vals(cell, sk_enc, b);
            let (mut l1, mut mx, mut at) = (0f64, 0f64, 0usize);
            for i in 0..n {
                let want = Dyadic::from_limbs_i64(&[pt[col][i]], (row + 1) * dsize * b);
                let e = torus_err(&ph[i], &want).approx_f64().abs();
                l1 += e;
                if e > mx {
                    mx = e;
                    at = i;
                }
            }
            out[row][col] = (l1, mx, at);
        }
    }
    out
}

/// Exact error of every key cell under the clear encryption secret, required to be inside the
/// fresh-encryption bound of `ni`.
#[allow(clippy::too_many_arguments)]
pub fn key_meta(
    cells: &[VecZnx<Vec<u8>>],
    b: usize,
    dnum: usize,
    dsize: usize,
    rank_in: usize,
    rank_out: usize,
    sk_enc: &[Vec<i64>],
    pt: &[Vec<i64>],
    ni: &NoiseInfos,
) -> Result<KeyMeta, String> {
    if cells.len() != dnum * rank_in {
        return Err(format!("key has {} cells, expected dnum*rank_in = {}", cells.len(), dnum * rank_in));
    }
    let size = cells[0].size();
    let (limb, scale) = ni.target_limb_and_scale(b);
    // worst case of one fresh sample + one unit of the last limb for the final rounding
    let fresh = (ni.bound * scale).round() * p2(-(((limb + 1) * b) as i64)) + p2(-((size * b) as i64));
    for (i, cell) in cells.iter().enumerate() {
        if cell.cols() != rank_out + 1 {
            return Err(format!("key cell ({},{}) has {} columns, expected rank_out+1 = {}", i / rank_in, i % rank_in, cell.cols(), rank_out + 1));
        }
    }
    let errs = cell_errors(cells, b, dnum, dsize, rank_in, sk_enc, pt);
    let mut err_l1 = vec![vec![0f64; rank_in]; dnum];
    let mut err_max = 0f64;
    for row in 0..dnum {
        for col in 0..rank_in {
            let (l1, mx, at) = errs[row][col];
            if mx > fresh * (1.0 + 1e-9) {
                return Err(format!(
                    "cell (row {row}, input column {col}) coefficient {at}: phase - pt*2^-{} = {:.4e} exceeds the fresh-encryption bound {:.4e} (cell does not encrypt the gadget-scaled plaintext under the expected secret)",
                    (row + 1) * dsize * b,
                    mx,
                    fresh
                ));
            }
            err_l1[row][col] = l1;
            err_max = err_max.max(mx);
        }
    }
    Ok(KeyMeta { b, dnum, dsize, size, rank_in, rank_out, err_l1, err_max })
}

/// number of limbs the input has once expressed in the key radix (the library converts with
/// k = max_k, i.e. without losing bits)
pub fn size_in_key_radix(a: Lay, kb: usize) -> usize {
    if a.b == kb { a.size } else { a.bits().div_ceil(kb) }
}

/// (row j, shift di) of input limb l, or None when the key has no row for it
pub fn digit_of_limb(l: usize, sp: usize, dnum: usize, dsize: usize) -> Option<(usize, usize)> {
    // limb l = dsize - di - 1 + j*dsize
    let di = dsize - 1 - (l % dsize);
    let j = l / dsize;
    let count = ((sp + di) / dsize).min(dnum);
    if j < count { Some((j, di)) } else { None }
}

/// Worst-case phase error added by one gadget product `res <- body(a) + <mask(a), key>` followed by
/// normalisation into `res`.  `s_in_l1[c]`: 1-norm of the input secret column c, `s_out_l1`: sum of the
/// 1-norms of the output secret columns.
pub fn ks_bound(key: &KeyMeta, a: Lay, res: Lay, n: usize, s_in_l1: &[u64], s_out_l1: u64) -> f64 {
    ks_bound_scaled(key, a, res, n, s_in_l1, s_out_l1, 1.0)
}

/// `digit_scale`: largest input digit in units of 2^(b-1) (1 for normalised inputs, 2 for a difference of two)
pub fn ks_bound_scaled(key: &KeyMeta, a: Lay, res: Lay, n: usize, s_in_l1: &[u64], s_out_l1: u64, digit_scale: f64) -> f64 {
    let bk = key.b;
    let sp = size_in_key_radix(a, bk);
    // a cross-radix conversion (glwe_normalize into the key radix) returns digits that are only nearly
    // balanced (C08 promises the balanced range for equal radices only): pieces of t_i bits are extracted
    // balanced and accumulated, |digit| < 2^b.  Count them as twice the balanced magnitude.
    let cross = if a.b != bk { 2.0 } else { 1.0 };
    let half = p2(bk as i64 - 1) * digit_scale * cross;
    let so = 1.0 + s_out_l1 as f64;
    let key_unit = p2(-((key.size * bk) as i64));
    let mut t = 0f64;
    let mut used = 0usize;
    for l in 0..sp {
        match digit_of_limb(l, sp, key.dnum, key.dsize) {
            Some((j, di)) => {
                used += 1;
                for c in 0..key.rank_in {
                    t += half * key.err_l1[j][c] * p2((di * bk) as i64);
                }
            }
            None => {
                for c in 0..key.rank_in {
                    t += half * p2(-(((l + 1) * bk) as i64)) * s_in_l1[c] as f64;
                }
            }
        }
    }
    // t4: dropped trailing limbs of the di-th partial product (up to dsize-di-1 limbs, one more than today)
    if key.dsize > 1 {
        for di in 0..key.dsize {
            let drop = key.dsize - di - 1;
            if drop == 0 {
                continue;
            }
            let cnt = ((sp + di) / key.dsize).min(key.dnum);
            // each dropped limb coefficient: |sum_j sum_c a (*) K| <= cnt * rank_in * N * 2^(2(b-1)); limbs i >= size-drop,
            // weight 2^-(i+1)b, shifted up by di limbs: geometric sum <= 2 * first term
            let first = p2(-(((key.size - drop.min(key.size) + 1) * bk) as i64)) * p2((di * bk) as i64);
            t += 2.0 * first * (cnt * key.rank_in * n) as f64 * half * half * so;
        }
    }
    let _ = used;
    // t5 + t6
    t += res.unit() * so + key_unit * so;
    t * (1.0 + 1e-9)
}

/// writes limb-major digits into one column of a VecZnx
pub fn set_column(v: &mut VecZnx<Vec<u8>>, col: usize, limbs: &[Vec<i64>]) {
    for (j, l) in limbs.iter().enumerate() {
        v.at_mut(col, j).copy_from_slice(l);
    }
}

/// An arbitrary GLWE-shaped vector with normalised digits of class `cls` in every column: a valid
/// ciphertext of *some* phase, which is what the checks use as reference.
pub fn arbitrary_glwe(ct: &mut GLWE<Vec<u8>>, cls: VClass, seed: u64) {
    let b = ct.base2k().0 as usize;
    let (n, cols, size) = (ct.data().n(), ct.data().cols(), ct.data().size());
    for col in 0..cols {
        let cl = if col == 0 { cls } else if matches!(cls, VClass::Zero | VClass::Sparse | VClass::Monomial) { VClass::Uniform } else { cls };
        let limbs = gen_column(cl, b, n, size, seed ^ (0x51ED * (col as u64 + 1)));
        set_column(ct.data_mut(), col, &limbs);
    }
}
