//! C17, core level: the scheme-level sub-checks of C01-C05 and of the C12 core part, executed in the
//! AddressSanitizer build.  Every operand is a `Vec`-backed object, i.e. an exact-size heap block with
//! redzones next to it; the scratch is one heap block.  Only memory safety is judged here: a failing
//! value oracle (or a clean panic) is the subject of the property that owns the sub-check.

use crate::{c01, c02, c03, c04, c05, c12s};
use pzv_common::driver::{Ctx, Verdict, arm_sanitizer_callback};

fn mem<C>(f: fn(&C) -> Verdict) -> impl Fn(&C) -> Verdict + Sync {
    move |c| match f(c) {
        Verdict::Fail { sig, .. } if !sig.contains("guard-damaged") => Verdict::pass(false, &["value_oracle_or_panic_ignored_here"]),
        v => v,
    }
}

macro_rules! table {
    ($m:ident) => {
        $m!("asan_core_encrypt_decrypt", 2_000, 40_000, c01::Case, || c01::strategy(7), c01::test);
        $m!("asan_core_noise_free_programs", 3_000, 60_000, c02::Case, || c02::strategy(12, 1), c02::test);
        $m!("asan_core_keyswitch", 800, 16_000, c03::Case, c03::strategy, c03::test_ks);
        $m!("asan_core_automorphism", 800, 16_000, c03::Case, c03::strategy, c03::test_aut);
        $m!("asan_core_trace", 400, 8_000, c03::Case, c03::strategy, c03::test_trace);
        $m!("asan_core_lwe_conversions", 800, 16_000, c03::Case, c03::strategy, c03::test_lwe);
        $m!("asan_core_key_on_key", 600, 12_000, c03::Case, c03::strategy, c03::test_kk);
        $m!("asan_core_packing", 300, 6_000, c03::Case, c03::strategy, c03::test_pack);
        $m!("asan_core_external_product", 800, 16_000, c03::Case, c03::strategy, c04::test_ext);
        $m!("asan_core_matrix_external_product", 400, 8_000, c03::Case, c03::strategy, c04::test_mat);
        $m!("asan_core_cmux", 1_000, 20_000, c03::Case, c03::strategy, c04::test_cmux);
        $m!("asan_core_ggsw_cells", 400, 8_000, c03::Case, c03::strategy, c04::test_cells);
        $m!("asan_core_mul_const_plain", 1_000, 20_000, c05::Case, c05::strategy, c05::test_lin);
        $m!("asan_core_tensor", 1_000, 20_000, c05::Case, c05::strategy, c05::test_tensor);
        $m!("asan_core_relinearize", 600, 12_000, c05::Case, c05::strategy, c05::test_relin);
        $m!("asan_core_exact_scratch", 1_000, 20_000, c03::Case, c03::strategy, c12s::test);
    };
}

/// value failures are ignored, guard damage is kept (a sanitizer report ends the process through the death callback)
fn mem_dyn<C>(f: impl Fn(&C) -> Verdict + Sync) -> impl Fn(&C) -> Verdict + Sync {
    move |c| match f(c) {
        Verdict::Fail { sig, .. } if !sig.contains("guard-damaged") => Verdict::pass(false, &["value_oracle_or_panic_ignored_here"]),
        v => v,
    }
}

/// the exact-window parts of C12 under the sanitizer: reads past an exact window land in a redzone
fn run_exact_parts(ctx: &Ctx) {
    let t = ctx.tier;
    ctx.run_sub("asan_core_keygen_exact_scratch", t.pick(600, 12_000), 64, crate::c12k::strategy, mem_dyn(crate::c12k::test));
    ctx.run_sub("asan_core_keygen2_exact_scratch", t.pick(400, 8_000), 64, crate::c06b::strategy, mem_dyn(crate::c12k::test_b));
    ctx.run_sub("asan_core_wrapped_key_on_key", t.pick(300, 6_000), 64, c03::strategy, mem_dyn(crate::c12w::wrap::<c03::Case>(c03::test_kk)));
    ctx.run_sub("asan_core_wrapped_packing", t.pick(200, 4_000), 64, c03::strategy, mem_dyn(crate::c12w::wrap::<c03::Case>(c03::test_pack)));
    ctx.run_sub("asan_core_wrapped_matrix_external_product", t.pick(300, 6_000), 64, c03::strategy, mem_dyn(crate::c12w::wrap::<c03::Case>(c04::test_mat)));
    ctx.run_sub("asan_core_wrapped_ggsw_cells", t.pick(300, 6_000), 64, c03::strategy, mem_dyn(crate::c12w::wrap::<c03::Case>(c04::test_cells)));
}

pub fn run_all(ctx: &Ctx) {
    let armed = arm_sanitizer_callback(&ctx.property, &ctx.root);
    eprintln!("[C17] pzv-scheme: sanitizer runtime {}", if armed { "present: death callback armed" } else { "ABSENT" });
    let t = ctx.tier;
    macro_rules! run {
        ($name:expr, $q:expr, $th:expr, $case:ty, $strat:expr, $test:expr) => {
            ctx.run_sub($name, t.pick($q, $th), 64, $strat, mem::<$case>($test));
        };
    }
    table!(run);
    run_exact_parts(ctx);
    crate::c17t::run_all(ctx, "asan_");
}

pub fn replay(ctx: &Ctx, sub: &str, case: &serde_json::Value) -> i32 {
    let _ = arm_sanitizer_callback(&ctx.property, &ctx.root);
    macro_rules! rp {
        ($name:expr, $q:expr, $th:expr, $case:ty, $strat:expr, $test:expr) => {
            if sub == $name {
                return ctx.replay_case::<$case, _>(sub, case, mem::<$case>($test));
            }
        };
    }
    table!(rp);
    match sub {
        "asan_core_keygen_exact_scratch" => return ctx.replay_case::<crate::c12k::Case, _>(sub, case, mem_dyn(crate::c12k::test)),
        "asan_core_keygen2_exact_scratch" => return ctx.replay_case::<crate::c06b::Case, _>(sub, case, mem_dyn(crate::c12k::test_b)),
        "asan_core_wrapped_key_on_key" => return ctx.replay_case::<c03::Case, _>(sub, case, mem_dyn(crate::c12w::wrap::<c03::Case>(c03::test_kk))),
        "asan_core_wrapped_packing" => return ctx.replay_case::<c03::Case, _>(sub, case, mem_dyn(crate::c12w::wrap::<c03::Case>(c03::test_pack))),
        "asan_core_wrapped_matrix_external_product" => return ctx.replay_case::<c03::Case, _>(sub, case, mem_dyn(crate::c12w::wrap::<c03::Case>(c04::test_mat))),
        "asan_core_wrapped_ggsw_cells" => return ctx.replay_case::<c03::Case, _>(sub, case, mem_dyn(crate::c12w::wrap::<c03::Case>(c04::test_cells))),
        _ => {}
    }
    eprintln!("harness error: unknown C17 sub-check {sub}");
    2
}

pub const RULE: &str = "core level (AddressSanitizer build of pzv-scheme): the generated cases of the C01-C05 sub-checks and of the C12 core part (encrypt / decrypt, programs of noise-free operations, key-switching family, external products, CMux / CSwap, GGSW expansion, tensor / relinearise / plaintext and constant products; N 8..128, ranks 1..3, dnum / dsize grids, cross-radix layouts; exact-size scratch windows for the 38 operations of the C12 core part, for the 24 encryption routines of its key-generation part and for the call sites of its wrapped part: key-on-key, packing, matrix external products, GGSW cells) with every operand an exact-size heap block. Oracle: no sanitizer report, guard regions intact (value oracles belong to the owning properties and are ignored here). non-trivial = the owning sub-check's rule.";
