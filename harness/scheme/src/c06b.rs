//! C06, remaining encryption routines: public key, public-key encryption, LWE, GGLWE-to-GGSW key,
//! LWE switching / conversion keys, blind-rotation key and the circuit-bootstrapping key bundle.
//!
//! The oracle needs no secret: two encryptions that differ only in the error seed have identical
//! masks, hence the exact torus difference of their bodies is e1 - e2.  (For public-key encryption
//! every column carries its own error term, so every column is treated that way.)

use crate::c06::moments_rounded_truncated;
use crate::enc::NOISES;
use crate::sch::*;
use poulpy_bin_fhe::{
    blind_rotation::{BlindRotationKey, BlindRotationKeyEncryptSk, BlindRotationKeyLayout, CGGI},
    circuit_bootstrapping::{CircuitBootstrappingEncryptionInfos, CircuitBootstrappingKey, CircuitBootstrappingKeyLayout},
};
use poulpy_core::{
    EncryptionLayout, GGLWEToGGSWKeyEncryptSk, GLWEEncryptPk, GLWEPublicKeyGenerate, GLWEToLWESwitchingKeyEncryptSk, LWEEncryptSk, LWESwitchingKeyEncrypt, LWEToGLWESwitchingKeyEncryptSk,
    layouts::{
        Base2K, Degree, Dnum, Dsize, GGLWEInfos, GGLWEToGGSWKey, GGLWEToGGSWKeyLayout, GGLWEToRef, GGSW, GLWE, GLWEAutomorphismKey, GLWEAutomorphismKeyLayout, GLWELayout, GLWEPlaintext,
        GLWEPublicKey, GLWEPublicKeyPreparedFactory, GLWESecret, GLWESecretPreparedFactory, GLWEToLWEKey, GLWEToLWEKeyLayout, GLWEToRef, LWE, LWELayout, LWEPlaintext, LWESecret, LWESwitchingKey,
        LWESwitchingKeyLayout, LWEToGLWEKey, LWEToGLWEKeyLayout, Rank, TorusPrecision,
    },
};
use poulpy_hal::{
    layouts::{DataRef, Module, NoiseInfos, ReaderFrom, Scratch, VecZnx, WriterTo, ZnxInfos, ZnxView, ZnxViewMut},
    source::Source,
};
use proptest::prelude::*;
use pzv_be::{Be, FullBackend, with_backend};
use pzv_common::driver::{Ctx, Verdict};
use pzv_common::model::*;
use serde::{Deserialize, Serialize};

pub const KINDS: [&str; 9] = [
    "glwe_public_key",
    "glwe_encrypt_pk",
    "lwe",
    "gglwe_to_ggsw_key",
    "lwe_switching_key",
    "lwe_to_glwe_key",
    "glwe_to_lwe_key",
    "blind_rotation_key",
    "circuit_bootstrapping_key",
];

#[derive(Clone, Debug, Serialize, Deserialize)]
pub struct Case {
    pub be: Be,
    pub kind: u8,
    pub log_n: u8,
    pub base2k: u8,
    pub krem: u8,
    pub rank: u8,
    pub dnum: u8,
    pub dsize: u8,
    pub dist: Dist,
    pub noise: u8,
    pub n_lwe: u8,
    pub lwe_dist: u8,
    pub seed_sk: u64,
    pub seed_xa: u64,
    pub seed_xe: u64,
    pub seed_pt: u64,
}

impl Case {
    pub fn kind(&self) -> usize {
        self.kind as usize % KINDS.len()
    }
    fn matrix(&self) -> bool {
        self.kind() >= 3
    }
    fn size(&self) -> usize {
        if self.matrix() { (self.dnum * self.dsize) as usize + 1 } else { self.dnum as usize + 1 }
    }
    fn k(&self) -> usize {
        self.size() * self.base2k as usize - self.krem as usize
    }
    fn adapt(&mut self) {
        self.adapt_gen(false)
    }
    /// `small`: ring degrees 8..128 for every routine (C12: alignment effects show at small N; no statistics needed)
    pub fn adapt_gen(&mut self, small: bool) {
        let kind = self.kind();
        self.log_n = match kind {
            _ if small => self.log_n.clamp(3, 7),
            0 | 1 => self.log_n.clamp(8, 9),
            2 => 6,
            7 | 8 => self.log_n.clamp(5, 6),
            _ => self.log_n.clamp(6, 7),
        };
        let n = 1usize << self.log_n;
        self.rank = self.rank.clamp(1, if kind >= 7 { 2 } else { 3 });
        self.dnum = self.dnum.clamp(1, 3);
        // only the GGLWE-to-GGSW key takes a digit decomposition here (the LWE keys and the bin-fhe keys fix dsize = 1)
        self.dsize = if kind == 3 { self.dsize.clamp(1, 2) } else { 1 };
        self.dist = self.dist.adapt(n);
        if self.dist == Dist::Zero {
            self.dist = Dist::TernaryProb(8);
        }
        let l1: u64 = match self.dist {
            Dist::TernaryHw(h) | Dist::BinaryHw(h) => (h as u64).max(1),
            Dist::BinaryBlock(b) => (n / b as usize) as u64,
            _ => n as u64,
        };
        // tensor-like keys multiply two secrets
        let l1eff = if kind == 3 || kind == 8 { l1 * l1 } else { l1 };
        let maxb = if self.be.is_fft() { fft_max_base2k(self.log_n, l1eff.max(1)) } else { 40 };
        self.base2k = self.base2k.clamp(4, maxb.clamp(4, 40));
        self.krem %= self.base2k;
        // the circuit-bootstrapping bundle and the blind-rotation key are exercised at k = size * radix too
        self.noise %= NOISES.len() as u8;
        self.n_lwe = self.n_lwe.clamp(1, if kind >= 7 { 6 } else { 48 });
        if self.k() < 12 {
            self.dnum = 3;
            if self.k() < 12 {
                self.krem = 0;
            }
        }
    }
    fn noise_infos(&self) -> NoiseInfos {
        let (s, b) = NOISES[self.noise as usize];
        NoiseInfos::new(self.k(), s, b).unwrap()
    }
}

/// one GLWE/LWE-shaped cell, limb-major: `body[j]`, `mask[j]` are the digits of limb j
pub struct Cell {
    pub body: Vec<Vec<i64>>,
    pub mask: Vec<Vec<i64>>,
    /// whole limbs by which this cell's precision k exceeds the case's k (sub-keys of a bundle with their own layouts)
    pub extra: usize,
}

fn cell_of_glwe<D: DataRef>(v: &VecZnx<D>) -> Cell {
    let body = (0..v.size()).map(|j| v.at(0, j).to_vec()).collect();
    let mask = (0..v.size()).map(|j| (1..v.cols()).flat_map(|c| v.at(c, j).iter().copied()).collect()).collect();
    Cell { body, mask, extra: 0 }
}

fn cell_all_body<D: DataRef>(v: &VecZnx<D>) -> Cell {
    let body = (0..v.size()).map(|j| (0..v.cols()).flat_map(|c| v.at(c, j).iter().copied()).collect()).collect();
    Cell { body, mask: (0..v.size()).map(|_| vec![]).collect(), extra: 0 }
}

fn cell_of_lwe<D: DataRef>(v: &VecZnx<D>) -> Cell {
    let body = (0..v.size()).map(|j| vec![v.at(0, j)[0]]).collect();
    let mask = (0..v.size()).map(|j| v.at(0, j)[1..].to_vec()).collect();
    Cell { body, mask, extra: 0 }
}

fn cells_of_gglwe<K: GGLWEToRef + GGLWEInfos>(k: &K) -> Vec<Cell> {
    let g = k.to_ref();
    let (dnum, ri) = (k.dnum().0 as usize, k.rank_in().0 as usize);
    let mut v = vec![];
    for row in 0..dnum {
        for col in 0..ri {
            v.push(cell_of_glwe(g.at(row, col).data()));
        }
    }
    v
}

fn cells_of_ggsw<D: DataRef>(g: &GGSW<D>, dnum: usize, rank: usize) -> Vec<Cell> {
    let mut v = vec![];
    for row in 0..dnum {
        for col in 0..rank + 1 {
            v.push(cell_of_glwe(g.at(row, col).data()));
        }
    }
    v
}

/// the GGSWs of a serialised blind-rotation key (its fields are private: the stream is parsed with the public readers)
fn brk_cells(bytes: &[u8], lay: &BlindRotationKeyLayout) -> Vec<Cell> {
    let mut probe = vec![];
    GGSW::alloc_from_infos(lay).write_to(&mut probe).unwrap();
    let n_lwe = lay.n_lwe.0 as usize;
    let head = bytes.len() - n_lwe * probe.len();
    let mut cur = &bytes[head..];
    let mut v = vec![];
    for _ in 0..n_lwe {
        let mut g = GGSW::alloc_from_infos(lay);
        g.read_from(&mut cur).unwrap();
        v.extend(cells_of_ggsw(&g, lay.dnum.0 as usize, lay.rank.0 as usize));
    }
    assert!(cur.is_empty());
    v
}

pub struct Built {
    pub cells: Vec<Cell>,
    /// full serialisation (determinism is judged on it)
    pub bytes: Vec<u8>,
}

pub struct Seeds {
    pub sk: u64,
    pub xa: u64,
    pub xe: u64,
    pub pt: u64,
}

pub fn build<B: FullBackend>(m: &Module<B>, c: &Case, s: &Seeds, scr: &mut crate::enc::Scr<B>) -> Built
where
    Scratch<B>: poulpy_hal::api::ScratchFromBytes<B>,
{
    let n = m.n();
    let (b, k) = (c.base2k as usize, c.k());
    let (nd, bb, kk) = (Degree(n as u32), Base2K(b as u32), TorusPrecision(k as u32));
    let rank = Rank(c.rank as u32);
    let (dnum, dsize) = (Dnum(c.dnum as u32), Dsize(c.dsize as u32));
    let ni = c.noise_infos();
    let mut xe = Source::new(seed32(s.xe, 0xE));
    let mut xa = Source::new(seed32(s.xa, 0xA));
    let mut sk = GLWESecret::alloc(nd, rank);
    fill_glwe_secret(&mut sk, c.dist, &mut Source::new(seed32(s.sk, 1)));
    let n_lwe = (c.n_lwe as usize).min(n);
    let lwe_sk = |salt: u64, binary: bool| -> LWESecret<Vec<u8>> {
        let mut l = LWESecret::alloc(Degree(n_lwe as u32));
        let mut src = Source::new(seed32(s.sk, salt));
        if binary {
            match c.lwe_dist % 3 {
                0 => l.fill_binary_block(1, &mut src),
                1 => l.fill_binary_prob(0.5, &mut src),
                _ => l.fill_binary_hw((n_lwe / 2).max(1), &mut src),
            }
        } else {
            fill_lwe_secret(&mut l, c.dist.adapt(n_lwe), &mut src);
        }
        l
    };
    let mut bytes = vec![];
    let cells = match c.kind() {
        0 | 1 => {
            let lay = GLWELayout { n: nd, base2k: bb, k: kk, rank };
            let enc = EncryptionLayout::new(lay, ni).unwrap();
            let mut skp = m.glwe_secret_prepared_alloc(rank);
            m.glwe_secret_prepare(&mut skp, &sk);
            let mut pk = GLWEPublicKey::alloc_from_infos(&lay);
            if c.kind() == 0 {
                m.glwe_public_key_generate(&mut pk, &skp, &enc, &mut xe, &mut xa);
                pk.write_to(&mut bytes).unwrap();
                vec![cell_of_glwe(pk.to_ref().data())]
            } else {
                // the public key is fixed by the secret seed; xa seeds the encryptor's ephemeral secret u
                m.glwe_public_key_generate(&mut pk, &skp, &enc, &mut Source::new(seed32(s.sk, 7)), &mut Source::new(seed32(s.sk, 8)));
                let mut pkp = m.glwe_public_key_prepared_alloc_from_infos(&lay);
                m.glwe_public_key_prepare(&mut pkp, &pk);
                let mut pt = GLWEPlaintext::alloc(nd, bb, kk);
                let vals = gen_column(VClass::Uniform, b, n, pt.data.size, s.pt);
                for (j, l) in vals.iter().enumerate() {
                    pt.data.at_mut(0, j).copy_from_slice(l);
                }
                let mut ct = GLWE::alloc_from_infos(&lay);
                let q = m.glwe_encrypt_pk_tmp_bytes(&lay);
                m.glwe_encrypt_pk(&mut ct, &pt, &pkp, &enc, &mut xa, &mut xe, scr.get("glwe_encrypt_pk", q));
                ct.write_to(&mut bytes).unwrap();
                // all columns carry an error term; the "mask" view (columns 1..) is used for the plaintext / u-seed checks
                let mut cell = cell_all_body(ct.data());
                cell.mask = cell_of_glwe(ct.data()).mask;
                vec![cell]
            }
        }
        2 => {
            let lay = LWELayout { n: Degree(n_lwe as u32), k: kk, base2k: bb };
            let enc = EncryptionLayout::new(lay, ni).unwrap();
            let l = lwe_sk(3, false);
            let mut pt = LWEPlaintext::alloc(bb, kk);
            let vals = gen_column(VClass::Uniform, b, 1, c.size(), s.pt);
            for (j, v) in vals.iter().enumerate() {
                pt.data_mut().at_mut(0, j)[0] = v[0];
            }
            let mut ct = LWE::alloc_from_infos(&lay);
            let q = m.lwe_encrypt_sk_tmp_bytes(&lay);
            m.lwe_encrypt_sk(&mut ct, &pt, &l, &enc, &mut xe, &mut xa, scr.get("lwe_encrypt_sk", q));
            ct.write_to(&mut bytes).unwrap();
            vec![cell_of_lwe(ct.data())]
        }
        3 => {
            let lay = GGLWEToGGSWKeyLayout { n: nd, base2k: bb, k: kk, rank, dnum, dsize };
            let enc = EncryptionLayout::new(lay, ni).unwrap();
            let mut key = GGLWEToGGSWKey::alloc_from_infos(&lay);
            let q = poulpy_core::GGLWEToGGSWKeyEncryptSk::gglwe_to_ggsw_key_encrypt_sk_tmp_bytes(m, &lay);
            m.gglwe_to_ggsw_key_encrypt_sk(&mut key, &sk, &enc, &mut xe, &mut xa, scr.get("gglwe_to_ggsw_key_encrypt_sk", q));
            key.write_to(&mut bytes).unwrap();
            (0..c.rank as usize).flat_map(|i| cells_of_gglwe(key.at(i))).collect()
        }
        4 => {
            let lay = LWESwitchingKeyLayout { n: nd, base2k: bb, k: kk, dnum };
            let enc = EncryptionLayout::new(lay, ni).unwrap();
            let mut key = LWESwitchingKey::alloc_from_infos(&lay);
            let q = m.lwe_switching_key_encrypt_sk_tmp_bytes(&lay);
            m.lwe_switching_key_encrypt_sk(&mut key, &lwe_sk(3, false), &lwe_sk(4, false), &enc, &mut xe, &mut xa, scr.get("lwe_switching_key_encrypt_sk", q));
            key.write_to(&mut bytes).unwrap();
            cells_of_gglwe(&key)
        }
        5 => {
            let mut skp = m.glwe_secret_prepared_alloc(rank);
            m.glwe_secret_prepare(&mut skp, &sk);
            let lay = LWEToGLWEKeyLayout { n: nd, base2k: bb, k: kk, dnum, rank_out: rank };
            let enc = EncryptionLayout::new(lay, ni).unwrap();
            let mut key = LWEToGLWEKey::alloc_from_infos(&lay);
            let q = m.lwe_to_glwe_key_encrypt_sk_tmp_bytes(&lay);
            m.lwe_to_glwe_key_encrypt_sk(&mut key, &lwe_sk(3, false), &skp, &enc, &mut xe, &mut xa, scr.get("lwe_to_glwe_key_encrypt_sk", q));
            key.write_to(&mut bytes).unwrap();
            cells_of_gglwe(&key)
        }
        6 => {
            let lay = GLWEToLWEKeyLayout { n: nd, base2k: bb, k: kk, rank_in: rank, dnum };
            let enc = EncryptionLayout::new(lay, ni).unwrap();
            let mut key = GLWEToLWEKey::alloc_from_infos(&lay);
            let q = m.glwe_to_lwe_key_encrypt_sk_tmp_bytes(&lay);
            m.glwe_to_lwe_key_encrypt_sk(&mut key, &lwe_sk(3, false), &sk, &enc, &mut xe, &mut xa, scr.get("glwe_to_lwe_key_encrypt_sk", q));
            key.write_to(&mut bytes).unwrap();
            cells_of_gglwe(&key)
        }
        7 => {
            let mut skp = m.glwe_secret_prepared_alloc(rank);
            m.glwe_secret_prepare(&mut skp, &sk);
            let lay = BlindRotationKeyLayout { n_glwe: nd, n_lwe: Degree(n_lwe as u32), base2k: bb, k: kk, dnum, rank };
            let enc = EncryptionLayout::new(lay, ni).unwrap();
            let mut key = BlindRotationKey::<Vec<u8>, CGGI>::alloc(&lay);
            let q = <Module<B> as poulpy_bin_fhe::blind_rotation::BlindRotationKeyEncryptSk<CGGI, B>>::blind_rotation_key_encrypt_sk_tmp_bytes(m, &lay);
            m.blind_rotation_key_encrypt_sk(&mut key, &skp, &lwe_sk(3, true), &enc, &mut xe, &mut xa, scr.get("blind_rotation_key_encrypt_sk", q));
            key.write_to(&mut bytes).unwrap();
            brk_cells(&bytes, &lay)
        }
        _ => {
            let brk = BlindRotationKeyLayout { n_glwe: nd, n_lwe: Degree(n_lwe as u32), base2k: bb, k: kk, dnum, rank };
            // the three sub-keys have their own precision (one / two limbs more): each must get its own noise parameters
            let (k_atk, k_tsk) = (k + b, k + 2 * b);
            let atk = GLWEAutomorphismKeyLayout { n: nd, base2k: bb, k: TorusPrecision(k_atk as u32), rank, dnum, dsize: Dsize(1) };
            let tsk = GGLWEToGGSWKeyLayout { n: nd, base2k: bb, k: TorusPrecision(k_tsk as u32), rank, dnum, dsize: Dsize(1) };
            let lay = CircuitBootstrappingKeyLayout { brk_layout: brk, atk_layout: atk, tsk_layout: tsk };
            let (sg, bd) = NOISES[c.noise as usize];
            let enc = CircuitBootstrappingEncryptionInfos { brk: ni, atk: NoiseInfos::new(k_atk, sg, bd).unwrap(), tsk: NoiseInfos::new(k_tsk, sg, bd).unwrap() };
            let mut key = CircuitBootstrappingKey::<Vec<u8>, CGGI>::alloc_from_infos(&lay);
            let q = <Module<B> as poulpy_bin_fhe::circuit_bootstrapping::CircuitBootstrappingKeyEncryptSk<CGGI, B>>::circuit_bootstrapping_key_encrypt_sk_tmp_bytes(m, &lay);
            key.encrypt_sk(m, &lwe_sk(3, true), &sk, &enc, &mut xe, &mut xa, scr.get("circuit_bootstrapping_key_encrypt_sk", q));
            key.write_to(&mut bytes).unwrap();
            // stream = blind-rotation key | count | (galois element, automorphism key)* | GGLWE-to-GGSW key
            let mut probe = vec![];
            BlindRotationKey::<Vec<u8>, CGGI>::alloc(&brk).write_to(&mut probe).unwrap();
            let mut cells = brk_cells(&bytes[..probe.len()], &brk);
            let mut cur = &bytes[probe.len()..];
            let cnt = u64::from_le_bytes(cur[..8].try_into().unwrap()) as usize;
            cur = &cur[8..];
            for _ in 0..cnt {
                cur = &cur[8..];
                let mut a = GLWEAutomorphismKey::alloc_from_infos(&atk);
                a.read_from(&mut cur).unwrap();
                cells.extend(cells_of_gglwe(&a).into_iter().map(|mut x| {
                    x.extra = 1;
                    x
                }));
            }
            let mut t = GGLWEToGGSWKey::alloc_from_infos(&tsk);
            t.read_from(&mut cur).unwrap();
            assert!(cur.is_empty());
            for i in 0..c.rank as usize {
                cells.extend(cells_of_gglwe(t.at(i)).into_iter().map(|mut x| {
                    x.extra = 2;
                    x
                }));
            }
            cells
        }
    };
    Built { cells, bytes }
}

fn run<B: FullBackend>(m: &Module<B>, c: &Case, thorough: bool) -> Verdict
where
    Scratch<B>: poulpy_hal::api::ScratchFromBytes<B>,
{
    let kind = KINDS[c.kind()];
    let pk_enc = c.kind() == 1;
    let b = c.base2k as usize;
    let fail = |what: &str, d: String| Verdict::fail(format!("{kind}|{what}"), format!("backend={} {kind}: {d}\ncase={c:?}", c.be.name()));
    let mut scr = crate::enc::Scr::<B>::new();
    let ni = c.noise_infos();
    let (limb, scale) = ni.target_limb_and_scale(b);
    let e_max = (ni.bound * scale).round() as i128;
    let unit_exp = (limb + 1) * b;
    let target: usize = if thorough { 1 << 17 } else { 1 << 15 };
    let (mut sum_sq, mut count, mut max_abs) = (0f64, 0u64, 0i128);
    let mut mask_digits = 0u64;
    let mut bit_ones = vec![0u64; b];
    let (mut dmin, mut dmax) = (i64::MAX, i64::MIN);
    let mut mask_equal_other_xa = 0u64;
    let mut rep = 0u64;
    let mut cells_per_obj;
    let mut compared = 0u64;
    loop {
        let s0 = Seeds { sk: c.seed_sk, xa: c.seed_xa.wrapping_add(rep * 0x1000_0001), xe: c.seed_xe.wrapping_add(rep * 0x2000_0003), pt: c.seed_pt };
        let o1 = build(m, c, &s0, &mut scr);
        cells_per_obj = o1.cells.len();
        if rep == 0 && !pk_enc {
            use std::collections::HashMap;
            let mut seen: HashMap<&Vec<i64>, usize> = HashMap::new();
            for (ci, cell) in o1.cells.iter().enumerate() {
                if cell.mask.is_empty() || cell.mask[0].len() < 8 {
                    continue;
                }
                if let Some(prev) = seen.insert(&cell.mask[0], ci) {
                    return fail("mask-reused-across-cells", format!("cells {prev} and {ci} of the same object carry the identical mask (mask stream / seed reused)"));
                }
            }
        }
        if rep == 0 {
            let o1b = build(m, c, &s0, &mut scr);
            if o1.bytes != o1b.bytes {
                let d = o1.bytes.iter().zip(o1b.bytes.iter()).filter(|(x, y)| x != y).count();
                return fail("not-deterministic", format!("two runs with identical secrets, plaintext and seeds differ in {d} of {} serialised bytes", o1.bytes.len()));
            }
        }
        let o2 = build(m, c, &Seeds { sk: s0.sk, xa: s0.xa, xe: s0.xe ^ 0x5EED_0001, pt: s0.pt }, &mut scr);
        // the remaining variants are exact checks: every repetition for cheap objects, the first few otherwise
        let exact_round = rep < 4 || c.kind() == 2;
        let o3 = if exact_round { Some(build(m, c, &Seeds { sk: if pk_enc { s0.sk } else { s0.sk ^ 0x5EED_0002 }, xa: s0.xa, xe: s0.xe, pt: s0.pt ^ 0x5EED_0003 }, &mut scr)) } else { None };
        let o4 = if exact_round { Some(build(m, c, &Seeds { sk: s0.sk, xa: s0.xa ^ 0x5EED_0004, xe: s0.xe, pt: s0.pt }, &mut scr)) } else { None };
        for (ci, cell) in o1.cells.iter().enumerate() {
            let c2 = &o2.cells[ci];
            if !pk_enc {
                for j in 0..cell.mask.len() {
                    if cell.mask[j] != c2.mask[j] {
                        return fail("mask-depends-on-error-seed", format!("cell {ci} limb {j}: the mask changes with the error seed"));
                    }
                    for d in &cell.mask[j] {
                        if !in_digit_range(*d, b) {
                            return fail("mask-out-of-range", format!("cell {ci} mask digit {d} outside [-2^{}, 2^{})", b - 1, b - 1));
                        }
                        mask_digits += 1;
                        dmin = dmin.min(*d);
                        dmax = dmax.max(*d);
                        let off = (*d + (1i64 << (b - 1))) as u64;
                        for (t, cnt) in bit_ones.iter_mut().enumerate() {
                            *cnt += (off >> t) & 1;
                        }
                    }
                }
            }
            if let Some(o3) = &o3 {
                for j in 0..cell.mask.len() {
                    if cell.mask[j] != o3.cells[ci].mask[j] {
                        return fail("mask-depends-on-secret-or-plaintext", format!("cell {ci} limb {j}: the mask changes with the {} seed", if pk_enc { "plaintext" } else { "secret / plaintext" }));
                    }
                }
            }
            if let Some(o4) = &o4 {
                for j in 0..cell.mask.len() {
                    mask_equal_other_xa += cell.mask[j].iter().zip(o4.cells[ci].mask[j].iter()).filter(|(x, y)| x == y).count() as u64;
                    compared += cell.mask[j].len() as u64;
                }
            }
            // (a single LWE sample can legitimately draw the same error twice: the pooled statistics judge it)
            if cell.body[0].len() >= 32 && cell.body == c2.body {
                return fail("body-independent-of-error-seed", format!("cell {ci}: nothing changes with the error seed (no error is injected)"));
            }
            let len = cell.body[0].len();
            for i in 0..len {
                let diff: Vec<i128> = (0..cell.body.len()).map(|j| cell.body[j][i] as i128 - c2.body[j][i] as i128).collect();
                let d = torus_err(&Dyadic::from_limbs_i128(&diff, b), &Dyadic::zero());
                let unit_exp = unit_exp + cell.extra * b;
                let scaled = Dyadic { num: d.num.clone() << unit_exp, exp: d.exp };
                let int = &scaled.num >> scaled.exp;
                if (int.clone() << scaled.exp) != scaled.num {
                    return fail("error-not-on-documented-limb", format!("cell {ci} coefficient {i}: e1-e2 = {:.6e} is not a multiple of 2^-{unit_exp} (noise limb {limb})", d.approx_f64()));
                }
                let v: i128 = i128::try_from(&int).unwrap_or(i128::MAX);
                if v.abs() > 2 * e_max {
                    return fail("error-above-bound", format!("cell {ci} coefficient {i}: |e1-e2| = {} units exceeds 2*round(bound*scale) = {}", v.abs(), 2 * e_max));
                }
                max_abs = max_abs.max(v.abs());
                sum_sq += (v as f64) * (v as f64);
                count += 1;
            }
        }
        rep += 1;
        if count as usize >= target || rep >= 1 << 18 {
            break;
        }
    }
    let (var_e, m4_e) = moments_rounded_truncated(ni.sigma * scale, ni.bound * scale);
    let mean_want = 2.0 * var_e;
    let mcap = (2.0 * e_max as f64).powi(2);
    let nn = count as f64;
    let ln = 55.0 * std::f64::consts::LN_2;
    let var_x = (2.0 * m4_e + 6.0 * var_e * var_e - 4.0 * var_e * var_e).max(0.0);
    let dev = (2.0 * var_x * ln / nn).sqrt() + 2.0 * mcap * ln / (3.0 * nn);
    let mean_have = sum_sq / nn;
    let enough = nn >= 30000.0;
    if enough && mean_want > 0.0 && (mean_have - mean_want).abs() > dev {
        return fail(
            "noise-variance-outside-band",
            format!("second moment of e1-e2 over {count} coefficients is {mean_have:.4} units^2, expected {mean_want:.4} +- {dev:.4} (sigma*scale = {:.3}, bound*scale = {:.3})", ni.sigma * scale, ni.bound * scale),
        );
    }
    if enough && e_max >= 2 && max_abs == 0 {
        return fail("no-noise", "every coefficient of e1-e2 is zero".into());
    }
    if mask_digits >= 4096 {
        let nm = mask_digits as f64;
        let band = (ln / (2.0 * nm)).sqrt();
        let span = 1i64 << b;
        if !pk_enc {
            for (t, ones) in bit_ones.iter().enumerate() {
                let f = *ones as f64 / nm;
                if (f - 0.5).abs() > band {
                    return fail("mask-bit-biased", format!("bit {t} of the offset mask digits is set with frequency {f:.4} over {mask_digits} digits (band 0.5 +- {band:.4})"));
                }
            }
            if b >= 3 && ((dmax as i128) < (span as i128 / 2 - span as i128 / 8) || (dmin as i128) >= -(span as i128 / 2) + span as i128 / 8) {
                return fail("mask-range-not-covered", format!("mask digits only span [{dmin}, {dmax}] of [-2^{}, 2^{})", b - 1, b - 1));
            }
        }
    }
    // other mask seed (or other ephemeral-secret seed): at most a 2^-b fraction (+ slack) of the digits coincide
    {
        if compared >= 512 {
            let coincide = mask_equal_other_xa as f64 / compared as f64;
            let expect = 1.0 / ((1u64 << b) as f64);
            let band = (ln / (2.0 * compared as f64)).sqrt();
            if coincide > expect + band + 0.01 {
                return fail("mask-independent-of-mask-seed", format!("{:.2}% of the mask digits are unchanged when the {} seed changes", 100.0 * coincide, if pk_enc { "ephemeral-secret" } else { "mask" }));
            }
        }
    }
    let mut cl = vec![kind, c.be.name()];
    if enough {
        cl.push("variance_band_checked");
    }
    if c.k() % b != 0 {
        cl.push("k_not_multiple_of_radix");
    }
    if cells_per_obj >= 2 {
        cl.push("several_cells");
    }
    Verdict::pass(enough, &cl)
}

pub fn test(c0: &Case) -> Verdict {
    let mut c = c0.clone();
    c.adapt();
    let thorough = crate::c06::TARGET_THOROUGH.load(std::sync::atomic::Ordering::Relaxed);
    with_backend!(c.be, c.log_n, |m| run(m, &c, thorough))
}

pub fn strategy() -> BoxedStrategy<Case> {
    (
        (crate::c01::be_strategy(), 0u8..KINDS.len() as u8, 5u8..=9, 2u8..=40, any::<u8>(), 1u8..=3, 1u8..=3, 1u8..=2),
        (dist_strategy(), 0u8..3, 1u8..=48, 0u8..3, any::<u64>(), any::<u64>(), any::<u64>(), any::<u64>()),
    )
        .prop_map(|((be, kind, log_n, base2k, krem, rank, dnum, dsize), (dist, noise, n_lwe, lwe_dist, seed_sk, seed_xa, seed_xe, seed_pt))| Case {
            be,
            kind,
            log_n,
            base2k,
            krem,
            rank,
            dnum,
            dsize,
            dist,
            noise,
            n_lwe,
            lwe_dist,
            seed_sk,
            seed_xa,
            seed_xe,
            seed_pt,
        })
        .boxed()
}

pub fn run_all(ctx: &Ctx) {
    let t = ctx.tier;
    ctx.run_sub("other_routines_noise_mask_seeds", t.pick(288, 2_400), 64, strategy, test);
}
