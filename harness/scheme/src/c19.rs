//! C19 — seed-compressed objects expand to exactly what full encryption would produce.
//!
//! For every decompressed cell: (1) the mask columns equal `vec_znx_fill_uniform` from
//! `Source::new(stored seed of that cell)` in column order, bit for bit; (2) the exact phase
//! (integer arithmetic with the clear key) equals, as a torus element and exactly, the phase
//! of the corresponding cell of the *standard* encryption run with the same error seed -
//! i.e. same plaintext and same error sample.  Body = -<mask, s> + pt + e normalised is a
//! function of (mask, s, pt, e), so (1)+(2) is bit-identity with the standard encryption
//! of that cell under the stored seed.  (3) a serialisation round trip of the compressed
//! object changes nothing; (4) all backends produce identical bytes.

use crate::enc::*;
use crate::sch::*;
use poulpy_hal::api::VecZnxFillUniform;
use poulpy_hal::layouts::{VecZnx, ZnxInfos, ZnxView};
use poulpy_hal::source::Source;
use proptest::prelude::*;
use pzv_be::{Be, FullBackend, with_backend};
use pzv_common::driver::{Ctx, Verdict};
use pzv_common::model::*;
use serde::{Deserialize, Serialize};

#[derive(Clone, Debug, Serialize, Deserialize)]
pub struct Case {
    pub be: Be,
    pub p: EncP,
    pub via_serde: bool,
}

fn cell_bytes(o: &Obj) -> Vec<Vec<i64>> {
    o.cells.iter().map(|c| c.raw().to_vec()).collect()
}

fn run<B: FullBackend>(m: &poulpy_hal::layouts::Module<B>, c: &Case) -> Result<(Obj, Vec<&'static str>), Verdict> {
    let p = &c.p;
    let std = build(m, p, false, false);
    let cmp = build(m, p, true, c.via_serde);
    let kind = p.kind.name();
    let fail = |what: &str, d: String| Verdict::fail(format!("{kind}|{what}"), format!("backend={} {kind}: {d}\ncase={c:?}", c.be.name()));
    if std.cells.len() != cmp.cells.len() || cmp.seeds.len() != cmp.cells.len() {
        return Err(fail("shape", format!("cells: standard {}, decompressed {}, seeds {}", std.cells.len(), cmp.cells.len(), cmp.seeds.len())));
    }
    let b = p.base2k as usize;
    let n = m.n();
    for (ci, (cell, seed)) in cmp.cells.iter().zip(cmp.seeds.iter()).enumerate() {
        // (1) masks from the stored seed, in column order
        let mut want = VecZnx::alloc(n, cell.cols(), cell.size());
        let mut src = Source::new(*seed);
        for col in 1..cell.cols() {
            m.vec_znx_fill_uniform(b, &mut want, col, &mut src);
        }
        for col in 1..cell.cols() {
            for j in 0..cell.size() {
                if cell.at(col, j) != want.at(col, j) {
                    return Err(fail("mask-not-from-stored-seed", format!("cell {ci} mask column {col} limb {j} differs from fill_uniform(base2k={b}) seeded with the cell's stored seed")));
                }
            }
        }
        // (2) exact phase equals the standard encryption's phase (same plaintext, same error sample)
        let (ph_c, ph_s) = (glwe_phase_limbs(cell, &cmp.sk), glwe_phase_limbs(&std.cells[ci], &std.sk));
        for i in 0..n {
            let (vc, vs) = (value_of(&ph_c, b, i), value_of(&ph_s, b, i));
            if torus_close(&vc, &vs, cell.size() * b, 0).is_err() {
                return Err(fail(
                    "phase-differs-from-standard",
                    format!("cell {ci} coefficient {i}: decompressed phase {:.6e} vs standard-encryption phase {:.6e} under the same error seed (plaintext or error stream differs)", vc.approx_f64(), vs.approx_f64()),
                ));
            }
        }
        // digits normalised (unique representative), so body bits are determined
        for col in 0..cell.cols() {
            for j in 0..cell.size() {
                if cell.at(col, j).iter().any(|x| !in_digit_range(*x, b)) {
                    return Err(fail("digits-not-normalised", format!("cell {ci} column {col} limb {j} holds a digit outside the balanced range")));
                }
            }
        }
    }
    let mut cl = vec![kind, c.be.name()];
    if c.via_serde {
        cl.push("via_serialisation");
    }
    if cmp.cells.len() >= 2 {
        cl.push("multi_cell");
    }
    if p.rank_out >= 2 {
        cl.push("rank>=2");
    }
    Ok((cmp, cl))
}

pub fn test(c0: &Case) -> Verdict {
    let mut c = c0.clone();
    c.p.adapt(true);
    // primary backend
    let first = with_backend!(c.be, c.p.log_n, |m| run(m, &c));
    let (obj, cl) = match first {
        Ok(x) => x,
        Err(v) => return v,
    };
    // (3) serialisation round trip changes nothing
    if !c.via_serde {
        let mut c2 = c.clone();
        c2.via_serde = true;
        let again = with_backend!(c.be, c.p.log_n, |m| build(m, &c2.p, true, true));
        if cell_bytes(&again) != cell_bytes(&obj) {
            return Verdict::fail(format!("{}|serialisation-changes-decompression", c.p.kind.name()), format!("decompress(read(write(compressed))) != decompress(compressed)\ncase={c:?}"));
        }
    }
    // (4) cross-backend byte identity (mask order/radix identical on every backend)
    let other = match c.be {
        Be::FftRef => Be::NttAvx,
        Be::FftAvx => Be::NttRef,
        Be::NttRef => Be::FftAvx,
        Be::NttAvx => Be::FftRef,
    };
    let o2 = with_backend!(other, c.p.log_n, |m| build(m, &c.p, true, false));
    if cell_bytes(&o2) != cell_bytes(&obj) || o2.bytes != obj.bytes {
        return Verdict::fail(format!("{}|cross-backend", c.p.kind.name()), format!("{} and {} produce different compressed/decompressed bytes for equal seeds\ncase={c:?}", c.be.name(), other.name()));
    }
    let nt = obj.cells.len() >= 2 || c.p.rank_out >= 2;
    Verdict::pass(nt, &cl)
}

pub fn encp_strategy() -> impl Strategy<Value = EncP> {
    (
        (0usize..KINDS.len(), 3u8..=7, 2u8..=40, any::<u8>(), 1u8..=3, 1u8..=3, 1u8..=3, 1u8..=2),
        (dist_strategy(), 0u8..3, any::<i64>(), any::<u64>(), any::<u64>(), any::<u64>(), any::<u64>()),
    )
        .prop_map(|((ki, log_n, base2k, krem, rank_in, rank_out, dnum, dsize), (dist, noise, gal, seed_sk, seed_xa, seed_xe, seed_pt))| {
            let mut p = EncP {
                kind: KINDS[ki],
                log_n,
                base2k,
                krem,
                rank_in,
                rank_out,
                dnum,
                dsize,
                dist,
                noise,
                gal,
                seed_sk,
                seed_xa,
                seed_xe,
                seed_pt,
            };
            p.adapt(true);
            p
        })
}

fn strategy() -> BoxedStrategy<Case> {
    (crate::c01::be_strategy(), encp_strategy(), any::<bool>()).prop_map(|(be, p, via_serde)| Case { be, p, via_serde }).boxed()
}

pub fn run_all(ctx: &Ctx) {
    let t = ctx.tier;
    ctx.run_sub("compressed_equals_standard", t.pick(6_000, 80_000), 64, strategy, test);
}

pub fn replay(ctx: &Ctx, sub: &str, case: &serde_json::Value) -> i32 {
    ctx.replay_case::<Case, _>(sub, case, test)
}

pub const RULE: &str = "cases = (backend, compressed layout in {GLWE, GGLWE, GGSW, GLWE switching key, automorphism key, tensor key}, N 8..128, radix 2..40 inside the backend domain, ranks 1..3 (in/out), dnum 1..3, dsize 1..2, every secret distribution, three noise settings, generated sk/xa/xe/pt seeds, with and without a write_to/read_from round trip of the compressed object). Oracle: per cell, masks == fill_uniform from Source::new(stored seed) in column order (bit exact); exact phase == phase of the standard encryption's cell under the same error seed (exact torus equality: same plaintext, same error sample); digits normalised; decompression identical after serialisation; bytes identical on a second backend of the other family. non-trivial = at least two cells or rank >= 2.";
