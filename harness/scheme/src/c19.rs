//! C19 — seed-compressed objects expand to exactly what full encryption would produce.
//!
//! For every decompressed cell: (1) the mask columns equal `vec_znx_fill_uniform` from
//! `Source::new(stored seed of that cell)` in column order, bit for bit; (2) the exact phase
//! (integer arithmetic with the clear key) equals, as a torus element and exactly, the phase
//! of the corresponding cell of the *standard* encryption run with the same error seed -
//! i.e. same plaintext and same error sample.  Body = -<mask, s> + pt + e normalised is a
//! function of (mask, s, pt, e), so (1)+(2) is bit-identity with the standard encryption
//! of that cell under the stored seed.  (3) a serialisation round trip of the compressed
//! object changes nothing; (4) all backends produce identical bytes.

use crate::enc::*;
use crate::sch::*;
use poulpy_hal::api::VecZnxFillUniform;
use poulpy_hal::layouts::{VecZnx, ZnxInfos, ZnxView};
use poulpy_hal::source::Source;
use proptest::prelude::*;
use pzv_be::{Be, FullBackend, with_backend};
use pzv_common::driver::{Ctx, Verdict};
use pzv_common::model::*;
use serde::{Deserialize, Serialize};

#[derive(Clone, Debug, Serialize, Deserialize)]
pub struct Case {
    pub be: Be,
    pub p: EncP,
    pub via_serde: bool,
}

fn cell_bytes(o: &Obj) -> Vec<Vec<i64>> {
    o.cells.iter().map(|c| c.raw().to_vec()).collect()
}

fn run<B: FullBackend>(m: &poulpy_hal::layouts::Module<B>, c: &Case) -> Result<(Obj, Vec<&'static str>), Verdict> {
    let p = &c.p;
    let std = build(m, p, false, false);
    let cmp = build(m, p, true, c.via_serde);
    let kind = p.kind.name();
    let fail = |what: &str, d: String| Verdict::fail(format!("{kind}|{what}"), format!("backend={} {kind}: {d}\ncase={c:?}", c.be.name()));
    if std.cells.len() != cmp.cells.len() || cmp.seeds.len() != cmp.cells.len() {
        return Err(fail("shape", format!("cells: standard {}, decompressed {}, seeds {}", std.cells.len(), cmp.cells.len(), cmp.seeds.len())));
    }
    let b = p.base2k as usize;
    let n = m.n();
    for (ci, (cell, seed)) in cmp.cells.iter().zip(cmp.seeds.iter()).enumerate() {
        // (1) masks from the stored seed, in column order
        let mut want = VecZnx::alloc(n, cell.cols(), cell.size());
        let mut src = Source::new(*seed);
        for col in 1..cell.cols() {
            m.vec_znx_fill_uniform(b, &mut want, col, &mut src);
        }
        for col in 1..cell.cols() {
            for j in 0..cell.size() {
                if cell.at(col, j) != want.at(col, j) {
                    return Err(fail("mask-not-from-stored-seed", format!("cell {ci} mask column {col} limb {j} differs from fill_uniform(base2k={b}) seeded with the cell's stored seed")));
                }
            }
        }
        // (2) exact phase equals the standard encryption's phase (same plaintext, same error sample)
        let (ph_c, ph_s) = (glwe_phase_limbs(cell, &cmp.sk), glwe_phase_limbs(&std.cells[ci], &std.sk));
        for i in 0..n {
            let (vc, vs) = (value_of(&ph_c, b, i), value_of(&ph_s, b, i));
            if torus_close(&vc, &vs, cell.size() * b, 0).is_err() {
                return Err(fail(
                    "phase-differs-from-standard",
                    format!("cell {ci} coefficient {i}: decompressed phase {:.6e} vs standard-encryption phase {:.6e} under the same error seed (plaintext or error stream differs)", vc.approx_f64(), vs.approx_f64()),
                ));
            }
        }
        // digits normalised (unique representative), so body bits are determined
        for col in 0..cell.cols() {
            for j in 0..cell.size() {
                if cell.at(col, j).iter().any(|x| !in_digit_range(*x, b)) {
                    return Err(fail("digits-not-normalised", format!("cell {ci} column {col} limb {j} holds a digit outside the balanced range")));
                }
            }
        }
    }
    // decompression into a receiver with fewer rows gives the first rows of the full expansion
    if let Some((rows, part)) = &cmp.partial {
        if part.len() > cmp.cells.len() || part.iter().zip(cmp.cells.iter()).any(|(x, y)| x.raw() != y.raw()) {
            return Err(fail("partial-receiver-differs", format!("decompression into a receiver of {rows} of the {} rows differs from the first rows of the full decompression", p.dnum)));
        }
    }
    // scalar metadata (Galois element) survives compression, serialisation and decompression
    if cmp.meta.windows(2).any(|w| w[0] != w[1]) || std.meta.windows(2).any(|w| w[0] != w[1]) || cmp.meta.last() != std.meta.last() {
        return Err(fail("metadata-differs", format!("Galois element: requested / compressed / decompressed values {:?} (standard: {:?})", cmp.meta, std.meta)));
    }
    let mut cl = vec![kind, c.be.name()];
    if c.via_serde {
        cl.push("via_serialisation");
    }
    if cmp.partial.as_ref().map(|(r, _)| *r < p.dnum as usize).unwrap_or(false) {
        cl.push("receiver_with_fewer_rows");
    }
    if cmp.meta.last().map(|g| *g < 0).unwrap_or(false) {
        cl.push("negative_galois_element");
    }
    if cmp.cells.len() >= 2 {
        cl.push("multi_cell");
    }
    if p.rank_out >= 2 {
        cl.push("rank>=2");
    }
    Ok((cmp, cl))
}

pub fn test(c0: &Case) -> Verdict {
    let mut c = c0.clone();
    c.p.adapt(true);
    // primary backend
    let first = with_backend!(c.be, c.p.log_n, |m| run(m, &c));
    let (obj, cl) = match first {
        Ok(x) => x,
        Err(v) => return v,
    };
    // (3) serialisation round trip changes nothing
    if !c.via_serde {
        let mut c2 = c.clone();
        c2.via_serde = true;
        let again = with_backend!(c.be, c.p.log_n, |m| build(m, &c2.p, true, true));
        if cell_bytes(&again) != cell_bytes(&obj) {
            return Verdict::fail(format!("{}|serialisation-changes-decompression", c.p.kind.name()), format!("decompress(read(write(compressed))) != decompress(compressed)\ncase={c:?}"));
        }
    }
    // (4) cross-backend byte identity (mask order/radix identical on every backend)
    let other = match c.be {
        Be::FftRef => Be::NttAvx,
        Be::FftAvx => Be::NttRef,
        Be::NttRef => Be::FftAvx,
        Be::NttAvx => Be::FftRef,
    };
    let o2 = with_backend!(other, c.p.log_n, |m| build(m, &c.p, true, false));
    if cell_bytes(&o2) != cell_bytes(&obj) || o2.bytes != obj.bytes {
        return Verdict::fail(format!("{}|cross-backend", c.p.kind.name()), format!("{} and {} produce different compressed/decompressed bytes for equal seeds\ncase={c:?}", c.be.name(), other.name()));
    }
    let nt = obj.cells.len() >= 2 || c.p.rank_out >= 2;
    Verdict::pass(nt, &cl)
}

pub fn encp_strategy() -> impl Strategy<Value = EncP> {
    (
        (0usize..KINDS.len(), 3u8..=7, 2u8..=40, any::<u8>(), 1u8..=3, 1u8..=3, 1u8..=3, 1u8..=2),
        (dist_strategy(), 0u8..3, any::<i64>(), any::<u64>(), any::<u64>(), any::<u64>(), any::<u64>()),
    )
        .prop_map(|((ki, log_n, base2k, krem, rank_in, rank_out, dnum, dsize), (dist, noise, gal, seed_sk, seed_xa, seed_xe, seed_pt))| {
            let mut p = EncP {
                kind: KINDS[ki],
                log_n,
                base2k,
                krem,
                rank_in,
                rank_out,
                dnum,
                dsize,
                dist,
                noise,
                gal,
                seed_sk,
                seed_xa,
                seed_xe,
                seed_pt,
            };
            p.adapt(true);
            p
        })
}

fn strategy() -> BoxedStrategy<Case> {
    (crate::c01::be_strategy(), encp_strategy(), any::<bool>()).prop_map(|(be, p, via_serde)| Case { be, p, via_serde }).boxed()
}

// ---------------------------------------------------------------------------
// LWE: there is no compressed LWE encryption routine; the compressed form of a standard
// encryption whose mask stream is Source::new(seed) is (seed, body).  Decompressing that
// must give back the standard ciphertext bit for bit (same draw order, same radix).
// ---------------------------------------------------------------------------

#[derive(Clone, Debug, Serialize, Deserialize)]
pub struct LweCase {
    pub be: Be,
    pub n_lwe: u16,
    pub base2k: u8,
    pub size: u8,
    pub krem: u8,
    pub dist: Dist,
    pub noise: u8,
    pub seed: u64,
    pub via_serde: bool,
}

fn lwe_run<B: FullBackend>(m: &poulpy_hal::layouts::Module<B>, c: &LweCase) -> (Vec<i64>, Vec<i64>, Vec<u8>) {
    use poulpy_core::layouts::compressed::{LWECompressed, LWEDecompress};
    use poulpy_core::layouts::{Base2K, Degree, LWE, LWELayout, LWEPlaintext, LWESecret, TorusPrecision};
    use poulpy_core::{EncryptionLayout, LWEEncryptSk};
    use poulpy_hal::api::{ScratchOwnedBorrow};
    use poulpy_hal::layouts::{NoiseInfos, ReaderFrom, WriterTo, ZnxViewMut};
    let (b, size) = (c.base2k as usize, c.size as usize);
    let k = size * b - c.krem as usize;
    let n_lwe = c.n_lwe as usize;
    let lay = LWELayout { n: Degree(n_lwe as u32), k: TorusPrecision(k as u32), base2k: Base2K(b as u32) };
    let (sg, bd) = NOISES[c.noise as usize % NOISES.len()];
    let enc = EncryptionLayout::new(lay, NoiseInfos::new(k, sg, bd).unwrap()).unwrap();
    let mut sk = LWESecret::alloc(Degree(n_lwe as u32));
    fill_lwe_secret(&mut sk, c.dist.adapt(n_lwe), &mut Source::new(seed32(c.seed, 1)));
    let mut pt = LWEPlaintext::alloc(Base2K(b as u32), TorusPrecision(k as u32));
    let vals = gen_column(VClass::Uniform, b, 1, size, c.seed ^ 0x77);
    for (j, v) in vals.iter().enumerate() {
        pt.data_mut().at_mut(0, j)[0] = v[0];
    }
    let seed = seed32(c.seed, 0xA);
    let mut scratch = pzv_be::dirty_scratch::<B>(m.lwe_encrypt_sk_tmp_bytes(&lay) + 4096);
    let mut ct = LWE::alloc_from_infos(&lay);
    m.lwe_encrypt_sk(&mut ct, &pt, &sk, &enc, &mut Source::new(seed32(c.seed, 0xE)), &mut Source::new(seed), scratch.borrow());
    // compressed form (seed, body), assembled through the public serialisation: k, base2k, seed, VecZnx(n=1)
    let mut body = VecZnx::alloc(1, 1, size);
    for j in 0..size {
        body.at_mut(0, j)[0] = ct.data().at(0, j)[0];
    }
    let mut stream = vec![];
    stream.extend((k as u32).to_le_bytes());
    stream.extend((b as u32).to_le_bytes());
    stream.extend(seed);
    body.write_to(&mut stream).unwrap();
    let mut cmp = LWECompressed::alloc(Base2K(b as u32), TorusPrecision(k as u32));
    cmp.read_from(&mut &stream[..]).unwrap();
    if c.via_serde {
        let mut again = vec![];
        cmp.write_to(&mut again).unwrap();
        let mut c2 = LWECompressed::alloc(Base2K(b as u32), TorusPrecision(k as u32));
        c2.read_from(&mut &again[..]).unwrap();
        cmp = c2;
    }
    let mut out = LWE::alloc_from_infos(&lay);
    // garbage in the receiver: every coefficient must be overwritten
    for x in out.data_mut().raw_mut().iter_mut() {
        *x = 0x1234_5678;
    }
    m.decompress_lwe(&mut out, &cmp);
    (ct.data().raw().to_vec(), out.data().raw().to_vec(), stream)
}

pub fn lwe_test(c0: &LweCase) -> Verdict {
    let mut c = c0.clone();
    c.n_lwe = c.n_lwe.clamp(1, 700);
    c.base2k = c.base2k.clamp(2, 40);
    c.size = c.size.clamp(1, 5);
    c.krem %= c.base2k;
    let log_n = 3u8;
    let (std, dec, stream) = with_backend!(c.be, log_n, |m| lwe_run(m, &c));
    if std != dec {
        let first = std.iter().zip(dec.iter()).position(|(x, y)| x != y).unwrap_or(0);
        return Verdict::fail("lwe|decompressed-differs-from-standard", format!("backend={}: decompress(seed, body of the standard encryption whose mask stream is Source::new(seed)) differs from that encryption (first difference at raw index {first} of {})\ncase={c:?}", c.be.name(), std.len()));
    }
    let other = match c.be {
        Be::FftRef => Be::NttAvx,
        Be::FftAvx => Be::NttRef,
        Be::NttRef => Be::FftAvx,
        Be::NttAvx => Be::FftRef,
    };
    let (std2, dec2, stream2) = with_backend!(other, log_n, |m| lwe_run(m, &c));
    if std2 != std || dec2 != dec || stream2 != stream {
        return Verdict::fail("lwe|cross-backend", format!("{} and {} disagree on the LWE encryption / compressed stream / decompression for equal seeds\ncase={c:?}", c.be.name(), other.name()));
    }
    let mut cl = vec!["lwe", c.be.name()];
    if c.via_serde {
        cl.push("via_serialisation");
    }
    if c.krem != 0 {
        cl.push("k_not_multiple_of_radix");
    }
    Verdict::pass(c.n_lwe >= 2, &cl)
}

fn lwe_strategy() -> BoxedStrategy<LweCase> {
    (crate::c01::be_strategy(), prop_oneof![1u16..=16, 1u16..=700], 2u8..=40, 1u8..=5, any::<u8>(), dist_strategy(), 0u8..3, any::<u64>(), any::<bool>())
        .prop_map(|(be, n_lwe, base2k, size, krem, dist, noise, seed, via_serde)| LweCase { be, n_lwe, base2k, size, krem, dist, noise, seed, via_serde })
        .boxed()
}

// ---------------------------------------------------------------------------
// switching keys between secrets of different ring degrees (both <= N): the degrees the object
// records must be the same for the compressed and the standard routine, and survive
// serialisation and decompression
// ---------------------------------------------------------------------------

#[derive(Clone, Debug, Serialize, Deserialize)]
pub struct DegCase {
    pub be: Be,
    pub log_n: u8,
    pub in_shift: u8,
    pub out_shift: u8,
    pub rank_in: u8,
    pub rank_out: u8,
    pub seed: u64,
}

/// (input_degree, output_degree) of: standard key, compressed key, compressed key after write/read, decompressed key,
/// decompressed key of the re-read object
fn deg_run<B: FullBackend>(m: &poulpy_hal::layouts::Module<B>, c: &DegCase) -> Vec<(u32, u32)> {
    use poulpy_core::layouts::compressed::GLWESwitchingKeyCompressed;
    use poulpy_core::layouts::{Base2K, Degree, Dnum, Dsize, GLWESecret, GLWESwitchingKey, GLWESwitchingKeyDecompress, GLWESwitchingKeyDegrees, GLWESwitchingKeyLayout, Rank, TorusPrecision};
    use poulpy_core::{EncryptionLayout, GLWESwitchingKeyCompressedEncryptSk, GLWESwitchingKeyEncryptSk};
    use poulpy_hal::api::ScratchOwnedBorrow;
    use poulpy_hal::layouts::{ReaderFrom, WriterTo};
    let n = 1usize << c.log_n;
    let (n_in, n_out) = (n >> c.in_shift, n >> c.out_shift);
    let lay = GLWESwitchingKeyLayout { n: Degree(n as u32), base2k: Base2K(14), k: TorusPrecision(42), rank_in: Rank(c.rank_in as u32), rank_out: Rank(c.rank_out as u32), dnum: Dnum(2), dsize: Dsize(1) };
    let enc = EncryptionLayout::new_from_default_sigma(lay).unwrap();
    let mut xs = Source::new(seed32(c.seed, 1));
    let mut sk_in = GLWESecret::alloc(Degree(n_in as u32), Rank(c.rank_in as u32));
    sk_in.fill_ternary_prob(0.5, &mut xs);
    let mut sk_out = GLWESecret::alloc(Degree(n_out as u32), Rank(c.rank_out as u32));
    sk_out.fill_ternary_prob(0.5, &mut xs);
    let mut scratch = pzv_be::dirty_scratch::<B>(m.glwe_switching_key_compressed_encrypt_sk_tmp_bytes(&lay).max(m.glwe_switching_key_encrypt_sk_tmp_bytes(&lay)) + (1 << 16));
    let mut full = GLWESwitchingKey::alloc_from_infos(&lay);
    m.glwe_switching_key_encrypt_sk(&mut full, &sk_in, &sk_out, &enc, &mut Source::new(seed32(c.seed, 3)), &mut Source::new(seed32(c.seed, 5)), scratch.borrow());
    let mut comp = GLWESwitchingKeyCompressed::alloc_from_infos(&lay);
    m.glwe_switching_key_compressed_encrypt_sk(&mut comp, &sk_in, &sk_out, seed32(c.seed, 9), &enc, &mut Source::new(seed32(c.seed, 3)), scratch.borrow());
    let mut bytes = vec![];
    comp.write_to(&mut bytes).unwrap();
    let mut comp_rt = GLWESwitchingKeyCompressed::alloc_from_infos(&lay);
    comp_rt.read_from(&mut &bytes[..]).unwrap();
    let mut exp = GLWESwitchingKey::alloc_from_infos(&lay);
    m.decompress_glwe_switching_key(&mut exp, &comp);
    let mut exp_rt = GLWESwitchingKey::alloc_from_infos(&lay);
    m.decompress_glwe_switching_key(&mut exp_rt, &comp_rt);
    vec![
        (full.input_degree().0, full.output_degree().0),
        (comp.input_degree().0, comp.output_degree().0),
        (comp_rt.input_degree().0, comp_rt.output_degree().0),
        (exp.input_degree().0, exp.output_degree().0),
        (exp_rt.input_degree().0, exp_rt.output_degree().0),
    ]
}

pub fn deg_test(c0: &DegCase) -> Verdict {
    let mut c = c0.clone();
    c.log_n = c.log_n.clamp(4, 6);
    c.in_shift %= 3;
    c.out_shift %= 3;
    c.rank_in = c.rank_in.clamp(1, 3);
    c.rank_out = c.rank_out.clamp(1, 3);
    let d = with_backend!(c.be, c.log_n, |m| deg_run(m, &c));
    if d.iter().any(|x| *x != d[0]) {
        return Verdict::fail(
            "glwe_switching_key|secret-degrees-differ-from-standard",
            format!(
                "backend={}: (input_degree, output_degree) recorded by the standard routine {:?}, by the compressed routine {:?}, after write/read {:?}, after decompression {:?}, after write/read and decompression {:?} (secrets of degree {} and {})\ncase={c:?}",
                c.be.name(),
                d[0],
                d[1],
                d[2],
                d[3],
                d[4],
                (1usize << c.log_n) >> c.in_shift,
                (1usize << c.log_n) >> c.out_shift
            ),
        );
    }
    Verdict::pass(c.in_shift != c.out_shift, &["switching_key_degrees", c.be.name(), if c.in_shift != c.out_shift { "distinct_degrees" } else { "equal_degrees" }])
}

fn deg_strategy() -> BoxedStrategy<DegCase> {
    (crate::c01::be_strategy(), 4u8..=6, 0u8..3, 0u8..3, 1u8..=3, 1u8..=3, any::<u64>())
        .prop_map(|(be, log_n, in_shift, out_shift, rank_in, rank_out, seed)| DegCase { be, log_n, in_shift, out_shift, rank_in, rank_out, seed })
        .boxed()
}

pub fn run_all(ctx: &Ctx) {
    let t = ctx.tier;
    ctx.run_sub("compressed_equals_standard", t.pick(6_000, 80_000), 64, strategy, test);
    ctx.run_sub("lwe_compressed_equals_standard", t.pick(20_000, 400_000), 64, lwe_strategy, lwe_test);
    ctx.run_sub("switching_key_secret_degrees", t.pick(1_024, 16_000), 64, deg_strategy, deg_test);
}

pub fn replay(ctx: &Ctx, sub: &str, case: &serde_json::Value) -> i32 {
    if sub == "switching_key_secret_degrees" {
        return ctx.replay_case::<DegCase, _>(sub, case, deg_test);
    }
    if sub == "lwe_compressed_equals_standard" {
        return ctx.replay_case::<LweCase, _>(sub, case, lwe_test);
    }
    ctx.replay_case::<Case, _>(sub, case, test)
}

pub const RULE: &str = "cases = (backend, compressed layout in {GLWE, GGLWE, GGSW, GLWE switching key, automorphism key, tensor key, GGLWE-to-GGSW key, blind-rotation key (CGGI; LWE dimension 1..6, binary block / probability / fixed-weight LWE secret; its GGSWs are read back through the public serialisation)}, N 8..128, radix 2..40 inside the backend domain, ranks 1..3 (in/out), dnum 1..3, dsize 1..2, every secret distribution, three noise settings, generated sk/xa/xe/pt seeds, with and without a write_to/read_from round trip of the compressed object). For the GGLWE-like layouts the compressed object is also decompressed into a receiver with fewer rows (admitted: res.dnum() <= other.dnum()), and automorphism keys use any odd Galois element in (-2N, 2N) whose value must survive compression, serialisation and decompression. Oracle: per cell, masks == fill_uniform from Source::new(stored seed) in column order (bit exact); exact phase == phase of the standard encryption's cell under the same error seed (exact torus equality: same plaintext, same error sample); digits normalised; decompression identical after serialisation; bytes identical on a second backend of the other family. non-trivial = at least two cells or rank >= 2. Sub-check lwe_compressed_equals_standard: (backend, LWE dimension 1..700, radix 2..40, 1..5 limbs, k residue, secret distribution, noise, seed): the compressed form (seed, body) of the standard lwe_encrypt_sk run with mask stream Source::new(seed), assembled through the public stream format, must decompress (into a garbage-filled receiver) to that ciphertext bit for bit, also after a serialisation round trip and on a second backend; non-trivial = dimension >= 2. Sub-check switching_key_secret_degrees: (backend, N 16..64, secrets of degree N, N/2 or N/4 on either side, ranks 1..3): the (input, output) secret degrees recorded by glwe_switching_key_compressed_encrypt_sk must equal those recorded by the standard routine and survive write/read and decompression; non-trivial = distinct degrees.";
