//! Scheme-level helpers: layouts, secrets, exact phases.

use dashu_int::IBig;
use poulpy_core::layouts::{GLWESecret, LWEInfos, LWESecret};
use poulpy_hal::layouts::{DataRef, VecZnx, ZnxInfos, ZnxView};
use poulpy_hal::source::Source;
use proptest::prelude::*;
use pzv_common::model::*;
use serde::{Deserialize, Serialize};

#[derive(Clone, Copy, Debug, Serialize, Deserialize, PartialEq)]
pub enum Dist {
    TernaryProb(u8),
    TernaryHw(u16),
    BinaryProb(u8),
    BinaryHw(u16),
    BinaryBlock(u8),
    Zero,
}

impl Dist {
    pub fn name(&self) -> &'static str {
        match self {
            Dist::TernaryProb(_) => "ternary_prob",
            Dist::TernaryHw(_) => "ternary_hw",
            Dist::BinaryProb(_) => "binary_prob",
            Dist::BinaryHw(_) => "binary_hw",
            Dist::BinaryBlock(_) => "binary_block",
            Dist::Zero => "zero_secret",
        }
    }
    /// canonical form for ring degree n
    pub fn adapt(self, n: usize) -> Dist {
        match self {
            Dist::TernaryProb(p) => Dist::TernaryProb(p.clamp(1, 15)),
            Dist::BinaryProb(p) => Dist::BinaryProb(p.clamp(1, 15)),
            Dist::TernaryHw(h) => Dist::TernaryHw(h.min(n as u16)),
            Dist::BinaryHw(h) => Dist::BinaryHw(h.min(n as u16)),
            Dist::BinaryBlock(b) => {
                // block size must divide n
                let mut bs = (b as usize).clamp(1, n.min(8));
                while n % bs != 0 {
                    bs -= 1;
                }
                Dist::BinaryBlock(bs as u8)
            }
            Dist::Zero => Dist::Zero,
        }
    }
}

pub fn dist_strategy() -> impl Strategy<Value = Dist> {
    prop_oneof![
        4 => (1u8..=15).prop_map(Dist::TernaryProb),
        2 => any::<u16>().prop_map(Dist::TernaryHw),
        2 => (1u8..=15).prop_map(Dist::BinaryProb),
        2 => any::<u16>().prop_map(Dist::BinaryHw),
        1 => (1u8..=8).prop_map(Dist::BinaryBlock),
        1 => Just(Dist::Zero),
    ]
}

pub fn seed32(s: u64, salt: u64) -> [u8; 32] {
    let mut r = SplitMix::new(s ^ salt.wrapping_mul(0x9E3779B97F4A7C15));
    r.seed32()
}

pub fn fill_glwe_secret(sk: &mut GLWESecret<Vec<u8>>, dist: Dist, source: &mut Source) {
    match dist {
        Dist::TernaryProb(p) => sk.fill_ternary_prob(p as f64 / 16.0, source),
        Dist::TernaryHw(h) => sk.fill_ternary_hw(h as usize, source),
        Dist::BinaryProb(p) => sk.fill_binary_prob(p as f64 / 16.0, source),
        Dist::BinaryHw(h) => sk.fill_binary_hw(h as usize, source),
        Dist::BinaryBlock(b) => sk.fill_binary_block(b as usize, source),
        Dist::Zero => sk.fill_zero(),
    }
}

pub fn fill_lwe_secret(sk: &mut LWESecret<Vec<u8>>, dist: Dist, source: &mut Source) {
    match dist {
        Dist::TernaryProb(p) => sk.fill_ternary_prob(p as f64 / 16.0, source),
        Dist::TernaryHw(h) => sk.fill_ternary_hw(h as usize, source),
        Dist::BinaryProb(p) => sk.fill_binary_prob(p as f64 / 16.0, source),
        Dist::BinaryHw(h) => sk.fill_binary_hw(h as usize, source),
        Dist::BinaryBlock(b) => sk.fill_binary_block(b as usize, source),
        Dist::Zero => sk.fill_zero(),
    }
}

/// clear GLWE secret coefficients through hook H4
pub fn glwe_secret_coeffs<D: DataRef>(sk: &GLWESecret<D>) -> Vec<Vec<i64>> {
    let d = sk.verif_data();
    (0..d.cols()).map(|i| d.at(i, 0).to_vec()).collect()
}

pub fn l1(s: &[Vec<i64>]) -> u64 {
    s.iter().map(|p| p.iter().map(|x| x.unsigned_abs()).sum::<u64>()).max().unwrap_or(0)
}

pub fn l1_sum(s: &[Vec<i64>]) -> u64 {
    s.iter().map(|p| p.iter().map(|x| x.unsigned_abs()).sum::<u64>()).sum()
}

/// a (*) s accumulated into acc (i128), s small
pub fn mac_small(acc: &mut [i128], a: &[i64], s: &[i64]) {
    negacyclic_mac_i128(acc, s, a);
}

/// Unreduced phase limbs of a GLWE-shaped VecZnx (column 0 = body, columns 1.. = mask):
/// phase_j = c_0[j] + sum_i c_i[j] (*) s_{i-1}.   Returned limb-major.
pub fn glwe_phase_limbs<D: DataRef>(ct: &VecZnx<D>, sk: &[Vec<i64>]) -> Vec<Vec<i128>> {
    let n = ct.n();
    let cols = ct.cols();
    (0..ct.size())
        .map(|j| {
            let mut acc: Vec<i128> = ct.at(0, j).iter().map(|x| *x as i128).collect();
            for i in 1..cols {
                if i - 1 < sk.len() {
                    mac_small(&mut acc, ct.at(i, j), &sk[i - 1]);
                }
            }
            debug_assert_eq!(acc.len(), n);
            acc
        })
        .collect()
}

/// LWE phase: b + <a, s>, limb-major scalar values
pub fn lwe_phase_limbs<D: DataRef>(ct: &VecZnx<D>, sk: &[i64]) -> Vec<i128> {
    (0..ct.size())
        .map(|j| {
            let l = ct.at(0, j);
            let mut acc = l[0] as i128;
            for (i, s) in sk.iter().enumerate() {
                acc += l[i + 1] as i128 * *s as i128;
            }
            acc
        })
        .collect()
}

/// torus value of coefficient i given limb-major integer limbs
pub fn value_of(limbs: &[Vec<i128>], b: usize, i: usize) -> Dyadic {
    let d: Vec<i128> = limbs.iter().map(|l| l[i]).collect();
    Dyadic::from_limbs_i128(&d, b)
}

pub fn value_of_znx<D: DataRef>(v: &VecZnx<D>, col: usize, b: usize, i: usize) -> Dyadic {
    let d: Vec<i64> = (0..v.size()).map(|j| v.at(col, j)[i]).collect();
    Dyadic::from_limbs_i64(&d, b)
}

/// |x - y| mod 1 as an exact dyadic (centred)
pub fn torus_err(x: &Dyadic, y: &Dyadic) -> Dyadic {
    let d = x.sub(y);
    Dyadic {
        num: centered_mod_pow2(&d.num, d.exp),
        exp: d.exp,
    }
}

/// |d| <= num_bound / 2^exp_bound ?
pub fn abs_le(d: &Dyadic, bound_num: &IBig, bound_exp: usize) -> bool {
    let a = if d.num < IBig::ZERO { -&d.num } else { d.num.clone() };
    // a / 2^d.exp <= bound_num / 2^bound_exp
    (a << bound_exp) <= (bound_num.clone() << d.exp)
}

/// digit width limit so that products with a secret of 1-norm `l1` stay inside the
/// FFT64 exactness domain: l1 * 2^(b-1) * (8 log2 N + 8) < 2^51
pub fn fft_max_base2k(log_n: u8, l1: u64) -> u8 {
    let guard = 64 - ((8 * log_n as u64 + 8).max(1) - 1).leading_zeros() as i64;
    let l = 64 - l1.max(1).leading_zeros() as i64; // ceil-ish log2
    (51 - guard - l + 1).clamp(1, 50) as u8
}

pub fn lwe_n(l: &impl LWEInfos) -> usize {
    l.n().0 as usize
}
