//! C04 — external products and CMux multiply by the GGSW plaintext within noise; GGSW cells
//! obtained by encryption, row expansion, key-switch or automorphism all encrypt the same m2.
//!
//! Same oracle shape as C03: exact integer phases under the clear secret, expected value
//! m2 (*) phase(input) computed with the exact negacyclic product, deterministic worst-case bound
//! from the exactly extracted errors of the actual GGSW / key cells (`gad::ks_bound` with the body
//! column treated as one more gadget column).

use crate::c03::{Case, SCRATCH, adapt, build_atk, build_swk};
use crate::enc::NOISES;
use crate::gad::*;
use crate::sch::*;
use crate::sp::sp;
use poulpy_bin_fhe::bdd_arithmetic::{Cmux, Cswap};
use poulpy_core::{
    EncryptionLayout, GGLWEEncryptSk, GGLWEExternalProduct, GGLWEToGGSWKeyEncryptSk, GGSWAutomorphism, GGSWEncryptSk, GGSWExpandRows, GGSWExternalProduct, GGSWFromGGLWE, GGSWKeyswitch,
    GLWEExternalProduct,
    layouts::{
        Base2K, Degree, Dnum, Dsize, GGLWE, GGLWELayout, GGLWEToGGSWKey, GGLWEToGGSWKeyLayout, GGLWEToGGSWKeyPrepared, GGLWEToGGSWKeyPreparedFactory, GGSW, GGSWLayout,
        GGSWPreparedFactory, GLWE, GLWESecret, GLWESecretPreparedFactory, Rank, TorusPrecision, prepared::GGSWPrepared,
    },
};
use poulpy_hal::{
    api::{ScratchOwnedBorrow},
    layouts::{DeviceBuf, Module, NoiseInfos, ScalarZnx, ScratchOwned, ToOwnedDeep, VecZnx, ZnxInfos, ZnxView, ZnxViewMut},
    source::Source,
};
use pzv_be::{FullBackend, with_backend};
use pzv_common::driver::{Ctx, Verdict};
use pzv_common::model::*;

fn fail(c: &Case, op: &str, what: &str, detail: String) -> Verdict {
    Verdict::fail(format!("{op}|{what}"), format!("backend={} op={op}: {detail}\ncase={c:?}", c.be.name()))
}

fn secret(n: usize, rank: usize, dist: Dist, seed: u64, salt: u64) -> GLWESecret<Vec<u8>> {
    let mut sk = GLWESecret::alloc(Degree(n as u32), Rank(rank as u32));
    fill_glwe_secret(&mut sk, dist, &mut Source::new(seed32(seed, salt)));
    sk
}

fn l1p(p: &[i64]) -> u64 {
    p.iter().map(|x| x.unsigned_abs()).sum()
}

/// exact negacyclic product of two small integer polynomials
pub fn mul_small(a: &[i64], b: &[i64]) -> Vec<i64> {
    let n = a.len();
    let mut out = vec![0i64; n];
    for (i, x) in a.iter().enumerate() {
        if *x == 0 {
            continue;
        }
        for (j, y) in b.iter().enumerate() {
            if *y == 0 {
                continue;
            }
            let k = i + j;
            if k < n {
                out[k] += x * y;
            } else {
                out[k - n] -= x * y;
            }
        }
    }
    out
}

/// m (*) limbs, limb by limb (exact integers)
pub fn mul_limbs(m: &[i64], limbs: &[Vec<i128>]) -> Vec<Vec<i128>> {
    let n = m.len();
    limbs
        .iter()
        .map(|l| {
            let mut out = vec![0i128; n];
            for (i, x) in m.iter().enumerate() {
                if *x == 0 {
                    continue;
                }
                for (j, y) in l.iter().enumerate() {
                    let k = i + j;
                    if k < n {
                        out[k] += *x as i128 * y;
                    } else {
                        out[k - n] -= *x as i128 * y;
                    }
                }
            }
            out
        })
        .collect()
}

fn vals(limbs: &[Vec<i128>], b: usize) -> Vec<Dyadic> {
    let n = limbs[0].len();
    (0..n).map(|i| value_of(limbs, b, i)).collect()
}

pub const M2_CLASSES: [&str; 8] = ["m2=0", "m2=1", "m2=-1", "m2=X^k", "m2=-X^k", "m2=ternary_dense", "m2=small_dense", "m2=binary_sparse"];

pub fn small_poly(cls: usize, n: usize, seed: u64) -> Vec<i64> {
    let mut r = SplitMix::new(seed ^ 0x3322);
    let mut m = vec![0i64; n];
    match cls % 8 {
        0 => {}
        1 => m[0] = 1,
        2 => m[0] = -1,
        3 => m[(r.next() as usize) % n] = 1,
        4 => m[(r.next() as usize) % n] = -1,
        5 => {
            for x in m.iter_mut() {
                *x = (r.next() % 3) as i64 - 1;
            }
        }
        6 => {
            for x in m.iter_mut() {
                *x = (r.next() % 7) as i64 - 3;
            }
        }
        _ => {
            for x in m.iter_mut() {
                if r.next() % 8 == 0 {
                    *x = 1;
                }
            }
        }
    }
    m
}

fn ggsw_pts(m2: &[i64], s: &[Vec<i64>]) -> Vec<Vec<i64>> {
    let mut v = vec![m2.to_vec()];
    for si in s {
        v.push(mul_small(m2, si));
    }
    v
}

fn ggsw_cells(g: &GGSW<Vec<u8>>, dnum: usize, cols: usize) -> Vec<VecZnx<Vec<u8>>> {
    let mut v = vec![];
    for row in 0..dnum {
        for col in 0..cols {
            v.push(g.at(row, col).data().to_owned_deep());
        }
    }
    v
}

pub type GgswP<B> = GGSWPrepared<DeviceBuf<B>, B>;

/// fresh GGSW(m2) in the key layout of the case, prepared, with its exact cell errors
pub fn build_ggsw<B: FullBackend>(m: &Module<B>, c: &Case, sk: &GLWESecret<Vec<u8>>, m2: &[i64], salt: u64, scratch: &mut ScratchOwned<B>) -> Result<(GgswP<B>, KeyMeta, GGSW<Vec<u8>>), String>
where
    poulpy_hal::layouts::Scratch<B>: poulpy_hal::api::ScratchFromBytes<B>,
{
    let n = m.n();
    let r = c.rank_out as usize;
    let lay = GGSWLayout { n: Degree(n as u32), base2k: Base2K(c.kb as u32), k: TorusPrecision(c.key_k() as u32), rank: Rank(r as u32), dnum: Dnum(c.dnum as u32), dsize: Dsize(c.dsize as u32) };
    let ni = c.noise_infos();
    let enc = EncryptionLayout::new(lay, ni).unwrap();
    let mut skp = m.glwe_secret_prepared_alloc(Rank(r as u32));
    m.glwe_secret_prepare(&mut skp, sk);
    let mut pt = ScalarZnx::alloc(n, 1);
    pt.at_mut(0, 0).copy_from_slice(m2);
    let mut g = GGSW::alloc_from_infos(&lay);
    if (c.seed >> 5) & 1 == 1 {
        // the seed-compressed routine followed by decompression: same cells, same gadget rows
        use poulpy_core::GGSWCompressedEncryptSk;
        use poulpy_core::layouts::compressed::{GGSWCompressed, GGSWDecompress};
        let mut gc = GGSWCompressed::alloc_from_infos(&lay);
        m.ggsw_compressed_encrypt_sk(&mut gc, &pt, &skp, seed32(c.seed, 0xA5 + salt), &enc, &mut Source::new(seed32(c.seed, 0xE5 + salt)), scratch.borrow());
        m.decompress_ggsw(&mut g, &gc);
    } else {
        m.ggsw_encrypt_sk(&mut g, &pt, &skp, &enc, &mut Source::new(seed32(c.seed, 0xE5 + salt)), &mut Source::new(seed32(c.seed, 0xA5 + salt)), scratch.borrow());
    }
    let s = glwe_secret_coeffs(sk);
    let cells = ggsw_cells(&g, c.dnum as usize, r + 1);
    let meta = key_meta(&cells, c.kb as usize, c.dnum as usize, c.dsize as usize, r + 1, r, &s, &ggsw_pts(m2, &s), &ni)?;
    let mut prep = m.ggsw_prepared_alloc_from_infos(&g);
    m.ggsw_prepare(&mut prep, &g, sp("ggsw_prepare", m.ggsw_prepare_tmp_bytes(&g), scratch));
    Ok((prep, meta, g))
}

fn glwe(n: usize, l: Lay, rank: usize) -> GLWE<Vec<u8>> {
    GLWE::alloc(Degree(n as u32), Base2K(l.b as u32), TorusPrecision((l.size * l.b) as u32), Rank(rank as u32))
}

fn pt_l1(m2: &[i64], s: &[Vec<i64>]) -> Vec<u64> {
    ggsw_pts(m2, s).iter().map(|p| l1p(p)).collect()
}

fn classes(c: &Case, bound: f64, e: f64, m2cls: usize) -> (bool, Vec<&'static str>) {
    let mut cl = vec![c.be.name(), M2_CLASSES[m2cls % 8]];
    if c.dsize > 1 {
        cl.push("dsize>1");
        if size_in_key_radix(c.a_lay(), c.kb as usize) % c.dsize as usize != 0 {
            cl.push("a_size_not_multiple_of_dsize");
        }
    }
    match (c.ab != c.kb, c.rb != c.kb) {
        (true, true) => cl.push("three_way_radix"),
        (true, false) | (false, true) => cl.push("two_way_radix"),
        _ => cl.push("same_radix"),
    }
    cl.push(if c.adelta < 0 { "ggsw_precision_above_glwe" } else if c.adelta == 0 { "ggsw_matches_glwe" } else { "ggsw_precision_below_glwe" });
    let ratio = if bound > 0.0 { e / bound } else { 0.0 };
    cl.push(if ratio >= 1.0 / 16.0 { "err/bound>=2^-4" } else if ratio >= 1.0 / 256.0 { "err/bound in 2^-8..2^-4" } else { "err/bound<2^-8" });
    let informative = bound < p2(-8);
    cl.push(if informative { "bound<2^-8" } else { "bound>=2^-8(vacuous)" });
    (informative, cl)
}

// ------------------------------------------------------------------------------------------
// 1. glwe_external_product(_assign)

fn run_ext<B: FullBackend>(m: &Module<B>, c: &Case) -> Verdict
where
    poulpy_hal::layouts::Scratch<B>: poulpy_hal::api::ScratchFromBytes<B>,
{
    let n = m.n();
    let mut scratch = pzv_be::dirty_scratch::<B>(SCRATCH);
    let assign = c.op % 2 == 1;
    let opn = if assign { "glwe_external_product_assign" } else { "glwe_external_product" };
    let r = c.rank_out as usize;
    let sk = secret(n, r, c.dist, c.seed, 1);
    let s = glwe_secret_coeffs(&sk);
    let m2cls = c.idx as usize % 8;
    let m2 = small_poly(m2cls, n, c.seed);
    let (g, meta, _) = match build_ggsw(m, c, &sk, &m2, 0, &mut scratch) {
        Ok(x) => x,
        Err(e) => return fail(c, "ggsw_encrypt_sk", "cell-wrong", e),
    };
    let (al, rl) = if assign { (c.a_lay(), c.a_lay()) } else { (c.a_lay(), c.r_lay()) };
    let mut a = glwe(n, al, r);
    arbitrary_glwe(&mut a, c.cls, c.seed ^ 0xA);
    let want = vals(&mul_limbs(&m2, &glwe_phase_limbs(a.data(), &s)), al.b);
    let got = if assign {
        m.glwe_external_product_assign(&mut a, &g, scratch.borrow());
        phase_vals(a.data(), &s, al.b)
    } else {
        let mut res = glwe(n, rl, r);
        arbitrary_glwe(&mut res, VClass::Uniform, c.seed ^ 0xB);
        m.glwe_external_product(&mut res, &a, &g, scratch.borrow());
        phase_vals(res.data(), &s, rl.b)
    };
    let bound = ks_bound(&meta, al, rl, n, &pt_l1(&m2, &s), l1_sum(&s));
    let (e, i) = max_err(&got, &want);
    if e > bound {
        return fail(c, opn, "phase-error-above-gadget-bound", format!("{} coefficient {i}: |phase(res) - m2*phase(a)| = {e:.4e} exceeds the bound {bound:.4e} (GGSW error max {:.3e}, GGSW {}x{} limbs of {} bits, input {:?}, result {:?})", M2_CLASSES[m2cls], meta.err_max, c.dnum, c.dsize, c.kb, al, rl));
    }
    let (nt, mut cl) = classes(c, bound, e, m2cls);
    cl.push(opn);
    Verdict::pass(nt && m2cls != 0, &cl)
}

// ------------------------------------------------------------------------------------------
// 2. gglwe_external_product / ggsw_external_product (+ assign): cell-wise external products

pub const MAT_OPS: [&str; 4] = ["gglwe_external_product", "gglwe_external_product_assign", "ggsw_external_product", "ggsw_external_product_assign"];

fn fill_cell(cell: &mut GLWE<&mut [u8]>, cls: VClass, b: usize, n: usize, seed: u64) {
    let (cols, size) = (cell.data().cols(), cell.data().size());
    for cc in 0..cols {
        let limbs = gen_column(if cc == 0 { cls } else { VClass::Uniform }, b, n, size, seed ^ (cc as u64 + 1) * 0x9191);
        for (j, lb) in limbs.iter().enumerate() {
            cell.data_mut().at_mut(cc, j).copy_from_slice(lb);
        }
    }
}

fn run_mat<B: FullBackend>(m: &Module<B>, c: &Case) -> Verdict
where
    poulpy_hal::layouts::Scratch<B>: poulpy_hal::api::ScratchFromBytes<B>,
{
    let n = m.n();
    let mut scratch = pzv_be::dirty_scratch::<B>(SCRATCH);
    let op = (c.op % 4) as usize;
    let opn = MAT_OPS[op];
    let assign = op % 2 == 1;
    let r = c.rank_out as usize;
    let sk = secret(n, r, c.dist, c.seed, 1);
    let s = glwe_secret_coeffs(&sk);
    let m2cls = c.idx as usize % 8;
    let m2 = small_poly(m2cls, n, c.seed);
    let (g, meta, _) = match build_ggsw(m, c, &sk, &m2, 0, &mut scratch) {
        Ok(x) => x,
        Err(e) => return fail(c, "ggsw_encrypt_sk", "cell-wrong", e),
    };
    // the matrix being multiplied: arbitrary cells, own gadget shape
    let al = c.a_lay();
    let rl = if assign { al } else { Lay { b: al.b, size: c.rsize as usize } };
    let a_dsize = 1 + (c.skip as usize % 2);
    let a_dnum = (al.size.saturating_sub(1) / a_dsize).clamp(1, 3);
    let r_dnum = if assign { a_dnum } else { (1 + (c.gal.unsigned_abs() as usize % (a_dnum + 1))).min(3) };
    if al.size <= a_dsize || rl.size <= a_dsize || a_dnum * a_dsize > al.size || r_dnum * a_dsize > rl.size {
        return Verdict::pass(false, &["layout_rejected_by_constructor"]);
    }
    let outer = if op < 2 { 1 + (c.n_lwe as usize % 3) } else { r + 1 };
    let (bb, dd) = (Base2K(al.b as u32), Dsize(a_dsize as u32));
    let min_dnum = a_dnum.min(r_dnum);
    let mut want: Vec<Vec<Dyadic>> = vec![];
    let mut got: Vec<Vec<Dyadic>> = vec![];
    let mut tail_zero = true;
    if op < 2 {
        let mut a = GGLWE::alloc(Degree(n as u32), bb, TorusPrecision((al.size * al.b) as u32), Rank(outer as u32), Rank(r as u32), Dnum(a_dnum as u32), dd);
        for row in 0..a_dnum {
            for col in 0..outer {
                fill_cell(&mut a.at_mut(row, col), c.cls, al.b, n, c.seed ^ ((row * 8 + col) as u64 + 3));
            }
        }
        for i in 0..min_dnum * outer {
            want.push(vals(&mul_limbs(&m2, &glwe_phase_limbs(a.at(i / outer, i % outer).data(), &s)), al.b));
        }
        if assign {
            let q_ = m.gglwe_external_product_tmp_bytes(&a, &a, &g);
            m.gglwe_external_product_assign(&mut a, &g, sp("gglwe_external_product_assign", q_, &mut scratch));
            for i in 0..min_dnum * outer {
                got.push(phase_vals(a.at(i / outer, i % outer).data(), &s, al.b));
            }
        } else {
            let mut res = GGLWE::alloc(Degree(n as u32), bb, TorusPrecision((rl.size * rl.b) as u32), Rank(outer as u32), Rank(r as u32), Dnum(r_dnum as u32), dd);
            for row in 0..r_dnum {
                for col in 0..outer {
                    fill_cell(&mut res.at_mut(row, col), VClass::Uniform, rl.b, n, c.seed ^ ((row * 8 + col) as u64 + 333));
                }
            }
            let q_ = m.gglwe_external_product_tmp_bytes(&res, &a, &g);
            m.gglwe_external_product(&mut res, &a, &g, sp("gglwe_external_product", q_, &mut scratch));
            for i in 0..min_dnum * outer {
                got.push(phase_vals(res.at(i / outer, i % outer).data(), &s, rl.b));
            }
            for row in min_dnum..r_dnum {
                for col in 0..outer {
                    tail_zero &= res.at(row, col).data().raw().iter().all(|x| *x == 0);
                }
            }
        }
    } else {
        let mut a = GGSW::alloc(Degree(n as u32), bb, TorusPrecision((al.size * al.b) as u32), Rank(r as u32), Dnum(a_dnum as u32), dd);
        for row in 0..a_dnum {
            for col in 0..outer {
                fill_cell(&mut a.at_mut(row, col), c.cls, al.b, n, c.seed ^ ((row * 8 + col) as u64 + 3));
            }
        }
        for i in 0..min_dnum * outer {
            want.push(vals(&mul_limbs(&m2, &glwe_phase_limbs(a.at(i / outer, i % outer).data(), &s)), al.b));
        }
        if assign {
            let q_ = m.ggsw_external_product_tmp_bytes(&a, &a, &g);
            m.ggsw_external_product_assign(&mut a, &g, sp("ggsw_external_product_assign", q_, &mut scratch));
            for i in 0..min_dnum * outer {
                got.push(phase_vals(a.at(i / outer, i % outer).data(), &s, al.b));
            }
        } else {
            let mut res = GGSW::alloc(Degree(n as u32), bb, TorusPrecision((rl.size * rl.b) as u32), Rank(r as u32), Dnum(r_dnum as u32), dd);
            for row in 0..r_dnum {
                for col in 0..outer {
                    fill_cell(&mut res.at_mut(row, col), VClass::Uniform, rl.b, n, c.seed ^ ((row * 8 + col) as u64 + 333));
                }
            }
            let q_ = m.ggsw_external_product_tmp_bytes(&res, &a, &g);
            m.ggsw_external_product(&mut res, &a, &g, sp("ggsw_external_product", q_, &mut scratch));
            for i in 0..min_dnum * outer {
                got.push(phase_vals(res.at(i / outer, i % outer).data(), &s, rl.b));
            }
            for row in min_dnum..r_dnum {
                for col in 0..outer {
                    tail_zero &= res.at(row, col).data().raw().iter().all(|x| *x == 0);
                }
            }
        }
    }
    if !tail_zero {
        return fail(c, opn, "rows-beyond-input-not-zero", format!("result has {r_dnum} rows, input {a_dnum}: the rows without a source are documented to be zeroed"));
    }
    let bound = ks_bound(&meta, al, rl, n, &pt_l1(&m2, &s), l1_sum(&s));
    if std::env::var("PZV_DEBUG").is_ok() {
        {
            use poulpy_core::GLWENormalize;
            use poulpy_hal::layouts::ZnxView;
            let kb = c.kb as usize;
            let mut a0 = glwe(n, al, r);
            arbitrary_glwe(&mut a0, c.cls, c.seed ^ 0xA);
            let mut conv = glwe(n, Lay { b: kb, size: al.bits().div_ceil(kb) }, r);
            m.glwe_normalize(&mut conv, &a0, scratch.borrow());
            for j in 0..conv.data().size() {
                let mx = conv.data().at(0, j).iter().map(|x| x.abs()).max().unwrap();
                let mn = conv.data().at(0, j).iter().min().unwrap();
                let ma = conv.data().at(0, j).iter().max().unwrap();
                eprintln!("DEBUG conv limb {j}: max|d|/2^(b-1) = {} min {} max {}", mx as f64 / p2(kb as i64 - 1), *mn as f64 / p2(kb as i64 - 1), *ma as f64 / p2(kb as i64 - 1));
            }
        }
        eprintln!("DEBUG s={:?} m2={:?} meta={:?} al={:?} rl={:?} a_dnum={a_dnum} a_dsize={a_dsize} r_dnum={r_dnum}", s, m2, meta, al, rl);
        for (gv, wv) in got.iter().zip(want.iter()) {
            eprintln!("DEBUG errs/bound: {:?}", gv.iter().zip(wv.iter()).map(|(g, w)| torus_err(g, w).approx_f64() / bound).collect::<Vec<_>>());
        }
    }
    let mut emax = 0f64;
    for (i, (gv, wv)) in got.iter().zip(want.iter()).enumerate() {
        let (e, j) = max_err(gv, wv);
        if e > bound {
            return fail(c, opn, "phase-error-above-gadget-bound", format!("{} cell (row {}, column {}) coefficient {j}: |phase(res) - m2*phase(a)| = {e:.4e} exceeds the bound {bound:.4e}", M2_CLASSES[m2cls], i / outer, i % outer));
        }
        emax = emax.max(e);
    }
    let (nt, mut cl) = classes(c, bound, emax, m2cls);
    cl.push(opn);
    if r_dnum > a_dnum {
        cl.push("res_more_rows_than_input");
    } else if r_dnum < a_dnum {
        cl.push("res_fewer_rows");
    }
    Verdict::pass(nt && m2cls != 0, &cl)
}

// ------------------------------------------------------------------------------------------
// 3. CMux / CSwap (poulpy-bin-fhe): res = (t - f) * GGSW(bit) + f

pub const CMUX_OPS: [&str; 4] = ["cmux", "cmux_assign_neg", "cmux_assign", "cswap"];

fn run_cmux<B: FullBackend>(m: &Module<B>, c: &Case) -> Verdict
where
    poulpy_hal::layouts::Scratch<B>: poulpy_hal::api::ScratchFromBytes<B>,
{
    let n = m.n();
    let mut scratch = pzv_be::dirty_scratch::<B>(SCRATCH);
    let op = (c.op % 4) as usize;
    let opn = CMUX_OPS[op];
    let r = c.rank_out as usize;
    let sk = secret(n, r, c.dist, c.seed, 1);
    let s = glwe_secret_coeffs(&sk);
    // selector: mostly a bit, sometimes a general small polynomial (the identity res = (t-f)*m2 + f still holds)
    let m2cls = [0usize, 1, 1, 0, 3, 5, 1, 0][c.idx as usize % 8];
    let m2 = small_poly(m2cls, n, c.seed);
    let (g, meta, _) = match build_ggsw(m, c, &sk, &m2, 0, &mut scratch) {
        Ok(x) => x,
        Err(e) => return fail(c, "ggsw_encrypt_sk", "cell-wrong", e),
    };
    let al = c.a_lay();
    // second operand: same size, or up to two limbs shorter / longer (so that it stays near what the GGSW covers)
    let fl = Lay { b: al.b, size: if c.skip & 1 == 0 { al.size } else { (al.size as i64 + ((c.skip >> 1) % 5) as i64 - 2).clamp(1, 16) as usize } };
    let mut t = glwe(n, al, r);
    arbitrary_glwe(&mut t, c.cls, c.seed ^ 0xA);
    let mut f = glwe(n, fl, r);
    arbitrary_glwe(&mut f, c.cls, c.seed ^ 0xF);
    let (pt, pf) = (glwe_phase_limbs(t.data(), &s), glwe_phase_limbs(f.data(), &s));
    let (vt, vf) = (vals(&pt, al.b), vals(&pf, fl.b));
    // m2 * (x - y) + y
    let mux = |x: &[Vec<i128>], bx: usize, y: &[Vec<i128>], by: usize| -> Vec<Dyadic> {
        let (mx, my) = (vals(&mul_limbs(&m2, x), bx), vals(&mul_limbs(&m2, y), by));
        let vy = vals(y, by);
        (0..n).map(|i| mx[i].sub(&my[i]).add(&vy[i])).collect()
    };
    let so = 1.0 + l1_sum(&s) as f64;
    // the product input is the un-normalised difference of two normalised vectors: digits up to 2 * 2^(b-1)
    let dl = Lay { b: al.b, size: al.size.max(fl.size) };
    let (got, want, rl): (Vec<Vec<Dyadic>>, Vec<Vec<Dyadic>>, Lay) = match op {
        0 => {
            let rl = Lay { b: al.b, size: (c.rsize as usize).clamp(1, 12) };
            let mut res = glwe(n, rl, r);
            arbitrary_glwe(&mut res, VClass::Uniform, c.seed ^ 0xB);
            m.cmux(&mut res, &t, &f, &g, scratch.borrow());
            (vec![phase_vals(res.data(), &s, rl.b)], vec![mux(&pt, al.b, &pf, fl.b)], rl)
        }
        1 => {
            // res = (a - res) * s + res
            m.cmux_assign_neg(&mut f, &t, &g, scratch.borrow());
            (vec![phase_vals(f.data(), &s, fl.b)], vec![mux(&pt, al.b, &pf, fl.b)], fl)
        }
        2 => {
            // res = (res - a) * s + a
            m.cmux_assign(&mut t, &f, &g, scratch.borrow());
            (vec![phase_vals(t.data(), &s, al.b)], vec![mux(&pt, al.b, &pf, fl.b)], al)
        }
        _ => {
            // (a, b) -> ((b - a) * s + a, b - (b - a) * s)
            m.cswap(&mut t, &mut f, &g, scratch.borrow());
            let wa = mux(&pf, fl.b, &pt, al.b);
            let wb = mux(&pt, al.b, &pf, fl.b);
            (vec![phase_vals(t.data(), &s, al.b), phase_vals(f.data(), &s, fl.b)], vec![wa, wb], Lay { b: al.b, size: al.size.min(fl.size) })
        }
    };
    let _ = (vt, vf);
    // cswap converts both inputs into the GGSW radix first (nearly balanced digits), then subtracts
    let scale = if op == 3 && al.b != c.kb as usize { 4.0 } else { 2.0 };
    // cmux / cmux_assign form t - f in the precision of the destination: what is cut off there is multiplied by m2
    let cut = if rl.size < dl.size && op != 1 && op != 3 { 2.0 * rl.unit() * pt_l1(&m2, &s).iter().sum::<u64>() as f64 } else { 0.0 };
    let bound_for = |rl: Lay| ks_bound_scaled(&meta, dl, rl, n, &pt_l1(&m2, &s), l1_sum(&s), scale) + (rl.unit() + dl.unit()) * so * 2.0 + cut;
    // cswap: each output keeps the precision of its own buffer
    let out_lays: Vec<Lay> = if op == 3 { vec![al, fl] } else { vec![rl] };
    let bound = bound_for(rl);
    let mut emax = 0f64;
    for (k, (gv, wv)) in got.iter().zip(want.iter()).enumerate() {
        let (e, i) = max_err(gv, wv);
        let bound = bound_for(out_lays[k]);
        if e > bound {
            return fail(c, opn, "phase-error-above-gadget-bound", format!("{} output {k} coefficient {i}: |phase(res) - ((t-f)*m2 + f)| = {e:.4e} exceeds the bound {bound:.4e} (t {:?}, f {:?}, GGSW {}x{} limbs of {} bits)", M2_CLASSES[m2cls], al, fl, c.dnum, c.dsize, c.kb));
        }
        emax = emax.max(e);
    }
    let (nt, mut cl) = classes(c, bound, emax, m2cls);
    cl.push(opn);
    cl.push(if m2cls <= 1 { "selector_is_bit" } else { "selector_is_polynomial" });
    Verdict::pass(nt, &cl)
}

// ------------------------------------------------------------------------------------------
// 4. GGSW cells: encryption, row expansion from a GGLWE, key-switch, automorphism

pub const CELL_OPS: [&str; 7] = ["ggsw_encrypt_sk", "ggsw_from_gglwe", "ggsw_expand_row", "ggsw_keyswitch", "ggsw_keyswitch_assign", "ggsw_automorphism", "ggsw_automorphism_assign"];

pub type TskP<B> = GGLWEToGGSWKeyPrepared<DeviceBuf<B>, B>;

/// tensor key GGLWE_s(s_i * s_j) in the key layout of the case, with per-i metas
pub fn build_tsk<B: FullBackend>(m: &Module<B>, c: &Case, sk: &GLWESecret<Vec<u8>>, scratch: &mut ScratchOwned<B>) -> Result<(TskP<B>, Vec<KeyMeta>), String>
where
    poulpy_hal::layouts::Scratch<B>: poulpy_hal::api::ScratchFromBytes<B>,
{
    let n = m.n();
    let r = c.rank_out as usize;
    let lay = GGLWEToGGSWKeyLayout { n: Degree(n as u32), base2k: Base2K(c.kb as u32), k: TorusPrecision((c.key_k() + ((c.seed >> 11) % 3) as usize * c.kb as usize) as u32), rank: Rank(r as u32), dnum: Dnum(c.dnum as u32), dsize: Dsize(c.dsize as u32) };
    let ni = c.noise_infos();
    let enc = EncryptionLayout::new(lay, ni).unwrap();
    let mut key = GGLWEToGGSWKey::alloc_from_infos(&lay);
    m.gglwe_to_ggsw_key_encrypt_sk(&mut key, sk, &enc, &mut Source::new(seed32(c.seed, 0xE9)), &mut Source::new(seed32(c.seed, 0xA9)), scratch.borrow());
    let s = glwe_secret_coeffs(sk);
    let mut metas = vec![];
    for i in 0..r {
        let g = key.at(i);
        let mut cells = vec![];
        for row in 0..c.dnum as usize {
            for col in 0..r {
                cells.push(g.at(row, col).data().to_owned_deep());
            }
        }
        let pts: Vec<Vec<i64>> = (0..r).map(|j| mul_small(&s[i], &s[j])).collect();
        metas.push(key_meta(&cells, c.kb as usize, c.dnum as usize, c.dsize as usize, r, r, &s, &pts, &ni).map_err(|e| format!("tensor key s_{i}*s_j: {e}"))?);
    }
    let mut prep = m.gglwe_to_ggsw_key_prepared_alloc_from_infos(&key);
    m.gglwe_to_ggsw_key_prepare(&mut prep, &key, sp("gglwe_to_ggsw_key_prepare", m.gglwe_to_ggsw_key_prepare_tmp_bytes(&key), scratch));
    Ok((prep, metas))
}

fn run_cells<B: FullBackend>(m: &Module<B>, c: &Case) -> Verdict
where
    poulpy_hal::layouts::Scratch<B>: poulpy_hal::api::ScratchFromBytes<B>,
{
    let n = m.n();
    let mut scratch = pzv_be::dirty_scratch::<B>(SCRATCH);
    let op = (c.op % 7) as usize;
    let opn = CELL_OPS[op];
    let r = c.rank_out as usize;
    let m2cls = c.idx as usize % 8;
    let m2 = small_poly(m2cls, n, c.seed);
    let sk = secret(n, r, c.dist, c.seed, 1);
    let s = glwe_secret_coeffs(&sk);
    if op == 0 {
        return match build_ggsw(m, c, &sk, &m2, 0, &mut scratch) {
            Ok((_, meta, _)) => {
                let (_, mut cl) = classes(c, meta.err_max, meta.err_max, m2cls);
                cl.push(opn);
                Verdict::pass(m2cls != 0, &cl)
            }
            Err(e) => fail(c, opn, "cell-wrong", e),
        };
    }
    // the GGSW object (own layout: radix ab, asize limbs)
    let al = c.a_lay();
    let g_dsize = 1 + (c.skip as usize % 2);
    let g_dnum = (al.size.saturating_sub(1) / g_dsize).clamp(1, 3);
    let assign = matches!(op, 2 | 4 | 6);
    let rl = if assign { al } else { Lay { b: al.b, size: (c.rsize as usize).max(g_dsize + 1) } };
    let r_dnum = if assign || op == 1 { g_dnum } else { (1 + (c.gal.unsigned_abs() as usize % g_dnum)).min(rl.size / g_dsize) };
    if al.size <= g_dsize || g_dnum * g_dsize > al.size || r_dnum == 0 || r_dnum * g_dsize > rl.size || (op == 1 && rl.size < g_dnum * g_dsize) {
        return Verdict::pass(false, &["layout_rejected_by_constructor"]);
    }
    let (nd, bb, dd) = (Degree(n as u32), Base2K(al.b as u32), Dsize(g_dsize as u32));
    let ni_a = NoiseInfos::new(al.size * al.b, NOISES[c.noise as usize].0, NOISES[c.noise as usize].1).unwrap();
    let (tsk, tmetas) = match build_tsk(m, c, &sk, &mut scratch) {
        Ok(x) => x,
        Err(e) => return fail(c, "gglwe_to_ggsw_key_encrypt_sk", "cell-wrong", e),
    };
    let so_l1 = l1_sum(&s);
    let s_l1: Vec<u64> = s.iter().map(|p| l1p(p)).collect();
    // bound of an expanded column c (1-based) given the bound on column 0
    let expand_bound = |col0: f64, col: usize, lay: Lay| -> f64 {
        let pts: Vec<u64> = (0..r).map(|j| l1p(&mul_small(&s[col - 1], &s[j]))).collect();
        col0 * s_l1[col - 1] as f64 + ks_bound(&tmetas[col - 1], lay, lay, n, &pts, so_l1)
    };
    let mut res_obj: GGSW<Vec<u8>>;
    let mut m2_out = m2.clone();
    let col0_bound: Vec<f64>;
    let out_lay: Lay;
    let out_dnum: usize;
    let mut sk_out_coeffs = s.clone();
    match op {
        1 => {
            // GGLWE_s(m2) with one input column -> GGSW
            let glay = GGLWELayout { n: nd, base2k: bb, k: TorusPrecision((al.size * al.b) as u32), rank_in: Rank(1), rank_out: Rank(r as u32), dnum: Dnum(g_dnum as u32), dsize: dd };
            let enc = EncryptionLayout::new(glay, ni_a).unwrap();
            let mut skp = m.glwe_secret_prepared_alloc(Rank(r as u32));
            m.glwe_secret_prepare(&mut skp, &sk);
            let mut pt = ScalarZnx::alloc(n, 1);
            pt.at_mut(0, 0).copy_from_slice(&m2);
            let mut a = GGLWE::alloc_from_infos(&glay);
            m.gglwe_encrypt_sk(&mut a, &pt, &skp, &enc, &mut Source::new(seed32(c.seed, 0xE6)), &mut Source::new(seed32(c.seed, 0xA6)), scratch.borrow());
            let cells: Vec<VecZnx<Vec<u8>>> = (0..g_dnum).map(|row| a.at(row, 0).data().to_owned_deep()).collect();
            let errs = cell_errors(&cells, al.b, g_dnum, g_dsize, 1, &s, &[m2.clone()]);
            col0_bound = errs.iter().map(|e| e[0].1 + rl.unit() * (1.0 + so_l1 as f64)).collect();
            res_obj = GGSW::alloc(nd, bb, TorusPrecision((rl.size * rl.b) as u32), Rank(r as u32), Dnum(g_dnum as u32), dd);
            scramble(&mut res_obj, g_dnum, r + 1, rl.b, n, c.seed);
            let q_ = m.ggsw_from_gglwe_tmp_bytes(&res_obj, &tsk);
            m.ggsw_from_gglwe(&mut res_obj, &a, &tsk, sp("ggsw_from_gglwe", q_, &mut scratch));
            out_lay = rl;
            out_dnum = g_dnum;
        }
        _ => {
            // start from a fresh GGSW(m2) in the object layout
            let sk_in = if matches!(op, 3 | 4) { secret(n, c.rank_in as usize, c.dist, c.seed, 7) } else { secret(n, r, c.dist, c.seed, 1) };
            let s_in = glwe_secret_coeffs(&sk_in);
            let r_in = s_in.len();
            let glay = GGSWLayout { n: nd, base2k: bb, k: TorusPrecision((al.size * al.b) as u32), rank: Rank(r_in as u32), dnum: Dnum(g_dnum as u32), dsize: dd };
            let enc = EncryptionLayout::new(glay, ni_a).unwrap();
            let mut skp = m.glwe_secret_prepared_alloc(Rank(r_in as u32));
            m.glwe_secret_prepare(&mut skp, &sk_in);
            let mut pt = ScalarZnx::alloc(n, 1);
            pt.at_mut(0, 0).copy_from_slice(&m2);
            let mut a = GGSW::alloc_from_infos(&glay);
            m.ggsw_encrypt_sk(&mut a, &pt, &skp, &enc, &mut Source::new(seed32(c.seed, 0xE6)), &mut Source::new(seed32(c.seed, 0xA6)), scratch.borrow());
            let cells0: Vec<VecZnx<Vec<u8>>> = (0..g_dnum).map(|row| a.at(row, 0).data().to_owned_deep()).collect();
            let e0 = cell_errors(&cells0, al.b, g_dnum, g_dsize, 1, &s_in, &[m2.clone()]);
            match op {
                2 => {
                    // scramble every column but the first, then expand in place
                    for row in 0..g_dnum {
                        for col in 1..=r {
                            fill_cell(&mut a.at_mut(row, col), VClass::Uniform, al.b, n, c.seed ^ ((row * 8 + col) as u64 + 999));
                        }
                    }
                    m.ggsw_expand_row(&mut a, &tsk, scratch.borrow());
                    col0_bound = e0.iter().map(|e| e[0].1).collect();
                    res_obj = a;
                    out_lay = al;
                    out_dnum = g_dnum;
                }
                3 | 4 => {
                    let mut c2 = c.clone();
                    c2.rank_in = r_in as u8;
                    let (key, kmeta) = match build_swk(m, &c2, &sk_in, &sk, &mut scratch) {
                        Ok(x) => x,
                        Err(e) => return fail(c, "glwe_switching_key_encrypt_sk", "key-cell-wrong", e),
                    };
                    let kb = ks_bound(&kmeta, al, rl, n, &s_in.iter().map(|p| l1p(p)).collect::<Vec<_>>(), so_l1);
                    if op == 3 {
                        res_obj = GGSW::alloc(nd, bb, TorusPrecision((rl.size * rl.b) as u32), Rank(r as u32), Dnum(r_dnum as u32), dd);
                        scramble(&mut res_obj, r_dnum, r + 1, rl.b, n, c.seed);
                        m.ggsw_keyswitch(&mut res_obj, &a, &key, &tsk, scratch.borrow());
                        out_lay = rl;
                        out_dnum = r_dnum;
                    } else {
                        let q_ = m.ggsw_keyswitch_tmp_bytes(&a, &a, &key, &tsk);
                        m.ggsw_keyswitch_assign(&mut a, &key, &tsk, sp("ggsw_keyswitch_assign", q_, &mut scratch));
                        res_obj = a;
                        out_lay = al;
                        out_dnum = g_dnum;
                    }
                    col0_bound = e0.iter().map(|e| e[0].1 + kb).collect();
                }
                _ => {
                    let p = c.gal_el();
                    let (key, kmeta, _) = match build_atk(m, c, p, &sk, 0, &mut scratch) {
                        Ok(x) => x,
                        Err(e) => return fail(c, "glwe_automorphism_key_encrypt_sk", "key-cell-wrong", e),
                    };
                    let kb = ks_bound(&kmeta, al, rl, n, &s_l1, so_l1);
                    if op == 5 {
                        res_obj = GGSW::alloc(nd, bb, TorusPrecision((rl.size * rl.b) as u32), Rank(r as u32), Dnum(r_dnum as u32), dd);
                        scramble(&mut res_obj, r_dnum, r + 1, rl.b, n, c.seed);
                        let q_ = m.ggsw_automorphism_tmp_bytes(&res_obj, &a, &key, &tsk);
                        m.ggsw_automorphism(&mut res_obj, &a, &key, &tsk, sp("ggsw_automorphism", q_, &mut scratch));
                        out_lay = rl;
                        out_dnum = r_dnum;
                    } else {
                        let q_ = m.ggsw_automorphism_tmp_bytes(&a, &a, &key, &tsk);
                        m.ggsw_automorphism_assign(&mut a, &key, &tsk, sp("ggsw_automorphism_assign", q_, &mut scratch));
                        res_obj = a;
                        out_lay = al;
                        out_dnum = g_dnum;
                    }
                    m2_out = automorphism_i64(&m2, p);
                    col0_bound = e0.iter().map(|e| e[0].1 + kb).collect();
                }
            }
            sk_out_coeffs = s.clone();
        }
    }
    // every cell of the result must encrypt m2_out * gadget (* s_{col-1}) under the output secret
    let cells = ggsw_cells(&res_obj, out_dnum, r + 1);
    let errs = cell_errors(&cells, out_lay.b, out_dnum, g_dsize, r + 1, &sk_out_coeffs, &ggsw_pts(&m2_out, &sk_out_coeffs));
    let mut emax = 0f64;
    let mut bmax = 0f64;
    for row in 0..out_dnum {
        for col in 0..=r {
            let bound = if col == 0 { col0_bound[row] * (1.0 + 1e-9) + out_lay.unit() } else { expand_bound(col0_bound[row], col, out_lay) + out_lay.unit() * (1.0 + so_l1 as f64) };
            let (_, e, at) = errs[row][col];
            if e > bound {
                return fail(
                    c,
                    opn,
                    if col == 0 { "column0-error-above-bound" } else { "expanded-column-error-above-bound" },
                    format!("{} cell (row {row}, column {col}) coefficient {at}: phase - m2*gadget{} = {e:.4e} exceeds the bound {bound:.4e} (object {:?} dnum {out_dnum} dsize {g_dsize}; keys {}x{} limbs of {} bits)", M2_CLASSES[m2cls], if col == 0 { "" } else { "*s_col" }, out_lay, c.dnum, c.dsize, c.kb),
                );
            }
            emax = emax.max(e);
            bmax = bmax.max(bound);
        }
    }
    let (nt, mut cl) = classes(c, bmax, emax, m2cls);
    cl.push(opn);
    if r >= 2 {
        cl.push("rank>=2");
    }
    Verdict::pass(nt && m2cls != 0, &cl)
}

fn scramble(g: &mut GGSW<Vec<u8>>, dnum: usize, cols: usize, b: usize, n: usize, seed: u64) {
    for row in 0..dnum {
        for col in 0..cols {
            fill_cell(&mut g.at_mut(row, col), VClass::Uniform, b, n, seed ^ ((row * 8 + col) as u64 + 4242));
        }
    }
}

fn prep(c0: &Case) -> Case {
    let mut c = c0.clone();
    adapt(&mut c);
    c.rank_in = c.rank_out;
    c
}

pub fn test_ext(c0: &Case) -> Verdict {
    let c = prep(c0);
    with_backend!(c.be, c.log_n, |m| run_ext(m, &c))
}

pub fn test_mat(c0: &Case) -> Verdict {
    let c = prep(c0);
    with_backend!(c.be, c.log_n, |m| run_mat(m, &c))
}

pub fn test_cmux(c0: &Case) -> Verdict {
    let mut c = prep(c0);
    // cmux* feed the un-normalised difference t - f to the product: one bit of head-room in the FFT64 domain;
    // cmux / cmux_assign(_neg) assert equal radices, cswap converts
    let mixed = c.ab != c.kb;
    if c.be.is_fft() {
        c.kb = c.kb.saturating_sub(1).max(2);
        c.krem %= c.kb;
    }
    if c.op % 4 != 3 || !mixed || c.ab == c.kb {
        c.ab = c.kb;
    }
    with_backend!(c.be, c.log_n, |m| run_cmux(m, &c))
}

pub fn test_cells(c0: &Case) -> Verdict {
    let mut c = c0.clone();
    c.log_n = c.log_n.min(6);
    adapt(&mut c);
    // ggsw_keyswitch asserts rank_in == rank_out of the switching key
    c.rank_in = c.rank_out;
    with_backend!(c.be, c.log_n, |m| run_cells(m, &c))
}

pub fn run_all(ctx: &Ctx) {
    let t = ctx.tier;
    ctx.run_sub("glwe_external_product", t.pick(8_000, 200_000), 64, crate::c03::strategy, test_ext);
    ctx.run_sub("matrix_external_product", t.pick(4_000, 100_000), 64, crate::c03::strategy, test_mat);
    ctx.run_sub("cmux", t.pick(16_000, 400_000), 64, crate::c03::strategy, test_cmux);
    ctx.run_sub("ggsw_cells", t.pick(4_000, 100_000), 64, crate::c03::strategy, test_cells);
}

pub fn replay(ctx: &Ctx, sub: &str, case: &serde_json::Value) -> i32 {
    match sub {
        "glwe_external_product" => ctx.replay_case::<Case, _>(sub, case, test_ext),
        "matrix_external_product" => ctx.replay_case::<Case, _>(sub, case, test_mat),
        "cmux" => ctx.replay_case::<Case, _>(sub, case, test_cmux),
        "ggsw_cells" => ctx.replay_case::<Case, _>(sub, case, test_cells),
        _ => 2,
    }
}

pub const RULE: &str = "cases = (backend, operation variant, N 8..128, GGSW / key layout with radix 2..40 inside the backend exactness domain, dnum 1..4, dsize 1..4, spare limbs, three noise settings; input and result of independent radix and precision (GGSW precision below / equal / above the GLWE precision); rank 1..3; m2 in {0, 1, -1, +-X^k, dense ternary, dense |c|<=3, sparse binary}; input digits uniform / extreme / sparse / zero). Oracle: exact phase of the result vs the exact negacyclic product m2 * phase(input) (CMux: (t-f)*m2+f; CSwap both outputs), coefficient-wise, within the deterministic gadget bound computed from the exactly extracted errors of the actual GGSW cells; every cell of a GGSW produced by encryption / row expansion / key-switch / automorphism must decrypt to m2 * gadget (* s_col) within the propagated bound. non-trivial = bound < 2^-8 and m2 != 0.";
