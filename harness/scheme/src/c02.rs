//! C02 — noise-free ciphertext operations commute exactly with decryption.
//!
//! Random straight-line programs over a register file of GLWE ciphertexts (generated
//! columns, no encryption needed: the property is linear algebra).  A plaintext model
//! tracks every column of every register as exact torus values together with the
//! accumulated truncation tolerance; after each step every column of the destination
//! (hence the phase under *every* key) and the phase under one generated key are compared.

use crate::sch::*;
use crate::sp::sp;
use dashu_int::IBig;
use poulpy_core::{
    GGSWRotate, GLWEAdd, GLWECopy, GLWEMulXpMinusOne, GLWENegate, GLWENormalize, GLWERotate, GLWEShift, GLWESub,
    layouts::{Base2K, Degree, GGSW, GGSWLayout, GLWE, GLWEInfos, LWEInfos, Rank, TorusPrecision},
};
use poulpy_hal::{
    api::{ScratchOwnedBorrow},
    layouts::{Module, ZnxInfos, ZnxView, ZnxViewMut},
};
use proptest::prelude::*;
use pzv_be::{Be, FullBackend, with_backend};
use pzv_common::driver::{Ctx, Verdict, guarded, panic_sig};
use pzv_common::model::*;
use serde::{Deserialize, Serialize};

#[derive(Clone, Copy, Debug, Serialize, Deserialize, PartialEq)]
pub enum OpK {
    AddInto,
    AddAssign,
    Sub,
    SubAssign,
    SubNegateAssign,
    Negate,
    NegateAssign,
    Copy,
    Rotate,
    RotateAssign,
    MulXpMinusOne,
    MulXpMinusOneAssign,
    Rsh,
    LshAssign,
    Lsh,
    LshAdd,
    LshSub,
    Normalize,
    NormalizeAssign,
}

const ALL_OPS: [OpK; 19] = [
    OpK::AddInto,
    OpK::AddAssign,
    OpK::Sub,
    OpK::SubAssign,
    OpK::SubNegateAssign,
    OpK::Negate,
    OpK::NegateAssign,
    OpK::Copy,
    OpK::Rotate,
    OpK::RotateAssign,
    OpK::MulXpMinusOne,
    OpK::MulXpMinusOneAssign,
    OpK::Rsh,
    OpK::LshAssign,
    OpK::Lsh,
    OpK::LshAdd,
    OpK::LshSub,
    OpK::Normalize,
    OpK::NormalizeAssign,
];

#[derive(Clone, Debug, Serialize, Deserialize)]
pub struct Step {
    pub op: OpK,
    pub res: u8,
    pub a: u8,
    pub b: u8,
    pub k: i64,
}

#[derive(Clone, Debug, Serialize, Deserialize)]
pub struct Case {
    pub be: Be,
    pub log_n: u8,
    pub base2k: u8,
    /// radix of register 3 (cross-radix normalisation target/source)
    pub base2k_x: u8,
    pub rank: u8,
    /// sizes of registers 0..3 (rank r), 3 = other radix; register 4 = rank-0 plaintext
    pub sizes: [u8; 5],
    pub cls: [VClass; 5],
    pub steps: Vec<Step>,
    pub seed: u64,
}

const PT: usize = 4;
const XR: usize = 3;

pub fn adapt(c: &mut Case) {
    c.log_n = c.log_n.clamp(1, 6);
    c.base2k = c.base2k.clamp(1, 40);
    c.base2k_x = c.base2k_x.clamp(1, 40);
    c.rank = c.rank.min(3);
    for s in c.sizes.iter_mut() {
        *s = (*s).clamp(1, 5);
    }
    for cl in c.cls.iter_mut() {
        *cl = match *cl {
            VClass::Unnorm(h) => VClass::Unnorm(h.clamp(1, 50)),
            VClass::FullI64 | VClass::MonoEach => VClass::Uniform,
            x => x,
        };
    }
}

type Val = Vec<Vec<Dyadic>>; // [col][coeff]

struct Reg {
    ct: GLWE<Vec<u8>>,
    val: Val,
    tol: Dyadic,
    b: usize,
}

fn unit(r: &Reg) -> Dyadic {
    Dyadic { num: IBig::ONE, exp: r.ct.size() * r.b }
}

fn read_val(ct: &GLWE<Vec<u8>>, b: usize) -> Val {
    let n = ct.data().n();
    (0..ct.data().cols()).map(|c| (0..n).map(|i| value_of_znx(ct.data(), c, b, i)).collect()).collect()
}

fn zero_col(n: usize) -> Vec<Dyadic> {
    vec![Dyadic::zero(); n]
}

fn col_or_zero(v: &Val, c: usize, n: usize) -> Vec<Dyadic> {
    if c < v.len() { v[c].clone() } else { zero_col(n) }
}

fn rot(v: &[Dyadic], k: i64) -> Vec<Dyadic> {
    let n = v.len() as i64;
    let mut out = vec![Dyadic::zero(); v.len()];
    let kk = k.rem_euclid(2 * n);
    for i in 0..n {
        let j = (i + kk) % (2 * n);
        if j < n {
            out[j as usize] = v[i as usize].clone();
        } else {
            out[(j - n) as usize] = v[i as usize].neg();
        }
    }
    out
}

fn zip(a: &[Dyadic], b: &[Dyadic], f: impl Fn(&Dyadic, &Dyadic) -> Dyadic) -> Vec<Dyadic> {
    a.iter().zip(b).map(|(x, y)| f(x, y)).collect()
}

fn scale2(t: &Dyadic, k: i64) -> Dyadic {
    t.shl(k)
}

fn opname(o: OpK) -> &'static str {
    match o {
        OpK::AddInto => "glwe_add_into",
        OpK::AddAssign => "glwe_add_assign",
        OpK::Sub => "glwe_sub",
        OpK::SubAssign => "glwe_sub_assign",
        OpK::SubNegateAssign => "glwe_sub_negate_assign",
        OpK::Negate => "glwe_negate",
        OpK::NegateAssign => "glwe_negate_assign",
        OpK::Copy => "glwe_copy",
        OpK::Rotate => "glwe_rotate",
        OpK::RotateAssign => "glwe_rotate_assign",
        OpK::MulXpMinusOne => "glwe_mul_xp_minus_one",
        OpK::MulXpMinusOneAssign => "glwe_mul_xp_minus_one_assign",
        OpK::Rsh => "glwe_rsh",
        OpK::LshAssign => "glwe_lsh_assign",
        OpK::Lsh => "glwe_lsh",
        OpK::LshAdd => "glwe_lsh_add",
        OpK::LshSub => "glwe_lsh_sub",
        OpK::Normalize => "glwe_normalize",
        OpK::NormalizeAssign => "glwe_normalize_assign",
    }
}

/// picks two distinct mutable/immutable registers
fn two<'a>(regs: &'a mut [Reg], r: usize, a: usize) -> (&'a mut Reg, &'a Reg) {
    assert_ne!(r, a);
    if r < a {
        let (lo, hi) = regs.split_at_mut(a);
        (&mut lo[r], &hi[0])
    } else {
        let (lo, hi) = regs.split_at_mut(r);
        (&mut hi[0], &lo[a])
    }
}

fn three<'a>(regs: &'a mut [Reg], r: usize, a: usize, b: usize) -> (&'a mut Reg, &'a Reg, &'a Reg) {
    assert!(r != a && r != b);
    let p = regs.as_mut_ptr();
    // SAFETY: r differs from a and b; a and b are only read
    unsafe { (&mut *p.add(r), &*p.add(a), &*p.add(b)) }
}

fn run<B: FullBackend>(m: &Module<B>, c: &Case) -> Verdict
where
    poulpy_hal::layouts::Scratch<B>: poulpy_hal::api::ScratchFromBytes<B>,
{
    let n = m.n();
    let b = c.base2k as usize;
    let bx = c.base2k_x as usize;
    let rank = c.rank as usize;
    let mut scratch = pzv_be::dirty_scratch::<B>(m.glwe_shift_tmp_bytes().max(m.glwe_normalize_tmp_bytes()).max(m.glwe_rotate_tmp_bytes()) + 4096);
    // registers
    let mut regs: Vec<Reg> = vec![];
    for r in 0..5 {
        let (rb, rr) = if r == XR { (bx, rank) } else if r == PT { (b, 0) } else { (b, rank) };
        let size = c.sizes[r] as usize;
        let mut ct = GLWE::alloc(Degree(n as u32), Base2K(rb as u32), TorusPrecision((size * rb) as u32), Rank(rr as u32));
        for col in 0..rr + 1 {
            let vals = gen_column(c.cls[r], rb, n, size, c.seed ^ ((r as u64) << 8 | col as u64));
            for (j, l) in vals.iter().enumerate() {
                ct.data_mut().at_mut(col, j).copy_from_slice(l);
            }
        }
        let val = read_val(&ct, rb);
        regs.push(Reg { ct, val, tol: Dyadic::zero(), b: rb });
    }
    // one generated key for the phase form of the statement
    let mut sk = poulpy_core::layouts::GLWESecret::alloc(Degree(n as u32), Rank(rank as u32));
    fill_glwe_secret(&mut sk, Dist::TernaryProb(8), &mut poulpy_hal::source::Source::new(seed32(c.seed, 9)));
    let s = glwe_secret_coeffs(&sk);
    let s_l1 = l1_sum(&s);

    let mut classes: Vec<String> = vec![c.be.name().into()];
    let mut nontrivial = c.steps.len() >= 3;
    for (si, st) in c.steps.iter().enumerate() {
        // re-target operands by construction
        let op = st.op;
        let same_radix_regs = [0usize, 1, 2];
        let mut r = same_radix_regs[st.res as usize % 3];
        let mut a = [0usize, 1, 2, PT][st.a as usize % 4];
        let mut bb = [0usize, 1, 2, PT][st.b as usize % 4];
        if a == r {
            a = same_radix_regs[(st.res as usize + 1) % 3];
        }
        if bb == r {
            bb = same_radix_regs[(st.res as usize + 2) % 3];
        }
        // rank rules
        match op {
            OpK::Negate | OpK::MulXpMinusOne | OpK::Normalize => {
                if a == PT {
                    a = same_radix_regs[(r + 1) % 3];
                }
            }
            OpK::AddInto | OpK::Sub => {
                if a == PT && bb == PT {
                    bb = same_radix_regs[(r + 1) % 3];
                }
            }
            _ => {}
        }
        if op == OpK::Normalize {
            // cross radix: either into or out of the other-radix register
            if st.k & 1 == 0 {
                r = XR;
                a = same_radix_regs[st.a as usize % 3];
            } else {
                a = XR;
            }
        }
        let n_bits = |reg: &Reg| reg.ct.size() * reg.b;
        let res_size_bits = n_bits(&regs[r]);
        let kshift = match op {
            OpK::Rsh => st.k.rem_euclid(res_size_bits as i64 + 1),
            OpK::LshAssign | OpK::Lsh | OpK::LshAdd | OpK::LshSub => st.k.rem_euclid((regs[r].ct.size() as i64 + 2) * b as i64 + 1),
            _ => st.k,
        };
        let name = opname(op);
        classes.push(name.into());
        // ---- model (on the actual operand values: unreduced reals of the limb vectors) ------
        let u_res = unit(&regs[r]);
        let va = read_val(&regs[a].ct, regs[a].b);
        let vb = read_val(&regs[bb].ct, regs[bb].b);
        let vr = read_val(&regs[r].ct, regs[r].b);
        let zero_t = Dyadic::zero();
        let (ta, tb, tr) = (zero_t.clone(), zero_t.clone(), zero_t.clone());
        // exact bound of what is lost when the limbs of an operand beyond the result size are dropped
        let dropped = |x: &Reg, keep: usize| -> Dyadic {
            let mut t = Dyadic::zero();
            for j in keep..x.ct.size() {
                let mut mx: u64 = 0;
                for cix in 0..x.ct.data().cols() {
                    for v in x.ct.data().at(cix, j) {
                        mx = mx.max(v.unsigned_abs());
                    }
                }
                t = t.add(&Dyadic { num: IBig::from(mx), exp: (j + 1) * x.b });
            }
            t
        };
        let res_limbs = regs[r].ct.size();
        let trunc_a = dropped(&regs[a], res_limbs);
        let trunc_b = dropped(&regs[bb], res_limbs);
        let cols = regs[r].ct.data().cols();
        let mut new_val: Val = vec![];
        let new_tol: Dyadic;
        match op {
            OpK::AddInto | OpK::Sub => {
                for cix in 0..cols {
                    let (x, y) = (col_or_zero(&va, cix, n), col_or_zero(&vb, cix, n));
                    new_val.push(zip(&x, &y, |p, q| if op == OpK::AddInto { p.add(q) } else { p.sub(q) }));
                }
                new_tol = ta.add(&tb).add(&trunc_a).add(&trunc_b);
            }
            OpK::AddAssign | OpK::SubAssign | OpK::SubNegateAssign => {
                for cix in 0..cols {
                    let (x, y) = (vr[cix].clone(), col_or_zero(&va, cix, n));
                    new_val.push(zip(&x, &y, |p, q| match op {
                        OpK::AddAssign => p.add(q),
                        OpK::SubAssign => p.sub(q),
                        _ => q.sub(p),
                    }));
                }
                new_tol = tr.add(&ta).add(&trunc_a);
            }
            OpK::Negate | OpK::Copy | OpK::Rotate | OpK::MulXpMinusOne => {
                for cix in 0..cols {
                    let x = col_or_zero(&va, cix, n);
                    new_val.push(match op {
                        OpK::Negate => x.iter().map(|p| p.neg()).collect(),
                        OpK::Copy => x,
                        OpK::Rotate => rot(&x, st.k),
                        _ => zip(&rot(&x, st.k), &x, |p, q| p.sub(q)),
                    });
                }
                let f = if op == OpK::MulXpMinusOne { 2 } else { 1 };
                new_tol = Dyadic { num: ta.num.clone() * f, exp: ta.exp }.add(&Dyadic { num: trunc_a.num.clone() * f, exp: trunc_a.exp });
            }
            OpK::NegateAssign | OpK::RotateAssign | OpK::MulXpMinusOneAssign => {
                for cix in 0..cols {
                    let x = vr[cix].clone();
                    new_val.push(match op {
                        OpK::NegateAssign => x.iter().map(|p| p.neg()).collect(),
                        OpK::RotateAssign => rot(&x, st.k),
                        _ => zip(&rot(&x, st.k), &x, |p, q| p.sub(q)),
                    });
                }
                let f = if op == OpK::MulXpMinusOneAssign { 2 } else { 1 };
                new_tol = Dyadic { num: tr.num.clone() * f, exp: tr.exp };
            }
            OpK::Rsh => {
                for cix in 0..cols {
                    new_val.push(vr[cix].iter().map(|p| p.shl(-kshift)).collect());
                }
                new_tol = if kshift > 0 { u_res.clone() } else { Dyadic::zero() };
            }
            OpK::LshAssign => {
                for cix in 0..cols {
                    new_val.push(vr[cix].iter().map(|p| p.shl(kshift)).collect());
                }
                new_tol = scale2(&tr, kshift);
            }
            OpK::Lsh | OpK::LshAdd | OpK::LshSub => {
                let a_bits_after = n_bits(&regs[a]) as i64 - kshift;
                let tr_a = if a_bits_after > res_size_bits as i64 { u_res.clone() } else { Dyadic::zero() };
                for cix in 0..cols {
                    let x: Vec<Dyadic> = col_or_zero(&va, cix, n).iter().map(|p| p.shl(kshift)).collect();
                    new_val.push(match op {
                        OpK::Lsh => x,
                        OpK::LshAdd => zip(&vr[cix], &x, |p, q| p.add(q)),
                        _ => zip(&vr[cix], &x, |p, q| p.sub(q)),
                    });
                }
                new_tol = scale2(&ta, kshift).add(&tr_a).add(&if op == OpK::Lsh { Dyadic::zero() } else { tr.clone() });
            }
            OpK::Normalize => {
                for cix in 0..cols {
                    new_val.push(col_or_zero(&va, cix, n));
                }
                new_tol = if n_bits(&regs[a]) > res_size_bits { u_res.clone() } else { Dyadic::zero() };
            }
            OpK::NormalizeAssign => {
                new_val = vr.clone();
                new_tol = tr.clone();
            }
        }
        // ---- implementation ----------------------------------------------------
        let call = guarded(|| {
            let (site, q_): (&'static str, usize) = match op {
                OpK::RotateAssign => ("glwe_rotate_assign", m.glwe_rotate_tmp_bytes()),
                OpK::MulXpMinusOneAssign => ("glwe_mul_xp_minus_one_assign", m.glwe_rotate_tmp_bytes()),
                OpK::Rsh => ("glwe_rsh", m.glwe_shift_tmp_bytes()),
                OpK::LshAssign => ("glwe_lsh_assign", m.glwe_shift_tmp_bytes()),
                OpK::Lsh => ("glwe_lsh", m.glwe_shift_tmp_bytes()),
                OpK::LshAdd => ("glwe_lsh_add", m.glwe_shift_tmp_bytes()),
                OpK::LshSub => ("glwe_lsh_sub", m.glwe_shift_tmp_bytes()),
                OpK::Normalize => ("glwe_normalize", m.glwe_normalize_tmp_bytes()),
                OpK::NormalizeAssign => ("glwe_normalize_assign", m.glwe_normalize_tmp_bytes()),
                _ => ("", 0),
            };
            let sc = if site.is_empty() { scratch.borrow() } else { sp(site, q_, &mut scratch) };
            match op {
                OpK::AddInto => {
                    let (rr, ra, rb) = three(&mut regs, r, a, bb);
                    m.glwe_add_into(&mut rr.ct, &ra.ct, &rb.ct)
                }
                OpK::Sub => {
                    let (rr, ra, rb) = three(&mut regs, r, a, bb);
                    m.glwe_sub(&mut rr.ct, &ra.ct, &rb.ct)
                }
                OpK::AddAssign => {
                    let (rr, ra) = two(&mut regs, r, a);
                    m.glwe_add_assign(&mut rr.ct, &ra.ct)
                }
                OpK::SubAssign => {
                    let (rr, ra) = two(&mut regs, r, a);
                    m.glwe_sub_assign(&mut rr.ct, &ra.ct)
                }
                OpK::SubNegateAssign => {
                    let (rr, ra) = two(&mut regs, r, a);
                    m.glwe_sub_negate_assign(&mut rr.ct, &ra.ct)
                }
                OpK::Negate => {
                    let (rr, ra) = two(&mut regs, r, a);
                    m.glwe_negate(&mut rr.ct, &ra.ct)
                }
                OpK::NegateAssign => m.glwe_negate_assign(&mut regs[r].ct),
                OpK::Copy => {
                    let (rr, ra) = two(&mut regs, r, a);
                    m.glwe_copy(&mut rr.ct, &ra.ct)
                }
                OpK::Rotate => {
                    let (rr, ra) = two(&mut regs, r, a);
                    m.glwe_rotate(st.k, &mut rr.ct, &ra.ct)
                }
                OpK::RotateAssign => m.glwe_rotate_assign(st.k, &mut regs[r].ct, sc),
                OpK::MulXpMinusOne => {
                    let (rr, ra) = two(&mut regs, r, a);
                    m.glwe_mul_xp_minus_one(st.k, &mut rr.ct, &ra.ct)
                }
                OpK::MulXpMinusOneAssign => m.glwe_mul_xp_minus_one_assign(st.k, &mut regs[r].ct, sc),
                OpK::Rsh => m.glwe_rsh(kshift as usize, &mut regs[r].ct, sc),
                OpK::LshAssign => m.glwe_lsh_assign(&mut regs[r].ct, kshift as usize, sc),
                OpK::Lsh => {
                    let (rr, ra) = two(&mut regs, r, a);
                    m.glwe_lsh(&mut rr.ct, &ra.ct, kshift as usize, sc)
                }
                OpK::LshAdd => {
                    let (rr, ra) = two(&mut regs, r, a);
                    m.glwe_lsh_add(&mut rr.ct, &ra.ct, kshift as usize, sc)
                }
                OpK::LshSub => {
                    let (rr, ra) = two(&mut regs, r, a);
                    m.glwe_lsh_sub(&mut rr.ct, &ra.ct, kshift as usize, sc)
                }
                OpK::Normalize => {
                    let (rr, ra) = two(&mut regs, r, a);
                    m.glwe_normalize(&mut rr.ct, &ra.ct, sc)
                }
                OpK::NormalizeAssign => m.glwe_normalize_assign(&mut regs[r].ct, sc),
            }
        });
        if let Err(p) = call {
            return Verdict::fail(
                format!("{name}|panic|{}", panic_sig(&p)),
                format!("backend={} step {si} {name}(res=r{r} rank {}, a=r{a} rank {}, b=r{bb}) panicked on an input admitted by its own asserts: {p}\ncase={c:?}", c.be.name(), regs[r].ct.rank().0, regs[a].ct.rank().0),
            );
        }
        // ---- compare every column -----------------------------------------------
        let rb_ = regs[r].b;
        let got = read_val(&regs[r].ct, rb_);
        let tol_with_units = new_tol.clone();
        for cix in 0..cols {
            for i in 0..n {
                let e = torus_err(&got[cix][i], &new_val[cix][i]);
                if !abs_le(&e, &tol_with_units.num, tol_with_units.exp) {
                    return Verdict::fail(
                        format!("{name}|column-value"),
                        format!(
                            "backend={} step {si} {name}: column {cix} coefficient {i} deviates from the plaintext model by {:.4e} (allowed {:.4e} = accumulated truncation tolerance); res=r{r} (size {}, radix 2^{}), a=r{a} (size {}, rank {}), b=r{bb}, k={}\ncase={c:?}",
                            c.be.name(),
                            e.approx_f64(),
                            tol_with_units.approx_f64(),
                            regs[r].ct.size(),
                            rb_,
                            regs[a].ct.size(),
                            regs[a].ct.rank().0,
                            kshift
                        ),
                    );
                }
            }
        }
        // phase form under the generated key: phase(res) == sum_c model[c] * s_c within (1 + |s|_1) * tol
        if rank > 0 {
            let ph = glwe_phase_limbs(regs[r].ct.data(), &s);
            // model phase from the *actual* columns would be an identity; use the model columns instead (exact dyadics)
            for i in 0..n.min(4) {
                let mut want = new_val[0][i].clone();
                for cix in 1..cols {
                    for (jx, sv) in s[cix - 1].iter().enumerate() {
                        if *sv == 0 {
                            continue;
                        }
                        // coefficient i of model[cix] * s : sum_j s_j * model[(i - j) mod N] with sign
                        let (src, sign) = if i >= jx { (i - jx, 1i64) } else { (n + i - jx, -1i64) };
                        let term = &new_val[cix][src];
                        let term = if (*sv * sign) < 0 { term.neg() } else { term.clone() };
                        want = want.add(&term);
                    }
                }
                let got_ph = value_of(&ph, rb_, i);
                let e = torus_err(&got_ph, &want);
                let f = IBig::from(1 + s_l1);
                if !abs_le(&e, &(tol_with_units.num.clone() * f), tol_with_units.exp) {
                    return Verdict::fail(
                        format!("{name}|phase"),
                        format!("backend={} step {si} {name}: phase of the result under a generated key deviates by {:.4e}\ncase={c:?}", c.be.name(), e.approx_f64()),
                    );
                }
            }
        }
        if regs[a].ct.size() != regs[r].ct.size() || a == PT || bb == PT || st.k < 0 || st.k >= n as i64 || (kshift % b as i64 != 0 && matches!(op, OpK::Rsh | OpK::Lsh | OpK::LshAssign | OpK::LshAdd | OpK::LshSub)) || op == OpK::Normalize {
            nontrivial = true;
        }
        if a == PT || bb == PT {
            classes.push("rank0_operand".into());
        }
        if op == OpK::Normalize {
            classes.push("cross_radix".into());
        }
        // the next step is judged on the actual contents of its operands
        regs[r].val = got;
        regs[r].tol = Dyadic::zero();
        let _ = (&new_val, &new_tol);
    }
    classes.push(if nontrivial { "nontrivial".into() } else { "trivial".into() });
    if c.steps.len() >= 3 {
        classes.push("program_len>=3".into());
    }
    let cl: Vec<&str> = classes.iter().map(|s| s.as_str()).collect();
    Verdict::pass(nontrivial && !c.steps.is_empty(), &cl)
}

// ---------------------------------------------------------------------------
// GGSW rotate (matrix of GLWE rows)
// ---------------------------------------------------------------------------

#[derive(Clone, Debug, Serialize, Deserialize)]
pub struct GgswCase {
    pub be: Be,
    pub log_n: u8,
    pub base2k: u8,
    pub rank: u8,
    pub dnum: u8,
    pub dsize: u8,
    pub k: i64,
    pub inplace: bool,
    pub seed: u64,
}

fn ggsw_run<B: FullBackend>(m: &Module<B>, c: &GgswCase) -> Verdict
where
    poulpy_hal::layouts::Scratch<B>: poulpy_hal::api::ScratchFromBytes<B>,
{
    let n = m.n();
    let b = c.base2k.clamp(2, 40) as usize;
    let rank = c.rank.clamp(1, 3) as usize;
    let dnum = c.dnum.clamp(1, 3) as usize;
    let dsize = c.dsize.clamp(1, 2) as usize;
    let k = (dnum * dsize + 1) * b;
    let lay = GGSWLayout {
        n: Degree(n as u32),
        base2k: Base2K(b as u32),
        k: TorusPrecision(k as u32),
        rank: Rank(rank as u32),
        dnum: poulpy_core::layouts::Dnum(dnum as u32),
        dsize: poulpy_core::layouts::Dsize(dsize as u32),
    };
    let mut a = GGSW::alloc_from_infos(&lay);
    for row in 0..dnum {
        for col in 0..rank + 1 {
            let mut g = a.at_mut(row, col);
            let size = g.size();
            for gc in 0..rank + 1 {
                let vals = gen_column(VClass::Uniform, b, n, size, c.seed ^ ((row * 16 + col * 4 + gc) as u64));
                for (jj, l) in vals.iter().enumerate() {
                    g.data_mut().at_mut(gc, jj).copy_from_slice(l);
                }
            }
        }
    }
    let mut res = GGSW::alloc_from_infos(&lay);
    let mut scratch = pzv_be::dirty_scratch::<B>(m.ggsw_rotate_tmp_bytes() + 4096);
    if c.inplace {
        res = a.clone();
        m.ggsw_rotate_assign(c.k, &mut res, sp("ggsw_rotate_assign", m.ggsw_rotate_tmp_bytes(), &mut scratch));
    } else {
        m.ggsw_rotate(c.k, &mut res, &a);
    }
    // every polynomial of every cell is rotated
    for row in 0..dnum {
        for col in 0..rank + 1 {
            let (ga, gr) = (a.at(row, col), res.at(row, col));
            for gc in 0..rank + 1 {
                for jj in 0..ga.size() {
                    let want = rotate_i64(ga.data().at(gc, jj), c.k);
                    if want != gr.data().at(gc, jj) {
                        return Verdict::fail(
                            "ggsw_rotate|value",
                            format!("backend={} GGSW cell (row {row}, col {col}) column {gc} limb {jj} is not X^k times the input (k={}, inplace={})\ncase={c:?}", c.be.name(), c.k, c.inplace),
                        );
                    }
                }
            }
        }
    }
    let nt = c.k < 0 || c.k >= n as i64;
    Verdict::pass(nt || rank > 1, &["ggsw_rotate", c.be.name()])
}

pub fn ggsw_test(c: &GgswCase) -> Verdict {
    let log_n = c.log_n.clamp(1, 6);
    with_backend!(c.be, log_n, |m| ggsw_run(m, c))
}

pub fn test(c0: &Case) -> Verdict {
    let mut c = c0.clone();
    adapt(&mut c);
    with_backend!(c.be, c.log_n, |m| run(m, &c))
}

fn k_strategy() -> impl Strategy<Value = i64> {
    prop_oneof![
        4 => -70i64..=70,
        2 => -300i64..=300,
        1 => prop_oneof![Just(0i64), Just(i64::MAX), Just(i64::MIN + 1), Just(i64::MIN), Just(1 << 40), Just(-(1 << 40) + 3)],
        1 => any::<i64>(),
    ]
}

fn cls_strategy() -> impl Strategy<Value = VClass> {
    prop_oneof![
        4 => Just(VClass::Uniform),
        1 => Just(VClass::ExtremePos),
        1 => Just(VClass::ExtremeNeg),
        1 => Just(VClass::ExtremeMixed),
        2 => (1u8..=50).prop_map(VClass::Unnorm),
        1 => Just(VClass::CarryRipple),
        1 => Just(VClass::Sparse),
        1 => Just(VClass::Zero),
    ]
}

pub fn strategy(max_len: usize, min_len: usize) -> BoxedStrategy<Case> {
    let step = (0usize..ALL_OPS.len(), any::<u8>(), any::<u8>(), any::<u8>(), k_strategy()).prop_map(|(o, res, a, b, k)| Step { op: ALL_OPS[o], res, a, b, k });
    (
        (crate::c01::be_strategy(), 1u8..=6, 1u8..=40, 1u8..=40, 0u8..=3),
        ([1u8..=5, 1u8..=5, 1u8..=5, 1u8..=5, 1u8..=5], [cls_strategy(), cls_strategy(), cls_strategy(), cls_strategy(), cls_strategy()]),
        (proptest::collection::vec(step, min_len..=max_len), any::<u64>()),
    )
        .prop_map(|((be, log_n, base2k, base2k_x, rank), (sizes, cls), (steps, seed))| {
            let mut c = Case {
                be,
                log_n,
                base2k,
                base2k_x,
                rank,
                sizes,
                cls,
                steps,
                seed,
            };
            adapt(&mut c);
            c
        })
        .boxed()
}

fn ggsw_strategy() -> BoxedStrategy<GgswCase> {
    (crate::c01::be_strategy(), 1u8..=6, 2u8..=40, 1u8..=3, 1u8..=3, 1u8..=2, k_strategy(), any::<bool>(), any::<u64>())
        .prop_map(|(be, log_n, base2k, rank, dnum, dsize, k, inplace, seed)| GgswCase {
            be,
            log_n,
            base2k,
            rank,
            dnum,
            dsize,
            k,
            inplace,
            seed,
        })
        .boxed()
}

pub fn run_all(ctx: &Ctx) {
    let t = ctx.tier;
    ctx.run_sub("single_ops", t.pick(60_000, 600_000), 64, || strategy(1, 1), test);
    ctx.run_sub("programs", t.pick(12_000, 120_000), 64, || strategy(12, 2), test);
    ctx.run_sub("ggsw_rotate", t.pick(6_000, 60_000), 32, ggsw_strategy, ggsw_test);
}

pub fn replay(ctx: &Ctx, sub: &str, case: &serde_json::Value) -> i32 {
    match sub {
        "ggsw_rotate" => ctx.replay_case::<GgswCase, _>(sub, case, ggsw_test),
        _ => ctx.replay_case::<Case, _>(sub, case, test),
    }
}

pub const RULE: &str = "cases = straight-line programs (length 1 for the single-op sub-check, 2..12 otherwise) over a register file of five GLWE ciphertexts built from generated columns: three registers of rank r (0..3) with independent limb counts 1..5 and value classes (incl. 50-bit un-normalised digits and carry ripples), one register in a different radix (cross-radix normalisation) and one rank-0 plaintext register; ops = add/sub (into, assign, sub_negate), negate, copy, rotate by any k in Z, (X^k - 1), rsh, lsh (assign, into, add, sub) by 0..(size+2)*base2k bits, normalize (same and cross radix), incl. every in-place form; ggsw_rotate separately. Oracle: plaintext model of every column as exact torus values with accumulated tolerance of one unit of the destination's last limb per truncated operand; phase under one generated key. A panic on an input admitted by the function's own asserts is a violation. non-trivial = size mismatch or rank-0 operand or k outside [0,N) or shift not a multiple of the radix or cross radix or program length >= 3.";
