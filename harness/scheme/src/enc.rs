//! Uniform access to every encryptable layout of poulpy-core (standard and seed-compressed):
//! encrypt under generated seeds and return the GLWE-shaped cells.  Shared by C06 and C19.

use crate::sch::*;
use poulpy_core::{
    EncryptionLayout, GGLWECompressedEncryptSk, GGLWEEncryptSk, GGSWCompressedEncryptSk, GGSWEncryptSk, GLWEAutomorphismKeyCompressedEncryptSk, GLWEAutomorphismKeyEncryptSk,
    GLWECompressedEncryptSk, GLWEEncryptSk, GLWESwitchingKeyCompressedEncryptSk, GLWESwitchingKeyEncryptSk, GLWETensorKeyCompressedEncryptSk, GLWETensorKeyEncryptSk,
    layouts::{
        Base2K, Degree, Dnum, Dsize, GGLWE, GGLWEInfos, GGLWELayout, GGSW, GGSWLayout, GLWE, GLWEAutomorphismKey, GLWEAutomorphismKeyLayout, GLWELayout, GLWEPlaintext, GLWESecret,
        GLWESecretPreparedFactory, GLWESwitchingKey, GLWESwitchingKeyLayout, GLWETensorKey, GLWETensorKeyLayout, Rank, TorusPrecision,
        compressed::{
            GGLWECompressed, GGLWECompressedSeed, GGLWEDecompress, GGSWCompressed, GGSWCompressedSeed, GGSWDecompress, GLWEAutomorphismKeyCompressed, GLWEAutomorphismKeyDecompress,
            GLWECompressed, GLWECompressedSeed, GLWEDecompress, GLWESwitchingKeyCompressed, GLWESwitchingKeyDecompress, GLWETensorKeyCompressed, GLWETensorKeyDecompress,
        },
    },
};
use poulpy_hal::{
    api::{ScratchOwnedBorrow},
    layouts::{Module, NoiseInfos, ScalarZnx, Scratch, ToOwnedDeep, VecZnx, WriterTo, ZnxViewMut},
    source::Source,
};
use pzv_be::FullBackend;
use pzv_common::model::*;
use serde::{Deserialize, Serialize};

#[derive(Clone, Copy, Debug, Serialize, Deserialize, PartialEq, Eq)]
pub enum Kind {
    Glwe,
    Gglwe,
    Ggsw,
    SwitchingKey,
    AutomorphismKey,
    TensorKey,
    GglweToGgswKey,
    BlindRotationKey,
}

pub const KINDS: [Kind; 8] = [Kind::Glwe, Kind::Gglwe, Kind::Ggsw, Kind::SwitchingKey, Kind::AutomorphismKey, Kind::TensorKey, Kind::GglweToGgswKey, Kind::BlindRotationKey];

impl Kind {
    pub fn name(&self) -> &'static str {
        match self {
            Kind::Glwe => "glwe",
            Kind::Gglwe => "gglwe",
            Kind::Ggsw => "ggsw",
            Kind::SwitchingKey => "glwe_switching_key",
            Kind::AutomorphismKey => "glwe_automorphism_key",
            Kind::TensorKey => "glwe_tensor_key",
            Kind::GglweToGgswKey => "gglwe_to_ggsw_key",
            Kind::BlindRotationKey => "blind_rotation_key",
        }
    }
}

#[derive(Clone, Debug, Serialize, Deserialize)]
pub struct EncP {
    pub kind: Kind,
    pub log_n: u8,
    pub base2k: u8,
    pub krem: u8,
    pub rank_in: u8,
    pub rank_out: u8,
    pub dnum: u8,
    pub dsize: u8,
    pub dist: Dist,
    pub noise: u8,
    pub gal: i64,
    pub seed_sk: u64,
    pub seed_xa: u64,
    pub seed_xe: u64,
    pub seed_pt: u64,
}

pub const NOISES: [(f64, f64); 3] = [(3.2, 19.2), (1.0, 1.0), (8.0, 48.0)];

impl EncP {
    pub fn adapt(&mut self, fft: bool) {
        self.log_n = self.log_n.clamp(3, 9);
        let n = 1usize << self.log_n;
        self.rank_in = self.rank_in.clamp(1, 3);
        self.rank_out = self.rank_out.clamp(1, 3);
        if matches!(self.kind, Kind::Ggsw | Kind::AutomorphismKey | Kind::TensorKey | Kind::Glwe | Kind::GglweToGgswKey | Kind::BlindRotationKey) {
            self.rank_in = self.rank_out;
        }
        self.dnum = self.dnum.clamp(1, 3);
        self.dsize = self.dsize.clamp(1, 2);
        if self.kind == Kind::BlindRotationKey {
            self.dsize = 1;
        }
        self.dist = self.dist.adapt(n);
        if self.dist == Dist::Zero {
            self.dist = Dist::TernaryProb(8);
        }
        let l1max: u64 = match self.dist {
            Dist::TernaryHw(h) | Dist::BinaryHw(h) => (h as u64).max(1),
            Dist::BinaryBlock(b) => (n / b as usize) as u64,
            _ => n as u64,
        };
        // tensor keys multiply two secrets: |s_i s_j|_1 <= l1^2
        let l1eff = if matches!(self.kind, Kind::TensorKey | Kind::GglweToGgswKey) { l1max * l1max } else { l1max };
        let maxb = if fft { fft_max_base2k(self.log_n, l1eff.max(1)) } else { 40 };
        self.base2k = self.base2k.clamp(2, maxb.clamp(2, 40));
        self.krem %= self.base2k;
        self.noise %= NOISES.len() as u8;
        self.gal |= 1;
    }
    pub fn size(&self) -> usize {
        if self.kind == Kind::Glwe { self.dnum as usize + 1 } else { (self.dnum * self.dsize) as usize + 1 }
    }
    pub fn k(&self) -> usize {
        self.size() * self.base2k as usize - self.krem as usize
    }
    /// LWE dimension of the blind-rotation key kind (derived from the Galois field of the case: 1..=6)
    pub fn n_lwe(&self) -> usize {
        1 + self.gal.rem_euclid(6) as usize
    }
    pub fn noise_infos(&self) -> NoiseInfos {
        let (s, b) = NOISES[self.noise as usize];
        NoiseInfos::new(self.k(), s, b).unwrap()
    }
}

pub struct Obj {
    /// GLWE-shaped cells (column 0 body, columns 1.. mask), row-major (row, col)
    pub cells: Vec<VecZnx<Vec<u8>>>,
    /// per-cell stored seeds (compressed form only), same order as `cells`
    pub seeds: Vec<[u8; 32]>,
    /// serialised compressed object (compressed form only)
    pub bytes: Vec<u8>,
    /// clear secret the cells are encrypted under
    pub sk: Vec<Vec<i64>>,
    pub base2k: usize,
    /// compressed GGLWE-like kinds: decompression into a receiver with fewer rows (admitted by `res.dnum() <= other.dnum()`): (rows, cells)
    pub partial: Option<(usize, Vec<VecZnx<Vec<u8>>>)>,
    /// scalar metadata that has to survive compression / serialisation (Galois element of automorphism keys)
    pub meta: Vec<i64>,
}

fn own(v: &VecZnx<&[u8]>) -> VecZnx<Vec<u8>> {
    v.to_owned_deep()
}

thread_local! {
    /// C12 mode: `Some((exact, fill seed))` makes every encryption routine run on a guarded window of exactly
    /// its own `*_tmp_bytes` query (or a roomy one) filled with garbage; `None` = the 4 MiB dirty scratch.
    pub static SCRATCH_MODE: std::cell::Cell<Option<(bool, u64)>> = const { std::cell::Cell::new(None) };
    pub static GUARD_BAD: std::cell::Cell<bool> = const { std::cell::Cell::new(false) };
    pub static LAST_ROUTINE: std::cell::Cell<(&'static str, usize)> = const { std::cell::Cell::new(("", 0)) };
}

pub struct Scr<B: FullBackend> {
    big: Option<poulpy_hal::layouts::ScratchOwned<B>>,
    win: Option<crate::c12s::Win>,
}

impl<B: FullBackend> Scr<B>
where
    Scratch<B>: poulpy_hal::api::ScratchFromBytes<B>,
{
    pub fn new() -> Self {
        Scr { big: None, win: None }
    }
    pub fn get(&mut self, routine: &'static str, bytes: usize) -> &mut Scratch<B> {
        LAST_ROUTINE.with(|l| l.set((routine, bytes)));
        match SCRATCH_MODE.with(|m| m.get()) {
            None => {
                if self.big.is_none() {
                    self.big = Some(pzv_be::dirty_scratch::<B>(1 << 22));
                }
                self.big.as_mut().unwrap().borrow()
            }
            Some((exact, seed)) => {
                if let Some(w) = &self.win
                    && !w.guards_ok()
                {
                    GUARD_BAD.with(|g| g.set(true));
                }
                self.win = Some(if exact { crate::c12s::Win::new(bytes, seed) } else { crate::c12s::Win::roomy(15 * bytes + (8 << 20), seed) });
                self.win.as_mut().unwrap().scratch::<B>()
            }
        }
    }
}

impl<B: FullBackend> Drop for Scr<B> {
    fn drop(&mut self) {
        if let Some(w) = &self.win
            && !w.guards_ok()
        {
            GUARD_BAD.with(|g| g.set(true));
        }
    }
}

/// Encrypts an object of kind `p.kind`; `compressed` selects the seed-compressed routine followed
/// by decompression (optionally after a serialisation round trip of the compressed object).
pub fn build<B: FullBackend>(m: &Module<B>, p: &EncP, compressed: bool, via_serde: bool) -> Obj
where
    Scratch<B>: poulpy_hal::api::ScratchFromBytes<B>,
{
    let n = m.n();
    let (b, k) = (p.base2k as usize, p.k());
    let (nd, bb, kk) = (Degree(n as u32), Base2K(b as u32), TorusPrecision(k as u32));
    let (ri, ro) = (Rank(p.rank_in as u32), Rank(p.rank_out as u32));
    let (dnum, dsize) = (Dnum(p.dnum as u32), Dsize(p.dsize as u32));
    let ni = p.noise_infos();
    let mut scratch = Scr::<B>::new();
    let mut xe = Source::new(seed32(p.seed_xe, 0xE));
    let mut xa = Source::new(seed32(p.seed_xa, 0xA));
    let seed_xa = seed32(p.seed_xa, 0xA);
    // secrets
    let mut sk_out = GLWESecret::alloc(nd, ro);
    fill_glwe_secret(&mut sk_out, p.dist, &mut Source::new(seed32(p.seed_sk, 1)));
    let mut sk_in = GLWESecret::alloc(nd, ri);
    fill_glwe_secret(&mut sk_in, p.dist, &mut Source::new(seed32(p.seed_sk, 2)));
    let mut skp = m.glwe_secret_prepared_alloc(ro);
    m.glwe_secret_prepare(&mut skp, &sk_out);
    let sk = glwe_secret_coeffs(&sk_out);
    let mut cells = vec![];
    let mut seeds = vec![];
    let mut bytes = vec![];
    let mut partial: Option<(usize, Vec<VecZnx<Vec<u8>>>)> = None;
    let mut meta: Vec<i64> = vec![];
    let rows_r = 1 + (p.seed_pt % p.dnum as u64) as usize;
    match p.kind {
        Kind::Glwe => {
            let lay = GLWELayout { n: nd, base2k: bb, k: kk, rank: ro };
            let enc = EncryptionLayout::new(lay, ni).unwrap();
            let mut pt = GLWEPlaintext::alloc(nd, bb, kk);
            let vals = gen_column(VClass::Uniform, b, n, pt.data.size, p.seed_pt);
            for (j, l) in vals.iter().enumerate() {
                pt.data.at_mut(0, j).copy_from_slice(l);
            }
            let mut ct = GLWE::alloc_from_infos(&lay);
            if compressed {
                let mut c = GLWECompressed::alloc_from_infos(&lay);
                let q = m.glwe_compressed_encrypt_sk_tmp_bytes(&lay);
                m.glwe_compressed_encrypt_sk(&mut c, &pt, &skp, seed_xa, &enc, &mut xe, scratch.get("glwe_compressed_encrypt_sk", q));
                c.write_to(&mut bytes).unwrap();
                if via_serde {
                    use poulpy_hal::layouts::ReaderFrom;
                    let mut c2 = GLWECompressed::alloc_from_infos(&lay);
                    c2.read_from(&mut &bytes[..]).unwrap();
                    c = c2;
                }
                seeds.push(*c.seed());
                m.decompress_glwe(&mut ct, &c);
            } else {
                let q = m.glwe_encrypt_sk_tmp_bytes(&lay);
                m.glwe_encrypt_sk(&mut ct, &pt, &skp, &enc, &mut xe, &mut xa, scratch.get("glwe_encrypt_sk", q));
            }
            cells.push(ct.data().to_owned_deep());
        }
        Kind::Gglwe => {
            let lay = GGLWELayout { n: nd, base2k: bb, k: kk, rank_in: ri, rank_out: ro, dnum, dsize };
            let enc = EncryptionLayout::new(lay, ni).unwrap();
            let mut pt = ScalarZnx::alloc(n, p.rank_in as usize);
            for c in 0..p.rank_in as usize {
                pt.fill_ternary_prob(c, 0.5, &mut Source::new(seed32(p.seed_pt, c as u64)));
            }
            let mut ct = GGLWE::alloc_from_infos(&lay);
            if compressed {
                let mut c = GGLWECompressed::alloc_from_infos(&lay);
                let q = m.gglwe_compressed_encrypt_sk_tmp_bytes(&lay);
                m.gglwe_compressed_encrypt_sk(&mut c, &pt, &skp, seed_xa, &enc, &mut xe, scratch.get("gglwe_compressed_encrypt_sk", q));
                c.write_to(&mut bytes).unwrap();
                if via_serde {
                    use poulpy_hal::layouts::ReaderFrom;
                    let mut c2 = GGLWECompressed::alloc_from_infos(&lay);
                    c2.read_from(&mut &bytes[..]).unwrap();
                    c = c2;
                }
                let s = c.seed().clone();
                for row in 0..p.dnum as usize {
                    for col in 0..p.rank_in as usize {
                        seeds.push(s[p.rank_in as usize * row + col]);
                    }
                }
                m.decompress_gglwe(&mut ct, &c);
                let mut lay_r = lay;
                lay_r.dnum = Dnum(rows_r as u32);
                let mut part = GGLWE::alloc_from_infos(&lay_r);
                m.decompress_gglwe(&mut part, &c);
                partial = Some((rows_r, (0..rows_r).flat_map(|row| (0..p.rank_in as usize).map(move |col| (row, col))).map(|(row, col)| own(part.at(row, col).data())).collect()));
            } else {
                let q = m.gglwe_encrypt_sk_tmp_bytes(&lay);
                m.gglwe_encrypt_sk(&mut ct, &pt, &skp, &enc, &mut xe, &mut xa, scratch.get("gglwe_encrypt_sk", q));
            }
            for row in 0..p.dnum as usize {
                for col in 0..p.rank_in as usize {
                    cells.push(own(ct.at(row, col).data()));
                }
            }
        }
        Kind::Ggsw => {
            let lay = GGSWLayout { n: nd, base2k: bb, k: kk, rank: ro, dnum, dsize };
            let enc = EncryptionLayout::new(lay, ni).unwrap();
            let mut pt = ScalarZnx::alloc(n, 1);
            pt.fill_ternary_prob(0, 0.5, &mut Source::new(seed32(p.seed_pt, 0)));
            let mut ct = GGSW::alloc_from_infos(&lay);
            let cols = p.rank_out as usize + 1;
            if compressed {
                let mut c = GGSWCompressed::alloc_from_infos(&lay);
                let q = m.ggsw_compressed_encrypt_sk_tmp_bytes(&lay);
                m.ggsw_compressed_encrypt_sk(&mut c, &pt, &skp, seed_xa, &enc, &mut xe, scratch.get("ggsw_compressed_encrypt_sk", q));
                c.write_to(&mut bytes).unwrap();
                if via_serde {
                    use poulpy_hal::layouts::ReaderFrom;
                    let mut c2 = GGSWCompressed::alloc_from_infos(&lay);
                    c2.read_from(&mut &bytes[..]).unwrap();
                    c = c2;
                }
                let s = c.seed().clone();
                for row in 0..p.dnum as usize {
                    for col in 0..cols {
                        seeds.push(s[row * cols + col]);
                    }
                }
                m.decompress_ggsw(&mut ct, &c);
            } else {
                let q = m.ggsw_encrypt_sk_tmp_bytes(&lay);
                m.ggsw_encrypt_sk(&mut ct, &pt, &skp, &enc, &mut xe, &mut xa, scratch.get("ggsw_encrypt_sk", q));
            }
            for row in 0..p.dnum as usize {
                for col in 0..cols {
                    cells.push(own(ct.at(row, col).data()));
                }
            }
        }
        Kind::SwitchingKey => {
            let lay = GLWESwitchingKeyLayout { n: nd, base2k: bb, k: kk, rank_in: ri, rank_out: ro, dnum, dsize };
            let enc = EncryptionLayout::new(lay, ni).unwrap();
            let mut ct = GLWESwitchingKey::alloc_from_infos(&lay);
            if compressed {
                let mut c = GLWESwitchingKeyCompressed::alloc_from_infos(&lay);
                let q = m.glwe_switching_key_compressed_encrypt_sk_tmp_bytes(&lay);
                m.glwe_switching_key_compressed_encrypt_sk(&mut c, &sk_in, &sk_out, seed_xa, &enc, &mut xe, scratch.get("glwe_switching_key_compressed_encrypt_sk", q));
                c.write_to(&mut bytes).unwrap();
                if via_serde {
                    use poulpy_hal::layouts::ReaderFrom;
                    let mut c2 = GLWESwitchingKeyCompressed::alloc_from_infos(&lay);
                    c2.read_from(&mut &bytes[..]).unwrap();
                    c = c2;
                }
                let s = { use poulpy_core::layouts::compressed::GGLWECompressedSeedMut; c.seed_mut().clone() };
                for row in 0..p.dnum as usize {
                    for col in 0..p.rank_in as usize {
                        seeds.push(s[p.rank_in as usize * row + col]);
                    }
                }
                m.decompress_glwe_switching_key(&mut ct, &c);
                let mut lay_r = lay;
                lay_r.dnum = Dnum(rows_r as u32);
                let mut part = GLWESwitchingKey::alloc_from_infos(&lay_r);
                m.decompress_glwe_switching_key(&mut part, &c);
                partial = Some((rows_r, (0..rows_r).flat_map(|row| (0..p.rank_in as usize).map(move |col| (row, col))).map(|(row, col)| own(part.at(row, col).data())).collect()));
            } else {
                let q = m.glwe_switching_key_encrypt_sk_tmp_bytes(&lay);
                m.glwe_switching_key_encrypt_sk(&mut ct, &sk_in, &sk_out, &enc, &mut xe, &mut xa, scratch.get("glwe_switching_key_encrypt_sk", q));
            }
            for row in 0..p.dnum as usize {
                for col in 0..p.rank_in as usize {
                    cells.push(own(ct.at(row, col).data()));
                }
            }
        }
        Kind::AutomorphismKey => {
            let lay = GLWEAutomorphismKeyLayout { n: nd, base2k: bb, k: kk, rank: ro, dnum, dsize };
            let enc = EncryptionLayout::new(lay, ni).unwrap();
            let mut ct = GLWEAutomorphismKey::alloc_from_infos(&lay);
            // any odd representative in (-2N, 2N): negative Galois elements are legal (and must survive serialisation)
            let gal = (p.gal % (2 * n as i64)) | 1;
            if compressed {
                let mut c = GLWEAutomorphismKeyCompressed::alloc_from_infos(&lay);
                let q = m.glwe_automorphism_key_compressed_encrypt_sk_tmp_bytes(&lay);
                m.glwe_automorphism_key_compressed_encrypt_sk(&mut c, gal, &sk_out, seed_xa, &enc, &mut xe, scratch.get("glwe_automorphism_key_compressed_encrypt_sk", q));
                c.write_to(&mut bytes).unwrap();
                if via_serde {
                    use poulpy_hal::layouts::ReaderFrom;
                    let mut c2 = GLWEAutomorphismKeyCompressed::alloc_from_infos(&lay);
                    c2.read_from(&mut &bytes[..]).unwrap();
                    c = c2;
                }
                let s = { use poulpy_core::layouts::compressed::GGLWECompressedSeedMut; c.seed_mut().clone() };
                for row in 0..p.dnum as usize {
                    for col in 0..p.rank_out as usize {
                        seeds.push(s[p.rank_out as usize * row + col]);
                    }
                }
                m.decompress_automorphism_key(&mut ct, &c);
                let mut lay_r = lay;
                lay_r.dnum = Dnum(rows_r as u32);
                let mut part = GLWEAutomorphismKey::alloc_from_infos(&lay_r);
                m.decompress_automorphism_key(&mut part, &c);
                partial = Some((rows_r, (0..rows_r).flat_map(|row| (0..p.rank_out as usize).map(move |col| (row, col))).map(|(row, col)| own(part.at(row, col).data())).collect()));
                {
                    use poulpy_core::layouts::GetGaloisElement;
                    meta.push(c.p());
                    meta.push(part.p());
                }
            } else {
                let q = m.glwe_automorphism_key_encrypt_sk_tmp_bytes(&lay);
                m.glwe_automorphism_key_encrypt_sk(&mut ct, gal, &sk_out, &enc, &mut xe, &mut xa, scratch.get("glwe_automorphism_key_encrypt_sk", q));
            }
            for row in 0..p.dnum as usize {
                for col in 0..p.rank_out as usize {
                    cells.push(own(ct.at(row, col).data()));
                }
            }
            // the key switches X -> X^gal back to `sk`: its cells are encrypted under aut_{gal^-1}(sk)
            meta.push(gal);
            meta.push(ct.p());
            let two_n = 2 * n as u128;
            let ginv = mod_pow(gal.rem_euclid(2 * n as i64) as u128, n as u128 - 1, two_n) as i64;
            let sk_aut: Vec<Vec<i64>> = sk.iter().map(|si| automorphism_i64(si, ginv)).collect();
            return Obj { cells, seeds, bytes, sk: sk_aut, base2k: b, partial, meta };
        }
        Kind::TensorKey => {
            let lay = GLWETensorKeyLayout { n: nd, base2k: bb, k: kk, rank: ro, dnum, dsize };
            let enc = EncryptionLayout::new(lay, ni).unwrap();
            let mut ct = GLWETensorKey::alloc_from_infos(&lay);
            let pairs = ct.rank_in().0 as usize;
            if compressed {
                let mut c = GLWETensorKeyCompressed::alloc_from_infos(&lay);
                let q = m.glwe_tensor_key_compressed_encrypt_sk_tmp_bytes(&lay);
                m.glwe_tensor_key_compressed_encrypt_sk(&mut c, &sk_out, seed_xa, &enc, &mut xe, scratch.get("glwe_tensor_key_compressed_encrypt_sk", q));
                c.write_to(&mut bytes).unwrap();
                if via_serde {
                    use poulpy_hal::layouts::ReaderFrom;
                    let mut c2 = GLWETensorKeyCompressed::alloc_from_infos(&lay);
                    c2.read_from(&mut &bytes[..]).unwrap();
                    c = c2;
                }
                let s = { use poulpy_core::layouts::compressed::GGLWECompressedSeedMut; c.seed_mut().clone() };
                for row in 0..p.dnum as usize {
                    for col in 0..pairs {
                        seeds.push(s[pairs * row + col]);
                    }
                }
                m.decompress_tensor_key(&mut ct, &c);
            } else {
                let q = m.glwe_tensor_key_encrypt_sk_tmp_bytes(&lay);
                m.glwe_tensor_key_encrypt_sk(&mut ct, &sk_out, &enc, &mut xe, &mut xa, scratch.get("glwe_tensor_key_encrypt_sk", q));
            }
            use poulpy_core::layouts::GGLWEToRef;
            let g = ct.to_ref();
            for row in 0..p.dnum as usize {
                for col in 0..pairs {
                    cells.push(own(g.at(row, col).data()));
                }
            }
        }
        Kind::GglweToGgswKey => {
            use poulpy_core::layouts::compressed::{GGLWECompressedSeed, GGLWEToGGSWKeyCompressed};
            use poulpy_core::layouts::{GGLWEToGGSWKey, GGLWEToGGSWKeyLayout};
            let lay = GGLWEToGGSWKeyLayout { n: nd, base2k: bb, k: kk, rank: ro, dnum, dsize };
            let enc = EncryptionLayout::new(lay, ni).unwrap();
            let mut ct = GGLWEToGGSWKey::alloc_from_infos(&lay);
            let r = p.rank_out as usize;
            if compressed {
                let mut c = GGLWEToGGSWKeyCompressed::alloc_from_infos(&lay);
                let q = poulpy_core::GGLWEToGGSWKeyCompressedEncryptSk::gglwe_to_ggsw_key_encrypt_sk_tmp_bytes(m, &lay);
                poulpy_core::GGLWEToGGSWKeyCompressedEncryptSk::gglwe_to_ggsw_key_encrypt_sk(m, &mut c, &sk_out, seed_xa, &enc, &mut xe, scratch.get("gglwe_to_ggsw_key_compressed_encrypt_sk", q));
                c.write_to(&mut bytes).unwrap();
                if via_serde {
                    use poulpy_hal::layouts::ReaderFrom;
                    let mut c2 = GGLWEToGGSWKeyCompressed::alloc_from_infos(&lay);
                    c2.read_from(&mut &bytes[..]).unwrap();
                    c = c2;
                }
                for i in 0..r {
                    let s = c.at(i).seed().clone();
                    for row in 0..p.dnum as usize {
                        for col in 0..r {
                            seeds.push(s[r * row + col]);
                        }
                    }
                    m.decompress_gglwe(ct.at_mut(i), c.at(i));
                }
                // the key-level entry point must agree with the per-element decompression
                let mut ct2 = GGLWEToGGSWKey::alloc_from_infos(&lay);
                poulpy_core::layouts::compressed::GGLWEToGGSWKeyDecompress::decompress_gglwe_to_ggsw_key(m, &mut ct2, &c);
                let (mut b1, mut b2) = (vec![], vec![]);
                ct.write_to(&mut b1).unwrap();
                ct2.write_to(&mut b2).unwrap();
                assert!(b1 == b2, "decompress_gglwe_to_ggsw_key differs from element-wise decompress_gglwe");
            } else {
                let q = poulpy_core::GGLWEToGGSWKeyEncryptSk::gglwe_to_ggsw_key_encrypt_sk_tmp_bytes(m, &lay);
                poulpy_core::GGLWEToGGSWKeyEncryptSk::gglwe_to_ggsw_key_encrypt_sk(m, &mut ct, &sk_out, &enc, &mut xe, &mut xa, scratch.get("gglwe_to_ggsw_key_encrypt_sk", q));
            }
            for i in 0..r {
                let g = ct.at(i);
                for row in 0..p.dnum as usize {
                    for col in 0..r {
                        cells.push(own(g.at(row, col).data()));
                    }
                }
            }
        }
        Kind::BlindRotationKey => {
            use poulpy_bin_fhe::blind_rotation::{BlindRotationKey, BlindRotationKeyCompressed, BlindRotationKeyCompressedEncryptSk, BlindRotationKeyEncryptSk, BlindRotationKeyLayout, CGGI};
            use poulpy_core::layouts::LWESecret;
            use poulpy_hal::layouts::ReaderFrom;
            let n_lwe = p.n_lwe().min(n);
            let lay = BlindRotationKeyLayout { n_glwe: nd, n_lwe: Degree(n_lwe as u32), base2k: bb, k: kk, dnum, rank: ro };
            let enc = EncryptionLayout::new(lay, ni).unwrap();
            let mut sk_lwe = LWESecret::alloc(Degree(n_lwe as u32));
            match p.seed_sk % 3 {
                0 => sk_lwe.fill_binary_block(1, &mut Source::new(seed32(p.seed_sk, 3))),
                1 => sk_lwe.fill_binary_prob(0.5, &mut Source::new(seed32(p.seed_sk, 3))),
                _ => sk_lwe.fill_binary_hw((n_lwe / 2).max(1), &mut Source::new(seed32(p.seed_sk, 3))),
            }
            let cols = p.rank_out as usize + 1;
            // the key types keep their GGSWs private: they are read back through the public serialisation
            if compressed {
                let mut key = BlindRotationKeyCompressed::<Vec<u8>, CGGI>::alloc(&lay);
                let q = <Module<B> as BlindRotationKeyCompressedEncryptSk<B, CGGI>>::blind_rotation_key_compressed_encrypt_sk_tmp_bytes(m, &lay);
                m.blind_rotation_key_compressed_encrypt_sk(&mut key, &skp, &sk_lwe, seed_xa, &enc, &mut xe, scratch.get("blind_rotation_key_compressed_encrypt_sk", q));
                key.write_to(&mut bytes).unwrap();
                if via_serde {
                    let mut k2 = BlindRotationKeyCompressed::<Vec<u8>, CGGI>::alloc(&lay);
                    k2.read_from(&mut &bytes[..]).unwrap();
                    let mut again = vec![];
                    k2.write_to(&mut again).unwrap();
                    bytes = again;
                }
                let mut probe = vec![];
                GGSWCompressed::alloc_from_infos(&lay).write_to(&mut probe).unwrap();
                let mut cur = &bytes[bytes.len() - n_lwe * probe.len()..];
                for _ in 0..n_lwe {
                    let mut g = GGSWCompressed::alloc_from_infos(&lay);
                    g.read_from(&mut cur).unwrap();
                    let s = g.seed().clone();
                    let mut ct = GGSW::alloc_from_infos(&lay);
                    m.decompress_ggsw(&mut ct, &g);
                    for row in 0..p.dnum as usize {
                        for col in 0..cols {
                            seeds.push(s[row * cols + col]);
                            cells.push(own(ct.at(row, col).data()));
                        }
                    }
                }
            } else {
                let mut key = BlindRotationKey::<Vec<u8>, CGGI>::alloc(&lay);
                let q = <Module<B> as BlindRotationKeyEncryptSk<CGGI, B>>::blind_rotation_key_encrypt_sk_tmp_bytes(m, &lay);
                m.blind_rotation_key_encrypt_sk(&mut key, &skp, &sk_lwe, &enc, &mut xe, &mut xa, scratch.get("blind_rotation_key_encrypt_sk", q));
                key.write_to(&mut bytes).unwrap();
                let mut probe = vec![];
                GGSW::alloc_from_infos(&lay).write_to(&mut probe).unwrap();
                let mut cur = &bytes[bytes.len() - n_lwe * probe.len()..];
                for _ in 0..n_lwe {
                    let mut ct = GGSW::alloc_from_infos(&lay);
                    ct.read_from(&mut cur).unwrap();
                    for row in 0..p.dnum as usize {
                        for col in 0..cols {
                            cells.push(own(ct.at(row, col).data()));
                        }
                    }
                }
            }
        }
    }
    Obj { cells, seeds, bytes, sk, base2k: b, partial, meta }
}
