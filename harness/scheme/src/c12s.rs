//! Scheme-level part of C12 (and of C11): every scratch-taking operation of poulpy-core / the CMux
//! family of poulpy-bin-fhe is run with a scratch window of *exactly* the number of bytes its size query
//! returns, inside guarded memory, three times: two different garbage fills of the window and of the
//! destination, and once with ample slack (16x the query + 8 MiB).  Oracle-free: any panic, guard damage, or difference
//! between the three results is a violation (the result must be a function of the inputs only).

use crate::c03::{Case, adapt, build_atk, build_swk};
use crate::c04::{build_ggsw, build_tsk, small_poly};
use crate::gad::*;
use crate::sch::*;
use poulpy_bin_fhe::bdd_arithmetic::{Cmux, Cswap};
use poulpy_core::{
    GGSWExpandRows, GGSWKeyswitch, GLWEAutomorphism, GLWEExternalProduct, GLWEKeyswitch, GLWEMulConst, GLWEMulPlain, GLWENormalize, GLWETensoring, GLWETrace,
    layouts::{Base2K, Degree, Dnum, Dsize, GGSW, GLWE, GLWEAutomorphismKeyHelper, GLWEPlaintext, GLWESecret, GLWETensor, LWEInfos, Rank, TorusPrecision},
};
use poulpy_hal::{
    api::{ScratchFromBytes, ScratchOwnedAlloc},
    layouts::{Module, Scratch, ScratchOwned, ToOwnedDeep, ZnxInfos, ZnxView, ZnxViewMut},
    source::Source,
};
use pzv_be::{FullBackend, with_backend};
use pzv_common::driver::{Ctx, Verdict, guarded, panic_sig};
use pzv_common::model::*;
use std::collections::HashMap;

const GUARD: usize = 512;

/// exact-size scratch window inside guarded memory, 64-byte aligned, filled with garbage
pub struct Win {
    buf: Vec<u8>,
    off: usize,
    len: usize,
}

impl Win {
    pub fn new(len: usize, seed: u64) -> Win {
        let mut buf = vec![0xC3u8; len + 2 * GUARD + 64];
        let base = buf.as_ptr() as usize;
        let off = GUARD + (64 - (base + GUARD) % 64) % 64;
        let mut r = SplitMix::new(seed);
        for c in buf[off..off + len].chunks_mut(8) {
            let v = r.next().to_le_bytes();
            let l = c.len();
            c.copy_from_slice(&v[..l]);
        }
        Win { buf, off, len }
    }
    /// large window for the reference run: lazily mapped zero pages, garbage in the first 64 KiB only
    pub fn roomy(len: usize, seed: u64) -> Win {
        let mut buf = vec![0u8; len + 2 * GUARD + 64];
        let base = buf.as_ptr() as usize;
        let off = GUARD + (64 - (base + GUARD) % 64) % 64;
        let mut r = SplitMix::new(seed);
        for c in buf[off..off + len.min(1 << 16)].chunks_mut(8) {
            let v = r.next().to_le_bytes();
            let l = c.len();
            c.copy_from_slice(&v[..l]);
        }
        for x in buf[..off].iter_mut() {
            *x = 0xC3;
        }
        for x in buf[off + len..].iter_mut() {
            *x = 0xC3;
        }
        Win { buf, off, len }
    }
    pub fn scratch<B: FullBackend>(&mut self) -> &mut Scratch<B>
    where
        Scratch<B>: ScratchFromBytes<B>,
    {
        let (o, l) = (self.off, self.len);
        Scratch::<B>::from_bytes(&mut self.buf[o..o + l])
    }
    pub fn guards_ok(&self) -> bool {
        self.buf[..self.off].iter().all(|x| *x == 0xC3) && self.buf[self.off + self.len..].iter().all(|x| *x == 0xC3)
    }
}

fn secret(n: usize, rank: usize, dist: Dist, seed: u64, salt: u64) -> GLWESecret<Vec<u8>> {
    let mut sk = GLWESecret::alloc(Degree(n as u32), Rank(rank as u32));
    fill_glwe_secret(&mut sk, dist, &mut Source::new(seed32(seed, salt)));
    sk
}

fn glwe(n: usize, l: Lay, rank: usize) -> GLWE<Vec<u8>> {
    GLWE::alloc(Degree(n as u32), Base2K(l.b as u32), TorusPrecision((l.size * l.b) as u32), Rank(rank as u32))
}

fn filled(n: usize, l: Lay, rank: usize, cls: VClass, seed: u64) -> GLWE<Vec<u8>> {
    let mut g = glwe(n, l, rank);
    arbitrary_glwe(&mut g, cls, seed);
    g
}

/// C10 mode: one ample run per backend, the raw output is left in `LAST_OUT` for the cross-backend comparison.
pub static CROSS_BACKEND: std::sync::atomic::AtomicBool = std::sync::atomic::AtomicBool::new(false);
thread_local! {
    pub static LAST_OUT: std::cell::RefCell<Option<Vec<i64>>> = const { std::cell::RefCell::new(None) };
}

/// parameters stay inside the FFT64 exactness domain: on an FFT64 backend, and on every backend in the cross-backend mode
fn fft_domain(c: &Case) -> bool {
    c.be.is_fft() || CROSS_BACKEND.load(std::sync::atomic::Ordering::Relaxed)
}

/// C11 mode: only the two ample runs (stale destination / scratch contents), no exact-size windows.
pub static TWO_FILLS_ONLY: std::sync::atomic::AtomicBool = std::sync::atomic::AtomicBool::new(false);

/// Runs `f` four times: twice with ample scratch (different garbage in the window and in the destination), then
/// twice with a window of exactly the queried size.  The two ample runs come first, so that the dependence on
/// scratch / destination contents is judged for every case - also for the shapes whose exact-size run is a recorded finding.
/// `f` returns the raw output.
fn three_runs<B: FullBackend, F>(c: &Case, opn: &str, bytes: usize, mut f: F) -> Result<(), Verdict>
where
    F: FnMut(&mut Scratch<B>, u64) -> Vec<i64>,
    Scratch<B>: ScratchFromBytes<B>,
{
    let mut outs: Vec<Vec<i64>> = vec![];
    let roomy = 15 * bytes + (8 << 20);
    for (i, (extra, seed)) in [(roomy, 0x3333_u64), (roomy, 0x4444), (0, 0x1111), (0, 0x2222)].iter().enumerate() {
        let mut w = if *extra == 0 { Win::new(bytes, seed ^ c.seed) } else { Win::roomy(bytes + extra, seed ^ c.seed) };
        let r = guarded(|| f(w.scratch::<B>(), i as u64 + 1));
        match r {
            Err(p) => {
                let kind = if *extra == 0 { "exact-scratch-panic" } else { "panic-with-slack" };
                return Err(Verdict::fail(format!("{opn}|{kind}|{}", panic_sig(&p)), format!("backend={} op={opn}: scratch window of exactly the queried {bytes} bytes (+{extra}): {p}\ncase={c:?}", c.be.name())));
            }
            Ok(v) => outs.push(v),
        }
        if !w.guards_ok() {
            return Err(Verdict::fail(format!("{opn}|guard-damaged"), format!("backend={} op={opn}: bytes outside the {bytes}-byte scratch window were written\ncase={c:?}", c.be.name())));
        }
        if i == 0 && CROSS_BACKEND.load(std::sync::atomic::Ordering::Relaxed) {
            LAST_OUT.with(|l| *l.borrow_mut() = Some(outs[0].clone()));
            return Ok(());
        }
        if i == 1 && outs[0] == outs[1] && TWO_FILLS_ONLY.load(std::sync::atomic::Ordering::Relaxed) {
            return Ok(());
        }
        if i == 1 && outs[0] != outs[1] {
            return Err(Verdict::fail(format!("{opn}|result-depends-on-scratch-or-stale-content"), format!("backend={} op={opn}: two runs with identical inputs and ample scratch but different garbage in the scratch window / destination differ\ncase={c:?}", c.be.name())));
        }
    }
    if outs[2] != outs[3] {
        return Err(Verdict::fail(format!("{opn}|result-depends-on-scratch-or-stale-content"), format!("backend={} op={opn}: two runs with identical inputs but different garbage in the exact-size scratch window / destination differ\ncase={c:?}", c.be.name())));
    }
    if outs[0] != outs[2] {
        return Err(Verdict::fail(format!("{opn}|result-depends-on-scratch-size"), format!("backend={} op={opn}: the result with exactly the queried scratch differs from the result with ample slack\ncase={c:?}", c.be.name())));
    }
    Ok(())
}

pub const OPS: [&str; 38] = [
    "glwe_keyswitch",
    "glwe_keyswitch_assign",
    "glwe_automorphism",
    "glwe_automorphism_assign",
    "glwe_automorphism_add",
    "glwe_automorphism_add_assign",
    "glwe_automorphism_sub",
    "glwe_automorphism_sub_negate",
    "glwe_automorphism_sub_assign",
    "glwe_automorphism_sub_negate_assign",
    "glwe_trace",
    "glwe_trace_assign",
    "glwe_external_product",
    "glwe_external_product_assign",
    "cmux",
    "cmux_assign",
    "cmux_assign_neg",
    "cswap",
    "glwe_tensor_apply",
    "glwe_tensor_square_apply",
    "glwe_tensor_apply_add_assign",
    "glwe_tensor_relinearize",
    "glwe_mul_plain",
    "glwe_mul_plain_assign",
    "glwe_mul_const",
    "glwe_mul_const_assign",
    "ggsw_expand_row",
    "ggsw_keyswitch",
    "glwe_normalize",
    "glwe_normalize_assign",
    "glwe_from_lwe",
    "lwe_from_glwe",
    "lwe_keyswitch",
    "glwe_encrypt_sk",
    "glwe_encrypt_pk",
    "glwe_decrypt",
    "lwe_encrypt_sk",
    "lwe_decrypt",
];

fn raw(g: &GLWE<Vec<u8>>) -> Vec<i64> {
    g.data().raw().to_vec()
}

fn run<B: FullBackend>(m: &Module<B>, c: &Case) -> Verdict
where
    Scratch<B>: ScratchFromBytes<B>,
{
    let n = m.n();
    let op = (c.op as usize) % OPS.len();
    let opn = OPS[op];
    let mut big = ScratchOwned::<B>::alloc(1 << 23);
    let (ri, ro) = (c.rank_in as usize, c.rank_out as usize);
    let (al, rl) = (c.a_lay(), c.r_lay());
    let cls = c.cls;
    let mut classes = vec![c.be.name(), opn];
    if c.dsize > 2 {
        classes.push("dsize>2");
    }
    if c.ab != c.kb || c.rb != c.kb {
        classes.push("cross_radix");
    }
    let res: Result<(), Verdict> = match op {
        0 | 1 => {
            let (ri, ro) = if op == 1 { (ro, ro) } else { (ri, ro) };
            let mut c2 = c.clone();
            c2.rank_in = ri as u8;
            let (sk_in, sk_out) = (secret(n, ri, c.dist, c.seed, 1), secret(n, ro, c.dist, c.seed, 2));
            let (key, _) = match build_swk(m, &c2, &sk_in, &sk_out, &mut big) {
                Ok(x) => x,
                Err(e) => return Verdict::fail("glwe_switching_key_encrypt_sk|key-cell-wrong", e),
            };
            let a = filled(n, al, ri, cls, c.seed ^ 0xA);
            if op == 0 {
                let proto = glwe(n, rl, ro);
                let bytes = m.glwe_keyswitch_tmp_bytes(&proto, &a, &key);
                three_runs::<B, _>(c, opn, bytes, |s, fill| {
                    let mut r = filled(n, rl, ro, VClass::Uniform, fill);
                    m.glwe_keyswitch(&mut r, &a, &key, s);
                    raw(&r)
                })
            } else {
                let bytes = m.glwe_keyswitch_tmp_bytes(&a, &a, &key);
                three_runs::<B, _>(c, opn, bytes, |s, _| {
                    let mut r = GLWE::alloc_from_infos(&a);
                    r.data_mut().raw_mut().copy_from_slice(a.data().raw());
                    m.glwe_keyswitch_assign(&mut r, &key, s);
                    raw(&r)
                })
            }
        }
        2..=11 => {
            let r_ = ro;
            let sk = secret(n, r_, c.dist, c.seed, 1);
            let mut c2 = c.clone();
            c2.rank_in = r_ as u8;
            let a = filled(n, al, r_, cls, c.seed ^ 0xA);
            if op < 10 {
                let (key, _, _) = match build_atk(m, &c2, c.gal_el(), &sk, 0, &mut big) {
                    Ok(x) => x,
                    Err(e) => return Verdict::fail("glwe_automorphism_key_encrypt_sk|key-cell-wrong", e),
                };
                let assign = matches!(op, 3 | 5 | 8 | 9);
                let l = if assign { al } else { rl };
                let proto = glwe(n, l, r_);
                let bytes = m.glwe_automorphism_tmp_bytes(&proto, &a, &key);
                three_runs::<B, _>(c, opn, bytes, |s, fill| {
                    let mut r = if assign {
                        let mut x = GLWE::alloc_from_infos(&a);
                        x.data_mut().raw_mut().copy_from_slice(a.data().raw());
                        x
                    } else {
                        filled(n, rl, r_, VClass::Uniform, fill)
                    };
                    match op {
                        2 => m.glwe_automorphism(&mut r, &a, &key, s),
                        3 => m.glwe_automorphism_assign(&mut r, &key, s),
                        4 => m.glwe_automorphism_add(&mut r, &a, &key, s),
                        5 => m.glwe_automorphism_add_assign(&mut r, &key, s),
                        6 => m.glwe_automorphism_sub(&mut r, &a, &key, s),
                        7 => m.glwe_automorphism_sub_negate(&mut r, &a, &key, s),
                        8 => m.glwe_automorphism_sub_assign(&mut r, &key, s),
                        _ => m.glwe_automorphism_sub_negate_assign(&mut r, &key, s),
                    }
                    raw(&r)
                })
            } else {
                let gals = m.glwe_trace_galois_elements();
                let mut keys = HashMap::new();
                for (i, g) in gals.iter().enumerate() {
                    match build_atk(m, &c2, *g, &sk, i as u64 + 1, &mut big) {
                        Ok((k, _, _)) => {
                            keys.insert(*g, k);
                        }
                        Err(e) => return Verdict::fail("glwe_automorphism_key_encrypt_sk|key-cell-wrong", e),
                    }
                }
                let infos = keys.automorphism_key_infos();
                let skip = c.skip as usize % (c.log_n as usize + 1);
                if op == 10 {
                    let proto = glwe(n, rl, r_);
                    let bytes = m.glwe_trace_tmp_bytes(&proto, &a, &infos);
                    three_runs::<B, _>(c, opn, bytes, |s, fill| {
                        let mut r = filled(n, rl, r_, VClass::Uniform, fill);
                        m.glwe_trace(&mut r, skip, &a, &keys, s);
                        raw(&r)
                    })
                } else {
                    let bytes = m.glwe_trace_tmp_bytes(&a, &a, &infos);
                    three_runs::<B, _>(c, opn, bytes, |s, _| {
                        let mut r = GLWE::alloc_from_infos(&a);
                        r.data_mut().raw_mut().copy_from_slice(a.data().raw());
                        m.glwe_trace_assign(&mut r, skip, &keys, s);
                        raw(&r)
                    })
                }
            }
        }
        12..=17 => {
            let r_ = ro;
            let sk = secret(n, r_, c.dist, c.seed, 1);
            let mut c2 = c.clone();
            c2.rank_in = r_ as u8;
            // the CMux family asserts equal radices (cswap converts)
            if (14..=16).contains(&op) {
                c2.ab = c2.kb;
            }
            let al = c2.a_lay();
            let m2 = small_poly(c.idx as usize % 8, n, c.seed);
            let (g, _, _) = match build_ggsw(m, &c2, &sk, &m2, 0, &mut big) {
                Ok(x) => x,
                Err(e) => return Verdict::fail("ggsw_encrypt_sk|cell-wrong", e),
            };
            let a = filled(n, al, r_, cls, c.seed ^ 0xA);
            let fl = Lay { b: al.b, size: if c.skip & 1 == 0 { al.size } else { (al.size as i64 + ((c.skip >> 1) % 5) as i64 - 2).clamp(1, 16) as usize } };
            let f = filled(n, fl, r_, cls, c.seed ^ 0xF);
            let copy = |x: &GLWE<Vec<u8>>| {
                let mut y = GLWE::alloc_from_infos(x);
                y.data_mut().raw_mut().copy_from_slice(x.data().raw());
                y
            };
            match op {
                12 => {
                    let rl = Lay { b: rl.b, size: rl.size };
                    let proto = glwe(n, rl, r_);
                    let bytes = m.glwe_external_product_tmp_bytes(&proto, &a, &g);
                    three_runs::<B, _>(c, opn, bytes, |s, fill| {
                        let mut r = filled(n, rl, r_, VClass::Uniform, fill);
                        m.glwe_external_product(&mut r, &a, &g, s);
                        raw(&r)
                    })
                }
                13 => {
                    let bytes = m.glwe_external_product_tmp_bytes(&a, &a, &g);
                    three_runs::<B, _>(c, opn, bytes, |s, _| {
                        let mut r = copy(&a);
                        m.glwe_external_product_assign(&mut r, &g, s);
                        raw(&r)
                    })
                }
                14 => {
                    let rl = Lay { b: al.b, size: (c.rsize as usize).clamp(1, 12) };
                    let proto = glwe(n, rl, r_);
                    let bytes = m.cmux_tmp_bytes(&proto, &a, &g).max(m.cmux_tmp_bytes(&proto, &f, &g));
                    three_runs::<B, _>(c, opn, bytes, |s, fill| {
                        let mut r = filled(n, rl, r_, VClass::Uniform, fill);
                        m.cmux(&mut r, &a, &f, &g, s);
                        raw(&r)
                    })
                }
                15 => {
                    let bytes = m.cmux_tmp_bytes(&a, &f, &g);
                    three_runs::<B, _>(c, opn, bytes, |s, _| {
                        let mut r = copy(&a);
                        m.cmux_assign(&mut r, &f, &g, s);
                        raw(&r)
                    })
                }
                16 => {
                    let bytes = m.cmux_tmp_bytes(&f, &a, &g);
                    three_runs::<B, _>(c, opn, bytes, |s, _| {
                        let mut r = copy(&f);
                        m.cmux_assign_neg(&mut r, &a, &g, s);
                        raw(&r)
                    })
                }
                _ => {
                    let bytes = m.cswap_tmp_bytes(&a, &f, &g);
                    three_runs::<B, _>(c, opn, bytes, |s, _| {
                        let (mut x, mut y) = (copy(&a), copy(&f));
                        m.cswap(&mut x, &mut y, &g, s);
                        let mut v = raw(&x);
                        v.extend(raw(&y));
                        v
                    })
                }
            }
        }
        18..=25 => {
            // multiplication family: operands share a radix inside the FFT domain of products
            let r_ = (ro).min(2);
            let b = (c.kb as usize).min(if fft_domain(c) { 15 } else { 30 }).max(2);
            let (sa, sb) = ((al.size).clamp(1, 6), (c.rsize as usize % 6) + 1);
            let (la, lb) = (Lay { b, size: sa }, Lay { b, size: sb });
            let lr = Lay { b: if c.radix_mode & 2 == 0 { b } else { c.rb as usize }, size: ((c.skip as usize) % 9) + 1 };
            let (ak, bk) = (la.bits() - (c.krem as usize % b), lb.bits() - (c.n_lwe as usize % b));
            let off = (c.idx as usize) % ((sa + if op == 19 { sa } else { sb }) * b);
            let a = filled(n, la, r_, cls, c.seed ^ 0xA);
            let bb = filled(n, lb, r_, cls, c.seed ^ 0xC);
            match op {
                18..=20 => {
                    let proto = GLWETensor::alloc(Degree(n as u32), Base2K(lr.b as u32), TorusPrecision((lr.size * lr.b) as u32), Rank(r_ as u32));
                    let (bx, bkx) = if op == 19 { (&a, ak) } else { (&bb, bk) };
                    let bytes = if op == 19 { m.glwe_tensor_square_apply_tmp_bytes(&proto, &a) } else { m.glwe_tensor_apply_tmp_bytes(&proto, &a, bx) };
                    three_runs::<B, _>(c, opn, bytes, |s, fill| {
                        let mut t = GLWETensor::alloc(Degree(n as u32), Base2K(lr.b as u32), TorusPrecision((lr.size * lr.b) as u32), Rank(r_ as u32));
                        // add_assign accumulates onto the destination: same content in every run
                        let fseed = if op == 20 { 7 } else { fill };
                        for col in 0..t.data().cols() {
                            set_column(t.data_mut(), col, &gen_column(VClass::Uniform, lr.b, n, lr.size, fseed ^ (col as u64 + 9)));
                        }
                        match op {
                            18 => m.glwe_tensor_apply(off, &mut t, &a, ak, bx, bkx, s),
                            19 => m.glwe_tensor_square_apply(off, &mut t, &a, ak, s),
                            _ => m.glwe_tensor_apply_add_assign(off, &mut t, &a, ak, bx, bkx, s),
                        }
                        t.data().raw().to_vec()
                    })
                }
                21 => {
                    let sk = secret(n, r_, c.dist, c.seed, 1);
                    let c5 = crate::c05::Case { be: c.be, op: 0, log_n: c.log_n, b: b as u8, sa: sa as u8, sb: sb as u8, arem: 0, brem: 0, rb: lr.b as u8, rsize: lr.size as u8, cross: false, off: 0, rank: r_ as u8, dist: c.dist, cls_a: cls, cls_b: cls, kb: c.kb.min(if fft_domain(c) { 14 } else { 40 }), dnum: c.dnum.clamp(1, 4), dsize: c.dsize.clamp(1, 4), extra: c.extra.max(1), noise: c.noise, seed: c.seed };
                    let (tk, _) = match crate::c05::build_tk(m, &c5, &sk, &mut big) {
                        Ok(x) => x,
                        Err(e) => return Verdict::fail("glwe_tensor_key_encrypt_sk|key-cell-wrong", e),
                    };
                    let mut t = GLWETensor::alloc(Degree(n as u32), Base2K(la.b as u32), TorusPrecision((la.size * la.b) as u32), Rank(r_ as u32));
                    for col in 0..t.data().cols() {
                        set_column(t.data_mut(), col, &gen_column(VClass::Uniform, la.b, n, la.size, c.seed ^ (col as u64 + 90)));
                    }
                    let proto = glwe(n, lr, r_);
                    let bytes = m.glwe_tensor_relinearize_tmp_bytes(&proto, &t, &tk);
                    let ks = tk.size();
                    three_runs::<B, _>(c, opn, bytes, |s, fill| {
                        let mut r = filled(n, lr, r_, VClass::Uniform, fill);
                        m.glwe_tensor_relinearize(&mut r, &t, &tk, ks, s);
                        raw(&r)
                    })
                }
                22 | 23 => {
                    let mut pt = GLWEPlaintext::alloc(Degree(n as u32), Base2K(b as u32), TorusPrecision((lb.size * b) as u32));
                    set_column(&mut pt.data, 0, &gen_column(cls, b, n, lb.size, c.seed ^ 0xC));
                    if op == 22 {
                        let proto = glwe(n, lr, r_);
                        let bytes = m.glwe_mul_plain_tmp_bytes(&proto, &a, &pt);
                        three_runs::<B, _>(c, opn, bytes, |s, fill| {
                            let mut r = filled(n, lr, r_, VClass::Uniform, fill);
                            m.glwe_mul_plain(off, &mut r, &a, ak, &pt, bk, s);
                            raw(&r)
                        })
                    } else {
                        let bytes = m.glwe_mul_plain_tmp_bytes(&a, &a, &pt);
                        three_runs::<B, _>(c, opn, bytes, |s, _| {
                            let mut r = GLWE::alloc_from_infos(&a);
                            r.data_mut().raw_mut().copy_from_slice(a.data().raw());
                            m.glwe_mul_plain_assign(off, &mut r, ak, &pt, bk, s);
                            raw(&r)
                        })
                    }
                }
                _ => {
                    let digits: Vec<i64> = gen_column(VClass::Uniform, b, 1, lb.size, c.seed ^ 0xC).iter().map(|l| l[0]).collect();
                    if op == 24 {
                        let proto = glwe(n, lr, r_);
                        let bytes = m.glwe_mul_const_tmp_bytes(&proto, &a, digits.len());
                        three_runs::<B, _>(c, opn, bytes, |s, fill| {
                            let mut r = filled(n, lr, r_, VClass::Uniform, fill);
                            m.glwe_mul_const(off, &mut r, &a, &digits, s);
                            raw(&r)
                        })
                    } else {
                        let bytes = m.glwe_mul_const_tmp_bytes(&a, &a, digits.len());
                        three_runs::<B, _>(c, opn, bytes, |s, _| {
                            let mut r = GLWE::alloc_from_infos(&a);
                            r.data_mut().raw_mut().copy_from_slice(a.data().raw());
                            m.glwe_mul_const_assign(off, &mut r, &digits, s);
                            raw(&r)
                        })
                    }
                }
            }
        }
        26 | 27 => {
            let r_ = ro;
            let sk = secret(n, r_, c.dist, c.seed, 1);
            let mut c2 = c.clone();
            c2.rank_in = r_ as u8;
            let (tsk, _) = match build_tsk(m, &c2, &sk, &mut big) {
                Ok(x) => x,
                Err(e) => return Verdict::fail("gglwe_to_ggsw_key_encrypt_sk|cell-wrong", e),
            };
            let g_dsize = 1 + (c.skip as usize % 2);
            let g_dnum = (al.size.saturating_sub(1) / g_dsize).clamp(1, 3);
            if al.size <= g_dsize || g_dnum * g_dsize > al.size {
                return Verdict::pass(false, &["layout_rejected_by_constructor"]);
            }
            let mk = |fill: u64| {
                let mut g = GGSW::alloc(Degree(n as u32), Base2K(al.b as u32), TorusPrecision((al.size * al.b) as u32), Rank(r_ as u32), Dnum(g_dnum as u32), Dsize(g_dsize as u32));
                for row in 0..g_dnum {
                    for col in 0..=r_ {
                        // column 0 is the input of the expansion: identical in every run; the others are stale content
                        let sd = if col == 0 { c.seed ^ (row as u64 + 5) } else { fill ^ ((row * 8 + col) as u64 + 77) };
                        let mut cell = g.at_mut(row, col);
                        for cc in 0..=r_ {
                            let limbs = gen_column(VClass::Uniform, al.b, n, al.size, sd ^ (cc as u64 + 1) * 0x9191);
                            for (j, lb) in limbs.iter().enumerate() {
                                cell.data_mut().at_mut(cc, j).copy_from_slice(lb);
                            }
                        }
                    }
                }
                g
            };
            let graw = |g: &GGSW<Vec<u8>>| {
                let mut v = vec![];
                for row in 0..g_dnum {
                    for col in 0..=r_ {
                        v.extend(g.at(row, col).data().to_owned_deep().raw().to_vec());
                    }
                }
                v
            };
            if op == 26 {
                let proto = mk(1);
                let bytes = m.ggsw_expand_rows_tmp_bytes(&proto, &tsk);
                three_runs::<B, _>(c, opn, bytes, |s, fill| {
                    let mut g = mk(fill);
                    m.ggsw_expand_row(&mut g, &tsk, s);
                    graw(&g)
                })
            } else {
                let (key, _) = match build_swk(m, &c2, &sk, &sk, &mut big) {
                    Ok(x) => x,
                    Err(e) => return Verdict::fail("glwe_switching_key_encrypt_sk|key-cell-wrong", e),
                };
                let a = mk(1);
                let bytes = m.ggsw_keyswitch_tmp_bytes(&a, &a, &key, &tsk);
                three_runs::<B, _>(c, opn, bytes, |s, fill| {
                    let mut g = mk(fill + 10);
                    m.ggsw_keyswitch(&mut g, &a, &key, &tsk, s);
                    graw(&g)
                })
            }
        }
        30..=32 => {
            // LWE <-> GLWE conversions and the LWE key-switch (keys built with ample scratch)
            use crate::c03::{arbitrary_lwe, lwe_secret};
            use poulpy_core::layouts::GLWESecretPreparedFactory;
            use poulpy_hal::api::ScratchOwnedBorrow;
            use poulpy_core::layouts::{Base2K, Degree, Dnum, GLWEToLWEKey, GLWEToLWEKeyLayout, GLWEToLWEKeyPreparedFactory, LWESwitchingKey, LWESwitchingKeyLayout, LWESwitchingKeyPreparedFactory, LWEToGLWEKey, LWEToGLWEKeyLayout, LWEToGLWEKeyPreparedFactory, Rank, TorusPrecision};
            use poulpy_core::{EncryptionLayout, GLWEFromLWE, GLWEToLWESwitchingKeyEncryptSk, LWEFromGLWE, LWEKeySwitch, LWESwitchingKeyEncrypt, LWEToGLWESwitchingKeyEncryptSk};
            let kb = c.kb as usize;
            let ni = c.noise_infos();
            let (nd, bb, kk, dn) = (Degree(n as u32), Base2K(kb as u32), TorusPrecision(c.key_k() as u32), Dnum(c.dnum as u32));
            let n1 = (c.n_lwe as usize).clamp(1, n);
            let n2 = (c.n_lwe2 as usize).clamp(1, n);
            let mut xe = Source::new(seed32(c.seed, 0xE1));
            let mut xa = Source::new(seed32(c.seed, 0xA1));
            let lraw = |l: &poulpy_core::layouts::LWE<Vec<u8>>| -> Vec<i64> { l.data().raw().to_vec() };
            match op {
                30 => {
                    let sk1 = lwe_secret(n1, c.dist, c.seed, 1);
                    let skg = secret(n, ro, c.dist, c.seed, 2);
                    let mut skp = m.glwe_secret_prepared_alloc(Rank(ro as u32));
                    m.glwe_secret_prepare(&mut skp, &skg);
                    let lay = LWEToGLWEKeyLayout { n: nd, base2k: bb, k: kk, dnum: dn, rank_out: Rank(ro as u32) };
                    let enc = EncryptionLayout::new(lay, ni).unwrap();
                    let mut key = LWEToGLWEKey::alloc_from_infos(&lay);
                    m.lwe_to_glwe_key_encrypt_sk(&mut key, &sk1, &skp, &enc, &mut xe, &mut xa, big.borrow());
                    let mut prep = m.lwe_to_glwe_key_prepared_alloc_from_infos(&key);
                    m.lwe_to_glwe_key_prepare(&mut prep, &key, big.borrow());
                    let a = arbitrary_lwe(n1, al, cls, c.seed ^ 0xA);
                    let proto = glwe(n, rl, ro);
                    let bytes = m.glwe_from_lwe_tmp_bytes(&proto, &a, &prep);
                    three_runs::<B, _>(c, opn, bytes, |s, fill| {
                        let mut r = filled(n, rl, ro, VClass::Uniform, fill);
                        m.glwe_from_lwe(&mut r, &a, &prep, s);
                        raw(&r)
                    })
                }
                31 => {
                    let sk2 = lwe_secret(n2, c.dist, c.seed, 1);
                    let skg = secret(n, ri, c.dist, c.seed, 2);
                    let lay = GLWEToLWEKeyLayout { n: nd, base2k: bb, k: kk, rank_in: Rank(ri as u32), dnum: dn };
                    let enc = EncryptionLayout::new(lay, ni).unwrap();
                    let mut key = GLWEToLWEKey::alloc_from_infos(&lay);
                    m.glwe_to_lwe_key_encrypt_sk(&mut key, &sk2, &skg, &enc, &mut xe, &mut xa, big.borrow());
                    let mut prep = m.glwe_to_lwe_key_prepared_alloc_from_infos(&key);
                    m.glwe_to_lwe_key_prepare(&mut prep, &key, big.borrow());
                    let a = filled(n, al, ri, cls, c.seed ^ 0xA);
                    let idx = c.idx as usize % n;
                    let proto = arbitrary_lwe(n2, rl, VClass::Uniform, 1);
                    let bytes = m.lwe_from_glwe_tmp_bytes(&proto, &a, &prep);
                    three_runs::<B, _>(c, opn, bytes, |s, fill| {
                        let mut r = arbitrary_lwe(n2, rl, VClass::Uniform, fill);
                        m.lwe_from_glwe(&mut r, &a, idx, &prep, s);
                        lraw(&r)
                    })
                }
                _ => {
                    let (sk1, sk2) = (lwe_secret(n1, c.dist, c.seed, 1), lwe_secret(n2, c.dist, c.seed, 2));
                    let lay = LWESwitchingKeyLayout { n: nd, base2k: bb, k: kk, dnum: dn };
                    let enc = EncryptionLayout::new(lay, ni).unwrap();
                    let mut key = LWESwitchingKey::alloc_from_infos(&lay);
                    m.lwe_switching_key_encrypt_sk(&mut key, &sk1, &sk2, &enc, &mut xe, &mut xa, big.borrow());
                    let mut prep = m.lwe_switching_key_prepared_alloc_from_infos(&key);
                    m.lwe_switching_key_prepare(&mut prep, &key, big.borrow());
                    let a = arbitrary_lwe(n1, al, cls, c.seed ^ 0xA);
                    let proto = arbitrary_lwe(n2, rl, VClass::Uniform, 1);
                    let bytes = m.lwe_keyswitch_tmp_bytes(&proto, &a, &prep);
                    three_runs::<B, _>(c, opn, bytes, |s, fill| {
                        let mut r = arbitrary_lwe(n2, rl, VClass::Uniform, fill);
                        m.lwe_keyswitch(&mut r, &a, &prep, s);
                        lraw(&r)
                    })
                }
            }
        }
        33..=37 => {
            // encryption / decryption with exactly their own queries (radix of the key inside the backend domain)
            use crate::c03::lwe_secret;
            use poulpy_core::layouts::{Base2K, Degree, GLWELayout, GLWEPlaintext, GLWEPublicKey, GLWEPublicKeyPreparedFactory, GLWESecretPreparedFactory, LWE, LWELayout, LWEPlaintext, Rank, TorusPrecision};
            use poulpy_core::{EncryptionLayout, GLWEDecrypt, GLWEEncryptPk, GLWEEncryptSk, GLWEPublicKeyGenerate, LWEDecrypt, LWEEncryptSk};
            use poulpy_hal::api::ScratchOwnedBorrow;
            let b = c.kb as usize;
            let size = (c.rsize as usize).clamp(1, 6);
            let k = size * b - (c.krem as usize % b);
            let ni = poulpy_hal::layouts::NoiseInfos::new(k, 3.2, 19.2).unwrap();
            let rank = Rank(ro as u32);
            let lay = GLWELayout { n: Degree(n as u32), base2k: Base2K(b as u32), k: TorusPrecision(k as u32), rank };
            let enc = EncryptionLayout::new(lay, ni).unwrap();
            let skg = secret(n, ro, c.dist, c.seed, 1);
            let mut skp = m.glwe_secret_prepared_alloc(rank);
            m.glwe_secret_prepare(&mut skp, &skg);
            let mut pt = GLWEPlaintext::alloc(Degree(n as u32), Base2K(b as u32), TorusPrecision(k as u32));
            for (j, l) in gen_column(VClass::Uniform, b, n, pt.data.size(), c.seed ^ 0x55).iter().enumerate() {
                pt.data.at_mut(0, j).copy_from_slice(l);
            }
            match op {
                33 => {
                    let bytes = m.glwe_encrypt_sk_tmp_bytes(&lay);
                    three_runs::<B, _>(c, opn, bytes, |s, fill| {
                        let mut ct = filled(n, Lay { b, size }, ro, VClass::Uniform, fill);
                        m.glwe_encrypt_sk(&mut ct, &pt, &skp, &enc, &mut Source::new(seed32(c.seed, 3)), &mut Source::new(seed32(c.seed, 4)), s);
                        raw(&ct)
                    })
                }
                34 => {
                    // the public key may hold more limbs than the ciphertext (admitted: only n, rank and radix are asserted)
                    use poulpy_hal::api::{VecZnxBigBytesOf, VecZnxDftBytesOf};
                    let pk_size = size + (c.extra as usize % 3);
                    let pk_k = pk_size * b;
                    let pk_lay = GLWELayout { n: Degree(n as u32), base2k: Base2K(b as u32), k: TorusPrecision(pk_k as u32), rank };
                    let pk_enc = EncryptionLayout::new(pk_lay, poulpy_hal::layouts::NoiseInfos::new(pk_k, 3.2, 19.2).unwrap()).unwrap();
                    let mut pk = GLWEPublicKey::alloc_from_infos(&pk_lay);
                    m.glwe_public_key_generate(&mut pk, &skp, &pk_enc, &mut Source::new(seed32(c.seed, 5)), &mut Source::new(seed32(c.seed, 6)));
                    let mut pkp = m.glwe_public_key_prepared_alloc_from_infos(&pk_lay);
                    m.glwe_public_key_prepare(&mut pkp, &pk);
                    // the query sees the ciphertext layout only; it reserves one DFT and one big column of that size, the
                    // routine one DFT column of the key's size: a key beyond those two buffers is a recorded finding
                    let opn: &str = if pk_size == size {
                        opn
                    } else if m.bytes_of_vec_znx_dft(1, pk_size) > m.bytes_of_vec_znx_dft(1, size) + m.bytes_of_vec_znx_big(1, size) {
                        "glwe_encrypt_pk[key_wider_than_the_buffers_the_query_reserves]"
                    } else {
                        "glwe_encrypt_pk[key_wider_than_the_ciphertext]"
                    };
                    let bytes = m.glwe_encrypt_pk_tmp_bytes(&lay);
                    three_runs::<B, _>(c, opn, bytes, |s, fill| {
                        let mut ct = filled(n, Lay { b, size }, ro, VClass::Uniform, fill);
                        m.glwe_encrypt_pk(&mut ct, &pt, &pkp, &enc, &mut Source::new(seed32(c.seed, 3)), &mut Source::new(seed32(c.seed, 4)), s);
                        raw(&ct)
                    })
                }
                35 => {
                    let mut ct = filled(n, Lay { b, size }, ro, VClass::Uniform, 1);
                    m.glwe_encrypt_sk(&mut ct, &pt, &skp, &enc, &mut Source::new(seed32(c.seed, 3)), &mut Source::new(seed32(c.seed, 4)), big.borrow());
                    let bytes = m.glwe_decrypt_tmp_bytes(&lay);
                    three_runs::<B, _>(c, opn, bytes, |s, fill| {
                        // the receiving plaintext may have another radix and precision than the ciphertext
                        let ob = c.rb as usize;
                        let osize = 1 + (c.idx as usize % (size + 2));
                        let mut out = GLWEPlaintext::alloc(Degree(n as u32), Base2K(ob as u32), TorusPrecision((osize * ob) as u32));
                        for (j, l) in gen_column(VClass::Uniform, ob, n, out.data.size(), fill).iter().enumerate() {
                            out.data.at_mut(0, j).copy_from_slice(l);
                        }
                        m.glwe_decrypt(&ct, &mut out, &skp, s);
                        out.data.raw().to_vec()
                    })
                }
                _ => {
                    let n1 = (c.n_lwe as usize).clamp(1, n);
                    let llay = LWELayout { n: Degree(n1 as u32), k: TorusPrecision(k as u32), base2k: Base2K(b as u32) };
                    let lenc = EncryptionLayout::new(llay, ni).unwrap();
                    let sk1 = lwe_secret(n1, c.dist, c.seed, 1);
                    // the plaintext may hold fewer limbs than the ciphertext (the remaining limbs of the body come from a temporary)
                    let pt_size = 1 + (c.idx as usize % size);
                    let mut lpt = LWEPlaintext::alloc(Base2K(b as u32), TorusPrecision((pt_size * b) as u32));
                    for (j, l) in gen_column(VClass::Uniform, b, 1, pt_size, c.seed ^ 0x56).iter().enumerate() {
                        lpt.data_mut().at_mut(0, j)[0] = l[0];
                    }
                    if op == 36 {
                        let bytes = m.lwe_encrypt_sk_tmp_bytes(&llay);
                        three_runs::<B, _>(c, opn, bytes, |s, fill| {
                            let mut ct = crate::c03::arbitrary_lwe(n1, Lay { b, size }, VClass::Uniform, fill);
                            m.lwe_encrypt_sk(&mut ct, &lpt, &sk1, &lenc, &mut Source::new(seed32(c.seed, 3)), &mut Source::new(seed32(c.seed, 4)), s);
                            ct.data().raw().to_vec()
                        })
                    } else {
                        let mut ct = LWE::alloc_from_infos(&llay);
                        m.lwe_encrypt_sk(&mut ct, &lpt, &sk1, &lenc, &mut Source::new(seed32(c.seed, 3)), &mut Source::new(seed32(c.seed, 4)), big.borrow());
                        let bytes = m.lwe_decrypt_tmp_bytes(&llay);
                        three_runs::<B, _>(c, opn, bytes, |s, fill| {
                            let ob = c.rb as usize;
                            let osize = 1 + (c.idx as usize % (size + 2));
                            let mut out = LWEPlaintext::alloc(Base2K(ob as u32), TorusPrecision((osize * ob) as u32));
                            for j in 0..osize {
                                out.data_mut().at_mut(0, j)[0] = (fill as i64 + j as i64) % 7;
                            }
                            m.lwe_decrypt(&ct, &mut out, &sk1, s);
                            (0..osize).map(|j| out.data().at(0, j)[0]).collect()
                        })
                    }
                }
            }
        }
        _ => {
            let r_ = ro;
            let a = filled(n, al, r_, cls, c.seed ^ 0xA);
            let bytes = m.glwe_normalize_tmp_bytes();
            if op == 28 {
                three_runs::<B, _>(c, opn, bytes, |s, fill| {
                    let mut r = filled(n, rl, r_, VClass::Uniform, fill);
                    m.glwe_normalize(&mut r, &a, s);
                    raw(&r)
                })
            } else {
                three_runs::<B, _>(c, opn, bytes, |s, _| {
                    let mut r = GLWE::alloc_from_infos(&a);
                    r.data_mut().raw_mut().copy_from_slice(a.data().raw());
                    m.glwe_normalize_assign(&mut r, s);
                    raw(&r)
                })
            }
        }
    };
    match res {
        Err(v) => v,
        Ok(()) => Verdict::pass(true, &classes),
    }
}

pub fn test(c0: &Case) -> Verdict {
    let mut c = c0.clone();
    c.log_n = c.log_n.min(6);
    adapt(&mut c);
    with_backend!(c.be, c.log_n, |m| run(m, &c))
}

/// C10, scheme level: the same case (keys, inputs, seeds; parameters inside the FFT64 exactness domain) on all four backends.
pub fn test_xb(c0: &Case) -> Verdict {
    let mut c = c0.clone();
    c.log_n = c.log_n.min(6);
    c.be = pzv_be::Be::FftRef;
    adapt(&mut c);
    let opn = OPS[(c.op as usize) % OPS.len()];
    let mut outs: Vec<(pzv_be::Be, Vec<i64>)> = vec![];
    for be in pzv_be::Be::ALL {
        let mut cb = c.clone();
        cb.be = be;
        LAST_OUT.with(|l| *l.borrow_mut() = None);
        let v = with_backend!(be, cb.log_n, |m| run(m, &cb));
        if let Verdict::Fail { .. } = v {
            // a failure of the operation on its own backend belongs to C03-C05 / C12
            return Verdict::pass(false, &[opn, "skipped:fails_on_one_backend"]);
        }
        match LAST_OUT.with(|l| l.borrow_mut().take()) {
            Some(o) => outs.push((be, o)),
            None => return Verdict::pass(false, &[opn, "skipped:no_output"]),
        }
    }
    for (be, o) in &outs[1..] {
        if *o != outs[0].1 {
            let first = o.iter().zip(outs[0].1.iter()).position(|(x, y)| x != y).unwrap_or(0);
            if std::env::var("PZV_DEBUG").is_ok() {
                eprintln!("DEBUG {}: {:?}\nDEBUG {}: {:?}", outs[0].0.name(), &outs[0].1[..outs[0].1.len().min(24)], be.name(), &o[..o.len().min(24)]);
            }
            let fam = if be.is_fft() { "fft64-ref-vs-avx" } else { "fft64-vs-ntt120" };
            return Verdict::fail(format!("{opn}|{fam}"), format!("op={opn}: {} and {} give different ciphertext bytes for equal keys, inputs and seeds (first difference at raw index {first} of {})\ncase={c:?}", outs[0].0.name(), be.name(), o.len()));
        }
    }
    Verdict::pass(true, &[opn, "four_backends_identical"])
}

pub fn run_all_c10(ctx: &Ctx) {
    let t = ctx.tier;
    CROSS_BACKEND.store(true, std::sync::atomic::Ordering::Relaxed);
    ctx.run_sub("core_cross_backend", t.pick(4_000, 80_000), 64, crate::c03::strategy, test_xb);
}

pub const RULE_C10: &str = "scheme level: cases = (one of 38 operations of poulpy-core and of the CMux family, generated gadget shapes / ranks / radices / sizes as in C03-C05, parameters inside the FFT64 exactness domain); keys are encrypted, prepared and the operation executed from identical seeds on FFT64Ref, FFT64Avx, NTT120Ref and NTT120Avx; the result ciphertexts must be identical byte for byte. non-trivial = every case that runs on all four backends.";

pub fn run_all(ctx: &Ctx) {
    let t = ctx.tier;
    ctx.run_sub("core_exact_scratch", t.pick(6_000, 120_000), 64, crate::c03::strategy, test);
}

pub fn run_all_c11(ctx: &Ctx) {
    let t = ctx.tier;
    TWO_FILLS_ONLY.store(true, std::sync::atomic::Ordering::Relaxed);
    ctx.run_sub("core_two_fills", t.pick(6_000, 120_000), 64, crate::c03::strategy, test);
}

pub const RULE_C11: &str = "core level: cases = (backend, one of 38 operations of poulpy-core and of the CMux family, generated gadget shapes / ranks / radices / sizes as in C03-C05); each call runs twice with ample scratch, from two different garbage fills of the scratch window and of every byte of the destination; the declared outputs must be identical and the guard regions intact. non-trivial = every executed case.";

pub fn replay(ctx: &Ctx, sub: &str, case: &serde_json::Value) -> i32 {
    if ctx.property == "C11" {
        TWO_FILLS_ONLY.store(true, std::sync::atomic::Ordering::Relaxed);
    }
    if ctx.property == "C10" {
        CROSS_BACKEND.store(true, std::sync::atomic::Ordering::Relaxed);
        return ctx.replay_case::<Case, _>(sub, case, test_xb);
    }
    ctx.replay_case::<Case, _>(sub, case, test)
}

pub const RULE: &str = "scheme-level part: cases = (backend, one of 38 scratch-taking operations of poulpy-core and of the CMux family, generated gadget shapes / ranks / radices / sizes as in C03-C05). Each call is made with a scratch window of exactly the number of bytes its *_tmp_bytes query returns, 64-byte aligned inside guard regions, three times: two different garbage fills of the window and of the destination, and once with ample slack (16x the query + 8 MiB). Violation = panic, damaged guard region, or any difference between the three results. non-trivial = every executed case.";
