//! C03 — the key-switching family preserves the plaintext within the gadget-product bound.
//!
//! Every check has the same shape: an arbitrary GLWE/LWE-shaped input (normalised digits of a
//! generated class) has an exact phase under the clear *input* secret; the library operation is
//! run with keys produced by the library's own key-encryption routines; the exact phase of the
//! result under the clear *output* secret must equal the expected image (identity, X -> X^g,
//! partial trace, packed slots, extracted coefficient) of the input phase up to the deterministic
//! bound of `gad::ks_bound`, which is built from the *actual* extracted key errors.  The key cells
//! themselves must encrypt the gadget-scaled input secret within the fresh-encryption bound, so a
//! wrong Galois inverse / wrong row placement in key generation cannot hide in a large bound.

use crate::enc::NOISES;
use crate::gad::*;
use crate::sch::*;
use crate::sp::sp;
use poulpy_core::layouts::GLWEAutomorphismKeyHelper;
use poulpy_core::{GLWENormalize, glwe_packer_tmp_bytes};
use poulpy_core::{
    EncryptionLayout, GGLWEKeyswitch, GLWEAutomorphism, GLWEAutomorphismKeyAutomorphism, GLWEAutomorphismKeyEncryptSk, GLWEFromLWE, GLWEKeyswitch, GLWESwitchingKeyEncryptSk,
    GLWEPacker, GLWEPacking, GLWEToLWESwitchingKeyEncryptSk, GLWETrace, LWEFromGLWE, LWEKeySwitch, LWESampleExtract, LWESwitchingKeyEncrypt, LWEToGLWESwitchingKeyEncryptSk, glwe_packer_add, glwe_packer_flush,
    layouts::{
        Base2K, Degree, Dnum, Dsize, GGLWE, GGLWEInfos, GGLWEToRef, GLWE, GLWEAutomorphismKey, GLWEAutomorphismKeyLayout, GLWEAutomorphismKeyPreparedFactory, GLWELayout, GLWESecret,
        GLWESecretPreparedFactory, GLWESwitchingKey, GLWESwitchingKeyLayout, GLWESwitchingKeyPreparedFactory, GLWEToLWEKey, GLWEToLWEKeyLayout, GLWEToLWEKeyPreparedFactory,
        LWE, LWESecret, LWESwitchingKey, LWESwitchingKeyLayout, LWESwitchingKeyPreparedFactory, LWEToGLWEKey, LWEToGLWEKeyLayout, LWEToGLWEKeyPreparedFactory,
        Rank, TorusPrecision,
        prepared::{GLWEAutomorphismKeyPrepared, GLWESwitchingKeyPrepared},
    },
};
use poulpy_hal::{
    api::{ScratchOwnedBorrow},
    layouts::{DeviceBuf, Module, NoiseInfos, ScratchOwned, ToOwnedDeep, VecZnx, ZnxInfos, ZnxViewMut},
    source::Source,
};
use proptest::prelude::*;
use pzv_be::{Be, FullBackend, with_backend};
use pzv_common::driver::{Ctx, Verdict};
use pzv_common::model::*;
use serde::{Deserialize, Serialize};
use std::collections::HashMap;

#[derive(Clone, Debug, Serialize, Deserialize)]
pub struct Case {
    pub be: Be,
    pub op: u8,
    pub log_n: u8,
    // key
    pub kb: u8,
    pub dnum: u8,
    pub dsize: u8,
    pub extra: u8,
    pub krem: u8,
    pub noise: u8,
    // input / result layouts
    pub ab: u8,
    /// input precision relative to what the key covers, in key limbs (-2..=2)
    pub adelta: i8,
    pub rb: u8,
    pub rsize: u8,
    /// bit 0: input radix differs from key radix, bit 1: result radix differs
    pub radix_mode: u8,
    pub rank_in: u8,
    pub rank_out: u8,
    pub dist: Dist,
    pub cls: VClass,
    pub gal: i64,
    pub skip: u8,
    pub n_lwe: u16,
    pub n_lwe2: u16,
    pub idx: u16,
    pub seed: u64,
}

pub const SCRATCH: usize = 1 << 23;

impl Case {
    pub fn n(&self) -> usize {
        1 << self.log_n
    }
    pub fn key_size(&self) -> usize {
        (self.dnum * self.dsize + self.extra) as usize
    }
    pub fn key_k(&self) -> usize {
        self.key_size() * self.kb as usize - self.krem as usize
    }
    pub fn asize(&self) -> usize {
        let sp = (self.dnum as i64 * self.dsize as i64 + self.adelta as i64).max(1) as usize;
        (sp * self.kb as usize).div_ceil(self.ab as usize).clamp(1, 16)
    }
    pub fn a_lay(&self) -> Lay {
        Lay { b: self.ab as usize, size: self.asize() }
    }
    pub fn r_lay(&self) -> Lay {
        Lay { b: self.rb as usize, size: self.rsize as usize }
    }
    pub fn noise_infos(&self) -> NoiseInfos {
        let (s, b) = NOISES[self.noise as usize];
        NoiseInfos::new(self.key_k(), s, b).unwrap()
    }
    pub fn gal_el(&self) -> i64 {
        // every odd residue of (Z/2NZ)*, plus the library's own spelling -1 of 2N-1
        let two_n = 2 * self.n() as i64;
        let g = self.gal.rem_euclid(two_n) | 1;
        if g == two_n - 1 && self.gal < 0 { -1 } else { g }
    }
}

pub fn adapt(c: &mut Case) {
    c.log_n = c.log_n.clamp(3, 7);
    c.rank_in = c.rank_in.clamp(1, 3);
    c.rank_out = c.rank_out.clamp(1, 3);
    c.dnum = c.dnum.clamp(1, 4);
    c.dsize = c.dsize.clamp(1, 4);
    c.extra %= 3;
    if c.dnum == 1 && c.extra == 0 {
        // the layout requires more limbs than one digit group: ceil(k/base2k) > dsize
        c.extra = 1;
    }
    c.adelta = c.adelta.clamp(-2, 2);
    c.noise %= NOISES.len() as u8;
    c.dist = c.dist.adapt(c.n());
    if c.dist == Dist::Zero {
        c.dist = Dist::TernaryProb(8);
    }
    // exactness domain of the FFT64 family: N * terms * 2^(2(b-1)) * (8 log2 N + 8) < 2^51 with
    // terms <= 16 digits * 3 columns
    let maxb: u8 = if c.be.is_fft() {
        let guard = 64 - ((8 * c.log_n as u64 + 8) - 1).leading_zeros() as i64;
        (((51 - c.log_n as i64 - 6 - guard - 1) / 2) + 1) as u8
    } else {
        40
    };
    c.kb = c.kb.clamp(2, maxb);
    c.ab = c.ab.clamp(2, 40);
    c.rb = c.rb.clamp(2, 40);
    if c.radix_mode & 1 == 0 {
        c.ab = c.kb;
    }
    if c.radix_mode & 2 == 0 {
        c.rb = c.kb;
    }
    if c.be.is_fft() && c.ab != c.kb && c.kb >= maxb && c.kb > 2 {
        // nearly-balanced digits after the cross-radix conversion: one bit of head-room
        c.kb -= 1;
    }
    c.rsize = c.rsize.clamp(1, 12);
    c.krem = if c.extra == 0 { 0 } else { c.krem % c.kb };
    c.cls = match c.cls {
        VClass::Unnorm(_) | VClass::FullI64 | VClass::CarryRipple | VClass::MonoEach => VClass::ExtremeMixed,
        x => x,
    };
}

fn fail(c: &Case, op: &str, what: &str, detail: String) -> Verdict {
    Verdict::fail(format!("{op}|{what}"), format!("backend={} op={op}: {detail}\ncase={c:?}", c.be.name()))
}

fn secret(n: usize, rank: usize, dist: Dist, seed: u64, salt: u64) -> GLWESecret<Vec<u8>> {
    let mut sk = GLWESecret::alloc(Degree(n as u32), Rank(rank as u32));
    fill_glwe_secret(&mut sk, dist, &mut Source::new(seed32(seed, salt)));
    sk
}

fn l1s(s: &[Vec<i64>]) -> Vec<u64> {
    s.iter().map(|p| p.iter().map(|x| x.unsigned_abs()).sum::<u64>()).collect()
}

type SwkP<B> = GLWESwitchingKeyPrepared<DeviceBuf<B>, B>;
type AtkP<B> = GLWEAutomorphismKeyPrepared<DeviceBuf<B>, B>;

pub fn build_swk<B: FullBackend>(
    m: &Module<B>,
    c: &Case,
    sk_in: &GLWESecret<Vec<u8>>,
    sk_out: &GLWESecret<Vec<u8>>,
    scratch: &mut ScratchOwned<B>,
) -> Result<(SwkP<B>, KeyMeta), String>
where
    poulpy_hal::layouts::Scratch<B>: poulpy_hal::api::ScratchFromBytes<B>,
{
    let n = m.n();
    let (ri, ro) = (c.rank_in as usize, c.rank_out as usize);
    let lay = GLWESwitchingKeyLayout {
        n: Degree(n as u32),
        base2k: Base2K(c.kb as u32),
        k: TorusPrecision(c.key_k() as u32),
        rank_in: Rank(ri as u32),
        rank_out: Rank(ro as u32),
        dnum: Dnum(c.dnum as u32),
        dsize: Dsize(c.dsize as u32),
    };
    let ni = c.noise_infos();
    let enc = EncryptionLayout::new(lay, ni).unwrap();
    let mut key = GLWESwitchingKey::alloc_from_infos(&lay);
    let mut xe = Source::new(seed32(c.seed, 0xE1));
    let mut xa = Source::new(seed32(c.seed, 0xA1));
    m.glwe_switching_key_encrypt_sk(&mut key, sk_in, sk_out, &enc, &mut xe, &mut xa, sp("glwe_switching_key_encrypt_sk", m.glwe_switching_key_encrypt_sk_tmp_bytes(&lay), scratch));
    let mut cells: Vec<VecZnx<Vec<u8>>> = vec![];
    for row in 0..c.dnum as usize {
        for col in 0..ri {
            cells.push(key.at(row, col).data().to_owned_deep());
        }
    }
    let meta = key_meta(&cells, c.kb as usize, c.dnum as usize, c.dsize as usize, ri, ro, &glwe_secret_coeffs(sk_out), &glwe_secret_coeffs(sk_in), &ni)?;
    let mut prep = m.glwe_switching_key_prepared_alloc_from_infos(&key);
    m.glwe_switching_key_prepare(&mut prep, &key, sp("glwe_switching_key_prepare", m.glwe_switching_key_prepare_tmp_bytes(&key), scratch));
    Ok((prep, meta))
}

pub fn build_atk<B: FullBackend>(m: &Module<B>, c: &Case, p: i64, sk: &GLWESecret<Vec<u8>>, salt: u64, scratch: &mut ScratchOwned<B>) -> Result<(AtkP<B>, KeyMeta, GLWEAutomorphismKey<Vec<u8>>), String>
where
    poulpy_hal::layouts::Scratch<B>: poulpy_hal::api::ScratchFromBytes<B>,
{
    let n = m.n();
    let r = c.rank_out as usize;
    let lay = GLWEAutomorphismKeyLayout {
        n: Degree(n as u32),
        base2k: Base2K(c.kb as u32),
        k: TorusPrecision(c.key_k() as u32),
        rank: Rank(r as u32),
        dnum: Dnum(c.dnum as u32),
        dsize: Dsize(c.dsize as u32),
    };
    let ni = c.noise_infos();
    let enc = EncryptionLayout::new(lay, ni).unwrap();
    let mut key = GLWEAutomorphismKey::alloc_from_infos(&lay);
    let mut xe = Source::new(seed32(c.seed, 0xE2 + salt));
    let mut xa = Source::new(seed32(c.seed, 0xA2 + salt));
    m.glwe_automorphism_key_encrypt_sk(&mut key, p, sk, &enc, &mut xe, &mut xa, scratch.borrow());
    let mut cells: Vec<VecZnx<Vec<u8>>> = vec![];
    for row in 0..c.dnum as usize {
        for col in 0..r {
            cells.push(key.at(row, col).data().to_owned_deep());
        }
    }
    // the key switches from s to aut_{p^-1}(s): applying X -> X^p to the switched ciphertext lands on s again
    let s = glwe_secret_coeffs(sk);
    let two_n = 2 * n as u128;
    let pinv = mod_pow(p.rem_euclid(2 * n as i64) as u128, n as u128 - 1, two_n) as i64;
    let s_enc: Vec<Vec<i64>> = s.iter().map(|si| automorphism_i64(si, pinv)).collect();
    let meta = key_meta(&cells, c.kb as usize, c.dnum as usize, c.dsize as usize, r, r, &s_enc, &s, &ni).map_err(|e| format!("automorphism key p={p}: {e}"))?;
    let mut prep = m.glwe_automorphism_key_prepared_alloc_from_infos(&key);
    m.glwe_automorphism_key_prepare(&mut prep, &key, sp("glwe_automorphism_key_prepare", m.glwe_automorphism_key_prepare_tmp_bytes(&key), scratch));
    Ok((prep, meta, key))
}

fn glwe(n: usize, l: Lay, rank: usize) -> GLWE<Vec<u8>> {
    GLWE::alloc(Degree(n as u32), Base2K(l.b as u32), TorusPrecision((l.size * l.b) as u32), Rank(rank as u32))
}

fn classes(c: &Case, bound: f64, steps: usize, e: f64) -> (bool, Vec<&'static str>) {
    let mut cl = vec![c.be.name()];
    if c.dsize > 1 {
        cl.push("dsize>1");
        let sp = size_in_key_radix(c.a_lay(), c.kb as usize);
        if sp % c.dsize as usize != 0 {
            cl.push("a_size_not_multiple_of_dsize");
        }
    }
    if c.rank_in != c.rank_out {
        cl.push("rank_in!=rank_out");
    }
    match (c.ab != c.kb, c.rb != c.kb) {
        (true, true) => cl.push("three_way_radix"),
        (true, false) | (false, true) => cl.push("two_way_radix"),
        _ => cl.push("same_radix"),
    }
    cl.push(if c.adelta < 0 {
        "key_covers_more_than_input"
    } else if c.adelta == 0 {
        "key_matches_input"
    } else {
        "input_finer_than_key"
    });
    if steps > 1 {
        cl.push("multi_step");
    }
    let ratio = if bound > 0.0 { e / bound } else { 0.0 };
    cl.push(if ratio >= 1.0 / 16.0 {
        "err/bound>=2^-4"
    } else if ratio >= 1.0 / 256.0 {
        "err/bound in 2^-8..2^-4"
    } else {
        "err/bound<2^-8"
    });
    // informative = the bound leaves at least 8 bits of the message intact
    let informative = bound < p2(-8);
    cl.push(if informative { "bound<2^-8" } else { "bound>=2^-8(vacuous)" });
    (informative, cl)
}

// ------------------------------------------------------------------------------------------
// 1. glwe_keyswitch / glwe_keyswitch_assign

fn run_ks<B: FullBackend>(m: &Module<B>, c: &Case) -> Verdict
where
    poulpy_hal::layouts::Scratch<B>: poulpy_hal::api::ScratchFromBytes<B>,
{
    let n = m.n();
    let mut scratch = pzv_be::dirty_scratch::<B>(SCRATCH);
    let assign = c.op % 2 == 1;
    let opn = if assign { "glwe_keyswitch_assign" } else { "glwe_keyswitch" };
    let (ri, ro) = (c.rank_in as usize, c.rank_out as usize);
    let sk_in = secret(n, ri, c.dist, c.seed, 1);
    let sk_out = secret(n, ro, c.dist, c.seed, 2);
    let (s_in, s_out) = (glwe_secret_coeffs(&sk_in), glwe_secret_coeffs(&sk_out));
    let (key, meta) = match build_swk(m, c, &sk_in, &sk_out, &mut scratch) {
        Ok(x) => x,
        Err(e) => return fail(c, "glwe_switching_key_encrypt_sk", "key-cell-wrong", e),
    };
    let (al, rl) = if assign { (c.a_lay(), c.a_lay()) } else { (c.a_lay(), c.r_lay()) };
    let mut a = glwe(n, al, ri);
    arbitrary_glwe(&mut a, c.cls, c.seed ^ 0xA);
    let want = phase_vals(a.data(), &s_in, al.b);
    let got = if assign {
        m.glwe_keyswitch_assign(&mut a, &key, scratch.borrow());
        phase_vals(a.data(), &s_out, al.b)
    } else {
        let mut res = glwe(n, rl, ro);
        arbitrary_glwe(&mut res, VClass::Uniform, c.seed ^ 0xB); // stale content must not matter
        m.glwe_keyswitch(&mut res, &a, &key, scratch.borrow());
        phase_vals(res.data(), &s_out, rl.b)
    };
    let bound = ks_bound(&meta, al, rl, n, &l1s(&s_in), l1_sum(&s_out));
    let (e, i) = max_err(&got, &want);
    if e > bound {
        return fail(
            c,
            opn,
            "phase-error-above-gadget-bound",
            format!("coefficient {i}: |phase_out(res) - phase_in(a)| = {e:.4e} exceeds the gadget-product bound {bound:.4e} (key error max {:.3e}, key {}x{} limbs of {} bits, input {:?}, result {:?})", meta.err_max, c.dnum, c.dsize, c.kb, al, rl),
        );
    }
    let (nt, cl) = classes(c, bound, 1, e);
    let mut cl = cl;
    cl.push(opn);
    Verdict::pass(nt, &cl)
}

// ------------------------------------------------------------------------------------------
// 2. glwe_automorphism family

pub const AUT_OPS: [&str; 8] = [
    "glwe_automorphism",
    "glwe_automorphism_assign",
    "glwe_automorphism_add",
    "glwe_automorphism_add_assign",
    "glwe_automorphism_sub",
    "glwe_automorphism_sub_negate",
    "glwe_automorphism_sub_assign",
    "glwe_automorphism_sub_negate_assign",
];

fn run_aut<B: FullBackend>(m: &Module<B>, c: &Case) -> Verdict
where
    poulpy_hal::layouts::Scratch<B>: poulpy_hal::api::ScratchFromBytes<B>,
{
    let n = m.n();
    let mut scratch = pzv_be::dirty_scratch::<B>(SCRATCH);
    let op = (c.op % 8) as usize;
    let opn = AUT_OPS[op];
    let assign = matches!(op, 1 | 3 | 6 | 7);
    let r = c.rank_out as usize;
    let sk = secret(n, r, c.dist, c.seed, 1);
    let s = glwe_secret_coeffs(&sk);
    let p = c.gal_el();
    let (key, meta, _) = match build_atk(m, c, p, &sk, 0, &mut scratch) {
        Ok(x) => x,
        Err(e) => return fail(c, "glwe_automorphism_key_encrypt_sk", "key-cell-wrong", e),
    };
    let (al, rl) = if assign { (c.a_lay(), c.a_lay()) } else { (c.a_lay(), c.r_lay()) };
    let mut a = glwe(n, al, r);
    arbitrary_glwe(&mut a, c.cls, c.seed ^ 0xA);
    let pa = phase_vals(a.data(), &s, al.b);
    let sa = aut_vals(&pa, p);
    let want: Vec<Dyadic> = match op {
        0 | 1 => sa,
        2 | 3 => sa.iter().zip(pa.iter()).map(|(x, y)| x.add(y)).collect(),
        4 | 6 => sa.iter().zip(pa.iter()).map(|(x, y)| x.sub(y)).collect(),
        _ => sa.iter().zip(pa.iter()).map(|(x, y)| y.sub(x)).collect(),
    };
    let got = if assign {
        match op {
            1 => m.glwe_automorphism_assign(&mut a, &key, scratch.borrow()),
            3 => m.glwe_automorphism_add_assign(&mut a, &key, scratch.borrow()),
            6 => m.glwe_automorphism_sub_assign(&mut a, &key, scratch.borrow()),
            _ => m.glwe_automorphism_sub_negate_assign(&mut a, &key, scratch.borrow()),
        }
        phase_vals(a.data(), &s, al.b)
    } else {
        let mut res = glwe(n, rl, r);
        arbitrary_glwe(&mut res, VClass::Uniform, c.seed ^ 0xB);
        match op {
            0 => m.glwe_automorphism(&mut res, &a, &key, scratch.borrow()),
            2 => m.glwe_automorphism_add(&mut res, &a, &key, scratch.borrow()),
            4 => m.glwe_automorphism_sub(&mut res, &a, &key, scratch.borrow()),
            _ => m.glwe_automorphism_sub_negate(&mut res, &a, &key, scratch.borrow()),
        }
        phase_vals(res.data(), &s, rl.b)
    };
    let bound = ks_bound(&meta, al, rl, n, &l1s(&s), l1_sum(&s));
    let (e, i) = max_err(&got, &want);
    if e > bound {
        return fail(
            c,
            opn,
            "phase-error-above-gadget-bound",
            format!("p={p} coefficient {i}: |phase(res) - expected image| = {e:.4e} exceeds the gadget-product bound {bound:.4e} (key error max {:.3e}, key {}x{} limbs of {} bits, input {:?}, result {:?})", meta.err_max, c.dnum, c.dsize, c.kb, al, rl),
        );
    }
    let (nt, mut cl) = classes(c, bound, 1, e);
    cl.push(opn);
    let two_n = 2 * n as i64;
    let pr = p.rem_euclid(two_n);
    // is p a power of 5 (the usual rotation subgroup) or not
    let mut g = 1i64;
    let mut pow5 = false;
    for _ in 0..n {
        if g == pr {
            pow5 = true;
            break;
        }
        g = g * 5 % two_n;
    }
    cl.push(if p == -1 || pr == two_n - 1 { "p=-1" } else if pow5 { "p=5^k" } else { "p=-5^k" });
    Verdict::pass(nt && pr != 1, &cl)
}

// ------------------------------------------------------------------------------------------
// 3. glwe_trace / glwe_trace_assign

fn run_trace<B: FullBackend>(m: &Module<B>, c: &Case) -> Verdict
where
    poulpy_hal::layouts::Scratch<B>: poulpy_hal::api::ScratchFromBytes<B>,
{
    let n = m.n();
    let log_n = c.log_n as usize;
    let mut scratch = pzv_be::dirty_scratch::<B>(SCRATCH);
    let assign = c.op % 2 == 1;
    let opn = if assign { "glwe_trace_assign" } else { "glwe_trace" };
    let r = c.rank_out as usize;
    let sk = secret(n, r, c.dist, c.seed, 1);
    let s = glwe_secret_coeffs(&sk);
    let skip = (c.skip as usize) % (log_n + 1);
    let gals = m.glwe_trace_galois_elements();
    let mut keys: HashMap<i64, AtkP<B>> = HashMap::new();
    let mut metas: HashMap<i64, KeyMeta> = HashMap::new();
    for (i, g) in gals.iter().enumerate() {
        match build_atk(m, c, *g, &sk, i as u64 + 1, &mut scratch) {
            Ok((k, me, _)) => {
                keys.insert(*g, k);
                metas.insert(*g, me);
            }
            Err(e) => return fail(c, "glwe_automorphism_key_encrypt_sk", "key-cell-wrong", e),
        }
    }
    let (al, rl) = if assign { (c.a_lay(), c.a_lay()) } else { (c.a_lay(), c.r_lay()) };
    let mut a = glwe(n, al, r);
    arbitrary_glwe(&mut a, c.cls, c.seed ^ 0xA);
    let pa = phase_vals(a.data(), &s, al.b);
    // expected: coefficients at multiples of N >> skip survive, everything else is annihilated
    let step = n >> skip;
    let want: Vec<Dyadic> = pa.iter().enumerate().map(|(j, v)| if j % step == 0 { v.clone() } else { Dyadic::zero() }).collect();
    let got = if assign {
        m.glwe_trace_assign(&mut a, skip, &keys, scratch.borrow());
        phase_vals(a.data(), &s, al.b)
    } else {
        let mut res = glwe(n, rl, r);
        arbitrary_glwe(&mut res, VClass::Uniform, c.seed ^ 0xB);
        m.glwe_trace(&mut res, skip, &a, &keys, scratch.borrow());
        phase_vals(res.data(), &s, rl.b)
    };
    // working ciphertext: key radix, enough limbs for max(a, res)
    let kb = c.kb as usize;
    let wbits = if assign { al.bits() } else { al.bits().max(rl.bits()) };
    let wl = if assign && al.b == kb { al } else { Lay { b: kb, size: wbits.div_ceil(kb) } };
    let so = 1.0 + l1_sum(&s) as f64;
    let scale = if al.b != kb || rl.b != kb { 2.0 } else { 1.0 };
    let mut bound = 0f64;
    for i in skip..log_n {
        let me = &metas[&gals[i]];
        bound += wl.unit() * so; // rsh(1) rounding
        bound += ks_bound_scaled(me, wl, wl, n, &l1s(&s), l1_sum(&s), scale);
    }
    bound += (wl.unit() + rl.unit()) * so * 2.0; // conversions into and out of the working layout
    let (e, i) = max_err(&got, &want);
    if e > bound {
        return fail(
            c,
            opn,
            "phase-error-above-gadget-bound",
            format!("skip={skip} coefficient {i} ({}): |phase(res) - expected| = {e:.4e} exceeds the accumulated bound {bound:.4e} over {} steps (key {}x{} limbs of {} bits, input {:?}, result {:?})", if i % step == 0 { "surviving" } else { "annihilated" }, log_n - skip, c.dnum, c.dsize, c.kb, al, rl),
        );
    }
    let (nt, mut cl) = classes(c, bound, log_n - skip, e);
    cl.push(opn);
    cl.push(if skip == 0 {
        "full_trace"
    } else if skip == log_n {
        "skip=log_n(identity)"
    } else {
        "partial_trace"
    });
    Verdict::pass(nt && skip < log_n, &cl)
}


// ------------------------------------------------------------------------------------------
// 4. LWE family: lwe_keyswitch, glwe_from_lwe, lwe_from_glwe, lwe_sample_extract

fn cells_of<K: GGLWEToRef + GGLWEInfos>(k: &K) -> Vec<VecZnx<Vec<u8>>> {
    let g = k.to_ref();
    let (dnum, ri) = (k.dnum().0 as usize, k.rank_in().0 as usize);
    let mut v = vec![];
    for row in 0..dnum {
        for col in 0..ri {
            v.push(g.at(row, col).data().to_owned_deep());
        }
    }
    v
}

pub fn lwe_secret(n_lwe: usize, dist: Dist, seed: u64, salt: u64) -> LWESecret<Vec<u8>> {
    let mut sk = LWESecret::alloc(Degree(n_lwe as u32));
    fill_lwe_secret(&mut sk, dist.adapt(n_lwe), &mut Source::new(seed32(seed, salt)));
    sk
}

/// the rank-1 GLWE secret an LWE secret stands for: aut_{-1}(pad(s))
fn lwe_as_glwe(s: &[i64], n: usize) -> Vec<i64> {
    let mut p = vec![0i64; n];
    p[..s.len()].copy_from_slice(s);
    automorphism_i64(&p, -1)
}

pub fn arbitrary_lwe(n_lwe: usize, l: Lay, cls: VClass, seed: u64) -> LWE<Vec<u8>> {
    let mut ct = LWE::alloc(Degree(n_lwe as u32), Base2K(l.b as u32), TorusPrecision((l.size * l.b) as u32));
    let cl = if matches!(cls, VClass::Zero | VClass::Sparse | VClass::Monomial) { VClass::Uniform } else { cls };
    let limbs = gen_column(cl, l.b, n_lwe + 1, l.size, seed);
    for (j, lb) in limbs.iter().enumerate() {
        ct.data_mut().at_mut(0, j).copy_from_slice(lb);
    }
    ct
}

fn lwe_phase(ct: &LWE<Vec<u8>>, s: &[i64], b: usize) -> Dyadic {
    Dyadic::from_limbs_i128(&lwe_phase_limbs(ct.data(), s), b)
}

pub const LWE_OPS: [&str; 4] = ["lwe_keyswitch", "glwe_from_lwe", "lwe_from_glwe", "lwe_sample_extract"];

fn run_lwe<B: FullBackend>(m: &Module<B>, c: &Case) -> Verdict
where
    poulpy_hal::layouts::Scratch<B>: poulpy_hal::api::ScratchFromBytes<B>,
{
    let n = m.n();
    let mut scratch = pzv_be::dirty_scratch::<B>(SCRATCH);
    let op = (c.op % 4) as usize;
    let opn = LWE_OPS[op];
    let kb = c.kb as usize;
    let ni = c.noise_infos();
    let (nd, bb, kk, dn) = (Degree(n as u32), Base2K(kb as u32), TorusPrecision(c.key_k() as u32), Dnum(c.dnum as u32));
    let n1 = (c.n_lwe as usize).clamp(1, n);
    let n2 = (c.n_lwe2 as usize).clamp(1, n);
    let mut xe = Source::new(seed32(c.seed, 0xE1));
    let mut xa = Source::new(seed32(c.seed, 0xA1));
    let (al, rl) = (c.a_lay(), c.r_lay());
    let mut cl: Vec<&'static str> = vec![];
    let (e, bound) = match op {
        0 => {
            let (sk1, sk2) = (lwe_secret(n1, c.dist, c.seed, 1), lwe_secret(n2, c.dist, c.seed, 2));
            let (s1, s2): (Vec<i64>, Vec<i64>) = (sk1.raw().to_vec(), sk2.raw().to_vec());
            let lay = LWESwitchingKeyLayout { n: nd, base2k: bb, k: kk, dnum: dn };
            let enc = EncryptionLayout::new(lay, ni).unwrap();
            let mut key = LWESwitchingKey::alloc_from_infos(&lay);
            m.lwe_switching_key_encrypt_sk(&mut key, &sk1, &sk2, &enc, &mut xe, &mut xa, scratch.borrow());
            let (g1, g2) = (lwe_as_glwe(&s1, n), lwe_as_glwe(&s2, n));
            let meta = match key_meta(&cells_of(&key), kb, c.dnum as usize, 1, 1, 1, &[g2.clone()], &[g1.clone()], &ni) {
                Ok(x) => x,
                Err(e) => return fail(c, "lwe_switching_key_encrypt_sk", "key-cell-wrong", e),
            };
            let mut prep = m.lwe_switching_key_prepared_alloc_from_infos(&key);
            m.lwe_switching_key_prepare(&mut prep, &key, sp("lwe_switching_key_prepare", m.lwe_switching_key_prepare_tmp_bytes(&key), &mut scratch));
            let a = arbitrary_lwe(n1, al, c.cls, c.seed ^ 0xA);
            let mut res = arbitrary_lwe(n2, rl, VClass::Uniform, c.seed ^ 0xB);
            m.lwe_keyswitch(&mut res, &a, &prep, scratch.borrow());
            let want = lwe_phase(&a, &s1, al.b);
            let got = lwe_phase(&res, &s2, rl.b);
            cl.push(if n1 == n2 { "n_in==n_out" } else { "n_in!=n_out" });
            (torus_err(&got, &want).approx_f64().abs(), ks_bound(&meta, al, rl, n, &l1s(&[g1]), l1_sum(&[g2])))
        }
        1 => {
            let ro = c.rank_out as usize;
            let sk1 = lwe_secret(n1, c.dist, c.seed, 1);
            let s1: Vec<i64> = sk1.raw().to_vec();
            let skg = secret(n, ro, c.dist, c.seed, 2);
            let sg = glwe_secret_coeffs(&skg);
            let mut skp = m.glwe_secret_prepared_alloc(Rank(ro as u32));
            m.glwe_secret_prepare(&mut skp, &skg);
            let lay = LWEToGLWEKeyLayout { n: nd, base2k: bb, k: kk, dnum: dn, rank_out: Rank(ro as u32) };
            let enc = EncryptionLayout::new(lay, ni).unwrap();
            let mut key = LWEToGLWEKey::alloc_from_infos(&lay);
            m.lwe_to_glwe_key_encrypt_sk(&mut key, &sk1, &skp, &enc, &mut xe, &mut xa, scratch.borrow());
            let g1 = lwe_as_glwe(&s1, n);
            let meta = match key_meta(&cells_of(&key), kb, c.dnum as usize, 1, 1, ro, &sg, &[g1.clone()], &ni) {
                Ok(x) => x,
                Err(e) => return fail(c, "lwe_to_glwe_key_encrypt_sk", "key-cell-wrong", e),
            };
            let mut prep = m.lwe_to_glwe_key_prepared_alloc_from_infos(&key);
            m.lwe_to_glwe_key_prepare(&mut prep, &key, sp("lwe_to_glwe_key_prepare", m.lwe_to_glwe_key_prepare_tmp_bytes(&key), &mut scratch));
            let a = arbitrary_lwe(n1, al, c.cls, c.seed ^ 0xA);
            let mut res = glwe(n, rl, ro);
            arbitrary_glwe(&mut res, VClass::Uniform, c.seed ^ 0xB);
            m.glwe_from_lwe(&mut res, &a, &prep, scratch.borrow());
            let want = lwe_phase(&a, &s1, al.b);
            let got = phase_vals(res.data(), &sg, rl.b);
            // the plaintext lives in the constant coefficient
            (torus_err(&got[0], &want).approx_f64().abs(), ks_bound(&meta, al, rl, n, &l1s(&[g1]), l1_sum(&sg)))
        }
        2 => {
            let ri = c.rank_in as usize;
            let sk2 = lwe_secret(n2, c.dist, c.seed, 1);
            let s2: Vec<i64> = sk2.raw().to_vec();
            let skg = secret(n, ri, c.dist, c.seed, 2);
            let sg = glwe_secret_coeffs(&skg);
            let lay = GLWEToLWEKeyLayout { n: nd, base2k: bb, k: kk, rank_in: Rank(ri as u32), dnum: dn };
            let enc = EncryptionLayout::new(lay, ni).unwrap();
            let mut key = GLWEToLWEKey::alloc_from_infos(&lay);
            m.glwe_to_lwe_key_encrypt_sk(&mut key, &sk2, &skg, &enc, &mut xe, &mut xa, scratch.borrow());
            let g2 = lwe_as_glwe(&s2, n);
            let meta = match key_meta(&cells_of(&key), kb, c.dnum as usize, 1, ri, 1, &[g2.clone()], &sg, &ni) {
                Ok(x) => x,
                Err(e) => return fail(c, "glwe_to_lwe_key_encrypt_sk", "key-cell-wrong", e),
            };
            let mut prep = m.glwe_to_lwe_key_prepared_alloc_from_infos(&key);
            m.glwe_to_lwe_key_prepare(&mut prep, &key, sp("glwe_to_lwe_key_prepare", m.glwe_to_lwe_key_prepare_tmp_bytes(&key), &mut scratch));
            let mut a = glwe(n, al, ri);
            arbitrary_glwe(&mut a, c.cls, c.seed ^ 0xA);
            let idx = c.idx as usize % n;
            let mut res = arbitrary_lwe(n2, rl, VClass::Uniform, c.seed ^ 0xB);
            m.lwe_from_glwe(&mut res, &a, idx, &prep, scratch.borrow());
            let want = phase_vals(a.data(), &sg, al.b)[idx].clone();
            let got = lwe_phase(&res, &s2, rl.b);
            cl.push(if idx == 0 { "idx=0" } else { "idx>0" });
            (torus_err(&got, &want).approx_f64().abs(), ks_bound(&meta, al, rl, n, &l1s(&sg), l1_sum(&[g2])))
        }
        _ => {
            let sk1 = lwe_secret(n1, c.dist, c.seed, 1);
            let s1: Vec<i64> = sk1.raw().to_vec();
            let g1 = lwe_as_glwe(&s1, n);
            let mut a = glwe(n, al, 1);
            arbitrary_glwe(&mut a, c.cls, c.seed ^ 0xA);
            let rl2 = Lay { b: al.b, size: rl.size };
            let mut res = arbitrary_lwe(n1, rl2, VClass::Uniform, c.seed ^ 0xB);
            m.lwe_sample_extract(&mut res, &a);
            let want = phase_vals(a.data(), &[g1.clone()], al.b)[0].clone();
            let got = lwe_phase(&res, &s1, al.b);
            let bound = if rl2.size < al.size { rl2.unit() * (1.0 + l1_sum(&[g1]) as f64) } else { 0.0 };
            cl.push(if rl2.size < al.size { "truncating" } else { "exact" });
            let e = torus_err(&got, &want).approx_f64().abs();
            if e > bound {
                return fail(c, opn, "extracted-phase-differs", format!("LWE phase of the extracted sample differs from the constant coefficient of the GLWE phase by {e:.4e} (allowed {bound:.4e}); n_lwe={n1} N={n}"));
            }
            cl.push(opn);
            cl.push(c.be.name());
            return Verdict::pass(n1 < n || rl2.size != al.size, &cl);
        }
    };
    if e > bound {
        return fail(
            c,
            opn,
            "phase-error-above-gadget-bound",
            format!("|phase_out - expected| = {e:.4e} exceeds the gadget-product bound {bound:.4e} (n_lwe {n1}/{n2}, N={n}, key {} rows of {} bits, input {:?}, result {:?})", c.dnum, c.kb, al, rl),
        );
    }
    let (nt, mut cl2) = classes(c, bound, 1, e);
    cl2.extend(cl);
    cl2.push(opn);
    Verdict::pass(nt, &cl2)
}

// ------------------------------------------------------------------------------------------
// 5. key-on-key: gglwe_keyswitch(_assign), glwe_automorphism_key_automorphism(_assign)

pub const KK_OPS: [&str; 4] = ["gglwe_keyswitch", "gglwe_keyswitch_assign", "glwe_automorphism_key_automorphism", "glwe_automorphism_key_automorphism_assign"];

fn run_kk<B: FullBackend>(m: &Module<B>, c: &Case) -> Verdict
where
    poulpy_hal::layouts::Scratch<B>: poulpy_hal::api::ScratchFromBytes<B>,
{
    let n = m.n();
    let mut scratch = pzv_be::dirty_scratch::<B>(SCRATCH);
    let op = (c.op % 4) as usize;
    let opn = KK_OPS[op];
    if op < 2 {
        let assign = op == 1;
        let (ri, ro) = (c.rank_in as usize, c.rank_out as usize);
        let sk_in = secret(n, ri, c.dist, c.seed, 1);
        let sk_out = secret(n, ro, c.dist, c.seed, 2);
        let (s_in, s_out) = (glwe_secret_coeffs(&sk_in), glwe_secret_coeffs(&sk_out));
        let (key, meta) = match build_swk(m, c, &sk_in, &sk_out, &mut scratch) {
            Ok(x) => x,
            Err(e) => return fail(c, "glwe_switching_key_encrypt_sk", "key-cell-wrong", e),
        };
        // the object being switched: an arbitrary GGLWE-shaped matrix (rows x outer columns of GLWE cells)
        let (al, rl) = if assign { (c.a_lay(), c.a_lay()) } else { (c.a_lay(), Lay { b: c.a_lay().b, size: c.rsize as usize }) };
        let outer = 1 + (c.skip as usize % 3);
        let a_dsize = 1 + (c.idx as usize % al.size.max(1)).min(2);
        let a_dnum = (al.size / a_dsize).clamp(1, 3);
        let r_dnum = if assign { a_dnum } else { 1 + (c.gal.unsigned_abs() as usize % a_dnum) };
        if al.size <= a_dsize || rl.size <= a_dsize || a_dnum * a_dsize > al.size || r_dnum * a_dsize > rl.size {
            return Verdict::pass(false, &["layout_rejected_by_constructor"]);
        }
        let mk = |l: Lay, rank_out: usize, dnum: usize| GGLWE::alloc(Degree(n as u32), Base2K(l.b as u32), TorusPrecision((l.size * l.b) as u32), Rank(outer as u32), Rank(rank_out as u32), Dnum(dnum as u32), Dsize(a_dsize as u32));
        let mut a = mk(al, ri, a_dnum);
        for row in 0..a_dnum {
            for col in 0..outer {
                let mut cell = a.at_mut(row, col);
                let cols = cell.data().cols();
                for cc in 0..cols {
                    let limbs = gen_column(if cc == 0 { c.cls } else { VClass::Uniform }, al.b, n, al.size, c.seed ^ ((row * 64 + col * 8 + cc) as u64 + 77));
                    for (j, lb) in limbs.iter().enumerate() {
                        cell.data_mut().at_mut(cc, j).copy_from_slice(lb);
                    }
                }
            }
        }
        let want: Vec<Vec<Dyadic>> = (0..r_dnum * outer).map(|i| phase_vals(a.at(i / outer, i % outer).data(), &s_in, al.b)).collect();
        let got: Vec<Vec<Dyadic>> = if assign {
            let q = m.gglwe_keyswitch_tmp_bytes(&a, &a, &key);
            m.gglwe_keyswitch_assign(&mut a, &key, sp("gglwe_keyswitch_assign", q, &mut scratch));
            (0..r_dnum * outer).map(|i| phase_vals(a.at(i / outer, i % outer).data(), &s_out, al.b)).collect()
        } else {
            let mut res = mk(rl, ro, r_dnum);
            let q = m.gglwe_keyswitch_tmp_bytes(&res, &a, &key);
            m.gglwe_keyswitch(&mut res, &a, &key, sp("gglwe_keyswitch", q, &mut scratch));
            (0..r_dnum * outer).map(|i| phase_vals(res.at(i / outer, i % outer).data(), &s_out, rl.b)).collect()
        };
        let bound = ks_bound(&meta, al, rl, n, &l1s(&s_in), l1_sum(&s_out));
        let mut emax = 0f64;
        for (i, (g, w)) in got.iter().zip(want.iter()).enumerate() {
            let (e, j) = max_err(g, w);
            if e > bound {
                return fail(c, opn, "phase-error-above-gadget-bound", format!("cell (row {}, column {}) coefficient {j}: |phase_out - phase_in| = {e:.4e} exceeds the gadget-product bound {bound:.4e}", i / outer, i % outer));
            }
            emax = emax.max(e);
        }
        let (nt, mut cl) = classes(c, bound, 1, emax);
        cl.push(opn);
        if r_dnum < a_dnum {
            cl.push("res_fewer_rows");
        }
        return Verdict::pass(nt, &cl);
    }
    // automorphism key (p) switched by automorphism key (q) -> automorphism key (p*q)
    let assign = op == 3;
    let r = c.rank_out as usize;
    let sk = secret(n, r, c.dist, c.seed, 1);
    let s = glwe_secret_coeffs(&sk);
    let two_n = 2 * n as i64;
    let p = c.gal_el();
    let q = {
        let g = (c.idx as i64 * 2 + 1).rem_euclid(two_n);
        if g == two_n - 1 && c.skip & 1 == 1 { -1 } else { g }
    };
    let (keyq, metaq, _) = match build_atk(m, c, q, &sk, 0, &mut scratch) {
        Ok(x) => x,
        Err(e) => return fail(c, "glwe_automorphism_key_encrypt_sk", "key-cell-wrong", e),
    };
    // the key being transformed has its own (generated) shape: same radix as itself, a_lay precision
    let al = c.a_lay();
    let a_dsize = 1 + (c.skip as usize % 2);
    let a_dnum = ((al.size.saturating_sub(1)) / a_dsize).clamp(1, 3);
    if al.size <= a_dsize || a_dnum * a_dsize > al.size {
        return Verdict::pass(false, &["layout_rejected_by_constructor"]);
    }
    let lay_a = GLWEAutomorphismKeyLayout { n: Degree(n as u32), base2k: Base2K(al.b as u32), k: TorusPrecision((al.size * al.b) as u32), rank: Rank(r as u32), dnum: Dnum(a_dnum as u32), dsize: Dsize(a_dsize as u32) };
    // FFT64: the encryption of `a` multiplies a-digits with the secret only; fine for any radix <= 40
    let ni_a = NoiseInfos::new(al.size * al.b, NOISES[c.noise as usize].0, NOISES[c.noise as usize].1).unwrap();
    let enc_a = EncryptionLayout::new(lay_a, ni_a).unwrap();
    let mut a = GLWEAutomorphismKey::alloc_from_infos(&lay_a);
    m.glwe_automorphism_key_encrypt_sk(&mut a, p, &sk, &enc_a, &mut Source::new(seed32(c.seed, 0xE7)), &mut Source::new(seed32(c.seed, 0xA7)), scratch.borrow());
    let inv = |g: i64| mod_pow(g.rem_euclid(two_n) as u128, n as u128 - 1, two_n as u128) as i64;
    let s_p: Vec<Vec<i64>> = s.iter().map(|si| automorphism_i64(si, inv(p))).collect();
    let pq = (p.rem_euclid(two_n) * q.rem_euclid(two_n)) % two_n;
    let s_pq: Vec<Vec<i64>> = s.iter().map(|si| automorphism_i64(si, inv(pq))).collect();
    let want: Vec<Vec<Dyadic>> = (0..a_dnum * r).map(|i| phase_vals(a.at(i / r, i % r).data(), &s_p, al.b)).collect();
    let (rl, r_dnum, got, p_res) = if assign {
        let q_ = m.glwe_automorphism_key_automorphism_tmp_bytes(&a, &a, &keyq);
        m.glwe_automorphism_key_automorphism_assign(&mut a, &keyq, sp("glwe_automorphism_key_automorphism_assign", q_, &mut scratch));
        let got: Vec<Vec<Dyadic>> = (0..a_dnum * r).map(|i| phase_vals(a.at(i / r, i % r).data(), &s_pq, al.b)).collect();
        (al, a_dnum, got, a.p())
    } else {
        let r_dnum = 1 + (c.gal.unsigned_abs() as usize % a_dnum);
        let rsz = (c.rsize as usize).max(r_dnum * a_dsize).max(a_dsize + 1);
        let rl = Lay { b: al.b, size: rsz };
        let lay_r = GLWEAutomorphismKeyLayout { n: Degree(n as u32), base2k: Base2K(al.b as u32), k: TorusPrecision((rsz * al.b) as u32), rank: Rank(r as u32), dnum: Dnum(r_dnum as u32), dsize: Dsize(a_dsize as u32) };
        let mut res = GLWEAutomorphismKey::alloc_from_infos(&lay_r);
        let q_ = m.glwe_automorphism_key_automorphism_tmp_bytes(&res, &a, &keyq);
        m.glwe_automorphism_key_automorphism(&mut res, &a, &keyq, sp("glwe_automorphism_key_automorphism", q_, &mut scratch));
        let got: Vec<Vec<Dyadic>> = (0..r_dnum * r).map(|i| phase_vals(res.at(i / r, i % r).data(), &s_pq, al.b)).collect();
        (rl, r_dnum, got, res.p())
    };
    if p_res.rem_euclid(two_n) != pq {
        return fail(c, opn, "galois-element-metadata", format!("result key reports p = {p_res}, expected p*q = {p}*{q} = {pq} mod 2N"));
    }
    let bound = ks_bound(&metaq, al, rl, n, &l1s(&s), l1_sum(&s));
    let mut emax = 0f64;
    for i in 0..r_dnum * r {
        let (e, j) = max_err(&got[i], &want[i]);
        if e > bound {
            return fail(c, opn, "phase-error-above-gadget-bound", format!("p={p} q={q}: cell (row {}, column {}) coefficient {j}: phase under aut_(pq)^-1(s) differs from the input cell's phase under aut_p^-1(s) by {e:.4e}, bound {bound:.4e}", i / r, i % r));
        }
        emax = emax.max(e);
    }
    let (nt, mut cl) = classes(c, bound, 1, emax);
    cl.push(opn);
    Verdict::pass(nt && q.rem_euclid(two_n) != 1, &cl)
}


// ------------------------------------------------------------------------------------------
// 6. glwe_pack (subset of slots, output gap) and the streaming GLWEPacker (bit-reversed order, batches)

/// accumulated bound of `glwe_trace(res, skip, a)` for working bits max(a, res) in the key radix
fn trace_bound(c: &Case, metas: &HashMap<i64, KeyMeta>, gals: &[i64], al: Lay, rl: Lay, skip: usize, assign: bool, n: usize, s: &[Vec<i64>]) -> f64 {
    let kb = c.kb as usize;
    let wbits = if assign { al.bits() } else { al.bits().max(rl.bits()) };
    let wl = if assign && al.b == kb { al } else { Lay { b: kb, size: wbits.div_ceil(kb) } };
    let so = 1.0 + l1_sum(s) as f64;
    let scale = if al.b != kb || rl.b != kb { 2.0 } else { 1.0 };
    let mut bound = 0f64;
    for i in skip..c.log_n as usize {
        bound += wl.unit() * so;
        bound += ks_bound_scaled(&metas[&gals[i]], wl, wl, n, &l1s(s), l1_sum(s), scale);
    }
    bound + (wl.unit() + rl.unit()) * so * 2.0
}

fn bitrev(x: usize, bits: usize) -> usize {
    if bits == 0 { 0 } else { x.reverse_bits() >> (usize::BITS as usize - bits) }
}

fn run_pack<B: FullBackend>(m: &Module<B>, c: &Case) -> Verdict
where
    poulpy_hal::layouts::Scratch<B>: poulpy_hal::api::ScratchFromBytes<B>,
{
    let n = m.n();
    let log_n = c.log_n as usize;
    let mut scratch = pzv_be::dirty_scratch::<B>(SCRATCH);
    let streaming = c.op % 2 == 1;
    let opn = if streaming { "glwe_packer" } else { "glwe_pack" };
    let r = c.rank_out as usize;
    let sk = secret(n, r, c.dist, c.seed, 1);
    let s = glwe_secret_coeffs(&sk);
    let so = 1.0 + l1_sum(&s) as f64;
    let gals = m.glwe_pack_galois_elements();
    let mut keys: HashMap<i64, AtkP<B>> = HashMap::new();
    let mut metas: HashMap<i64, KeyMeta> = HashMap::new();
    for (i, g) in gals.iter().enumerate() {
        match build_atk(m, c, *g, &sk, i as u64 + 1, &mut scratch) {
            Ok((k, me, _)) => {
                keys.insert(*g, k);
                metas.insert(*g, me);
            }
            Err(e) => return fail(c, "glwe_automorphism_key_encrypt_sk", "key-cell-wrong", e),
        }
    }
    let (al, rl) = (c.a_lay(), c.r_lay());
    let mut rng = SplitMix::new(c.seed ^ 0x9ACC);
    let density = [1u64, 2, 4, 64][(c.skip as usize / 8) % 4]; // 1 = every slot, 64 = almost none
    let mut cl: Vec<&'static str> = vec![];
    let (got, want, bound): (Vec<Dyadic>, Vec<Dyadic>, f64) = if !streaming {
        let gap = (c.skip as usize) % (log_n + 1);
        let step = 1usize << gap;
        let mut idxs: Vec<usize> = (0..n).step_by(step).filter(|_| rng.next() % density == 0).collect();
        if idxs.is_empty() {
            idxs.push(((rng.next() as usize) % (n / step)) * step);
        }
        let mut cts: Vec<GLWE<Vec<u8>>> = idxs
            .iter()
            .map(|i| {
                let mut ct = glwe(n, al, r);
                arbitrary_glwe(&mut ct, c.cls, c.seed ^ (*i as u64 + 1) * 0x1234567);
                ct
            })
            .collect();
        let mut want: Vec<Dyadic> = (0..n).map(|_| Dyadic::zero()).collect();
        for (ct, i) in cts.iter().zip(idxs.iter()) {
            want[*i] = phase_vals(ct.data(), &s, al.b)[0].clone();
        }
        let mut map: HashMap<usize, &mut GLWE<Vec<u8>>> = HashMap::new();
        for (ct, i) in cts.iter_mut().zip(idxs.iter()) {
            map.insert(*i, ct);
        }
        let mut res = glwe(n, rl, r);
        arbitrary_glwe(&mut res, VClass::Uniform, c.seed ^ 0xB);
        let q_ = m.glwe_pack_tmp_bytes(&res, &keys.automorphism_key_infos());
        // the query sees the result and the keys only: inputs of another layout are a recorded finding of their own
        let site = if al.b == rl.b && al.size == rl.size { "glwe_pack" } else { "glwe_pack[inputs_of_another_layout_than_the_result]" };
        m.glwe_pack(&mut res, map, gap, &keys, sp(site, q_, &mut scratch));
        let mut bound = 0f64;
        for i in 0..(log_n - gap) {
            bound += 2.0 * al.unit() * so + ks_bound(&metas[&gals[i]], al, al, n, &l1s(&s), l1_sum(&s));
        }
        bound += trace_bound(c, &metas, &gals, al, rl, log_n - gap, false, n, &s);
        cl.push(if gap == 0 { "gap=0" } else if gap == log_n { "gap=log_n(single slot)" } else { "gap>0" });
        cl.push(if idxs.len() == n / step { "all_slots" } else if idxs.len() == 1 { "single_input" } else { "subset_of_slots" });
        (phase_vals(res.data(), &s, rl.b), want, bound)
    } else {
        let lb = (c.skip as usize) % log_n.min(3);
        let levels = log_n - lb;
        let count = n >> lb;
        let acc_infos = GLWELayout { n: Degree(n as u32), base2k: Base2K(rl.b as u32), k: TorusPrecision((rl.size * rl.b) as u32), rank: Rank(r as u32) };
        let mut packer = GLWEPacker::alloc(&acc_infos, lb);
        let mut want: Vec<Dyadic> = (0..n).map(|_| Dyadic::zero()).collect();
        let mut present = 0usize;
        for i in 0..count {
            if rng.next() % density == 0 || (i + 1 == count && present == 0) {
                present += 1;
                let mut ct = glwe(n, al, r);
                arbitrary_glwe(&mut ct, c.cls, c.seed ^ (i as u64 + 1) * 0x1234567);
                let ph = phase_vals(ct.data(), &s, al.b);
                // the batch of 2^lb values at multiples of 2^levels moves to offset bitrev(i)
                for mm in 0..(1usize << lb) {
                    want[(mm << levels) + bitrev(i, levels)] = ph[mm << levels].clone();
                }
                glwe_packer_add(m, &mut packer, Some(&ct), &keys, sp("glwe_packer_add", glwe_packer_tmp_bytes(m, &acc_infos, &keys.automorphism_key_infos()), &mut scratch));
            } else {
                glwe_packer_add(m, &mut packer, None::<&GLWE<Vec<u8>>>, &keys, sp("glwe_packer_add", glwe_packer_tmp_bytes(m, &acc_infos, &keys.automorphism_key_infos()), &mut scratch));
            }
        }
        let ol = Lay { b: if c.radix_mode & 4 != 0 { al.b } else { rl.b }, size: al.size.min(12) };
        let mut res = glwe(n, ol, r);
        arbitrary_glwe(&mut res, VClass::Uniform, c.seed ^ 0xB);
        glwe_packer_flush(m, &mut packer, &mut res, sp("glwe_packer_flush", m.glwe_normalize_tmp_bytes(), &mut scratch));
        let mut bound = (rl.unit() + ol.unit()) * so * 2.0;
        for i in lb..log_n {
            bound += 2.0 * rl.unit() * so + ks_bound(&metas[&gals[i]], rl, rl, n, &l1s(&s), l1_sum(&s));
        }
        cl.push(if lb == 0 { "log_batch=0" } else { "log_batch>0" });
        cl.push(if present == count { "all_slots" } else if present == 1 { "single_input" } else { "subset_of_slots" });
        (phase_vals(res.data(), &s, ol.b), want, bound)
    };
    let (e, i) = max_err(&got, &want);
    if e > bound {
        return fail(c, opn, "phase-error-above-gadget-bound", format!("coefficient {i}: |phase(res) - expected packed slot| = {e:.4e} exceeds the accumulated bound {bound:.4e} (N={n}, key {}x{} limbs of {} bits, inputs {:?}, accumulator/result {:?})", c.dnum, c.dsize, c.kb, al, rl));
    }
    let (nt, mut cl2) = classes(c, bound, log_n, e);
    cl2.extend(cl);
    cl2.push(opn);
    Verdict::pass(nt, &cl2)
}

pub fn test_pack(c0: &Case) -> Verdict {
    let mut c = c0.clone();
    c.log_n = c.log_n.min(5);
    adapt(&mut c);
    c.rank_in = c.rank_out;
    let streaming = c.op % 2 == 1;
    if streaming && c.ab != c.rb {
        // Inputs in another radix than the accumulators: until fa83095 the packer converted such an input only when
        // it landed in an empty accumulator (recorded, now repaired).  Everything that goes wrong in this
        // configuration is still reported under that one signature, so that a recurrence is recognised.
        let r = pzv_common::driver::guarded(|| with_backend!(c.be, c.log_n, |m| run_pack(m, &c)));
        return match r {
            Ok(Verdict::Fail { detail, .. }) => Verdict::fail("glwe_packer|input-radix-differs-from-accumulator|wrong-result", detail),
            Ok(v) => v,
            Err(p) => Verdict::fail("glwe_packer|input-radix-differs-from-accumulator|panic", format!("panic: {p}\ncase={c:?}")),
        };
    }
    with_backend!(c.be, c.log_n, |m| run_pack(m, &c))
}

pub fn test_lwe(c0: &Case) -> Verdict {
    let mut c = c0.clone();
    adapt(&mut c);
    // the LWE keys are rank-1 / dsize-1 objects (asserted by the library)
    c.dsize = 1;
    if c.dnum == 1 && c.extra == 0 {
        c.extra = 1;
    }
    match c.op % 4 {
        0 => {
            c.rank_in = 1;
            c.rank_out = 1;
        }
        1 => c.rank_in = 1,
        2 => c.rank_out = 1,
        _ => {}
    }
    with_backend!(c.be, c.log_n, |m| run_lwe(m, &c))
}

pub fn test_kk(c0: &Case) -> Verdict {
    let mut c = c0.clone();
    adapt(&mut c);
    if c.op % 4 != 0 {
        c.rank_in = c.rank_out;
    }
    with_backend!(c.be, c.log_n, |m| run_kk(m, &c))
}

pub fn test_ks(c0: &Case) -> Verdict {
    let mut c = c0.clone();
    adapt(&mut c);
    if c.op % 2 == 1 {
        c.rank_in = c.rank_out;
    }
    with_backend!(c.be, c.log_n, |m| run_ks(m, &c))
}

pub fn test_aut(c0: &Case) -> Verdict {
    let mut c = c0.clone();
    adapt(&mut c);
    c.rank_in = c.rank_out;
    with_backend!(c.be, c.log_n, |m| run_aut(m, &c))
}

pub fn test_trace(c0: &Case) -> Verdict {
    let mut c = c0.clone();
    c.log_n = c.log_n.min(6);
    adapt(&mut c);
    c.rank_in = c.rank_out;
    with_backend!(c.be, c.log_n, |m| run_trace(m, &c))
}

pub fn cls_strategy() -> impl Strategy<Value = VClass> {
    prop_oneof![
        4 => Just(VClass::Uniform),
        1 => Just(VClass::ExtremePos),
        1 => Just(VClass::ExtremeNeg),
        2 => Just(VClass::ExtremeMixed),
        1 => Just(VClass::Sparse),
        1 => Just(VClass::Zero),
    ]
}

pub fn strategy() -> BoxedStrategy<Case> {
    (
        (crate::c01::be_strategy(), any::<u8>(), 3u8..=7, 2u8..=40, 1u8..=4, 1u8..=4, 0u8..3, any::<u8>(), 0u8..3),
        (2u8..=40, -2i8..=2, 2u8..=40, 1u8..=12, 0u8..8, 1u8..=3, 1u8..=3),
        (dist_strategy(), cls_strategy(), any::<i64>(), any::<u8>(), 1u16..=128, 1u16..=128, any::<u16>(), any::<u64>()),
    )
        .prop_map(|((be, op, log_n, kb, dnum, dsize, extra, krem, noise), (ab, adelta, rb, rsize, radix_mode, rank_in, rank_out), (dist, cls, gal, skip, n_lwe, n_lwe2, idx, seed))| {
            let mut c = Case { be, op, log_n, kb, dnum, dsize, extra, krem, noise, ab, adelta, rb, rsize, radix_mode, rank_in, rank_out, dist, cls, gal, skip, n_lwe, n_lwe2, idx, seed };
            adapt(&mut c);
            c
        })
        .boxed()
}

pub fn run_all(ctx: &Ctx) {
    let t = ctx.tier;
    ctx.run_sub("glwe_keyswitch", t.pick(8_000, 200_000), 64, strategy, test_ks);
    ctx.run_sub("glwe_automorphism", t.pick(8_000, 200_000), 64, strategy, test_aut);
    ctx.run_sub("glwe_trace", t.pick(3_000, 60_000), 64, strategy, test_trace);
    ctx.run_sub("lwe_conversions", t.pick(8_000, 200_000), 64, strategy, test_lwe);
    ctx.run_sub("key_on_key", t.pick(6_000, 120_000), 64, strategy, test_kk);
    ctx.run_sub("packing", t.pick(2_400, 48_000), 64, strategy, test_pack);
}

pub fn replay(ctx: &Ctx, sub: &str, case: &serde_json::Value) -> i32 {
    match sub {
        "glwe_keyswitch" => ctx.replay_case::<Case, _>(sub, case, test_ks),
        "glwe_automorphism" => ctx.replay_case::<Case, _>(sub, case, test_aut),
        "glwe_trace" => ctx.replay_case::<Case, _>(sub, case, test_trace),
        "lwe_conversions" => ctx.replay_case::<Case, _>(sub, case, test_lwe),
        "key_on_key" => ctx.replay_case::<Case, _>(sub, case, test_kk),
        "packing" => ctx.replay_case::<Case, _>(sub, case, test_pack),
        _ => 2,
    }
}

pub const RULE: &str = "cases = (backend, operation variant, N 8..128, switching/automorphism key with radix 2..40 inside the backend exactness domain, dnum 1..4, dsize 1..4, 0..2 spare limbs, k not a multiple of the radix, three noise settings; input of independent radix whose precision is 2 key-limbs below .. 2 above what the key covers (so a_size is frequently not a multiple of dsize); result of independent radix and 1..12 limbs; ranks in/out 1..3; every secret distribution; every odd Galois element; every trace start level; input digits uniform / extreme / sparse / zero). Oracle: exact integer phase of the result under the clear output secret vs the expected image of the exact input phase, coefficient-wise, within the deterministic gadget-product bound computed from the exactly extracted errors of the actual key cells; key cells must themselves encrypt the gadget-scaled input secret within the fresh-encryption bound. non-trivial = the bound leaves at least 8 message bits (bound < 2^-8) and the operation is not the identity.";
