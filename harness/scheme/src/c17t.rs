//! Core-level `take_*` of `ScratchTakeCore` (C12 / C17): an object taken from scratch for a layout must have exactly the
//! shape of the owned object `alloc_from_infos` gives for that layout, and consume exactly its (64-byte aligned) size.
//!
//! Oracle without access to private fields: the serialisation of a zeroed owned object of the layout must be readable
//! into the taken object (`read_from` validates the dimensions against the receiver) and written back identically;
//! for the types without a stream format the public data view is compared (n, columns, limbs).  Consumption is judged
//! through `ScratchAvailable::available` before / after against `bytes_of_from_infos`.

use crate::c12s::Win;
use poulpy_core::ScratchTakeCore;
use poulpy_core::layouts::{
    Base2K, Degree, Dnum, Dsize, GGLWE, GGLWELayout, GGSW, GGSWLayout, GLWE, GLWEAutomorphismKey, GLWEAutomorphismKeyLayout, GLWELayout, GLWEPlaintext, GLWEPublicKey, GLWESwitchingKey,
    GLWESwitchingKeyLayout, GLWETensor, GLWETensorKey, GLWETensorKeyLayout, LWE, LWELayout, Rank, TorusPrecision,
};
use poulpy_core::layouts::{GGLWEPreparedFactory, GGSWPreparedFactory, GLWEInfos, GLWEPreparedFactory, LWEInfos};
use poulpy_hal::api::{ScratchAvailable, ScratchFromBytes, SvpPPolBytesOf};
use poulpy_hal::layouts::{ReaderFrom, Scratch, WriterTo, ZnxInfos};
use proptest::prelude::*;
use pzv_be::{Be, FullBackend, with_backend};
use pzv_common::driver::{Ctx, Verdict, guarded, panic_sig};
use serde::{Deserialize, Serialize};

#[derive(Clone, Debug, Serialize, Deserialize)]
pub struct Case {
    pub be: Be,
    pub kind: u8,
    pub log_n: u8,
    pub base2k: u8,
    pub size: u8,
    pub krem: u8,
    pub rank_in: u8,
    pub rank_out: u8,
    pub dnum: u8,
    pub dsize: u8,
    pub count: u8,
    pub lead: u16,
    pub seed: u64,
}

pub const KINDS: [&str; 24] = ["take_lwe", "take_glwe", "take_glwe_slice", "take_glwe_tensor", "take_glwe_plaintext", "take_gglwe", "take_ggsw", "take_ggsw_slice", "take_glwe_public_key", "take_glwe_switching_key", "take_glwe_automorphism_key", "take_glwe_tensor_key", "take_gglwe_prepared", "take_ggsw_prepared", "take_ggsw_prepared_slice", "take_glwe_prepared", "take_glwe_public_key_prepared", "take_glwe_secret", "take_glwe_secret_tensor", "take_glwe_secret_prepared", "take_lwe_plaintext", "take_glwe_switching_key_prepared", "take_glwe_automorphism_key_prepared", "take_glwe_tensor_key_prepared"];

fn align(x: usize) -> usize {
    x.next_multiple_of(64)
}

fn mat_shape<A: poulpy_core::layouts::GGLWEInfos>(x: &A) -> Vec<usize> {
    vec![x.n().0 as usize, x.base2k().0 as usize, x.size(), x.rank_in().0 as usize, x.rank_out().0 as usize, x.dnum().0 as usize, x.dsize().0 as usize]
}

fn ggsw_shape<A: poulpy_core::layouts::GGSWInfos>(x: &A) -> Vec<usize> {
    vec![x.n().0 as usize, x.base2k().0 as usize, x.size(), x.rank().0 as usize, x.dnum().0 as usize, x.dsize().0 as usize]
}

fn glwe_shape<A: poulpy_core::layouts::GLWEInfos>(x: &A) -> Vec<usize> {
    vec![x.n().0 as usize, x.base2k().0 as usize, x.size(), x.rank().0 as usize]
}

fn same(got: Vec<usize>, want: Vec<usize>) -> Result<(), String> {
    if got == want { Ok(()) } else { Err(format!("the taken object reports the layout {got:?}, the request is {want:?}")) }
}

fn roundtrip<T: ReaderFrom + WriterTo, O: WriterTo>(taken: &mut T, owned: &O) -> Result<(), String> {
    let mut want = vec![];
    owned.write_to(&mut want).map_err(|e| format!("owned write_to: {e}"))?;
    taken.read_from(&mut &want[..]).map_err(|e| format!("the stream of an owned object of the requested layout is rejected by the taken object: {e}"))?;
    let mut got = vec![];
    taken.write_to(&mut got).map_err(|e| format!("taken write_to: {e}"))?;
    if got != want {
        return Err(format!("the taken object serialises to {} bytes that differ from the {} bytes of the owned object of the requested layout", got.len(), want.len()));
    }
    Ok(())
}

fn run<B: FullBackend>(m: &poulpy_hal::layouts::Module<B>, c: &Case) -> Verdict
where
    Scratch<B>: ScratchFromBytes<B> + ScratchTakeCore<B> + ScratchAvailable + poulpy_hal::api::TakeSlice,
{
    let kind = c.kind as usize % KINDS.len();
    let name = KINDS[kind];
    let n = 1usize << c.log_n.clamp(1, 7);
    let b = c.base2k.clamp(2, 40) as usize;
    let size = c.size.clamp(1, 6) as usize;
    // matrix layouts need ceil(k / base2k) > dsize and dnum * dsize <= ceil(k / base2k) (asserted by their constructors)
    let (dsize0, dnum0) = (c.dsize.clamp(1, 3) as usize, c.dnum.clamp(1, 3) as usize);
    let kk_ = c.kind as usize % KINDS.len();
    let size = if matches!(kk_, 5 | 6 | 7 | 9 | 10 | 11 | 12 | 13 | 14 | 21 | 22 | 23) { size.max(dnum0 * dsize0).max(dsize0 + 1) } else { size };
    let k = size * b - (c.krem as usize % b);
    let (ri, ro) = (c.rank_in.clamp(1, 3) as u32, c.rank_out.clamp(0, 3) as u32);
    let dsize = c.dsize.clamp(1, 3) as u32;
    let dnum = c.dnum.clamp(1, 3) as u32;
    let count = 1 + (c.count as usize % 4);
    let (nd, bb, kk) = (Degree(n as u32), Base2K(b as u32), TorusPrecision(k as u32));
    let glwe = GLWELayout { n: nd, base2k: bb, k: kk, rank: Rank(ro) };
    let ro1 = ro.max(1);
    let gglwe = GGLWELayout { n: nd, base2k: bb, k: kk, rank_in: Rank(ri), rank_out: Rank(ro1), dnum: Dnum(dnum), dsize: Dsize(dsize) };
    let ggsw = GGSWLayout { n: nd, base2k: bb, k: kk, rank: Rank(ro1), dnum: Dnum(dnum), dsize: Dsize(dsize) };
    // expected consumption and total window
    let want_bytes: usize = match kind {
        0 => align(LWE::<Vec<u8>>::bytes_of_from_infos(&LWELayout { n: nd, k: kk, base2k: bb })),
        1 | 8 => align(GLWE::<Vec<u8>>::bytes_of_from_infos(&glwe)),
        2 => count * align(GLWE::<Vec<u8>>::bytes_of_from_infos(&glwe)),
        3 => align(GLWETensor::<Vec<u8>>::bytes_of_from_infos(&glwe)),
        4 => align(GLWEPlaintext::<Vec<u8>>::bytes_of_from_infos(&glwe)),
        5 | 9 => align(GGLWE::<Vec<u8>>::bytes_of_from_infos(&gglwe)),
        6 => align(GGSW::<Vec<u8>>::bytes_of_from_infos(&ggsw)),
        7 => count * align(GGSW::<Vec<u8>>::bytes_of_from_infos(&ggsw)),
        10 => align(GGLWE::<Vec<u8>>::bytes_of_from_infos(&GGLWELayout { rank_in: Rank(ro1), ..gglwe })),
        11 => {
            let pairs = ((ro1 + 1) * ro1) >> 1;
            align(GGLWE::<Vec<u8>>::bytes_of_from_infos(&GGLWELayout { rank_in: Rank(pairs.max(1)), ..gglwe }))
        }
        12 | 21 => align(m.gglwe_prepared_bytes_of_from_infos(&gglwe)),
        13 => align(m.ggsw_prepared_bytes_of_from_infos(&ggsw)),
        14 => count * align(m.ggsw_prepared_bytes_of_from_infos(&ggsw)),
        15 | 16 => align(m.glwe_prepared_bytes_of_from_infos(&glwe)),
        17 => align(poulpy_hal::layouts::ScalarZnx::<Vec<u8>>::bytes_of(n, ro as usize)),
        18 => align(poulpy_hal::layouts::ScalarZnx::<Vec<u8>>::bytes_of(n, (((ro1 + 1) * ro1) >> 1).max(1) as usize)),
        19 => align(m.bytes_of_svp_ppol(ro as usize)),
        20 => align(poulpy_hal::layouts::VecZnx::<Vec<u8>>::bytes_of(1, 1, size)),
        22 => align(m.gglwe_prepared_bytes_of_from_infos(&GGLWELayout { rank_in: Rank(ro1), ..gglwe })),
        _ => {
            let pairs = ((ro1 + 1) * ro1) >> 1;
            align(m.gglwe_prepared_bytes_of_from_infos(&GGLWELayout { rank_in: Rank(pairs.max(1)), ..gglwe }))
        }
    };
    // the take happens after a generated number of bytes was already taken (alignment of the cursor) and leaves a generated remainder
    let lead = (c.lead as usize % 300) & !7;
    let tail = 64 * (c.seed as usize % 3);
    let mut w = Win::new(align(lead) + want_bytes + tail, c.seed);
    let fail = |what: &str, d: String| Verdict::fail(format!("{name}|{what}"), format!("backend={} {name}: {d}\ncase={c:?}", c.be.name()));
    let r = guarded(|| -> Result<(usize, usize), String> {
        let s0: &mut Scratch<B> = w.scratch::<B>();
        use poulpy_hal::api::TakeSlice;
        let (_, s1) = s0.take_slice::<u8>(lead);
        let before = s1.available();
        let after = match kind {
            0 => {
                let lay = LWELayout { n: nd, k: kk, base2k: bb };
                let (mut t, rest) = s1.take_lwe(&lay);
                roundtrip(&mut t, &LWE::alloc_from_infos(&lay))?;
                rest.available()
            }
            1 => {
                let (mut t, rest) = s1.take_glwe(&glwe);
                roundtrip(&mut t, &GLWE::alloc_from_infos(&glwe))?;
                rest.available()
            }
            2 => {
                let (mut ts, rest) = s1.take_glwe_slice(count, &glwe);
                if ts.len() != count {
                    return Err(format!("{} objects instead of {count}", ts.len()));
                }
                for t in ts.iter_mut() {
                    roundtrip(t, &GLWE::alloc_from_infos(&glwe))?;
                }
                rest.available()
            }
            3 => {
                let (t, rest) = s1.take_glwe_tensor(&glwe);
                let o = GLWETensor::alloc_from_infos(&glwe);
                let (a, bshape) = ((t.data().n(), t.data().cols(), t.data().size()), (o.data().n(), o.data().cols(), o.data().size()));
                if a != bshape {
                    return Err(format!("the taken tensor has (n, columns, limbs) = {a:?}, an owned tensor of the requested layout has {bshape:?}"));
                }
                rest.available()
            }
            4 => {
                let (t, rest) = s1.take_glwe_plaintext(&glwe);
                let o = GLWEPlaintext::alloc_from_infos(&glwe);
                let (a, bshape) = ((t.data().n(), t.data().cols(), t.data().size()), (o.data().n(), o.data().cols(), o.data().size()));
                if a != bshape {
                    return Err(format!("the taken plaintext has (n, columns, limbs) = {a:?}, an owned one has {bshape:?}"));
                }
                rest.available()
            }
            5 => {
                let (mut t, rest) = s1.take_gglwe(&gglwe);
                roundtrip(&mut t, &GGLWE::alloc_from_infos(&gglwe))?;
                rest.available()
            }
            6 => {
                let (mut t, rest) = s1.take_ggsw(&ggsw);
                roundtrip(&mut t, &GGSW::alloc_from_infos(&ggsw))?;
                rest.available()
            }
            7 => {
                let (mut ts, rest) = s1.take_ggsw_slice(count, &ggsw);
                if ts.len() != count {
                    return Err(format!("{} objects instead of {count}", ts.len()));
                }
                for t in ts.iter_mut() {
                    roundtrip(t, &GGSW::alloc_from_infos(&ggsw))?;
                }
                rest.available()
            }
            8 => {
                let (mut t, rest) = s1.take_glwe_public_key(&glwe);
                roundtrip(&mut t, &GLWEPublicKey::alloc_from_infos(&glwe))?;
                rest.available()
            }
            9 => {
                let lay = GLWESwitchingKeyLayout { n: nd, base2k: bb, k: kk, rank_in: Rank(ri), rank_out: Rank(ro1), dnum: Dnum(dnum), dsize: Dsize(dsize) };
                let (mut t, rest) = s1.take_glwe_switching_key(&lay);
                roundtrip(&mut t, &GLWESwitchingKey::alloc_from_infos(&lay))?;
                rest.available()
            }
            10 => {
                let lay = GLWEAutomorphismKeyLayout { n: nd, base2k: bb, k: kk, rank: Rank(ro1), dnum: Dnum(dnum), dsize: Dsize(dsize) };
                let (mut t, rest) = s1.take_glwe_automorphism_key(&lay);
                roundtrip(&mut t, &GLWEAutomorphismKey::alloc_from_infos(&lay))?;
                rest.available()
            }
            11 => {
                let lay = GLWETensorKeyLayout { n: nd, base2k: bb, k: kk, rank: Rank(ro1), dnum: Dnum(dnum), dsize: Dsize(dsize) };
                // documented precondition of the take: infos with rank_in == rank_out (the rank of the key), not the tensor-key
                // layout itself (whose rank_in() is the number of pairs)
                let req = GGLWELayout { rank_in: Rank(ro1), ..gglwe };
                let (mut t, rest) = s1.take_glwe_tensor_key::<_, poulpy_hal::layouts::Module<B>>(&req);
                roundtrip(&mut t, &GLWETensorKey::alloc_from_infos(&lay))?;
                rest.available()
            }
            12 => {
                let (t, rest) = s1.take_gglwe_prepared(m, &gglwe);
                same(mat_shape(&t), mat_shape(&gglwe))?;
                rest.available()
            }
            13 => {
                let (t, rest) = s1.take_ggsw_prepared(m, &ggsw);
                same(ggsw_shape(&t), ggsw_shape(&ggsw))?;
                rest.available()
            }
            14 => {
                let (ts, rest) = s1.take_ggsw_prepared_slice(m, count, &ggsw);
                if ts.len() != count {
                    return Err(format!("{} objects instead of {count}", ts.len()));
                }
                for t in ts.iter() {
                    same(ggsw_shape(t), ggsw_shape(&ggsw))?;
                }
                rest.available()
            }
            15 => {
                let (t, rest) = s1.take_glwe_prepared(m, &glwe);
                same(glwe_shape(&t), glwe_shape(&glwe))?;
                rest.available()
            }
            16 => {
                let (t, rest) = s1.take_glwe_public_key_prepared(m, &glwe);
                same(glwe_shape(&t), glwe_shape(&glwe))?;
                rest.available()
            }
            17 => {
                let (t, rest) = s1.take_glwe_secret(nd, Rank(ro));
                same(vec![t.n().0 as usize, t.rank().0 as usize], vec![n, ro as usize])?;
                rest.available()
            }
            18 => {
                let (t, rest) = s1.take_glwe_secret_tensor(nd, Rank(ro1));
                same(vec![t.n().0 as usize, t.rank().0 as usize], vec![n, ro1 as usize])?;
                rest.available()
            }
            19 => {
                let (t, rest) = s1.take_glwe_secret_prepared(m, Rank(ro));
                same(vec![t.n().0 as usize, t.rank().0 as usize], vec![n, ro as usize])?;
                rest.available()
            }
            20 => {
                let lay = LWELayout { n: nd, k: kk, base2k: bb };
                let (t, rest) = s1.take_lwe_plaintext(&lay);
                same(vec![t.base2k().0 as usize, t.size()], vec![b, size])?;
                rest.available()
            }
            21 => {
                let lay = GLWESwitchingKeyLayout { n: nd, base2k: bb, k: kk, rank_in: Rank(ri), rank_out: Rank(ro1), dnum: Dnum(dnum), dsize: Dsize(dsize) };
                let (t, rest) = s1.take_glwe_switching_key_prepared(m, &lay);
                same(mat_shape(&t), mat_shape(&lay))?;
                rest.available()
            }
            22 => {
                let lay = GLWEAutomorphismKeyLayout { n: nd, base2k: bb, k: kk, rank: Rank(ro1), dnum: Dnum(dnum), dsize: Dsize(dsize) };
                let (t, rest) = s1.take_glwe_automorphism_key_prepared(m, &lay);
                same(mat_shape(&t), mat_shape(&lay))?;
                rest.available()
            }
            _ => {
                let lay = GLWETensorKeyLayout { n: nd, base2k: bb, k: kk, rank: Rank(ro1), dnum: Dnum(dnum), dsize: Dsize(dsize) };
                let req = GGLWELayout { rank_in: Rank(ro1), ..gglwe };
                let (t, rest) = s1.take_glwe_tensor_key_prepared(m, &req);
                same(mat_shape(&t), mat_shape(&lay))?;
                rest.available()
            }
        };
        Ok((before, after))
    });
    let (before, after) = match r {
        Err(p) => return fail(&format!("panic|{}", panic_sig(&p)), format!("taking the object from a window that holds its size ({want_bytes} bytes after {lead} used bytes) panicked: {p}")),
        Ok(Err(e)) => return fail("shape-differs-from-owned-object", e),
        Ok(Ok(x)) => x,
    };
    if !w.guards_ok() {
        return fail("guard-damaged", "bytes outside the scratch window were written".into());
    }
    if before - after != want_bytes {
        return fail("consumes-other-than-bytes_of", format!("the take consumed {} bytes, bytes_of_from_infos (64-byte aligned{}) gives {want_bytes}", before - after, if matches!(kind, 2 | 7) { ", per object" } else { "" }));
    }
    let mut cl = vec![name, c.be.name()];
    if ro >= 2 {
        cl.push("rank>=2");
    }
    if n < 8 {
        cl.push("N<8(limb_not_multiple_of_alignment)");
    }
    Verdict::pass(true, &cl)
}

pub fn test(c: &Case) -> Verdict {
    with_backend!(c.be, c.log_n.clamp(1, 7), |m| run(m, c))
}

pub fn strategy() -> BoxedStrategy<Case> {
    (
        (crate::c01::be_strategy(), 0u8..KINDS.len() as u8, 1u8..=7, 2u8..=40, 1u8..=6, any::<u8>()),
        (1u8..=3, 0u8..=3, 1u8..=3, 1u8..=3, any::<u8>(), any::<u16>(), any::<u64>()),
    )
        .prop_map(|((be, kind, log_n, base2k, size, krem), (rank_in, rank_out, dnum, dsize, count, lead, seed))| Case { be, kind, log_n, base2k, size, krem, rank_in, rank_out, dnum, dsize, count, lead, seed })
        .boxed()
}

pub fn run_all(ctx: &Ctx, prefix: &str) {
    let t = ctx.tier;
    ctx.run_sub(&format!("{prefix}core_take_layouts"), t.pick(20_000, 400_000), 64, strategy, test);
}

pub fn replay(ctx: &Ctx, sub: &str, case: &serde_json::Value) -> i32 {
    ctx.replay_case::<Case, _>(sub, case, test)
}

pub const RULE: &str = "core takes (sub-check core_take_layouts): cases = (backend, one of 24 ScratchTakeCore forms: LWE, GLWE, GLWE slice, GLWE tensor, GLWE / LWE plaintext, GGLWE, GGSW, GGSW slice, public key, switching / automorphism / tensor key, secrets (plain, tensor, prepared) and the prepared forms of GLWE, public key, GGLWE, GGSW (+ slice), switching / automorphism / tensor key; N 2..128, radix 2..40, 1..6 limbs, ranks 0..3, dnum / dsize 1..3, 1..4 objects, a generated number of bytes taken before). The window holds exactly the aligned bytes_of_from_infos of the request (plus the bytes taken before and 0..128 spare bytes). Oracle: no panic; the taken object reads and re-writes the stream of an owned object of the requested layout byte for byte (types without a stream format: equal reported layout / public shape); consumption == aligned bytes_of_from_infos; guard regions intact. non-trivial = every case.";
