//! C01 — encrypt-then-decrypt returns the message up to the configured bounded error.
//!
//! The harness holds the clear secret (hook H4) and recomputes the exact phase of the
//! fresh ciphertext with integers; the error is bounded coefficient-wise and
//! deterministically, and the library's own decryption must agree with the exact phase.

use crate::sch::*;
use crate::sp::sp;
use dashu_int::IBig;
use poulpy_core::{
    EncryptionLayout, GLWECompressedEncryptSk, GLWEDecrypt, GLWEEncryptPk, GLWEEncryptSk, GLWEPublicKeyGenerate, LWEDecrypt, LWEEncryptSk,
    layouts::{
        Base2K, Degree, GLWE, GLWELayout, GLWEPlaintext, GLWEPublicKey, GLWEPublicKeyPreparedFactory, GLWESecret, GLWESecretPreparedFactory, LWE, LWEInfos, LWELayout,
        LWEPlaintext, LWESecret, Rank, TorusPrecision,
        compressed::{GLWECompressed, GLWEDecompress},
    },
};
use poulpy_hal::{
    api::{ScratchOwnedBorrow},
    layouts::{Module, NoiseInfos, ScalarZnx, ZnxView, ZnxViewMut},
    source::Source,
};
use proptest::prelude::*;
use pzv_be::{Be, FullBackend, with_backend};
use pzv_common::driver::{Ctx, Verdict};
use pzv_common::model::*;
use serde::{Deserialize, Serialize};

#[derive(Clone, Debug, Serialize, Deserialize)]
pub struct Case {
    pub be: Be,
    /// 0 sk, 1 zero_sk, 2 pk, 3 zero_pk, 4 compressed, 5 lwe
    pub variant: u8,
    pub log_n: u8,
    pub base2k: u8,
    pub size: u8,
    pub krem: u8,
    pub rank: u8,
    pub size_pt: u8,
    pub b_out: u8,
    pub size_out: u8,
    pub dist: Dist,
    pub mclass: VClass,
    pub noise: u8,
    pub n_lwe: u16,
    pub seed: u64,
}

const NOISES: [(f64, f64); 4] = [(3.2, 19.2), (1.0, 1.0), (8.0, 48.0), (3.2, 3.2)];

pub fn adapt(c: &mut Case) {
    c.variant %= 6;
    c.log_n = c.log_n.clamp(3, 11);
    let n = 1usize << c.log_n;
    c.rank = c.rank.min(3);
    if matches!(c.variant, 2 | 3) {
        c.rank = c.rank.max(1);
    }
    c.dist = c.dist.adapt(if c.variant == 5 { c.n_lwe.clamp(1, 600) as usize } else { n });
    c.n_lwe = c.n_lwe.clamp(1, 600);
    c.size = c.size.clamp(1, 6);
    c.size_pt = c.size_pt.clamp(1, 6);
    c.size_out = c.size_out.clamp(1, 6);
    // magnitude domain
    let l1max: u64 = match c.dist {
        Dist::TernaryHw(h) | Dist::BinaryHw(h) => h as u64,
        Dist::BinaryBlock(b) => (n / b as usize) as u64,
        Dist::Zero => 1,
        _ => n as u64,
    };
    let maxb = if c.variant == 5 {
        // LWE arithmetic is plain i64: n_lwe * 2^(b-1) must stay far below 2^63
        50
    } else if c.be.is_fft() {
        fft_max_base2k(c.log_n, l1max.max(1))
    } else {
        52
    };
    c.base2k = c.base2k.clamp(1, maxb.max(1));
    c.krem %= c.base2k;
    c.b_out = c.b_out.clamp(1, 52);
    c.noise %= NOISES.len() as u8;
    c.mclass = match c.mclass {
        VClass::Unnorm(_) | VClass::FullI64 | VClass::CarryRipple | VClass::MonoEach => VClass::ExtremeMixed,
        x => x,
    };
}

fn k_of(c: &Case) -> usize {
    (c.size as usize - 1) * c.base2k as usize + 1 + c.krem as usize
}

/// exact worst case of one fresh error sample in units of 2^-(limb+1)b, and that exponent
fn fresh_bound(ni: &NoiseInfos, b: usize) -> (IBig, usize) {
    let (limb, scale) = ni.target_limb_and_scale(b);
    let e = (ni.bound * scale * if std::env::var("PZV_TIGHT").is_ok() { 0.5 } else { 1.0 }).round();
    (IBig::from(e as u128), (limb + 1) * b)
}

fn message(c: &Case, n: usize, b: usize, size: usize) -> Vec<Vec<i64>> {
    gen_column(c.mclass, b, n, size, c.seed ^ 0x4D53)
}

fn fail(c: &Case, what: &str, detail: String) -> Verdict {
    let v = ["sk", "zero_sk", "pk", "zero_pk", "compressed", "lwe"][c.variant as usize];
    Verdict::fail(format!("{v}|{what}"), format!("backend={} variant={v}: {detail}\ncase={c:?}", c.be.name()))
}

fn run_glwe<B: FullBackend>(m: &Module<B>, c: &Case) -> Verdict
where
    poulpy_hal::layouts::Scratch<B>: poulpy_hal::api::ScratchFromBytes<B>,
{
    let n = m.n();
    let b = c.base2k as usize;
    let k = k_of(c);
    let rank = c.rank as usize;
    let (sigma, bound) = NOISES[c.noise as usize];
    let lay = GLWELayout {
        n: Degree(n as u32),
        base2k: Base2K(b as u32),
        k: TorusPrecision(k as u32),
        rank: Rank(rank as u32),
    };
    let ni = NoiseInfos::new(k, sigma, bound).unwrap();
    let enc = EncryptionLayout::new(lay, ni).unwrap();
    let mut sk = GLWESecret::alloc(Degree(n as u32), Rank(rank as u32));
    fill_glwe_secret(&mut sk, c.dist, &mut Source::new(seed32(c.seed, 1)));
    let s = glwe_secret_coeffs(&sk);
    let mut skp = m.glwe_secret_prepared_alloc(Rank(rank as u32));
    m.glwe_secret_prepare(&mut skp, &sk);
    let mut ct = GLWE::alloc_from_infos(&lay);
    let size_ct = ct.size();
    // plaintext: same radix, any limb count
    let size_pt = c.size_pt as usize;
    let mut pt = GLWEPlaintext::alloc(Degree(n as u32), Base2K(b as u32), TorusPrecision((size_pt * b) as u32));
    let zero_variant = matches!(c.variant, 1 | 3);
    let msg = if zero_variant { vec![vec![0i64; n]; size_pt] } else { message(c, n, b, size_pt) };
    for (j, l) in msg.iter().enumerate() {
        pt.data.at_mut(0, j).copy_from_slice(l);
    }
    let mut xe = Source::new(seed32(c.seed, 2));
    let mut xa = Source::new(seed32(c.seed, 3));
    let tmp = m
        .glwe_encrypt_sk_tmp_bytes(&lay)
        .max(m.glwe_encrypt_pk_tmp_bytes(&lay))
        .max(m.glwe_compressed_encrypt_sk_tmp_bytes(&lay))
        .max(m.glwe_decrypt_tmp_bytes(&lay));
    let mut scratch = pzv_be::dirty_scratch::<B>(tmp + 4096);
    // error budget (exact rationals): num / 2^exp
    let (e_fresh, e_exp) = fresh_bound(&ni, b);
    let mut budget = Dyadic { num: e_fresh.clone(), exp: e_exp };
    match c.variant {
        0 => m.glwe_encrypt_sk(&mut ct, &pt, &skp, &enc, &mut xe, &mut xa, scratch.borrow()),
        1 => m.glwe_encrypt_zero_sk(&mut ct, &skp, &enc, &mut xe, &mut xa, sp("glwe_encrypt_zero_sk", m.glwe_encrypt_sk_tmp_bytes(&lay), &mut scratch)),
        2 | 3 => {
            let mut pk = GLWEPublicKey::alloc_from_infos(&lay);
            m.glwe_public_key_generate(&mut pk, &skp, &enc, &mut xe, &mut xa);
            // measured public-key error (exact)
            let pk_ph = { use poulpy_core::layouts::GLWEToRef; glwe_phase_limbs(pk.to_ref().data(), &s) };
            let mut e_pk = Dyadic::zero();
            let zero = Dyadic::zero();
            for i in 0..n {
                let e = torus_err(&value_of(&pk_ph, b, i), &zero);
                if !abs_le(&e, &e_fresh, e_exp) {
                    return fail(c, "pk-error-above-bound", format!("public key coefficient {i}: error {:.4e} exceeds the truncation bound {:.4e}", e.approx_f64(), budget.approx_f64()));
                }
                let a = Dyadic {
                    num: if e.num < IBig::ZERO { -e.num.clone() } else { e.num.clone() },
                    exp: e.exp,
                };
                if a.sub(&e_pk).num > IBig::ZERO {
                    e_pk = a;
                }
            }
            let mut pkp = m.glwe_public_key_prepared_alloc_from_infos(&lay);
            m.glwe_public_key_prepare(&mut pkp, &pk);
            let seed_u = seed32(c.seed, 4);
            let mut xu = Source::new(seed_u);
            if c.variant == 2 {
                m.glwe_encrypt_pk(&mut ct, &pt, &pkp, &enc, &mut xu, &mut xe, scratch.borrow());
            } else {
                m.glwe_encrypt_zero_pk(&mut ct, &pkp, &enc, &mut xu, &mut xe, sp("glwe_encrypt_zero_pk", m.glwe_encrypt_pk_tmp_bytes(&lay), &mut scratch));
            }
            // re-derive u with the public sampling functions (same seed, same distribution)
            let mut u = ScalarZnx::alloc(n, 1);
            let mut xu2 = Source::new(seed_u);
            match c.dist {
                Dist::TernaryProb(p) => u.fill_ternary_prob(0, p as f64 / 16.0, &mut xu2),
                Dist::TernaryHw(h) => u.fill_ternary_hw(0, h as usize, &mut xu2),
                Dist::BinaryProb(p) => u.fill_binary_prob(0, p as f64 / 16.0, &mut xu2),
                Dist::BinaryHw(h) => u.fill_binary_hw(0, h as usize, &mut xu2),
                Dist::BinaryBlock(bs) => u.fill_binary_block(0, bs as usize, &mut xu2),
                Dist::Zero => {}
            }
            let u_l1: u64 = u.at(0, 0).iter().map(|x| x.unsigned_abs()).sum();
            // E = E_fresh * (1 + sum ||s_i||_1) + ||u||_1 * E_pk
            let f = IBig::from(1 + l1_sum(&s));
            budget = Dyadic { num: e_fresh.clone() * f, exp: e_exp }.add(&Dyadic {
                num: e_pk.num.clone() * IBig::from(u_l1),
                exp: e_pk.exp,
            });
        }
        _ => {
            let mut ctc = GLWECompressed::alloc_from_infos(&lay);
            m.glwe_compressed_encrypt_sk(&mut ctc, &pt, &skp, seed32(c.seed, 3), &enc, &mut xe, scratch.borrow());
            m.decompress_glwe(&mut ct, &ctc);
        }
    }
    // truncation of a longer plaintext: at most one unit of the ciphertext's last limb
    if size_pt > size_ct && !zero_variant {
        budget = budget.add(&Dyadic { num: IBig::ONE, exp: size_ct * b });
    }
    // (a) exact phase minus message
    let ph = glwe_phase_limbs(ct.data(), &s);
    let msg_i128: Vec<Vec<i128>> = msg.iter().map(|l| l.iter().map(|x| *x as i128).collect()).collect();
    let mut max_err = 0f64;
    for i in 0..n {
        let e = torus_err(&value_of(&ph, b, i), &value_of(&msg_i128, b, i));
        max_err = max_err.max(e.approx_f64().abs());
        if !abs_le(&e, &budget.num, budget.exp) {
            return fail(
                c,
                "phase-error-above-bound",
                format!(
                    "coefficient {i}: phase - message = {:.6e} (2^{:.2}) exceeds the worst case {:.6e} (2^{:.2}) implied by bound={bound} at k={k}",
                    e.approx_f64(),
                    e.approx_f64().abs().log2(),
                    budget.approx_f64(),
                    budget.approx_f64().log2()
                ),
            );
        }
    }
    // (b) the library's decryption equals the exact phase re-normalised into the target radix
    let (b_out, size_out) = (c.b_out as usize, c.size_out as usize);
    let mut pt_out = GLWEPlaintext::alloc(Degree(n as u32), Base2K(b_out as u32), TorusPrecision((size_out * b_out) as u32));
    m.glwe_decrypt(&ct, &mut pt_out, &skp, scratch.borrow());
    let exact_out = size_out * b_out >= size_ct * b;
    for i in 0..n {
        let got = value_of_znx(&pt_out.data, 0, b_out, i);
        let want = value_of(&ph, b, i);
        if let Err(e) = torus_close(&got, &want, size_out * b_out, if exact_out { 0 } else { 1 }) {
            return fail(c, "decrypt-differs-from-phase", format!("coefficient {i}: decrypt into radix 2^{b_out} x {size_out} limbs: {e}"));
        }
    }
    let nt = (!zero_variant && c.mclass != VClass::Zero) && c.dist != Dist::Zero && (k % b != 0 || size_pt != size_ct || b_out != b);
    let vname = ["sk", "zero_sk", "pk", "zero_pk", "compressed", "lwe"][c.variant as usize];
    let mut cl: Vec<&str> = vec![vname, c.be.name(), c.dist.name(), c.mclass.name()];
    if k % b != 0 {
        cl.push("k_not_multiple_of_radix");
    }
    if rank == 0 {
        cl.push("rank0");
    }
    if b_out != b {
        cl.push("cross_radix_decrypt");
    }
    if size_pt > size_ct {
        cl.push("pt_longer_than_ct");
    }
    if size_pt < size_ct {
        cl.push("pt_shorter_than_ct");
    }
    let _ = max_err;
    cl.push(if nt { "nontrivial" } else { "trivial" });
    Verdict::pass(nt, &cl)
}

fn run_lwe<B: FullBackend>(m: &Module<B>, c: &Case) -> Verdict
where
    poulpy_hal::layouts::Scratch<B>: poulpy_hal::api::ScratchFromBytes<B>,
{
    let b = c.base2k as usize;
    let k = k_of(c);
    let n_lwe = c.n_lwe as usize;
    let (sigma, bound) = NOISES[c.noise as usize];
    let lay = LWELayout {
        n: Degree(n_lwe as u32),
        k: TorusPrecision(k as u32),
        base2k: Base2K(b as u32),
    };
    let ni = NoiseInfos::new(k, sigma, bound).unwrap();
    let enc = EncryptionLayout::new(lay, ni).unwrap();
    let mut sk = LWESecret::alloc(Degree(n_lwe as u32));
    fill_lwe_secret(&mut sk, c.dist, &mut Source::new(seed32(c.seed, 1)));
    let s: Vec<i64> = sk.raw().to_vec();
    let mut ct = LWE::alloc_from_infos(&lay);
    let size_ct = ct.size();
    let size_pt = c.size_pt as usize;
    let mut pt = LWEPlaintext::alloc(Base2K(b as u32), TorusPrecision((size_pt * b) as u32));
    let msg = message(c, 1, b, size_pt);
    for (j, l) in msg.iter().enumerate() {
        pt.data_mut().at_mut(0, j)[0] = l[0];
    }
    let mut xe = Source::new(seed32(c.seed, 2));
    let mut xa = Source::new(seed32(c.seed, 3));
    let tmp = m.lwe_encrypt_sk_tmp_bytes(&lay).max(m.lwe_decrypt_tmp_bytes(&lay));
    let mut scratch = pzv_be::dirty_scratch::<B>(tmp + 4096);
    m.lwe_encrypt_sk(&mut ct, &pt, &sk, &enc, &mut xe, &mut xa, scratch.borrow());
    let (e_fresh, e_exp) = fresh_bound(&ni, b);
    let mut budget = Dyadic { num: e_fresh, exp: e_exp };
    if size_pt > size_ct {
        budget = budget.add(&Dyadic { num: IBig::ONE, exp: size_ct * b });
    }
    let ph = lwe_phase_limbs(ct.data(), &s);
    let phv = Dyadic::from_limbs_i128(&ph, b);
    let mv = Dyadic::from_limbs_i64(&msg.iter().map(|l| l[0]).collect::<Vec<_>>(), b);
    let e = torus_err(&phv, &mv);
    if !abs_le(&e, &budget.num, budget.exp) {
        return fail(c, "phase-error-above-bound", format!("LWE phase - message = {:.6e} exceeds {:.6e}", e.approx_f64(), budget.approx_f64()));
    }
    // mask digits in range, all n_lwe+1 slots populated
    let (b_out, size_out) = (c.b_out as usize, c.size_out as usize);
    let mut pt_out = LWEPlaintext::alloc(Base2K(b_out as u32), TorusPrecision((size_out * b_out) as u32));
    m.lwe_decrypt(&ct, &mut pt_out, &sk, scratch.borrow());
    let got = Dyadic::from_limbs_i64(&(0..size_out).map(|j| pt_out.data().at(0, j)[0]).collect::<Vec<_>>(), b_out);
    let exact_out = size_out * b_out >= size_ct * b;
    if let Err(e) = torus_close(&got, &phv, size_out * b_out, if exact_out { 0 } else { 1 }) {
        return fail(c, "decrypt-differs-from-phase", format!("LWE decrypt into radix 2^{b_out} x {size_out} limbs: {e}"));
    }
    let nt = c.mclass != VClass::Zero && c.dist != Dist::Zero && (k % b != 0 || size_pt != size_ct || b_out != b);
    let mut cl: Vec<&str> = vec!["lwe", c.be.name(), c.dist.name()];
    if k % b != 0 {
        cl.push("k_not_multiple_of_radix");
    }
    if b_out != b {
        cl.push("cross_radix_decrypt");
    }
    cl.push(if nt { "nontrivial" } else { "trivial" });
    Verdict::pass(nt, &cl)
}

pub fn test(c0: &Case) -> Verdict {
    let mut c = c0.clone();
    adapt(&mut c);
    let log_n = if c.variant == 5 { 3 } else { c.log_n };
    if c.variant == 5 { with_backend!(c.be, log_n, |m| run_lwe(m, &c)) } else { with_backend!(c.be, log_n, |m| run_glwe(m, &c)) }
}

pub fn be_strategy() -> impl Strategy<Value = Be> {
    prop_oneof![Just(Be::FftRef), Just(Be::FftAvx), Just(Be::NttRef), Just(Be::NttAvx)]
}

pub fn msg_class() -> impl Strategy<Value = VClass> {
    prop_oneof![
        4 => Just(VClass::Uniform),
        1 => Just(VClass::ExtremePos),
        1 => Just(VClass::ExtremeNeg),
        2 => Just(VClass::ExtremeMixed),
        1 => Just(VClass::Sparse),
        1 => Just(VClass::Monomial),
        1 => Just(VClass::Zero),
    ]
}

pub fn strategy(max_log_n: u8) -> BoxedStrategy<Case> {
    (
        (be_strategy(), 0u8..6, 3u8..=max_log_n, 1u8..=52, 1u8..=6, any::<u8>()),
        (0u8..=3, 1u8..=6, 1u8..=52, 1u8..=6),
        (dist_strategy(), msg_class(), 0u8..4, 1u16..=600, any::<u64>()),
    )
        .prop_map(|((be, variant, log_n, base2k, size, krem), (rank, size_pt, b_out, size_out), (dist, mclass, noise, n_lwe, seed))| {
            let mut c = Case {
                be,
                variant,
                log_n,
                base2k,
                size,
                krem,
                rank,
                size_pt,
                b_out,
                size_out,
                dist,
                mclass,
                noise,
                n_lwe,
                seed,
            };
            adapt(&mut c);
            // half of the decrypt targets use the ciphertext's own radix
            if seed & 1 == 0 {
                c.b_out = c.base2k;
            }
            c
        })
        .boxed()
}

pub fn run(ctx: &Ctx) {
    let t = ctx.tier;
    ctx.run_sub("encrypt_decrypt_small_n", t.pick(40_000, 400_000), 64, || strategy(6), test);
    ctx.run_sub("encrypt_decrypt_large_n", t.pick(4_000, 40_000), 64, || strategy(11), test);
}

pub fn replay(ctx: &Ctx, sub: &str, case: &serde_json::Value) -> i32 {
    ctx.replay_case::<Case, _>(sub, case, test)
}

pub const RULE: &str = "cases = (backend, variant in {sk, zero_sk, pk, zero_pk, seed-compressed, lwe}, N = 2^3..2^11 (LWE dimension 1..600), radix 1..=50/52 inside the backend magnitude domain for the generated secret, precision k = (size-1)*b + 1 + r (all residues), rank 0..3, plaintext with the ciphertext radix and 1..6 limbs (shorter/equal/longer), decryption target of any radix 1..52 and 1..6 limbs, every secret distribution incl. zero, message class incl. extreme digits, four (sigma, bound) settings, three generated 32-byte seeds). Oracle: exact phase (integers) minus message <= round(bound*scale) on the noise limb (sk) resp. E*(1+sum|s_i|_1) + |u|_1*measured E_pk (pk, u re-derived from its seed), + one unit of the ciphertext's last limb if the plaintext is longer; the library's decryption equals the exact phase within one unit of the target's last limb (exactly when it has enough limbs). non-trivial = message != 0 and secret != 0 and (k % radix != 0 or pt/ct sizes differ or radices differ).";
