//! C05 — ciphertext multiplication (tensor, relinearise, plaintext, constant) scales right.
//!
//! The library defines these products on the *unreduced* real values of the operand limb vectors:
//! res = a * b * 2^cnv_offset on the torus, where a column's value is sum_j limb_j 2^-(j+1)b with the
//! bottom limb masked to the operand's effective precision.  The oracle recomputes that product exactly
//! with big integers from the clear secret: phase(res) must equal
//!     phase_unreduced(a) (*) value(b) * 2^cnv_offset            (plaintext / constant)
//!     phase_unreduced(a) (*) phase_unreduced(b) * 2^cnv_offset  (tensor, under the secret tensor s_i s_j)
//! up to what an implementation may lose when it computes only the limbs the result needs:
//! per produced column  (N * min(size_a, size_b) * 2^(b-1) + 2)  units of the result's last limb
//! (the dropped tail of the bivariate convolution; six such terms for the pairwise cross columns), each
//! weighted by the 1-norm of the secret monomial it multiplies.  Relinearisation adds the gadget bound of
//! the tensor key (gad.rs).  Squaring is checked against the same exact product as apply(a, a).

use crate::c04::mul_small;
use crate::enc::NOISES;
use crate::gad::*;
use crate::sch::*;
use crate::sp::sp;
use dashu_int::IBig;
use poulpy_core::{
    EncryptionLayout, GLWEMulConst, GLWEMulPlain, GLWETensorKeyEncryptSk, GLWETensoring,
    layouts::{
        Base2K, Degree, Dnum, Dsize, GGLWEInfos, GGLWEToRef, GLWE, GLWEPlaintext, GLWESecret, GLWETensor, GLWETensorKey, GLWETensorKeyLayout, GLWETensorKeyPrepared, GLWETensorKeyPreparedFactory,
        Rank, TorusPrecision,
    },
};
use poulpy_hal::{
    api::{ScratchOwnedBorrow},
    layouts::{DeviceBuf, Module, NoiseInfos, ScratchOwned, ToOwnedDeep, VecZnx, ZnxInfos, ZnxView, ZnxViewMut},
    source::Source,
};
use proptest::prelude::*;
use pzv_be::{Be, FullBackend, with_backend};
use pzv_common::driver::{Ctx, Verdict};
use pzv_common::model::*;
use serde::{Deserialize, Serialize};

#[derive(Clone, Debug, Serialize, Deserialize)]
pub struct Case {
    pub be: Be,
    pub op: u8,
    pub log_n: u8,
    /// operand radix (a and b share it), operand sizes and unused low bits of their bottom limb
    pub b: u8,
    pub sa: u8,
    pub sb: u8,
    pub arem: u8,
    pub brem: u8,
    /// result radix / size
    pub rb: u8,
    pub rsize: u8,
    pub cross: bool,
    /// offset selector: 0..=255 mapped onto 0..=(sa+sb)*b-1, with a bias to limb multiples
    pub off: u16,
    pub rank: u8,
    pub dist: Dist,
    pub cls_a: VClass,
    pub cls_b: VClass,
    // relinearisation key
    pub kb: u8,
    pub dnum: u8,
    pub dsize: u8,
    pub extra: u8,
    pub noise: u8,
    pub seed: u64,
}

const SCRATCH: usize = 1 << 23;

impl Case {
    pub fn n(&self) -> usize {
        1 << self.log_n
    }
    pub fn al(&self) -> Lay {
        Lay { b: self.b as usize, size: self.sa as usize }
    }
    pub fn bl(&self) -> Lay {
        Lay { b: self.b as usize, size: self.sb as usize }
    }
    pub fn rl(&self) -> Lay {
        Lay { b: self.rb as usize, size: self.rsize as usize }
    }
    pub fn ak(&self) -> usize {
        self.al().bits() - self.arem as usize
    }
    pub fn bk(&self) -> usize {
        self.bl().bits() - self.brem as usize
    }
    pub fn cnv_offset(&self) -> usize {
        let b = self.b as usize;
        let max = (self.sa as usize + self.sb as usize) * b - 1;
        let o = self.off as usize;
        // half of the cases on limb boundaries (incl. 0), half anywhere
        let v = if o & 1 == 0 { ((o >> 1) % (self.sa as usize + self.sb as usize)) * b } else { (o >> 1) * 7 + (o >> 5) };
        v % (max + 1)
    }
    pub fn key_size(&self) -> usize {
        (self.dnum * self.dsize + self.extra) as usize
    }
}

pub fn adapt(c: &mut Case) {
    c.log_n = c.log_n.clamp(3, 6);
    c.rank = c.rank.clamp(1, 2);
    c.sa = c.sa.clamp(1, 6);
    c.sb = c.sb.clamp(1, 6);
    c.rsize = c.rsize.clamp(1, 10);
    c.dnum = c.dnum.clamp(1, 4);
    c.dsize = c.dsize.clamp(1, 3);
    c.extra %= 3;
    if c.dnum == 1 && c.extra == 0 {
        c.extra = 1;
    }
    c.noise %= NOISES.len() as u8;
    c.dist = c.dist.adapt(c.n());
    if c.dist == Dist::Zero {
        c.dist = Dist::TernaryProb(8);
    }
    // FFT64 exactness: N * min(sa,sb) * 4 (pairwise sums) * 2^(2(b-1)) * (8 log2 N + 8) < 2^51;
    // relinearisation: N * 16 digits * 3 pairs * 2 (nearly balanced) * 2^(2(kb-1))
    let guard = 64 - ((8 * c.log_n as u64 + 8) - 1).leading_zeros() as i64;
    let (maxb, maxkb): (u8, u8) = if c.be.is_fft() { ((((51 - c.log_n as i64 - 3 - 2 - guard - 1) / 2) + 1) as u8, (((51 - c.log_n as i64 - 7 - guard - 1) / 2) + 1) as u8) } else { (30, 40) };
    c.b = c.b.clamp(2, maxb);
    c.kb = c.kb.clamp(2, maxkb);
    c.rb = if c.cross { c.rb.clamp(2, 40) } else { c.b };
    c.arem %= c.b;
    c.brem %= c.b;
    let norm = |v: VClass| match v {
        VClass::Unnorm(_) | VClass::FullI64 | VClass::CarryRipple | VClass::MonoEach => VClass::ExtremeMixed,
        x => x,
    };
    c.cls_a = norm(c.cls_a);
    c.cls_b = norm(c.cls_b);
}

fn fail(c: &Case, op: &str, what: &str, detail: String) -> Verdict {
    Verdict::fail(format!("{op}|{what}"), format!("backend={} op={op}: {detail}\ncase={c:?}", c.be.name()))
}

fn secret(n: usize, rank: usize, dist: Dist, seed: u64) -> GLWESecret<Vec<u8>> {
    let mut sk = GLWESecret::alloc(Degree(n as u32), Rank(rank as u32));
    fill_glwe_secret(&mut sk, dist, &mut Source::new(seed32(seed, 1)));
    sk
}

fn glwe(n: usize, l: Lay, rank: usize) -> GLWE<Vec<u8>> {
    GLWE::alloc(Degree(n as u32), Base2K(l.b as u32), TorusPrecision((l.size * l.b) as u32), Rank(rank as u32))
}

fn l1p(p: &[i64]) -> u64 {
    p.iter().map(|x| x.unsigned_abs()).sum()
}

/// copy with the bottom limb masked to the effective precision (what the library multiplies)
fn masked(v: &VecZnx<Vec<u8>>, b: usize, k: usize) -> VecZnx<Vec<u8>> {
    let mut m = v.to_owned_deep();
    let r = k % b;
    if r != 0 {
        let mask = (!0i64) << (b - r);
        let last = m.size() - 1;
        for col in 0..m.cols() {
            for x in m.at_mut(col, last).iter_mut() {
                *x &= mask;
            }
        }
    }
    m
}

/// negacyclic product of two vectors of exact dyadic reals
fn poly_mul(a: &[Dyadic], b: &[Dyadic]) -> Vec<Dyadic> {
    let n = a.len();
    let ea = a.iter().map(|x| x.exp).max().unwrap();
    let eb = b.iter().map(|x| x.exp).max().unwrap();
    let an: Vec<IBig> = a.iter().map(|x| &x.num << (ea - x.exp)).collect();
    let bn: Vec<IBig> = b.iter().map(|x| &x.num << (eb - x.exp)).collect();
    let mut out: Vec<IBig> = vec![IBig::ZERO; n];
    for (i, x) in an.iter().enumerate() {
        if *x == IBig::ZERO {
            continue;
        }
        for (j, y) in bn.iter().enumerate() {
            if *y == IBig::ZERO {
                continue;
            }
            let p = x * y;
            let k = i + j;
            if k < n {
                out[k] += p;
            } else {
                out[k - n] -= p;
            }
        }
    }
    out.into_iter().map(|num| Dyadic { num, exp: ea + eb }).collect()
}

/// all monomials of the secret tensor in the library's column order: (0,0),(0,1)..(0,r),(1,1)..(r,r) with s_0 = 1
fn tensor_monomials(s: &[Vec<i64>], n: usize) -> Vec<Vec<i64>> {
    let mut one = vec![0i64; n];
    one[0] = 1;
    let mut ext = vec![one];
    ext.extend(s.iter().cloned());
    let mut v = vec![];
    for i in 0..ext.len() {
        for j in i..ext.len() {
            v.push(mul_small(&ext[i], &ext[j]));
        }
    }
    v
}

/// exact phase of a GLWETensor-shaped vector under the secret tensor
fn tensor_phase(t: &VecZnx<Vec<u8>>, mono: &[Vec<i64>], b: usize) -> Vec<Dyadic> {
    let n = t.n();
    let limbs: Vec<Vec<i128>> = (0..t.size())
        .map(|j| {
            let mut acc = vec![0i128; n];
            for (col, m) in mono.iter().enumerate() {
                mac_small(&mut acc, t.at(col, j), m);
            }
            acc
        })
        .collect();
    (0..n).map(|i| value_of(&limbs, b, i)).collect()
}

fn common(c: &Case, tol_units: f64, e: f64, bound: f64) -> (bool, Vec<&'static str>) {
    let mut cl = vec![c.be.name()];
    cl.push(if c.sa == c.sb && c.arem == c.brem { "a_k==b_k" } else { "a_k!=b_k" });
    if c.arem != 0 || c.brem != 0 {
        cl.push("masked_top_limb_path");
    }
    let off = c.cnv_offset();
    cl.push(if off == 0 { "offset=0" } else if off < c.b as usize { "offset<radix" } else if off % c.b as usize == 0 { "offset_limb_multiple" } else { "offset_general" });
    let prod_bits = (c.sa as usize + c.sb as usize) * c.b as usize;
    cl.push(if c.rl().bits() + off >= prod_bits { "result_holds_full_product" } else { "result_truncates_product" });
    if c.cross {
        cl.push("result_radix_differs");
    }
    if c.rank >= 2 {
        cl.push("rank>=2");
    }
    let ratio = if bound > 0.0 { e / bound } else { 0.0 };
    cl.push(if ratio >= 1.0 / 16.0 { "err/bound>=2^-4" } else if ratio >= 1.0 / 4096.0 { "err/bound in 2^-12..2^-4" } else { "err/bound<2^-12" });
    let _ = tol_units;
    let informative = bound < p2(-8);
    cl.push(if informative { "bound<2^-8" } else { "bound>=2^-8(vacuous)" });
    (informative, cl)
}

// ------------------------------------------------------------------------------------------
// 1. glwe_mul_const(_assign), glwe_mul_plain(_assign)

pub const LIN_OPS: [&str; 4] = ["glwe_mul_const", "glwe_mul_const_assign", "glwe_mul_plain", "glwe_mul_plain_assign"];

fn run_lin<B: FullBackend>(m: &Module<B>, c: &Case) -> Verdict
where
    poulpy_hal::layouts::Scratch<B>: poulpy_hal::api::ScratchFromBytes<B>,
{
    let n = m.n();
    let mut scratch = pzv_be::dirty_scratch::<B>(SCRATCH);
    let op = (c.op % 4) as usize;
    let opn = LIN_OPS[op];
    let r = c.rank as usize;
    let sk = secret(n, r, c.dist, c.seed);
    let s = glwe_secret_coeffs(&sk);
    let so = 1.0 + l1_sum(&s) as f64;
    let assign = op % 2 == 1;
    let (al, bl) = (c.al(), c.bl());
    let rl = if assign { al } else { c.rl() };
    let off = c.cnv_offset();
    let mut a = glwe(n, al, r);
    arbitrary_glwe(&mut a, c.cls_a, c.seed ^ 0xA);
    let (got, want, tol): (Vec<Dyadic>, Vec<Dyadic>, f64) = if op < 2 {
        // multi-limb scalar constant in the radix of a
        let digits: Vec<i64> = gen_column(if matches!(c.cls_b, VClass::Zero | VClass::Sparse | VClass::Monomial) { VClass::Uniform } else { c.cls_b }, al.b, 1, bl.size, c.seed ^ 0xC).iter().map(|l| l[0]).collect();
        let cst = Dyadic::from_limbs_i64(&digits, al.b);
        let pa = phase_vals(a.data(), &s, al.b);
        let mut zero: Vec<Dyadic> = (0..n).map(|_| Dyadic::zero()).collect();
        zero[0] = cst;
        let want: Vec<Dyadic> = poly_mul(&pa, &zero).iter().map(|x| x.shl(off as i64)).collect();
        let got = if assign {
            m.glwe_mul_const_assign(off, &mut a, &digits, scratch.borrow());
            phase_vals(a.data(), &s, al.b)
        } else {
            let mut res = glwe(n, rl, r);
            arbitrary_glwe(&mut res, VClass::Uniform, c.seed ^ 0xB);
            m.glwe_mul_const(off, &mut res, &a, &digits, scratch.borrow());
            phase_vals(res.data(), &s, rl.b)
        };
        let mn = al.size.min(bl.size) as f64;
        (got, want, (mn * p2(al.b as i64 - 1) + 2.0) * rl.unit() * so)
    } else {
        let (ak, bk) = if assign { (c.ak(), c.bk()) } else { (c.ak(), c.bk()) };
        let mut pt = GLWEPlaintext::alloc(Degree(n as u32), Base2K(al.b as u32), TorusPrecision((bl.size * bl.b) as u32));
        set_column(&mut pt.data, 0, &gen_column(c.cls_b, al.b, n, bl.size, c.seed ^ 0xC));
        let am = masked(a.data(), al.b, ak);
        let pm = masked(&pt.data, al.b, bk);
        let pa = phase_vals(&am, &s, al.b);
        let pv: Vec<Dyadic> = (0..n).map(|i| value_of_znx(&pm, 0, al.b, i)).collect();
        let want: Vec<Dyadic> = poly_mul(&pa, &pv).iter().map(|x| x.shl(off as i64)).collect();
        let got = if assign {
            m.glwe_mul_plain_assign(off, &mut a, ak, &pt, bk, scratch.borrow());
            phase_vals(a.data(), &s, al.b)
        } else {
            let mut res = glwe(n, rl, r);
            arbitrary_glwe(&mut res, VClass::Uniform, c.seed ^ 0xB);
            m.glwe_mul_plain(off, &mut res, &a, ak, &pt, bk, scratch.borrow());
            phase_vals(res.data(), &s, rl.b)
        };
        let mn = al.size.min(bl.size) as f64;
        (got, want, (n as f64 * mn * p2(al.b as i64 - 1) + 2.0) * rl.unit() * so)
    };
    let (e, i) = max_err(&got, &want);
    if e > tol {
        return fail(
            c,
            opn,
            "product-misplaced-or-imprecise",
            format!("cnv_offset={off} coefficient {i}: |phase(res) - phase(a)*b*2^offset| = {e:.4e} = {:.3e} units of the result's last limb, allowed {:.3e} units (a {:?} k={}, b {:?} k={}, result {:?})", e / rl.unit(), tol / rl.unit(), al, c.ak(), bl, c.bk(), rl),
        );
    }
    let (nt, mut cl) = common(c, tol / rl.unit(), e, tol);
    cl.push(opn);
    Verdict::pass(nt && c.cls_b != VClass::Zero, &cl)
}

// ------------------------------------------------------------------------------------------
// 2. glwe_tensor_apply / _square_apply / _apply_add_assign

pub const TEN_OPS: [&str; 3] = ["glwe_tensor_apply", "glwe_tensor_square_apply", "glwe_tensor_apply_add_assign"];

fn tensor_tol(c: &Case, mn: usize, mono: &[Vec<i64>], cols: usize, n: usize, rl: Lay) -> f64 {
    let mn = mn as f64;
    let unit_tail = n as f64 * mn * p2(c.b as i64 - 1);
    let mut t = 0f64;
    let mut idx = 0;
    for i in 0..cols {
        for j in i..cols {
            let w = l1p(&mono[idx]) as f64;
            t += if i == j { (unit_tail + 2.0) * w } else { (6.0 * unit_tail + 6.0) * w };
            idx += 1;
        }
    }
    t * rl.unit()
}

fn run_tensor<B: FullBackend>(m: &Module<B>, c: &Case) -> Verdict
where
    poulpy_hal::layouts::Scratch<B>: poulpy_hal::api::ScratchFromBytes<B>,
{
    let n = m.n();
    let mut scratch = pzv_be::dirty_scratch::<B>(SCRATCH);
    let op = (c.op % 3) as usize;
    let opn = TEN_OPS[op];
    let r = c.rank as usize;
    let cols = r + 1;
    let sk = secret(n, r, c.dist, c.seed);
    let s = glwe_secret_coeffs(&sk);
    let mono = tensor_monomials(&s, n);
    let (al, bl) = if op == 1 { (c.al(), c.al()) } else { (c.al(), c.bl()) };
    let (ak, bk) = if op == 1 { (c.ak(), c.ak()) } else { (c.ak(), c.bk()) };
    let rl = c.rl();
    let off = c.cnv_offset() % ((al.size + bl.size) * al.b);
    let mut a = glwe(n, al, r);
    arbitrary_glwe(&mut a, c.cls_a, c.seed ^ 0xA);
    let mut b = glwe(n, bl, r);
    arbitrary_glwe(&mut b, c.cls_b, c.seed ^ 0xC);
    if op == 1 {
        b = glwe(n, al, r);
        for col in 0..cols {
            for j in 0..al.size {
                let src: Vec<i64> = a.data().at(col, j).to_vec();
                b.data_mut().at_mut(col, j).copy_from_slice(&src);
            }
        }
    }
    let pa = phase_vals(&masked(a.data(), al.b, ak), &s, al.b);
    let pb = phase_vals(&masked(b.data(), al.b, bk), &s, al.b);
    let mut want: Vec<Dyadic> = poly_mul(&pa, &pb).iter().map(|x| x.shl(off as i64)).collect();
    let mut res = GLWETensor::alloc(Degree(n as u32), Base2K(rl.b as u32), TorusPrecision((rl.size * rl.b) as u32), Rank(r as u32));
    if res.data().cols() != mono.len() {
        return fail(c, opn, "tensor-layout", format!("GLWETensor of rank {r} has {} columns, expected {}", res.data().cols(), mono.len()));
    }
    // stale content must not matter for apply / square; add_assign accumulates onto it
    for col in 0..res.data().cols() {
        let limbs = gen_column(VClass::Uniform, rl.b, n, rl.size, c.seed ^ (0xB0 + col as u64));
        set_column(res.data_mut(), col, &limbs);
    }
    if op == 2 {
        let before = tensor_phase(&res.data().to_owned_deep(), &mono, rl.b);
        want = want.iter().zip(before.iter()).map(|(x, y)| x.add(y)).collect();
    }
    match op {
        0 => m.glwe_tensor_apply(off, &mut res, &a, ak, &b, bk, scratch.borrow()),
        1 => m.glwe_tensor_square_apply(off, &mut res, &a, ak, scratch.borrow()),
        _ => m.glwe_tensor_apply_add_assign(off, &mut res, &a, ak, &b, bk, scratch.borrow()),
    }
    let got = tensor_phase(&res.data().to_owned_deep(), &mono, rl.b);
    let tol = tensor_tol(c, al.size.min(bl.size), &mono, cols, n, rl);
    if std::env::var("PZV_DEBUG").is_ok() {
        eprintln!("DEBUG mono l1 = {:?} off={off} al={:?} rl={:?}", mono.iter().map(|m| l1p(m)).collect::<Vec<_>>(), al, rl);
        // per-column exact products vs produced columns (no secret involved)
        let am = masked(a.data(), al.b, ak);
        let bm = masked(b.data(), al.b, bk);
        let colv = |v: &VecZnx<Vec<u8>>, col: usize, bb: usize| -> Vec<Dyadic> { (0..n).map(|i| value_of_znx(v, col, bb, i)).collect() };
        let mut idx = 0;
        for i in 0..cols {
            for j in i..cols {
                let mut w: Vec<Dyadic> = poly_mul(&colv(&am, i, al.b), &colv(&bm, j, al.b));
                if i != j {
                    let w2 = poly_mul(&colv(&am, j, al.b), &colv(&bm, i, al.b));
                    w = w.iter().zip(w2.iter()).map(|(x, y)| x.add(y)).collect();
                }
                let w: Vec<Dyadic> = w.iter().map(|x| x.shl(off as i64)).collect();
                let g = colv(&res.data().to_owned_deep(), idx, rl.b);
                let (e, at) = max_err(&g, &w);
                eprintln!("DEBUG column ({i},{j}): max err {:.4e} units at {at}; unit_tail = {:.4e}", e / rl.unit(), n as f64 * (al.size.min(bl.size)) as f64 * p2(c.b as i64 - 1));
                idx += 1;
            }
        }
    }
    let (e, i) = max_err(&got, &want);
    if e > tol {
        return fail(
            c,
            opn,
            "product-misplaced-or-imprecise",
            format!("cnv_offset={off} coefficient {i}: |phase_tensor(res) - phase(a)*phase(b)*2^offset{}| = {e:.4e} = {:.3e} units of the result's last limb, allowed {:.3e} units (a {:?} k={ak}, b {:?} k={bk}, result {:?})", if op == 2 { " - previous" } else { "" }, e / rl.unit(), tol / rl.unit(), al, bl, rl),
        );
    }
    let (nt, mut cl) = common(c, tol / rl.unit(), e, tol);
    cl.push(opn);
    Verdict::pass(nt, &cl)
}

// ------------------------------------------------------------------------------------------
// 3. glwe_tensor_relinearize

pub type TkP<B> = GLWETensorKeyPrepared<DeviceBuf<B>, B>;

pub fn build_tk<B: FullBackend>(m: &Module<B>, c: &Case, sk: &GLWESecret<Vec<u8>>, scratch: &mut ScratchOwned<B>) -> Result<(TkP<B>, KeyMeta), String>
where
    poulpy_hal::layouts::Scratch<B>: poulpy_hal::api::ScratchFromBytes<B>,
{
    let n = m.n();
    let r = c.rank as usize;
    let k = c.key_size() * c.kb as usize;
    let lay = GLWETensorKeyLayout { n: Degree(n as u32), base2k: Base2K(c.kb as u32), k: TorusPrecision(k as u32), rank: Rank(r as u32), dnum: Dnum(c.dnum as u32), dsize: Dsize(c.dsize as u32) };
    let (sg, bd) = NOISES[c.noise as usize];
    let ni = NoiseInfos::new(k, sg, bd).unwrap();
    let enc = EncryptionLayout::new(lay, ni).unwrap();
    let mut key = GLWETensorKey::alloc_from_infos(&lay);
    m.glwe_tensor_key_encrypt_sk(&mut key, sk, &enc, &mut Source::new(seed32(c.seed, 0xE3)), &mut Source::new(seed32(c.seed, 0xA3)), scratch.borrow());
    let s = glwe_secret_coeffs(sk);
    let pairs = key.rank_in().0 as usize;
    let g = key.to_ref();
    let mut cells = vec![];
    for row in 0..c.dnum as usize {
        for col in 0..pairs {
            cells.push(g.at(row, col).data().to_owned_deep());
        }
    }
    let mut pts = vec![];
    for i in 0..r {
        for j in i..r {
            pts.push(mul_small(&s[i], &s[j]));
        }
    }
    if pts.len() != pairs {
        return Err(format!("tensor key has {pairs} input columns, expected {}", pts.len()));
    }
    let meta = key_meta(&cells, c.kb as usize, c.dnum as usize, c.dsize as usize, pairs, r, &s, &pts, &ni)?;
    let mut prep = m.alloc_tensor_key_prepared_from_infos(&key);
    m.prepare_tensor_key(&mut prep, &key, sp("prepare_tensor_key", m.prepare_tensor_key_tmp_bytes(&key), scratch));
    Ok((prep, meta))
}

fn run_relin<B: FullBackend>(m: &Module<B>, c: &Case) -> Verdict
where
    poulpy_hal::layouts::Scratch<B>: poulpy_hal::api::ScratchFromBytes<B>,
{
    let n = m.n();
    let mut scratch = pzv_be::dirty_scratch::<B>(SCRATCH);
    let opn = "glwe_tensor_relinearize";
    let r = c.rank as usize;
    let sk = secret(n, r, c.dist, c.seed);
    let s = glwe_secret_coeffs(&sk);
    let mono = tensor_monomials(&s, n);
    let (key, meta) = match build_tk(m, c, &sk, &mut scratch) {
        Ok(x) => x,
        Err(e) => return fail(c, "glwe_tensor_key_encrypt_sk", "key-cell-wrong", e),
    };
    let tl = c.al(); // tensor layout
    let rl = c.rl();
    let mut t = GLWETensor::alloc(Degree(n as u32), Base2K(tl.b as u32), TorusPrecision((tl.size * tl.b) as u32), Rank(r as u32));
    for col in 0..t.data().cols() {
        let cls = if col == 0 { c.cls_a } else { VClass::Uniform };
        set_column(t.data_mut(), col, &gen_column(cls, tl.b, n, tl.size, c.seed ^ (0x70 + col as u64)));
    }
    let want = tensor_phase(&t.data().to_owned_deep(), &mono, tl.b);
    let mut res = glwe(n, rl, r);
    arbitrary_glwe(&mut res, VClass::Uniform, c.seed ^ 0xB);
    m.glwe_tensor_relinearize(&mut res, &t, &key, c.key_size(), scratch.borrow());
    let got = phase_vals(res.data(), &s, rl.b);
    // gadget columns: the pair monomials s_i s_j (1 <= i <= j); pass-through columns: 1, s_1..s_r
    let pair_l1: Vec<u64> = {
        let mut v = vec![];
        for i in 0..r {
            for j in i..r {
                v.push(l1p(&mul_small(&s[i], &s[j])));
            }
        }
        v
    };
    let so = 1.0 + l1_sum(&s) as f64;
    let bound = ks_bound(&meta, tl, rl, n, &pair_l1, l1_sum(&s)) + (rl.unit() + p2(-((meta.size * meta.b) as i64))) * so * 2.0;
    let (e, i) = max_err(&got, &want);
    if e > bound {
        return fail(c, opn, "phase-error-above-gadget-bound", format!("coefficient {i}: |phase(res) - phase_tensor(a)| = {e:.4e} exceeds the gadget-product bound {bound:.4e} (tensor {:?}, key {}x{} limbs of {} bits, result {:?})", tl, c.dnum, c.dsize, c.kb, rl));
    }
    let mut cl = vec![c.be.name(), opn];
    if c.dsize > 1 {
        cl.push("dsize>1");
    }
    if c.dsize > 2 {
        cl.push("dsize>2");
    }
    cl.push(match (tl.b != c.kb as usize, rl.b != c.kb as usize) {
        (true, true) => "three_way_radix",
        (false, false) => "same_radix",
        _ => "two_way_radix",
    });
    if r >= 2 {
        cl.push("rank>=2");
    }
    let ratio = e / bound;
    cl.push(if ratio >= 1.0 / 16.0 { "err/bound>=2^-4" } else { "err/bound<2^-4" });
    let informative = bound < p2(-8);
    cl.push(if informative { "bound<2^-8" } else { "bound>=2^-8(vacuous)" });
    Verdict::pass(informative, &cl)
}

pub fn test_lin(c0: &Case) -> Verdict {
    let mut c = c0.clone();
    adapt(&mut c);
    with_backend!(c.be, c.log_n, |m| run_lin(m, &c))
}

pub fn test_tensor(c0: &Case) -> Verdict {
    let mut c = c0.clone();
    adapt(&mut c);
    with_backend!(c.be, c.log_n, |m| run_tensor(m, &c))
}

pub fn test_relin(c0: &Case) -> Verdict {
    let mut c = c0.clone();
    adapt(&mut c);
    // the tensor being relinearised uses (b, sa); keep its precision near what the key covers
    let target = (c.dnum as usize * c.dsize as usize * c.kb as usize).div_ceil(c.b as usize);
    c.sa = ((target as i64 + (c.sb as i64 % 3) - 1).clamp(1, 12)) as u8;
    with_backend!(c.be, c.log_n, |m| run_relin(m, &c))
}

fn cls_strategy() -> impl Strategy<Value = VClass> {
    prop_oneof![
        4 => Just(VClass::Uniform),
        1 => Just(VClass::ExtremePos),
        1 => Just(VClass::ExtremeNeg),
        2 => Just(VClass::ExtremeMixed),
        1 => Just(VClass::Sparse),
        1 => Just(VClass::Monomial),
        1 => Just(VClass::Zero),
    ]
}

pub fn strategy() -> BoxedStrategy<Case> {
    (
        (crate::c01::be_strategy(), any::<u8>(), 3u8..=6, 2u8..=30, 1u8..=6, 1u8..=6, any::<u8>(), any::<u8>()),
        (2u8..=40, 1u8..=10, any::<bool>(), any::<u16>(), 1u8..=2, dist_strategy(), cls_strategy(), cls_strategy()),
        (2u8..=40, 1u8..=4, 1u8..=3, 0u8..3, 0u8..3, any::<u64>()),
    )
        .prop_map(|((be, op, log_n, b, sa, sb, arem, brem), (rb, rsize, cross, off, rank, dist, cls_a, cls_b), (kb, dnum, dsize, extra, noise, seed))| {
            let mut c = Case { be, op, log_n, b, sa, sb, arem, brem, rb, rsize, cross, off, rank, dist, cls_a, cls_b, kb, dnum, dsize, extra, noise, seed };
            adapt(&mut c);
            c
        })
        .boxed()
}

pub fn run_all(ctx: &Ctx) {
    let t = ctx.tier;
    ctx.run_sub("mul_const_plain", t.pick(12_000, 300_000), 64, strategy, test_lin);
    ctx.run_sub("tensor", t.pick(10_000, 250_000), 64, strategy, test_tensor);
    ctx.run_sub("relinearize", t.pick(6_000, 150_000), 64, strategy, test_relin);
}

pub fn replay(ctx: &Ctx, sub: &str, case: &serde_json::Value) -> i32 {
    match sub {
        "mul_const_plain" => ctx.replay_case::<Case, _>(sub, case, test_lin),
        "tensor" => ctx.replay_case::<Case, _>(sub, case, test_tensor),
        "relinearize" => ctx.replay_case::<Case, _>(sub, case, test_relin),
        _ => 2,
    }
}

pub const RULE: &str = "cases = (backend, operation variant, N 8..64, operand radix 2..30 inside the backend exactness domain, operand sizes 1..6 with independent effective precisions (bottom limb partially used: mask path), result of independent radix and 1..10 limbs (holding or truncating the full product), cnv_offset 0..(sa+sb)*b-1 with half of the cases on limb boundaries, rank 1..2, every secret distribution, operand digits uniform / extreme / sparse / monomial / zero; relinearisation keys with radix 2..40, dnum 1..4, dsize 1..3, spare limbs, three noise settings). Oracle: exact big-integer product of the unreduced operand phases (bottom limbs masked) times 2^cnv_offset vs the exact phase of the result (under the secret tensor for GLWETensor results), within (N*min(sa,sb)*2^(b-1)+2) units of the result's last limb per produced column (6x for pairwise cross columns) weighted by the 1-norm of the secret monomial; relinearise: tensor-key gadget bound from the exactly extracted key errors. non-trivial = tolerance < 2^-8.";
