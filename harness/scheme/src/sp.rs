//! Scratch provider of the scheme-level tests.  In the default mode every call site gets the test's own (dirty)
//! scratch.  In the C12 modes the call site named `name` gets a guarded window of exactly the `bytes` its own
//! `*_tmp_bytes` query returned (or an ample one), filled with garbage; see `c12w.rs`.

use crate::c12s::Win;
use poulpy_hal::api::{ScratchFromBytes, ScratchOwnedBorrow};
use poulpy_hal::layouts::{Scratch, ScratchOwned};
use pzv_be::FullBackend;
use std::cell::{Cell, RefCell};

thread_local! {
    /// `Some((exact, fill seed))`: hand out windows; `None`: the caller's scratch
    pub static SP_MODE: Cell<Option<(bool, u64)>> = const { Cell::new(None) };
    static SP_WINS: RefCell<Vec<Win>> = const { RefCell::new(Vec::new()) };
    pub static SP_LAST: Cell<(&'static str, usize)> = const { Cell::new(("", 0)) };
    /// names of the call sites that got an exact window in this run
    pub static SP_SEEN: RefCell<Vec<&'static str>> = const { RefCell::new(Vec::new()) };
}

/// Operations whose exact-size behaviour is judged (and, for some, recorded as a finding) by `core_exact_scratch`:
/// they get ample windows here so that the call sites behind them are reached.
const COVERED_ELSEWHERE: [&str; 0] = [];

pub fn sp<'a, B: FullBackend>(name: &'static str, bytes: usize, own: &'a mut ScratchOwned<B>) -> &'a mut Scratch<B>
where
    Scratch<B>: ScratchFromBytes<B>,
{
    match SP_MODE.with(|m| m.get()) {
        None => own.borrow(),
        Some((exact, seed)) => {
            let exact = exact && !COVERED_ELSEWHERE.contains(&name) && !crate::c12s::OPS.contains(&name);
            let k = SP_WINS.with(|w| w.borrow().len()) as u64;
            let mut w = if exact { Win::new(bytes, seed ^ (k << 32)) } else { Win::roomy(15 * bytes + (8 << 20), seed ^ (k << 32)) };
            if exact {
                SP_LAST.with(|l| l.set((name, bytes)));
                SP_SEEN.with(|s| {
                    let mut s = s.borrow_mut();
                    if !s.contains(&name) {
                        s.push(name);
                    }
                });
            }
            let p: *mut Scratch<B> = w.scratch::<B>();
            // the window's heap buffer does not move when the `Win` header moves into the list; it lives until `sp_finish`
            SP_WINS.with(|ws| ws.borrow_mut().push(w));
            unsafe { &mut *p }
        }
    }
}

/// drops the windows of the run; false if a guard region of any of them was written
pub fn sp_finish() -> bool {
    SP_WINS.with(|ws| {
        let mut ws = ws.borrow_mut();
        let ok = ws.iter().all(|w| w.guards_ok());
        ws.clear();
        ok
    })
}
