//! C06 — fresh ciphertexts carry the configured randomness: full noise, uniform mask.
//!
//! All thresholds come from explicit concentration inequalities (no CLT): the total
//! false-alarm probability of a thorough run is below 2^-40.
//!
//! (1) noise present and right-sized, model-free: two encryptions of the same object with
//!     the same mask seed and different error seeds have identical masks, and their exact
//!     phase difference is e1 - e2 with e_i = round(TruncNormal(0, sigma*scale; +-bound*scale))
//!     on the documented limb: integrality on that limb, |e1-e2| <= 2*round(bound*scale),
//!     and the pooled second moment within a two-sided Bernstein band around 2*Var(e).
//! (2) mask uniform over the full limb range: balanced range, per-bit frequencies (Hoeffding),
//!     extremes reached.
//! (3) determinism and seed separation (exact): same seeds -> identical bytes; other secret
//!     or plaintext -> identical mask; other error seed -> identical mask, different body;
//!     other mask seed -> different mask.

use crate::enc::*;
use crate::sch::*;
use poulpy_hal::layouts::{ZnxInfos, ZnxView};
use proptest::prelude::*;
use pzv_be::{Be, FullBackend, with_backend};
use pzv_common::driver::{Ctx, Verdict};
use pzv_common::model::*;
use serde::{Deserialize, Serialize};

pub static TARGET_THOROUGH: std::sync::atomic::AtomicBool = std::sync::atomic::AtomicBool::new(false);

#[derive(Clone, Debug, Serialize, Deserialize)]
pub struct Case {
    pub be: Be,
    pub p: EncP,
    pub compressed: bool,
}

/// exact variance of round(X), X ~ Normal(0, s) truncated to |X| <= t (numerical integration over the integer cells)
pub fn moments_rounded_truncated(s: f64, t: f64) -> (f64, f64) {
    fn phi(x: f64) -> f64 {
        0.5 * (1.0 + erf(x / std::f64::consts::SQRT_2))
    }
    fn erf(x: f64) -> f64 {
        // Abramowitz-Stegun 7.1.26 is too coarse; use a series/continued fraction with ~1e-15 accuracy
        let z = x.abs();
        let r = if z < 3.0 {
            // Taylor series
            let mut sum = z;
            let mut term = z;
            let mut k = 0.0;
            loop {
                k += 1.0;
                term *= -z * z / k;
                let add = term / (2.0 * k + 1.0);
                sum += add;
                if add.abs() < 1e-17 * sum.abs() {
                    break;
                }
            }
            2.0 / std::f64::consts::PI.sqrt() * sum
        } else {
            // continued fraction for erfc
            let mut f = 0.0;
            for k in (1..200).rev() {
                f = (k as f64) / 2.0 / (z + f);
            }
            1.0 - (-z * z).exp() / std::f64::consts::PI.sqrt() / (z + f)
        };
        if x < 0.0 { -r } else { r }
    }
    let total = phi(t / s) - phi(-t / s);
    if t > 4096.0 {
        // many integers per sigma: continuous truncated-normal variance plus Sheppard's 1/12 (relative error < 1e-6)
        let a = t / s;
        let pdf = (-0.5 * a * a).exp() / (2.0 * std::f64::consts::PI).sqrt();
        let v = s * s * (1.0 - 2.0 * a * pdf / total);
        // fourth moment of the truncated normal: s^4 (3 - (a^3 + 3a) * 2 pdf / total); rounding adds < v/2 + 1/80
        let m4 = s.powi(4) * (3.0 - (a.powi(3) + 3.0 * a) * 2.0 * pdf / total);
        return (v + 1.0 / 12.0, m4 + v / 2.0 + 1.0 / 80.0);
    }
    let kmax = t.round() as i64 + 1;
    let mut var = 0.0;
    let mut m4 = 0.0;
    for k in -kmax..=kmax {
        let lo = (k as f64 - 0.5).max(-t);
        let hi = (k as f64 + 0.5).min(t);
        if hi <= lo {
            continue;
        }
        let pr = (phi(hi / s) - phi(lo / s)) / total;
        var += pr * (k as f64) * (k as f64);
        m4 += pr * (k as f64).powi(4);
    }
    (var, m4)
}

fn run<B: FullBackend>(m: &poulpy_hal::layouts::Module<B>, c: &Case) -> Verdict {
    let p = &c.p;
    let kind = p.kind.name();
    let b = p.base2k as usize;
    let n = m.n();
    let fail = |what: &str, d: String| Verdict::fail(format!("{kind}|{what}"), format!("backend={} {kind} ({}): {d}\ncase={c:?}", c.be.name(), if c.compressed { "compressed" } else { "standard" }));
    let o1 = build(m, p, c.compressed, false);
    // (3a) determinism
    let o1b = build(m, p, c.compressed, false);
    if o1.cells.iter().zip(o1b.cells.iter()).any(|(x, y)| x.raw() != y.raw()) {
        return fail("not-deterministic", "two runs with identical inputs and seeds differ".into());
    }
    // no mask (seed) is used twice inside one object
    {
        use std::collections::HashMap;
        let mut seen: HashMap<Vec<i64>, usize> = HashMap::new();
        for (ci, cell) in o1.cells.iter().enumerate() {
            if cell.cols() < 2 {
                continue;
            }
            let key: Vec<i64> = (1..cell.cols()).flat_map(|col| cell.at(col, 0).iter().copied()).collect();
            if let Some(prev) = seen.insert(key, ci) {
                return fail("mask-reused-across-cells", format!("cells {prev} and {ci} of the same object carry the identical mask (mask stream / seed reused)"));
            }
        }
    }
    // other error seed: masks identical, body different
    let mut p2 = p.clone();
    p2.seed_xe = p.seed_xe ^ 0x5EED_0001;
    let o2 = build(m, &p2, c.compressed, false);
    // other secret (and other plaintext): masks identical
    let mut p3 = p.clone();
    p3.seed_sk = p.seed_sk ^ 0x5EED_0002;
    p3.seed_pt = p.seed_pt ^ 0x5EED_0003;
    let o3 = build(m, &p3, c.compressed, false);
    // other mask seed: masks different
    let mut p4 = p.clone();
    p4.seed_xa = p.seed_xa ^ 0x5EED_0004;
    let o4 = build(m, &p4, c.compressed, false);

    let ni = p.noise_infos();
    let (limb, scale) = ni.target_limb_and_scale(b);
    let e_max = (ni.bound * scale).round() as i128;
    let mut sum_sq: f64 = 0.0;
    let mut count: u64 = 0;
    let mut max_abs: i128 = 0;
    let mut mask_digits: u64 = 0;
    let mut bit_ones = vec![0u64; b];
    let (mut dmin, mut dmax) = (i64::MAX, i64::MIN);
    let mut mask_equal_other_xa: u64 = 0;
    // pool several independent encryptions until at least 4096 error samples are available
    let per_obj = o1.cells.len() * n;
    let target: usize = if std::env::var("VERIF_TIER").map(|t| t == "thorough").unwrap_or(false) || TARGET_THOROUGH.load(std::sync::atomic::Ordering::Relaxed) { 1 << 17 } else { 1 << 15 };
    let reps = target.div_ceil(per_obj.max(1)).clamp(1, 4096);
    for rep in 0..reps {
        let (oa, ob, oc, od);
        let (ra, rb, rc, rd) = if rep == 0 {
            (&o1, &o2, &o3, &o4)
        } else {
            let mut q = p.clone();
            q.seed_xa = p.seed_xa.wrapping_add(rep as u64 * 0x1000_0001);
            q.seed_xe = p.seed_xe.wrapping_add(rep as u64 * 0x2000_0003);
            oa = build(m, &q, c.compressed, false);
            let mut q2 = q.clone();
            q2.seed_xe ^= 0x5EED_0001;
            ob = build(m, &q2, c.compressed, false);
            let mut q3 = q.clone();
            q3.seed_sk ^= 0x5EED_0002;
            q3.seed_pt ^= 0x5EED_0003;
            oc = build(m, &q3, c.compressed, false);
            let mut q4 = q.clone();
            q4.seed_xa ^= 0x5EED_0004;
            od = build(m, &q4, c.compressed, false);
            (&oa, &ob, &oc, &od)
        };
    for (ci, cell) in ra.cells.iter().enumerate() {
        let (c2, c3, c4) = (&rb.cells[ci], &rc.cells[ci], &rd.cells[ci]);
        for col in 1..cell.cols() {
            for j in 0..cell.size() {
                let x = cell.at(col, j);
                if x != c2.at(col, j) {
                    return fail("mask-depends-on-error-seed", format!("cell {ci} mask column {col} limb {j} changes with the error seed"));
                }
                if x != c3.at(col, j) {
                    return fail("mask-depends-on-secret-or-plaintext", format!("cell {ci} mask column {col} limb {j} changes with the secret/plaintext seeds"));
                }
                for (u, v) in x.iter().zip(c4.at(col, j)) {
                    if u == v {
                        mask_equal_other_xa += 1;
                    }
                }
                for d in x {
                    if !in_digit_range(*d, b) {
                        return fail("mask-out-of-range", format!("cell {ci} mask digit {d} outside [-2^{}, 2^{})", b - 1, b - 1));
                    }
                    mask_digits += 1;
                    dmin = dmin.min(*d);
                    dmax = dmax.max(*d);
                    let off = (*d + (1i64 << (b - 1))) as u64;
                    for (t, cnt) in bit_ones.iter_mut().enumerate() {
                        *cnt += (off >> t) & 1;
                    }
                }
            }
        }
        if cell.at(0, limb.min(cell.size() - 1)) == c2.at(0, limb.min(cell.size() - 1)) && (0..cell.size()).all(|j| cell.at(0, j) == c2.at(0, j)) {
            return fail("body-independent-of-error-seed", format!("cell {ci}: the body does not change with the error seed (no error is injected)"));
        }
        // (1) error difference e1 - e2 from the exact phases
        let (ph1, ph2) = (glwe_phase_limbs(cell, &ra.sk), glwe_phase_limbs(c2, &rb.sk));
        for i in 0..n {
            let d = torus_err(&value_of(&ph1, b, i), &value_of(&ph2, b, i));
            // in units of 2^-(limb+1)b
            let unit_exp = (limb + 1) * b;
            let scaled = Dyadic { num: d.num.clone() << unit_exp, exp: d.exp };
            // must be an integer
            let int = &scaled.num >> scaled.exp;
            if (int.clone() << scaled.exp) != scaled.num {
                return fail("error-not-on-documented-limb", format!("cell {ci} coefficient {i}: e1-e2 = {:.6e} is not a multiple of 2^-{unit_exp} (noise limb {limb})", d.approx_f64()));
            }
            let v: i128 = i128::try_from(&int).unwrap_or(i128::MAX);
            if v.abs() > 2 * e_max {
                return fail("error-above-bound", format!("cell {ci} coefficient {i}: |e1-e2| = {} units exceeds 2*round(bound*scale) = {}", v.abs(), 2 * e_max));
            }
            max_abs = max_abs.max(v.abs());
            sum_sq += (v as f64) * (v as f64);
            count += 1;
        }
    }
    }
    // variance band: Bernstein for bounded variables X = (e1-e2)^2 in [0, M], M = (2 e_max)^2, mean 2 Var(e)
    let (var_e, m4_e) = moments_rounded_truncated(ni.sigma * scale, ni.bound * scale);
    let mean_want = 2.0 * var_e * if std::env::var("PZV_SKEW").is_ok() { 1.3 } else { 1.0 };
    let mcap = (2.0 * e_max as f64).powi(2);
    let nn = count as f64;
    let ln = 55.0 * std::f64::consts::LN_2; // alpha = 2^-54 per side
    // X = (e1 - e2)^2 with independent symmetric e_i:  E[X^2] = 2 E[e^4] + 6 E[e^2]^2, Var(X) = E[X^2] - (2 E[e^2])^2
    let var_x = (2.0 * m4_e + 6.0 * var_e * var_e - 4.0 * var_e * var_e).max(0.0);
    let dev = (2.0 * var_x * ln / nn).sqrt() + 2.0 * mcap * ln / (3.0 * nn);
    let mean_have = sum_sq / nn;
    let enough = nn >= 30000.0;
    if enough && mean_want > 0.0 && (mean_have - mean_want).abs() > dev {
        return fail(
            "noise-variance-outside-band",
            format!("second moment of e1-e2 over {count} coefficients is {mean_have:.4} units^2, expected {mean_want:.4} +- {dev:.4} (sigma*scale = {:.3}, bound*scale = {:.3})", ni.sigma * scale, ni.bound * scale),
        );
    }
    if enough && e_max >= 2 && max_abs == 0 {
        return fail("no-noise", "every coefficient of e1-e2 is zero".into());
    }
    // (2) mask bit frequencies: Hoeffding, alpha = 2^-54 per test
    if mask_digits >= 4096 {
        let nm = mask_digits as f64;
        let band = (ln / (2.0 * nm)).sqrt();
        for (t, ones) in bit_ones.iter().enumerate() {
            let f = *ones as f64 / nm;
            if (f - 0.5).abs() > band {
                return fail("mask-bit-biased", format!("bit {t} of the offset mask digits is set with frequency {f:.4} over {mask_digits} digits (band 0.5 +- {band:.4})"));
            }
        }
        // extremes: P(no digit in the top 1/8 of the range) = (7/8)^n, astronomically small for n >= 4096
        let span = 1i64 << b;
        if b >= 3 && ((dmax as i128) < (span as i128 / 2 - span as i128 / 8) || (dmin as i128) >= -(span as i128 / 2) + span as i128 / 8) {
            return fail("mask-range-not-covered", format!("mask digits only span [{dmin}, {dmax}] of [-2^{}, 2^{})", b - 1, b - 1));
        }
        // other mask seed: at most a 2^-b fraction (+ Hoeffding slack) of digits coincide
        let coincide = mask_equal_other_xa as f64 / nm;
        let expect = 1.0 / (span as f64);
        if coincide > expect + band + 0.01 {
            return fail("mask-independent-of-mask-seed", format!("{:.2}% of the mask digits are unchanged when the mask seed changes", 100.0 * coincide));
        }
    }
    let nt = (p.k() % b != 0 || p.rank_out >= 2 || p.kind != Kind::Glwe) && enough;
    let mut cl = vec![kind, c.be.name(), if c.compressed { "compressed" } else { "standard" }];
    if enough {
        cl.push("variance_band_checked");
    }
    if p.k() % b != 0 {
        cl.push("k_not_multiple_of_radix");
    }
    Verdict::pass(nt, &cl)
}

pub fn test(c0: &Case) -> Verdict {
    let mut c = c0.clone();
    c.p.adapt(c.be.is_fft());
    // enough coefficients for the statistics: N >= 64 for matrices, N >= 512 for single ciphertexts
    let min_log_n = if c.p.kind == Kind::Glwe { 9 } else { 7 };
    c.p.log_n = c.p.log_n.max(min_log_n);
    c.p.adapt(c.be.is_fft());
    // the error must not wrap around the torus: 2 * bound * 2^-k << 1/2 needs k >= 12 (bound <= 48)
    if c.p.k() < 12 {
        c.p.dnum = 3;
        c.p.dsize = if c.p.kind == Kind::Glwe { 1 } else { 2 };
        c.p.base2k = c.p.base2k.max(4);
        c.p.adapt(c.be.is_fft());
        if c.p.k() < 12 {
            c.p.krem = 0;
        }
    }
    with_backend!(c.be, c.p.log_n, |m| run(m, &c))
}

fn strategy() -> BoxedStrategy<Case> {
    (crate::c01::be_strategy(), crate::c19::encp_strategy(), any::<bool>()).prop_map(|(be, p, compressed)| Case { be, p, compressed }).boxed()
}

pub fn run_all(ctx: &Ctx) {
    let t = ctx.tier;
    TARGET_THOROUGH.store(t == pzv_common::driver::Tier::Thorough, std::sync::atomic::Ordering::Relaxed);
    ctx.run_sub("noise_mask_seed_separation", t.pick(192, 1_600), 64, strategy, test);
    crate::c06b::run_all(ctx);
}

pub fn replay(ctx: &Ctx, sub: &str, case: &serde_json::Value) -> i32 {
    if sub == "other_routines_noise_mask_seeds" {
        return ctx.replay_case::<crate::c06b::Case, _>(sub, case, crate::c06b::test);
    }
    ctx.replay_case::<Case, _>(sub, case, test)
}

pub const RULE: &str = "cases = (backend, layout in {GLWE, GGLWE, GGSW, switching key, automorphism key, tensor key}, standard or seed-compressed routine, N 128..512, encryptions pooled until >= 2^15 (quick) / 2^17 (thorough) error samples per statistic, radix, precision residue, ranks, dnum, dsize, secret distribution, three (sigma, bound) settings, generated seeds); each case encrypts the object five times under controlled seed changes. Checks: determinism; masks identical under other error seed / other secret+plaintext, different under other mask seed; e1-e2 (exact phases) integral on the documented noise limb, |e1-e2| <= 2 round(bound*scale), second moment inside a two-sided Bernstein band (alpha=2^-54, exact variance of the squared difference from numerical integration) around 2*Var(round(TruncNormal)); mask digits in balanced range, every bit within the Hoeffding band (alpha=2^-54), extremes reached. non-trivial = statistics evaluated and (k % radix != 0 or rank >= 2 or matrix type). Sub-check other_routines_noise_mask_seeds: the same determinism / seed-separation / noise / mask statistics for glwe_public_key_generate, glwe_encrypt_pk (every column carries an error term; the ephemeral-secret seed plays the role of the mask seed), lwe_encrypt_sk (one error sample per encryption, pooled over >= 2^15 encryptions), gglwe_to_ggsw_key, lwe_switching_key, lwe_to_glwe_key, glwe_to_lwe_key, blind_rotation_key (CGGI; binary block / probability / fixed-weight LWE secrets) and the circuit-bootstrapping key bundle (blind-rotation key + automorphism keys + GGLWE-to-GGSW key); error differences are taken directly between the bodies of two encryptions with identical masks; determinism is judged on the serialised bytes of two freshly allocated objects.";
