//! C12, key-generation part: every secret-key encryption routine of the encryptable layouts (standard and
//! seed-compressed, see `enc.rs`) on a guarded scratch window of exactly its own `*_tmp_bytes` query.
//!
//! Four runs per case (as in `c12s`): two with ample scratch from two garbage fills, two with exactly the queried
//! bytes from two garbage fills; all seeds identical, so all four objects must be equal byte for byte.

use crate::c19::encp_strategy;
use crate::enc::*;
use poulpy_hal::layouts::ZnxView;
use proptest::prelude::*;
use pzv_be::{Be, with_backend};
use pzv_common::driver::{Ctx, Verdict, guarded, panic_sig};
use serde::{Deserialize, Serialize};

#[derive(Clone, Debug, Serialize, Deserialize)]
pub struct Case {
    pub be: Be,
    pub p: EncP,
    pub compressed: bool,
}

fn snapshot(o: &Obj) -> (Vec<Vec<i64>>, Vec<u8>, Vec<[u8; 32]>) {
    (o.cells.iter().map(|c| c.raw().to_vec()).collect(), o.bytes.clone(), o.seeds.clone())
}

pub fn test(c0: &Case) -> Verdict {
    let mut c = c0.clone();
    c.p.adapt(c.be.is_fft());
    let mut outs = vec![];
    let mut routine = "";
    for (i, (exact, seed)) in [(false, 0x3333u64), (false, 0x4444), (true, 0x1111), (true, 0x2222)].iter().enumerate() {
        SCRATCH_MODE.with(|m| m.set(Some((*exact, seed ^ c.p.seed_xe))));
        GUARD_BAD.with(|g| g.set(false));
        let r = guarded(|| with_backend!(c.be, c.p.log_n, |m| snapshot(&build(m, &c.p, c.compressed, false))));
        SCRATCH_MODE.with(|m| m.set(None));
        let (name, bytes) = LAST_ROUTINE.with(|l| l.get());
        routine = name;
        match r {
            Err(p) => {
                let kind = if *exact { "exact-scratch-panic" } else { "panic-with-slack" };
                return Verdict::fail(format!("{name}|{kind}|{}", panic_sig(&p)), format!("backend={} routine={name}: scratch window of exactly the queried {bytes} bytes{}: {p}\ncase={c:?}", c.be.name(), if *exact { "" } else { " (plus ample slack)" }));
            }
            Ok(v) => outs.push(v),
        }
        if GUARD_BAD.with(|g| g.get()) {
            return Verdict::fail(format!("{name}|guard-damaged"), format!("backend={} routine={name}: bytes outside the {bytes}-byte scratch window were written\ncase={c:?}", c.be.name()));
        }
        if i == 1 && outs[0] != outs[1] {
            return Verdict::fail(format!("{name}|result-depends-on-scratch-or-stale-content"), format!("backend={} routine={name}: two runs with identical seeds and ample scratch but different garbage in the scratch window differ\ncase={c:?}", c.be.name()));
        }
    }
    if outs[2] != outs[3] {
        return Verdict::fail(format!("{routine}|result-depends-on-scratch-or-stale-content"), format!("backend={} routine={routine}: two runs with identical seeds but different garbage in the exact-size scratch window differ\ncase={c:?}", c.be.name()));
    }
    if outs[0] != outs[2] {
        return Verdict::fail(format!("{routine}|result-depends-on-scratch-size"), format!("backend={} routine={routine}: the object encrypted with exactly the queried scratch differs from the one encrypted with ample slack\ncase={c:?}", c.be.name()));
    }
    let mut cl = vec![routine, c.be.name()];
    if c.compressed {
        cl.push("compressed");
    }
    if c.p.dsize > 1 {
        cl.push("dsize>1");
    }
    if c.p.rank_out > 1 {
        cl.push("rank>1");
    }
    Verdict::pass(true, &cl)
}

/// the routines of `c06b` (public-key encryption, LWE encryption, LWE <-> GLWE keys, blind-rotation and
/// circuit-bootstrapping key bundles) under the same four-run rule
pub fn test_b(c0: &crate::c06b::Case) -> Verdict {
    use crate::c06b::{Seeds, build};
    let mut c = c0.clone();
    c.log_n = 3 + c.log_n.saturating_sub(5);
    c.adapt_gen(true);
    let mut outs: Vec<(Vec<Vec<Vec<i64>>>, Vec<u8>)> = vec![];
    let mut routine = "";
    let s = Seeds { sk: c.seed_sk, xa: c.seed_xa, xe: c.seed_xe, pt: c.seed_pt };
    for (i, (exact, seed)) in [(false, 0x3333u64), (false, 0x4444), (true, 0x1111), (true, 0x2222)].iter().enumerate() {
        SCRATCH_MODE.with(|m| m.set(Some((*exact, seed ^ c.seed_xe))));
        GUARD_BAD.with(|g| g.set(false));
        LAST_ROUTINE.with(|l| l.set((crate::c06b::KINDS[c.kind()], 0)));
        let r = guarded(|| {
            with_backend!(c.be, c.log_n, |m| {
                let b = build(m, &c, &s, &mut Scr::new());
                (b.cells.iter().map(|x| x.body.iter().chain(x.mask.iter()).cloned().collect::<Vec<_>>()).collect::<Vec<_>>(), b.bytes)
            })
        });
        SCRATCH_MODE.with(|m| m.set(None));
        let (name, bytes) = LAST_ROUTINE.with(|l| l.get());
        routine = name;
        match r {
            Err(p) => {
                let kind = if *exact { "exact-scratch-panic" } else { "panic-with-slack" };
                return Verdict::fail(format!("{name}|{kind}|{}", panic_sig(&p)), format!("backend={} routine={name}: scratch window of exactly the queried {bytes} bytes{}: {p}\ncase={c:?}", c.be.name(), if *exact { "" } else { " (plus ample slack)" }));
            }
            Ok(v) => outs.push(v),
        }
        if GUARD_BAD.with(|g| g.get()) {
            return Verdict::fail(format!("{name}|guard-damaged"), format!("backend={} routine={name}: bytes outside the {bytes}-byte scratch window were written\ncase={c:?}", c.be.name()));
        }
        if i == 1 && outs[0] != outs[1] {
            return Verdict::fail(format!("{name}|result-depends-on-scratch-or-stale-content"), format!("backend={} routine={name}: two runs with identical seeds and ample scratch but different garbage in the scratch window differ\ncase={c:?}", c.be.name()));
        }
    }
    if outs[2] != outs[3] {
        return Verdict::fail(format!("{routine}|result-depends-on-scratch-or-stale-content"), format!("backend={} routine={routine}: two runs with identical seeds but different garbage in the exact-size scratch window differ\ncase={c:?}", c.be.name()));
    }
    if outs[0] != outs[2] {
        return Verdict::fail(format!("{routine}|result-depends-on-scratch-size"), format!("backend={} routine={routine}: the object encrypted with exactly the queried scratch differs from the one encrypted with ample slack\ncase={c:?}", c.be.name()));
    }
    Verdict::pass(true, &[routine, c.be.name()])
}

pub fn strategy() -> BoxedStrategy<Case> {
    (crate::c01::be_strategy(), encp_strategy(), any::<bool>()).prop_map(|(be, p, compressed)| Case { be, p, compressed }).boxed()
}

pub fn run_all(ctx: &Ctx) {
    let t = ctx.tier;
    ctx.run_sub("core_keygen_exact_scratch", t.pick(4_000, 60_000), 64, strategy, test);
    ctx.run_sub("core_keygen2_exact_scratch", t.pick(3_000, 40_000), 64, crate::c06b::strategy, test_b);
}

pub fn replay(ctx: &Ctx, sub: &str, case: &serde_json::Value) -> i32 {
    if sub == "core_keygen2_exact_scratch" {
        return ctx.replay_case::<crate::c06b::Case, _>(sub, case, test_b);
    }
    ctx.replay_case::<Case, _>(sub, case, test)
}

pub const RULE: &str = "key-generation part: cases = (backend, one of 16 secret-key encryption routines: GLWE, GGLWE, GGSW, GLWE switching key, automorphism key, tensor key, GGLWE-to-GGSW key, blind-rotation key (CGGI), each in its standard and its seed-compressed form; N 8..512, radix 2..40 inside the backend domain, ranks 1..3, dnum 1..3, dsize 1..2, every secret distribution, three noise settings, generated seeds). Each routine runs four times with identical seeds: twice on an ample garbage-filled scratch window, twice on a window of exactly its own *_tmp_bytes query (64-byte aligned, guard regions, two garbage fills). Violation = panic, damaged guard region, or any difference between the four objects (cells, serialised bytes, stored seeds). non-trivial = every executed case. Sub-check core_keygen2_exact_scratch: the same rule for glwe_encrypt_pk, lwe_encrypt_sk, gglwe_to_ggsw_key_encrypt_sk, lwe_switching_key_encrypt_sk, lwe_to_glwe_key_encrypt_sk, glwe_to_lwe_key_encrypt_sk, blind_rotation_key_encrypt_sk and circuit_bootstrapping_key_encrypt_sk (sub-keys with their own precision), N 8..128, LWE dimension 1..48.";
