// Included once per backend with `type B = <backend>;` in scope.
//
// Model-based testing of straight-line CKKS programs: every register holds a ciphertext and a shadow
// (complex slot values in f64, metadata, capacity, absolute error bound).  After every step the
// library's Result, the metadata and the invariant log_delta + log_budget <= stored precision are
// compared with the model; after every successful step the register is decrypted, decoded and
// compared with the shadow within the tracked error bound.

use super::*;
use poulpy_ckks::{
    CKKSCompositionError, CKKSInfos, CKKSMeta,
    encoding::reim::Encoder,
    layouts::{
        CKKSCiphertext, CKKSMaintainOps,
        plaintext::{CKKSPlaintextConversion, CKKSPlaintextCstRnx, CKKSPlaintextVecRnx, alloc_pt_vec_znx},
    },
    leveled::{CKKSAddOps, CKKSAllOpsTmpBytes, CKKSConjugateOps, CKKSDecrypt, CKKSEncrypt, CKKSMulOps, CKKSNegOps, CKKSPow2Ops, CKKSRescaleOps, CKKSRotateOps, CKKSSubOps},
};
use poulpy_core::{
    EncryptionLayout, GLWEAutomorphismKeyEncryptSk, GLWETensorKeyEncryptSk,
    layouts::{
        GLWEAutomorphismKey, GLWEAutomorphismKeyLayout, GLWEAutomorphismKeyPrepared, GLWEAutomorphismKeyPreparedFactory, GLWELayout, GLWESecret, GLWESecretPreparedFactory, GLWETensorKey,
        GLWETensorKeyLayout, GLWETensorKeyPrepared, GLWETensorKeyPreparedFactory, LWEInfos, Rank, prepared::GLWESecretPrepared,
    },
};
use poulpy_hal::{
    api::{ModuleNew, ScratchOwnedAlloc, ScratchOwnedBorrow},
    layouts::{DeviceBuf, GaloisElement, Module, ScratchOwned},
    source::Source,
};
use std::collections::HashMap;
use std::sync::OnceLock;

pub struct Ctx {
    pub p: Params,
    pub module: Module<B>,
    pub sk: GLWESecretPrepared<DeviceBuf<B>, B>,
    pub tsk: GLWETensorKeyPrepared<DeviceBuf<B>, B>,
    pub atks: HashMap<i64, GLWEAutomorphismKeyPrepared<DeviceBuf<B>, B>>,
    pub encoder: Encoder<f64>,
    pub scratch_bytes: usize,
    pub key_k: usize,
    pub key_size: usize,
}

pub const ROTATIONS: [i64; 4] = [1, 2, 5, -3];

// contexts 0/1: the backend family's own parameter sets; 2/3: the FFT64 parameter sets on any backend (cross-backend comparison)
static CTXS: [OnceLock<Ctx>; 4] = [OnceLock::new(), OnceLock::new(), OnceLock::new(), OnceLock::new()];

fn glwe_layout(p: &Params) -> GLWELayout {
    GLWELayout { n: (p.n as u32).into(), base2k: (p.base2k as u32).into(), k: (p.k as u32).into(), rank: Rank(1) }
}

pub fn ctx(pi: usize) -> &'static Ctx {
    CTXS[pi].get_or_init(|| {
        let p = params_for(B_IS_FFT || pi >= 2, pi % 2);
        let module = Module::<B>::new(p.n as u64);
        let key_k = p.k + p.dsize * p.base2k;
        let dnum = key_k.div_ceil(p.dsize * p.base2k);
        let tsk_infos = EncryptionLayout::new_from_default_sigma(GLWETensorKeyLayout { n: (p.n as u32).into(), base2k: (p.base2k as u32).into(), k: (key_k as u32).into(), rank: Rank(1), dsize: (p.dsize as u32).into(), dnum: (dnum as u32).into() }).unwrap();
        let atk_infos = EncryptionLayout::new_from_default_sigma(GLWEAutomorphismKeyLayout { n: (p.n as u32).into(), base2k: (p.base2k as u32).into(), k: (key_k as u32).into(), rank: Rank(1), dsize: (p.dsize as u32).into(), dnum: (dnum as u32).into() }).unwrap();
        let gl = EncryptionLayout::new_from_default_sigma(glwe_layout(&p)).unwrap();
        let mut sk_raw = GLWESecret::alloc_from_infos(&gl);
        sk_raw.fill_ternary_hw(p.hw, &mut Source::new([7u8; 32]));
        let mut sk = module.glwe_secret_prepared_alloc_from_infos(&gl);
        module.glwe_secret_prepare(&mut sk, &sk_raw);
        let prec = CKKSMeta { log_delta: p.ld_max, log_budget: 12 };
        let scratch_bytes = module.ckks_all_ops_with_atk_tmp_bytes(&gl, &tsk_infos, &atk_infos, &prec) + (1 << 20);
        let mut scratch = ScratchOwned::<B>::alloc(scratch_bytes);
        let (mut xa, mut xe) = (Source::new([1u8; 32]), Source::new([2u8; 32]));
        let mut tsk = GLWETensorKey::alloc_from_infos(&tsk_infos);
        module.glwe_tensor_key_encrypt_sk(&mut tsk, &sk_raw, &tsk_infos, &mut xa, &mut xe, scratch.borrow());
        let mut tskp = module.alloc_tensor_key_prepared_from_infos(&tsk_infos);
        module.prepare_tensor_key(&mut tskp, &tsk, scratch.borrow());
        let mut atks = HashMap::new();
        let mut idx: Vec<i64> = ROTATIONS.to_vec();
        idx.push(-1);
        for &i in &idx {
            // key index -1 is the conjugation key; rotation keys are indexed by the rotation amount
            // (a negative rotation amount is the Galois element 5^(m - |k|); hal's galois_element(-k) would add a conjugation)
            let gal = if i == -1 { -1 } else { module.galois_element(i.rem_euclid((p.n / 2) as i64)) };
            let mut atk = GLWEAutomorphismKey::alloc_from_infos(&atk_infos);
            module.glwe_automorphism_key_encrypt_sk(&mut atk, gal, &sk_raw, &atk_infos, &mut xa, &mut xe, scratch.borrow());
            let mut ap = module.glwe_automorphism_key_prepared_alloc_from_infos(&atk_infos);
            module.glwe_automorphism_key_prepare(&mut ap, &atk, scratch.borrow());
            atks.insert(i, ap);
        }
        let key_size = tskp.size();
        Ctx { p, module, sk, tsk: tskp, atks, encoder: Encoder::<f64>::new(p.n / 2).unwrap(), scratch_bytes, key_k, key_size }
    })
}

#[derive(Clone)]
struct Shadow {
    re: Vec<f64>,
    im: Vec<f64>,
    ld: usize,
    lb: usize,
    /// absolute bound on the error of every slot
    err: f64,
}

impl Shadow {
    fn mag(&self) -> f64 {
        self.re.iter().zip(self.im.iter()).map(|(a, b)| a.hypot(*b)).fold(0.0, f64::max)
    }
    fn eff(&self) -> usize {
        self.ld + self.lb
    }
}

struct Reg {
    ct: CKKSCiphertext<Vec<u8>>,
    sh: Shadow,
}

fn p2(e: i64) -> f64 {
    (e as f64).exp2()
}

enum Pred {
    Ok,
    Err(&'static str),
}

fn err_kind(e: &anyhow::Error) -> &'static str {
    match e.downcast_ref::<CKKSCompositionError>() {
        Some(CKKSCompositionError::LimbReallocationShrinksBelowMetadata { .. }) => "LimbReallocationShrinksBelowMetadata",
        Some(CKKSCompositionError::InsufficientHomomorphicCapacity { .. }) => "InsufficientHomomorphicCapacity",
        Some(CKKSCompositionError::PlaintextBase2KMismatch { .. }) => "PlaintextBase2KMismatch",
        Some(CKKSCompositionError::MissingAutomorphismKey { .. }) => "MissingAutomorphismKey",
        Some(CKKSCompositionError::PlaintextAlignmentImpossible { .. }) => "PlaintextAlignmentImpossible",
        Some(CKKSCompositionError::MultiplicationPrecisionUnderflow { .. }) => "MultiplicationPrecisionUnderflow",
        None => "other-error",
    }
}

fn gen_slots(m: usize, mag: f64, seed: u64) -> (Vec<f64>, Vec<f64>) {
    let mut s = seed | 1;
    let mut next = || {
        s ^= s << 13;
        s ^= s >> 7;
        s ^= s << 17;
        (s >> 11) as f64 / (1u64 << 53) as f64 * 2.0 - 1.0
    };
    let re: Vec<f64> = (0..m).map(|_| next() * mag).collect();
    let im: Vec<f64> = (0..m).map(|_| next() * mag).collect();
    (re, im)
}

thread_local! {
    /// name of the library operation being executed (attribution of a panic in exact-scratch mode)
    pub static LAST_OP: std::cell::Cell<&'static str> = const { std::cell::Cell::new("") };
}

const GUARD: usize = 256;

/// Scratch provider: roomy (C16) or, for C12, a fresh 64-byte aligned window of exactly the queried
/// number of bytes inside guard regions, filled with seed-dependent garbage.
pub struct Sx {
    exact: bool,
    fill: u64,
    roomy: ScratchOwned<B>,
    buf: Vec<u8>,
    off: usize,
    len: usize,
    pub guard_damaged: bool,
    pub windows: usize,
    pub nonzero_windows: usize,
    /// run with the FFT64 parameter sets whatever the backend (C10)
    pub fft_params: bool,
    /// every window has this many bytes whatever the call's own query says (the `ckks_all_ops_with_atk_tmp_bytes` pass of C12)
    pub fixed: Option<usize>,
}

impl Sx {
    pub fn new(exact: bool, fill: u64, roomy_bytes: usize) -> Sx {
        Sx { exact, fill, roomy: pzv_be::dirty_scratch::<B>(roomy_bytes), buf: vec![], off: 0, len: 0, guard_damaged: false, windows: 0, nonzero_windows: 0, fft_params: false, fixed: None }
    }
    fn check_guards(&mut self) {
        if self.buf.is_empty() {
            return;
        }
        let (o, l) = (self.off, self.len);
        let ok = self.buf[o - GUARD..o].iter().enumerate().all(|(i, x)| *x == (0xA5 ^ i as u8)) && self.buf[o + l..o + l + GUARD].iter().enumerate().all(|(i, x)| *x == (0x5A ^ i as u8));
        if !ok {
            self.guard_damaged = true;
        }
    }
    pub fn roomy(&mut self) -> &mut poulpy_hal::layouts::Scratch<B> {
        self.roomy.borrow()
    }
    pub fn get(&mut self, q: impl FnOnce() -> usize) -> &mut poulpy_hal::layouts::Scratch<B> {
        use poulpy_hal::api::ScratchFromBytes;
        if !self.exact {
            return self.roomy.borrow();
        }
        self.check_guards();
        let bytes = match self.fixed {
            Some(f) => f,
            None => q(),
        };
        self.windows += 1;
        if bytes > 0 {
            self.nonzero_windows += 1;
        }
        self.buf = vec![0u8; bytes + 2 * GUARD + 64];
        let base = self.buf.as_ptr() as usize;
        let off = GUARD + (64 - (base + GUARD) % 64) % 64;
        let mut x = self.fill ^ (self.windows as u64).wrapping_mul(0x9E3779B97F4A7C15);
        for v in self.buf.iter_mut() {
            x ^= x << 13;
            x ^= x >> 7;
            x ^= x << 17;
            *v = x as u8;
        }
        for i in 0..GUARD {
            self.buf[off - GUARD + i] = 0xA5 ^ i as u8;
            self.buf[off + bytes + i] = 0x5A ^ i as u8;
        }
        self.off = off;
        self.len = bytes;
        poulpy_hal::layouts::Scratch::<B>::from_bytes(&mut self.buf[off..off + bytes])
    }
    pub fn finish(&mut self) {
        self.check_guards();
    }
    /// window for the named call (records the name for the report)
    pub fn op(&mut self, name: &'static str, q: impl FnOnce() -> usize) -> &mut poulpy_hal::layouts::Scratch<B> {
        LAST_OP.with(|l| l.set(name));
        self.get(q)
    }
}

fn larger<'a>(x: &'a CKKSCiphertext<Vec<u8>>, y: &'a CKKSCiphertext<Vec<u8>>) -> &'a CKKSCiphertext<Vec<u8>> {
    if x.max_k().as_usize() >= y.max_k().as_usize() { x } else { y }
}

pub fn run_program(c: &Case) -> Verdict {
    let cx = ctx(c.pset as usize % 2);
    let mut sx = Sx::new(false, 0, cx.scratch_bytes);
    run_program_sx(c, &mut sx).0
}

/// Runs the program; returns the verdict of the C16 oracle and the final register file (metadata + raw digits).
pub fn run_program_sx(c: &Case, sx: &mut Sx) -> (Verdict, Vec<Option<(usize, usize, Vec<i64>)>>) {
    let mut dump = vec![];
    let v = run_program_inner(c, sx, &mut dump);
    sx.finish();
    (v, dump)
}

fn run_program_inner(c: &Case, sx: &mut Sx, dump: &mut Vec<Option<(usize, usize, Vec<i64>)>>) -> Verdict {
    let cx = ctx(c.pset as usize % 2 + if sx.fft_params { 2 } else { 0 });
    let p = cx.p;
    let (n, b) = (p.n, p.base2k);
    let m = n / 2;
    let md = &cx.module;
    let hw = p.hw as f64;
    let nf = n as f64;
    let mut regs: Vec<Option<Reg>> = (0..4).map(|_| None).collect();
    let mut classes: Vec<&'static str> = vec![B_NAME];
    let mut executed = 0usize;
    let mut errors_seen = 0usize;
    let mut informative = 0usize;
    let fail = |step: usize, op: &Op, what: &str, d: String| Verdict::fail(format!("{}|{what}", op.name()), format!("backend={B_NAME} step {step} {op:?}: {d}\ncase={c:?}"));
    // torus-level noise of one gadget product with the evaluation keys (worst case), and of one truncation
    let key_noise = |sp: usize| -> f64 { 4.0 * sp as f64 * p2(b as i64) * nf * 21.0 * p2(-(cx.key_k as i64)) * (1.0 + hw) + 4.0 * (1.0 + hw) * p2(-((cx.key_size * b) as i64)) };
    let trunc = |cap: usize| -> f64 { 8.0 * (1.0 + hw) * p2(-(cap as i64)) };

    for (step, op) in c.ops.iter().enumerate() {
        LAST_OP.with(|l| l.set(op.name()));
        let alloc = |limbs: u8| CKKSCiphertext::alloc((n as u32).into(), ((limbs.clamp(1, 10) as usize * b) as u32).into(), (b as u32).into());
        // ---- decide, from the model, what must happen -------------------------------------
        macro_rules! get {
            ($i:expr) => {
                match &regs[$i as usize % 4] {
                    Some(r) => r,
                    None => continue,
                }
            };
        }
        let mut new_reg: Option<(usize, Reg)> = None;
        let mut pred = Pred::Ok;
        #[allow(unused_assignments)]
        let mut got: Option<anyhow::Result<()>> = None;
        match *op {
            Op::Enc { dst, limbs, ld, ptlb, mag_bits, seed } => {
                let ld = (ld as usize).clamp(12, p.ld_max);
                let ptlb = (ptlb as usize).clamp(4, 34);
                // fresh ciphertexts stay within the parameter set's precision k (the evaluation keys hold k + dsize*base2k bits)
                let k_enc = (limbs.clamp(2, 8) as usize).min(p.k / b) * b;
                let prec = CKKSMeta { log_delta: ld, log_budget: ptlb };
                if prec.min_k((b as u32).into()).as_usize() > k_enc || k_enc < ld + ptlb {
                    continue;
                }
                let mag = p2((mag_bits as i64 % (ptlb as i64 - 2)).max(0)) * 0.9;
                let (re, im) = gen_slots(m, mag, seed);
                let mut rnx = CKKSPlaintextVecRnx::<f64>::alloc(n).unwrap();
                cx.encoder.encode_reim(&mut rnx, &re, &im).unwrap();
                let mut pt = alloc_pt_vec_znx((n as u32).into(), (b as u32).into(), prec);
                rnx.to_znx(&mut pt).unwrap();
                let mut ct = alloc((k_enc / b) as u8);
                let mut lay = glwe_layout(&p);
                lay.k = (k_enc as u32).into();
                let enc = EncryptionLayout::new_from_default_sigma(lay).unwrap();
                let sc = sx.get(|| md.ckks_encrypt_sk_tmp_bytes(&ct));
                let r = md.ckks_encrypt_sk(&mut ct, &pt, &cx.sk, &enc, &mut Source::new(seed32(seed, 3)), &mut Source::new(seed32(seed, 4)), sc);
                if let Err(e) = r {
                    return fail(step, op, "unexpected-error", format!("fresh encryption failed: {e}"));
                }
                let lb = k_enc - ld;
                let err = nf * (0.5 * p2(-(ld as i64)) + 21.0 * p2(-(k_enc as i64) + lb as i64) * (1.0 + 0.0)) * 2.0;
                new_reg = Some((dst as usize % 4, Reg { ct, sh: Shadow { re, im, ld, lb, err } }));
                got = Some(Ok(()));
            }
            Op::Bin { kind, dst, a, b: rb, limbs, assign } => {
                // kind 0 add, 1 sub, 2 mul
                let (ra, rbb) = (get!(a), get!(rb));
                let (sa, sb) = (ra.sh.clone(), rbb.sh.clone());
                let dsti = dst as usize % 4;
                let (cap, assign) = if assign { (ra.ct.max_k().as_usize(), true) } else { (limbs.clamp(1, 10) as usize * b, false) };
                let val = |f: &dyn Fn(f64, f64, f64, f64) -> (f64, f64)| -> (Vec<f64>, Vec<f64>) {
                    let mut re = vec![0.0; m];
                    let mut im = vec![0.0; m];
                    for i in 0..m {
                        let (x, y) = f(sa.re[i], sa.im[i], sb.re[i], sb.im[i]);
                        re[i] = x;
                        im[i] = y;
                    }
                    (re, im)
                };
                let mut res_sh: Option<Shadow> = None;
                if kind < 2 {
                    let (ld, lb, off) = if assign {
                        (sa.ld.min(sb.ld), sa.lb.min(sb.lb), 0usize)
                    } else {
                        let off = sa.eff().min(sb.eff()).saturating_sub(cap);
                        (sa.ld.min(sb.ld), sa.lb.min(sb.lb).wrapping_sub(off), off)
                    };
                    if !assign && sa.lb.min(sb.lb) < off {
                        pred = Pred::Err("InsufficientHomomorphicCapacity");
                    } else {
                        let (re, im) = if kind == 0 { val(&|a, b, c, d| (a + c, b + d)) } else { val(&|a, b, c, d| (a - c, b - d)) };
                        // the sum must stay inside the budget
                        let sh = Shadow { re, im, ld, lb, err: sa.err + sb.err + nf * trunc(cap.min(ra.ct.max_k().as_usize().max(rbb.ct.max_k().as_usize()))) * p2(lb as i64) };
                        if sh.mag() * 8.0 >= p2(lb as i64) || ld < 8 {
                            continue;
                        }
                        res_sh = Some(sh);
                    }
                } else {
                    // multiplication
                    let (x, y) = if assign { (&sa, &sb) } else { (&sa, &sb) };
                    match x.lb.min(y.lb).checked_sub(x.ld.max(y.ld)) {
                        None => pred = Pred::Err("MultiplicationPrecisionUnderflow"),
                        Some(lb0) => {
                            let ld = x.ld.min(y.ld);
                            let off = (lb0 + ld).saturating_sub(cap);
                            if lb0 < off {
                                pred = Pred::Err("InsufficientHomomorphicCapacity");
                            } else {
                                let lb = lb0 - off;
                                let (re, im) = val(&|a, b, c, d| (a * c - b * d, a * d + b * c));
                                let (ma, mb) = (sa.mag(), sb.mag());
                                let cap_t = ra.ct.max_k().as_usize().max(rbb.ct.max_k().as_usize());
                                let mn = ra.ct.size().min(rbb.ct.size()) as f64;
                                let tens = 4.0 * nf * mn * p2(b as i64 - 1) * (1.0 + 6.0 * hw + hw * hw) * p2(-(cap_t as i64));
                                let noise = (tens + key_noise(cap_t.div_ceil(b)) + trunc(cap)) * p2(lb as i64) * nf;
                                let (ea, eb) = (sa.err + nf * p2(-(sa.ld as i64)), sb.err + nf * p2(-(sb.ld as i64))); // bits below effective_k are masked off
                                let sh = Shadow { re, im, ld, lb, err: ma * eb + mb * ea + ea * eb + noise };
                                if sh.mag() * 8.0 >= p2(lb as i64) || ld < 8 {
                                    continue;
                                }
                                res_sh = Some(sh);
                            }
                        }
                    }
                }
                // the library asserts that multiplication operands are compact (size == ceil(effective_k / base2k));
                // non-compact operands are outside its documented use (README: compact before multiplying)
                if kind == 2 && (ra.ct.size() != sa.eff().div_ceil(b) || rbb.ct.size() != sb.eff().div_ceil(b)) {
                    continue;
                }
                if assign {
                    if a as usize % 4 == rb as usize % 4 {
                        continue;
                    }
                    let other = regs[rb as usize % 4].take().unwrap();
                    let me = regs[a as usize % 4].as_mut().unwrap();
                    let sc = sx.get(|| match kind {
                        0 => md.ckks_add_tmp_bytes(),
                        1 => md.ckks_sub_tmp_bytes(),
                        _ => md.ckks_mul_tmp_bytes(larger(&me.ct, &other.ct), &cx.tsk),
                    });
                    let r = match kind {
                        0 => md.ckks_add_assign(&mut me.ct, &other.ct, sc),
                        1 => md.ckks_sub_assign(&mut me.ct, &other.ct, sc),
                        _ => md.ckks_mul_assign(&mut me.ct, &other.ct, &cx.tsk, sc),
                    };
                    regs[rb as usize % 4] = Some(other);
                    if r.is_ok() {
                        if let Some(sh) = res_sh {
                            regs[a as usize % 4].as_mut().unwrap().sh = sh;
                        }
                    }
                    got = Some(r);
                    let _ = dsti;
                } else {
                    let mut ct = alloc((cap / b) as u8);
                    let sc = sx.get(|| match kind {
                        0 => md.ckks_add_tmp_bytes(),
                        1 => md.ckks_sub_tmp_bytes(),
                        _ => md.ckks_mul_tmp_bytes(larger(&ct, larger(&ra.ct, &rbb.ct)), &cx.tsk),
                    });
                    let r = match kind {
                        0 => md.ckks_add_into(&mut ct, &ra.ct, &rbb.ct, sc),
                        1 => md.ckks_sub_into(&mut ct, &ra.ct, &rbb.ct, sc),
                        _ => md.ckks_mul_into(&mut ct, &ra.ct, &rbb.ct, &cx.tsk, sc),
                    };
                    if r.is_ok() {
                        if let Some(sh) = res_sh {
                            new_reg = Some((dsti, Reg { ct, sh }));
                        }
                    }
                    got = Some(r);
                }
                classes.push(match (kind, assign) {
                    (0, false) => "add_into",
                    (0, true) => "add_assign",
                    (1, false) => "sub_into",
                    (1, true) => "sub_assign",
                    (_, false) => "mul_into",
                    (_, true) => "mul_assign",
                });
                if sa.ld != sb.ld || sa.lb != sb.lb {
                    classes.push("unequal_operand_meta");
                }
            }
            Op::Un { kind, dst, a, limbs, arg, assign } => {
                // kind: 0 neg, 1 square, 2 mul_pow2, 3 div_pow2, 4 rotate, 5 conjugate, 6 rescale, 7 compact, 8 reallocate
                let ra = get!(a);
                let sa = ra.sh.clone();
                let dsti = dst as usize % 4;
                let cap_a = ra.ct.max_k().as_usize();
                let cap = if assign { cap_a } else { limbs.clamp(1, 10) as usize * b };
                let off = if assign { 0 } else { sa.eff().saturating_sub(cap) };
                let bits = (arg as usize) % 9;
                let mut res_sh: Option<Shadow> = None;
                let rot_k: i64 = [1i64, 2, 5, -3, 4, 7][(arg as usize) % 6];
                let unary_meta = |lb_extra: usize| -> Option<usize> { sa.lb.checked_sub(off + lb_extra) };
                match kind % 9 {
                    0 => match unary_meta(0) {
                        None => pred = Pred::Err("InsufficientHomomorphicCapacity"),
                        Some(lb) => res_sh = Some(Shadow { re: sa.re.iter().map(|x| -x).collect(), im: sa.im.iter().map(|x| -x).collect(), ld: sa.ld, lb, err: sa.err + nf * trunc(cap) * p2(lb as i64) }),
                    },
                    1 => {
                        if ra.ct.size() != sa.eff().div_ceil(b) {
                            continue;
                        }
                        match sa.lb.checked_sub(sa.ld) {
                            None => pred = Pred::Err("MultiplicationPrecisionUnderflow"),
                            Some(lb0) => {
                                let o2 = (lb0 + sa.ld).saturating_sub(cap);
                                if lb0 < o2 {
                                    pred = Pred::Err("InsufficientHomomorphicCapacity");
                                } else {
                                    let lb = lb0 - o2;
                                    let re: Vec<f64> = (0..m).map(|i| sa.re[i] * sa.re[i] - sa.im[i] * sa.im[i]).collect();
                                    let im: Vec<f64> = (0..m).map(|i| 2.0 * sa.re[i] * sa.im[i]).collect();
                                    let tens = 4.0 * nf * ra.ct.size() as f64 * p2(b as i64 - 1) * (1.0 + 6.0 * hw + hw * hw) * p2(-(cap_a as i64));
                                    let noise = (tens + key_noise(cap_a.div_ceil(b)) + trunc(cap)) * p2(lb as i64) * nf;
                                    let ea = sa.err + nf * p2(-(sa.ld as i64));
                                    res_sh = Some(Shadow { re, im, ld: sa.ld, lb, err: 2.0 * sa.mag() * ea + ea * ea + noise });
                                }
                            }
                        }
                    }
                    2 => match unary_meta(0) {
                        None => pred = Pred::Err("InsufficientHomomorphicCapacity"),
                        Some(lb) => {
                            let f = p2(bits as i64);
                            res_sh = Some(Shadow { re: sa.re.iter().map(|x| x * f).collect(), im: sa.im.iter().map(|x| x * f).collect(), ld: sa.ld, lb, err: sa.err * f + nf * trunc(cap) * p2(lb as i64) })
                        }
                    },
                    3 => match unary_meta(bits) {
                        None => pred = Pred::Err("InsufficientHomomorphicCapacity"),
                        Some(lb) => {
                            let f = p2(-(bits as i64));
                            // the in-place form only edits the metadata (log_delta unchanged), the out-of-place form raises log_delta
                            let ld = if assign { sa.ld } else { sa.ld + bits };
                            if ld > p.ld_max + 8 {
                                continue;
                            }
                            res_sh = Some(Shadow { re: sa.re.iter().map(|x| x * f).collect(), im: sa.im.iter().map(|x| x * f).collect(), ld, lb, err: sa.err * f + nf * trunc(cap) * p2(lb as i64) })
                        }
                    },
                    4 => {
                        if !ROTATIONS.contains(&rot_k) {
                            pred = Pred::Err("MissingAutomorphismKey");
                        } else {
                            match unary_meta(0) {
                                None => pred = Pred::Err("InsufficientHomomorphicCapacity"),
                                Some(lb) => {
                                    let idx = |j: usize| ((j as i64 + rot_k).rem_euclid(m as i64)) as usize;
                                    res_sh = Some(Shadow { re: (0..m).map(|j| sa.re[idx(j)]).collect(), im: (0..m).map(|j| sa.im[idx(j)]).collect(), ld: sa.ld, lb, err: sa.err + nf * (key_noise(cap_a.div_ceil(b)) + trunc(cap)) * p2(lb as i64) })
                                }
                            }
                        }
                    }
                    5 => match unary_meta(0) {
                        None => pred = Pred::Err("InsufficientHomomorphicCapacity"),
                        Some(lb) => res_sh = Some(Shadow { re: sa.re.clone(), im: sa.im.iter().map(|x| -x).collect(), ld: sa.ld, lb, err: sa.err + nf * (key_noise(cap_a.div_ceil(b)) + trunc(cap)) * p2(lb as i64) }),
                    },
                    6 => {
                        // rescale by `bits * 3` bits: lowers log_budget, value unchanged
                        let k = bits * 3;
                        let off_r = if assign { 0 } else { sa.eff().saturating_sub(k).saturating_sub(cap) };
                        match sa.lb.checked_sub(k + off_r) {
                            None => pred = Pred::Err("InsufficientHomomorphicCapacity"),
                            Some(lb) => res_sh = Some(Shadow { re: sa.re.clone(), im: sa.im.clone(), ld: sa.ld, lb, err: sa.err + nf * trunc(cap.min(cap_a)) * p2(lb as i64) }),
                        }
                    }
                    7 => res_sh = Some(sa.clone()),
                    _ => {
                        let size = limbs.clamp(1, 10) as usize;
                        if size < sa.eff().div_ceil(b) {
                            pred = Pred::Err("LimbReallocationShrinksBelowMetadata");
                        } else {
                            res_sh = Some(sa.clone());
                        }
                    }
                }
                if let Some(sh) = &res_sh {
                    if sh.mag() * 8.0 >= p2(sh.lb as i64) || sh.ld < 8 {
                        continue;
                    }
                }
                let k9 = kind % 9;
                let conj_key = &cx.atks[&-1];
                if assign || k9 >= 7 {
                    let me = regs[a as usize % 4].as_mut().unwrap();
                    let before = me.ct.meta();
                    let sc = sx.get(|| match k9 {
                        1 => md.ckks_square_tmp_bytes(&me.ct, &cx.tsk),
                        2 => md.ckks_mul_pow2_tmp_bytes(),
                        4 => md.ckks_rotate_tmp_bytes(&me.ct, conj_key),
                        5 => md.ckks_conjugate_tmp_bytes(&me.ct, conj_key),
                        6 => md.ckks_rescale_tmp_bytes(),
                        _ => 0,
                    });
                    let r = match k9 {
                        0 => md.ckks_neg_assign(&mut me.ct),
                        1 => md.ckks_square_assign(&mut me.ct, &cx.tsk, sc),
                        2 => md.ckks_mul_pow2_assign(&mut me.ct, bits, sc),
                        3 => md.ckks_div_pow2_assign(&mut me.ct, bits),
                        4 => md.ckks_rotate_assign(&mut me.ct, rot_k, &cx.atks, sc),
                        5 => md.ckks_conjugate_assign(&mut me.ct, conj_key, sc),
                        6 => md.ckks_rescale_assign(&mut me.ct, bits * 3, sc),
                        7 => md.ckks_compact_limbs(&mut me.ct),
                        _ => md.ckks_reallocate_limbs_checked(&mut me.ct, limbs.clamp(1, 10) as usize),
                    };
                    if r.is_err() && me.ct.meta() != before {
                        return fail(step, op, "metadata-changed-on-error", format!("in-place operation failed but the metadata went from {before:?} to {:?}", me.ct.meta()));
                    }
                    // compaction = "the minimum limb count that still preserves the metadata"; a successful reallocation gives the requested count
                    if r.is_ok() && k9 == 7 {
                        // the copying form must agree with the in-place one
                        match md.ckks_compact_limbs_copy(&me.ct) {
                            Ok(cp) => {
                                use poulpy_hal::layouts::ZnxView;
                                if cp.size() != me.ct.size() || cp.meta() != me.ct.meta() || cp.data().raw() != me.ct.data().raw() {
                                    return fail(step, op, "compact-copy-differs", format!("ckks_compact_limbs_copy of the compacted ciphertext has {} limbs / meta {:?}, the in-place form {} limbs / meta {:?} (or other digits)", cp.size(), cp.meta(), me.ct.size(), me.ct.meta()));
                                }
                            }
                            Err(e) => return fail(step, op, "compact-copy-error", format!("ckks_compact_limbs_copy failed on a ciphertext the in-place form accepted: {e}")),
                        }
                    }
                    if r.is_ok() && k9 == 7 && me.ct.size() != sa.eff().div_ceil(b) {
                        return fail(step, op, "compacted-size-not-minimal", format!("ckks_compact_limbs left {} limbs for log_delta + log_budget = {} bits at base2k = {b} (minimum {})", me.ct.size(), sa.eff(), sa.eff().div_ceil(b)));
                    }
                    if r.is_ok() && k9 == 8 && me.ct.size() != limbs.clamp(1, 10) as usize {
                        return fail(step, op, "reallocated-size-differs", format!("ckks_reallocate_limbs_checked({}) left {} limbs", limbs.clamp(1, 10), me.ct.size()));
                    }
                    if r.is_ok() {
                        if let Some(sh) = res_sh {
                            me.sh = sh;
                        }
                    }
                    got = Some(r);
                } else {
                    let mut ct = alloc((cap / b) as u8);
                    let sc = sx.get(|| match k9 {
                        0 => md.ckks_neg_tmp_bytes(),
                        1 => md.ckks_square_tmp_bytes(larger(&ct, &ra.ct), &cx.tsk),
                        2 => md.ckks_mul_pow2_tmp_bytes(),
                        3 => md.ckks_div_pow2_tmp_bytes(),
                        4 => md.ckks_rotate_tmp_bytes(larger(&ct, &ra.ct), conj_key),
                        5 => md.ckks_conjugate_tmp_bytes(larger(&ct, &ra.ct), conj_key),
                        _ => md.ckks_rescale_tmp_bytes(),
                    });
                    let r = match k9 {
                        0 => md.ckks_neg_into(&mut ct, &ra.ct, sc),
                        1 => md.ckks_square_into(&mut ct, &ra.ct, &cx.tsk, sc),
                        2 => md.ckks_mul_pow2_into(&mut ct, &ra.ct, bits, sc),
                        3 => md.ckks_div_pow2_into(&mut ct, &ra.ct, bits, sc),
                        4 => md.ckks_rotate_into(&mut ct, &ra.ct, rot_k, &cx.atks, sc),
                        5 => md.ckks_conjugate_into(&mut ct, &ra.ct, conj_key, sc),
                        _ => md.ckks_rescale_into(&mut ct, bits * 3, &ra.ct, sc),
                    };
                    if r.is_ok() {
                        if let Some(sh) = res_sh {
                            new_reg = Some((dsti, Reg { ct, sh }));
                        }
                    }
                    got = Some(r);
                }
                classes.push(["neg", "square", "mul_pow2", "div_pow2", "rotate", "conjugate", "rescale", "compact_limbs", "reallocate_limbs"][k9 as usize]);
                if !assign && off > 0 && k9 < 7 {
                    classes.push("destination_smaller_than_natural_result");
                }
            }
            Op::Pt { kind, dst, a, limbs, ld, ptlb, seed, assign } => {
                // kind: 0 add vector, 1 sub vector, 2 mul vector, 3 add constant, 4 mul constant
                let ra = get!(a);
                let sa = ra.sh.clone();
                let dsti = dst as usize % 4;
                let cap_a = ra.ct.max_k().as_usize();
                let cap = if assign { cap_a } else { limbs.clamp(1, 10) as usize * b };
                let ptld = (ld as usize).clamp(8, p.ld_max);
                let ptlb = (ptlb as usize).clamp(3, 10);
                let prec = CKKSMeta { log_delta: ptld, log_budget: ptlb };
                // kind: 0 add vector, 1 sub vector, 2 mul vector, 3 add constant, 4 mul constant, 5 sub constant
                let k5 = kind % 6;
                // vector forms through a caller-built ZNX plaintext whose buffer holds `wide` limbs more than its metadata needs
                let znx_sel = k5 <= 2 && (seed >> 7) & 1 == 1;
                let wide = if znx_sel { ((seed >> 8) % 3) as usize } else { 0 };
                let pt_max_k = (ptld + ptlb + wide * b).next_multiple_of(b);
                let (pre, pim) = gen_slots(m, p2((seed % 3) as i64) * 0.9, seed);
                // quantised plaintext values (what the encoder + to_znx produce, up to N/2 * 2^-ptld)
                // constant forms: (re, im), re only, im only, neither
                let (cre_o, cim): (Option<f64>, Option<f64>) = match (seed >> 3) % 4 {
                    0 => (Some(pre[0]), Some(pim[0])),
                    1 => (Some(pre[0]), None),
                    2 => (None, Some(pim[0])),
                    _ => (None, None),
                };
                let cre = cre_o.unwrap_or(0.0);
                let mut res_sh: Option<Shadow> = None;
                let qerr = nf * p2(-(ptld as i64));
                match k5 {
                    0 | 1 | 3 | 5 => {
                        let off = if assign { 0 } else { sa.eff().saturating_sub(cap) };
                        match sa.lb.checked_sub(off) {
                            None => pred = Pred::Err("InsufficientHomomorphicCapacity"),
                            Some(lb) => {
                                if k5 < 3 && lb + ptld < pt_max_k {
                                    pred = Pred::Err("PlaintextAlignmentImpossible");
                                } else {
                                    let sgn = if k5 == 1 { -1.0 } else { 1.0 };
                                    let (re, im): (Vec<f64>, Vec<f64>) = if k5 == 3 || k5 == 5 {
                                        let sc = if k5 == 5 { -1.0 } else { 1.0 };
                                        (sa.re.iter().map(|x| x + sc * cre).collect(), sa.im.iter().map(|x| x + sc * cim.unwrap_or(0.0)).collect())
                                    } else {
                                        ((0..m).map(|i| sa.re[i] + sgn * pre[i]).collect(), (0..m).map(|i| sa.im[i] + sgn * pim[i]).collect())
                                    };
                                    res_sh = Some(Shadow { re, im, ld: sa.ld, lb, err: sa.err + qerr + nf * trunc(cap) * p2(lb as i64) });
                                }
                            }
                        }
                    }
                    _ => match sa.lb.checked_sub(ptld) {
                        None => pred = Pred::Err("MultiplicationPrecisionUnderflow"),
                        Some(lb0) => {
                            let off = (lb0 + sa.ld).saturating_sub(cap);
                            if lb0 < off {
                                pred = Pred::Err("InsufficientHomomorphicCapacity");
                            } else {
                                let lb = lb0 - off;
                                let (re, im, pmag): (Vec<f64>, Vec<f64>, f64) = if k5 == 4 {
                                    let ci = cim.unwrap_or(0.0);
                                    ((0..m).map(|i| sa.re[i] * cre - sa.im[i] * ci).collect(), (0..m).map(|i| sa.re[i] * ci + sa.im[i] * cre).collect(), cre.hypot(ci))
                                } else {
                                    let pm = pre.iter().zip(pim.iter()).map(|(x, y)| x.hypot(*y)).fold(0.0, f64::max);
                                    ((0..m).map(|i| sa.re[i] * pre[i] - sa.im[i] * pim[i]).collect(), (0..m).map(|i| sa.re[i] * pim[i] + sa.im[i] * pre[i]).collect(), pm)
                                };
                                let mn = ra.ct.size().min(pt_max_k / b) as f64;
                                let conv = 4.0 * nf * mn * p2(b as i64 - 1) * (1.0 + hw) * p2(-(cap.min(cap_a) as i64));
                                let noise = (conv + trunc(cap)) * p2(lb as i64) * nf * 2.0;
                                let ea = sa.err + nf * p2(-(sa.ld as i64));
                                res_sh = Some(Shadow { re, im, ld: sa.ld, lb, err: sa.mag() * qerr + pmag * ea + ea * qerr + noise });
                            }
                        }
                    },
                }
                if let Some(sh) = &res_sh {
                    if sh.mag() * 8.0 >= p2(sh.lb as i64) || sh.ld < 8 {
                        continue;
                    }
                }
                // the plaintext product asserts a compact ciphertext operand
                if k5 == 2 && ra.ct.size() != sa.eff().div_ceil(b) {
                    continue;
                }
                let mut rnx = CKKSPlaintextVecRnx::<f64>::alloc(n).unwrap();
                cx.encoder.encode_reim(&mut rnx, &pre, &pim).unwrap();
                let cst = CKKSPlaintextCstRnx::<f64>::new(cre_o, cim);
                // constant forms: half of the cases hand the library a caller-built ZNX constant (a constant without any part
                // stays with the RNX form, which has its own documented meaning for it)
                let cznx: Option<poulpy_ckks::layouts::plaintext::CKKSPlaintextCstZnx> = if k5 >= 3 && (seed >> 7) & 1 == 1 && (cre_o.is_some() || cim.is_some()) {
                    use poulpy_ckks::layouts::plaintext::CKKSConstPlaintextConversion;
                    if k5 == 4 {
                        cst.to_znx((b as u32).into(), prec).ok()
                    } else {
                        // k = dst.log_budget() + log_delta, dst after the alignment shift into its buffer
                        let off = if assign { 0 } else { ra.ct.effective_k().saturating_sub(cap) };
                        ra.ct.log_budget().checked_sub(off).and_then(|lb| cst.to_znx_at_k((b as u32).into(), lb + prec.log_delta, prec.log_delta).ok())
                    }
                } else {
                    None
                };
                // vector forms: also through a caller-built ZNX plaintext, whose buffer may hold more limbs than its
                // metadata needs (alloc with a larger budget + set_meta_checked, as documented for manual buffers)
                let znx_form: Option<poulpy_ckks::layouts::plaintext::CKKSPlaintextVecZnx<Vec<u8>>> = if znx_sel {
                    let mut z = alloc_pt_vec_znx((n as u32).into(), (b as u32).into(), CKKSMeta { log_delta: ptld, log_budget: ptlb + wide * b });
                    z.set_meta_checked(prec).unwrap();
                    rnx.to_znx(&mut z).unwrap();
                    classes.push(if wide == 0 { "znx_plaintext_minimal_buffer" } else { "znx_plaintext_wider_buffer" });
                    Some(z)
                } else {
                    None
                };
                if let Some(z) = &znx_form {
                    // name the call as it is made (the step's generic name is the RNX form)
                    LAST_OP.with(|l| {
                        l.set(match (k5, assign, wide > 0) {
                            (0, false, _) => "ckks_add_pt_vec_znx_into",
                            (0, true, _) => "ckks_add_pt_vec_znx_assign",
                            (1, false, _) => "ckks_sub_pt_vec_znx_into",
                            (1, true, _) => "ckks_sub_pt_vec_znx_assign",
                            (_, false, false) => "ckks_mul_pt_vec_znx_into",
                            (_, true, false) => "ckks_mul_pt_vec_znx_assign",
                            (_, false, true) => "ckks_mul_pt_vec_znx_into[plaintext_buffer_wider_than_its_metadata]",
                            (_, true, true) => "ckks_mul_pt_vec_znx_assign[plaintext_buffer_wider_than_its_metadata]",
                        })
                    });
                    if assign {
                        let me = regs[a as usize % 4].as_mut().unwrap();
                        let before = me.ct.meta();
                        let sc = sx.get(|| match k5 {
                            0 => md.ckks_add_pt_vec_znx_tmp_bytes(),
                            1 => md.ckks_sub_pt_vec_znx_tmp_bytes(),
                            _ => md.ckks_mul_pt_vec_znx_tmp_bytes(&me.ct, &me.ct, &prec),
                        });
                        let r = match k5 {
                            0 => md.ckks_add_pt_vec_znx_assign(&mut me.ct, z, sc),
                            1 => md.ckks_sub_pt_vec_znx_assign(&mut me.ct, z, sc),
                            _ => md.ckks_mul_pt_vec_znx_assign(&mut me.ct, z, sc),
                        };
                        if r.is_err() && me.ct.meta() != before {
                            return fail(step, op, "metadata-changed-on-error", format!("in-place operation (ZNX plaintext) failed but the metadata went from {before:?} to {:?}", me.ct.meta()));
                        }
                        if r.is_ok() {
                            if let Some(sh) = res_sh {
                                me.sh = sh;
                            }
                        }
                        got = Some(r);
                    } else {
                        let mut ct = alloc((cap / b) as u8);
                        let sc = sx.get(|| match k5 {
                            0 => md.ckks_add_pt_vec_znx_tmp_bytes(),
                            1 => md.ckks_sub_pt_vec_znx_tmp_bytes(),
                            _ => md.ckks_mul_pt_vec_znx_tmp_bytes(&ct, &ra.ct, &prec),
                        });
                        let r = match k5 {
                            0 => md.ckks_add_pt_vec_znx_into(&mut ct, &ra.ct, z, sc),
                            1 => md.ckks_sub_pt_vec_znx_into(&mut ct, &ra.ct, z, sc),
                            _ => md.ckks_mul_pt_vec_znx_into(&mut ct, &ra.ct, z, sc),
                        };
                        if r.is_ok() {
                            if let Some(sh) = res_sh {
                                new_reg = Some((dsti, Reg { ct, sh }));
                            }
                        }
                        got = Some(r);
                    }
                } else if let Some(cz) = cznx {
                    // constant forms through a caller-built ZNX constant, quantised as documented: aligned to the
                    // destination's remaining capacity for add / sub (to_znx_at_k), natural precision for the product (to_znx)
                    classes.push("znx_constant");
                    LAST_OP.with(|l| {
                        l.set(match (k5, assign) {
                            (3, false) => "ckks_add_pt_const_znx_into",
                            (3, true) => "ckks_add_pt_const_znx_assign",
                            (5, false) => "ckks_sub_pt_const_znx_into",
                            (5, true) => "ckks_sub_pt_const_znx_assign",
                            (_, false) => "ckks_mul_pt_const_znx_into",
                            (_, true) => "ckks_mul_pt_const_znx_assign",
                        })
                    });
                    if assign {
                        let me = regs[a as usize % 4].as_mut().unwrap();
                        let before = me.ct.meta();
                        let sc = sx.get(|| match k5 {
                            3 => md.ckks_add_pt_const_tmp_bytes(),
                            5 => md.ckks_sub_pt_const_tmp_bytes(),
                            _ => md.ckks_mul_pt_const_tmp_bytes(&me.ct, &me.ct, &prec),
                        });
                        let r = match k5 {
                            3 => md.ckks_add_pt_const_znx_assign(&mut me.ct, &cz, sc),
                            5 => md.ckks_sub_pt_const_znx_assign(&mut me.ct, &cz, sc),
                            _ => md.ckks_mul_pt_const_znx_assign(&mut me.ct, &cz, sc),
                        };
                        if r.is_err() && me.ct.meta() != before {
                            return fail(step, op, "metadata-changed-on-error", format!("in-place operation (ZNX constant) failed but the metadata went from {before:?} to {:?}", me.ct.meta()));
                        }
                        if r.is_ok() {
                            if let Some(sh) = res_sh {
                                me.sh = sh;
                            }
                        }
                        got = Some(r);
                    } else {
                        let mut ct = alloc((cap / b) as u8);
                        let sc = sx.get(|| match k5 {
                            3 => md.ckks_add_pt_const_tmp_bytes(),
                            5 => md.ckks_sub_pt_const_tmp_bytes(),
                            _ => md.ckks_mul_pt_const_tmp_bytes(&ct, &ra.ct, &prec),
                        });
                        let r = match k5 {
                            3 => md.ckks_add_pt_const_znx_into(&mut ct, &ra.ct, &cz, sc),
                            5 => md.ckks_sub_pt_const_znx_into(&mut ct, &ra.ct, &cz, sc),
                            _ => md.ckks_mul_pt_const_znx_into(&mut ct, &ra.ct, &cz, sc),
                        };
                        if r.is_ok() {
                            if let Some(sh) = res_sh {
                                new_reg = Some((dsti, Reg { ct, sh }));
                            }
                        }
                        got = Some(r);
                    }
                } else if assign {
                    let me = regs[a as usize % 4].as_mut().unwrap();
                    let before = me.ct.meta();
                    let sc = sx.get(|| match k5 {
                        0 => md.ckks_add_pt_vec_rnx_tmp_bytes(&me.ct, &me.ct, &prec),
                        1 => md.ckks_sub_pt_vec_rnx_tmp_bytes(&me.ct, &me.ct, &prec),
                        2 => md.ckks_mul_pt_vec_rnx_tmp_bytes(&me.ct, &me.ct, &prec),
                        3 => md.ckks_add_pt_const_tmp_bytes(),
                        5 => md.ckks_sub_pt_const_tmp_bytes(),
                        _ => md.ckks_mul_pt_const_tmp_bytes(&me.ct, &me.ct, &prec),
                    });
                    let r = match k5 {
                        0 => md.ckks_add_pt_vec_rnx_assign(&mut me.ct, &rnx, prec, sc),
                        1 => md.ckks_sub_pt_vec_rnx_assign(&mut me.ct, &rnx, prec, sc),
                        2 => md.ckks_mul_pt_vec_rnx_assign(&mut me.ct, &rnx, prec, sc),
                        3 => md.ckks_add_pt_const_rnx_assign(&mut me.ct, &cst, prec, sc),
                        5 => md.ckks_sub_pt_const_rnx_assign(&mut me.ct, &cst, prec, sc),
                        _ => md.ckks_mul_pt_const_rnx_assign(&mut me.ct, &cst, prec, sc),
                    };
                    if r.is_err() && me.ct.meta() != before {
                        return fail(step, op, "metadata-changed-on-error", format!("in-place operation failed but the metadata went from {before:?} to {:?}", me.ct.meta()));
                    }
                    if r.is_ok() {
                        if let Some(sh) = res_sh {
                            me.sh = sh;
                        }
                    }
                    got = Some(r);
                } else {
                    let mut ct = alloc((cap / b) as u8);
                    let sc = sx.get(|| match k5 {
                        0 => md.ckks_add_pt_vec_rnx_tmp_bytes(&ct, &ra.ct, &prec),
                        1 => md.ckks_sub_pt_vec_rnx_tmp_bytes(&ct, &ra.ct, &prec),
                        2 => md.ckks_mul_pt_vec_rnx_tmp_bytes(&ct, &ra.ct, &prec),
                        3 => md.ckks_add_pt_const_tmp_bytes(),
                        5 => md.ckks_sub_pt_const_tmp_bytes(),
                        _ => md.ckks_mul_pt_const_tmp_bytes(&ct, &ra.ct, &prec),
                    });
                    let r = match k5 {
                        0 => md.ckks_add_pt_vec_rnx_into(&mut ct, &ra.ct, &rnx, prec, sc),
                        1 => md.ckks_sub_pt_vec_rnx_into(&mut ct, &ra.ct, &rnx, prec, sc),
                        2 => md.ckks_mul_pt_vec_rnx_into(&mut ct, &ra.ct, &rnx, prec, sc),
                        3 => md.ckks_add_pt_const_rnx_into(&mut ct, &ra.ct, &cst, prec, sc),
                        5 => md.ckks_sub_pt_const_rnx_into(&mut ct, &ra.ct, &cst, prec, sc),
                        _ => md.ckks_mul_pt_const_rnx_into(&mut ct, &ra.ct, &cst, prec, sc),
                    };
                    if r.is_ok() {
                        if let Some(sh) = res_sh {
                            new_reg = Some((dsti, Reg { ct, sh }));
                        }
                    }
                    got = Some(r);
                }
                classes.push(["add_pt_vec", "sub_pt_vec", "mul_pt_vec", "add_pt_const", "mul_pt_const", "sub_pt_const"][k5 as usize]);
            }
            Op::Align { a, b: rb } => {
                if a as usize % 4 == rb as usize % 4 {
                    continue;
                }
                let (x, y) = (get!(a).sh.clone(), get!(rb).sh.clone());
                let mut ra = regs[a as usize % 4].take().unwrap();
                let mut rbb = regs[rb as usize % 4].take().unwrap();
                let sc = sx.get(|| md.ckks_align_tmp_bytes());
                let r = md.ckks_align_assign(&mut ra.ct, &mut rbb.ct, sc);
                let lb = x.lb.min(y.lb);
                if r.is_ok() {
                    ra.sh.lb = lb;
                    rbb.sh.lb = lb;
                    ra.sh.err += nf * trunc(ra.ct.max_k().as_usize()) * p2(lb as i64);
                    rbb.sh.err += nf * trunc(rbb.ct.max_k().as_usize()) * p2(lb as i64);
                }
                regs[a as usize % 4] = Some(ra);
                regs[rb as usize % 4] = Some(rbb);
                got = Some(r);
                classes.push("align");
            }
        }
        // ---- compare the library's answer with the model ------------------------------------
        let r = match got {
            Some(r) => r,
            None => continue,
        };
        executed += 1;
        match (&r, &pred) {
            (Ok(()), Pred::Err(k)) => return fail(step, op, "success-where-an-error-is-due", format!("the model requires the error {k} (operand metadata do not allow the step), the library returned Ok")),
            (Err(e), Pred::Ok) => return fail(step, op, "error-where-success-is-due", format!("the library returned the error `{e}` ({}) for a step the metadata algebra allows", err_kind(e))),
            (Err(e), Pred::Err(k)) => {
                if err_kind(e) != *k {
                    return fail(step, op, "wrong-error-kind", format!("expected {k}, got {} (`{e}`)", err_kind(e)));
                }
                errors_seen += 1;
                classes.push("error_path");
                continue;
            }
            (Ok(()), Pred::Ok) => {}
        }
        if let Some((i, r)) = new_reg {
            regs[i] = Some(r);
        }
        // metadata + invariant + values of every live register touched by this step
        for (ri, reg) in regs.iter().enumerate() {
            let Some(reg) = reg else { continue };
            let (ld, lb) = (reg.ct.log_delta(), reg.ct.log_budget());
            if (ld, lb) != (reg.sh.ld, reg.sh.lb) {
                return fail(step, op, "metadata-differs-from-model", format!("register {ri}: library reports log_delta={ld} log_budget={lb}, the bit-level algebra gives log_delta={} log_budget={}", reg.sh.ld, reg.sh.lb));
            }
            if ld + lb > reg.ct.max_k().as_usize() {
                return fail(step, op, "metadata-exceeds-stored-precision", format!("register {ri}: log_delta + log_budget = {} > stored precision {} bits", ld + lb, reg.ct.max_k().as_usize()));
            }
        }
        // decrypt + decode the registers (cheap at this ring size)
        for (ri, reg) in regs.iter().enumerate() {
            let Some(reg) = reg else { continue };
            let sh = &reg.sh;
            // the actual value may sit anywhere within the error bound of the shadow: it has to fit the extraction budget
            let need = ((sh.mag() + 2.0 * sh.err).max(1.0).log2().ceil() as usize) + 3;
            // extraction budget: up to 110 bits in total, so that both integer widths of the decoder are exercised
            // the plaintext may ask for another scale than the ciphertext's (the extraction rule only involves the
            // ciphertext's budget and the plaintext's own metadata): finer (+9), coarser (-6) or equal
            let dd: i64 = [0i64, 9, -6, 0][(ri + c.ops.len()) % 4];
            let pld = ((sh.ld as i64 + dd).clamp(8, 53)) as usize;
            let dlb = sh.lb.min(110usize.saturating_sub(pld));
            if dlb < need || sh.ld > 53 {
                continue;
            }
            // a plaintext that asks for more integer bits than the ciphertext's budget must be refused
            if (ri + 2 * c.ops.len()) % 5 == 0 {
                let mut too_wide = alloc_pt_vec_znx((n as u32).into(), (b as u32).into(), CKKSMeta { log_delta: pld, log_budget: sh.lb + 1 + (ri % 3) });
                match md.ckks_decrypt(&mut too_wide, &reg.ct, &cx.sk, sx.roomy()) {
                    Ok(()) => return fail(step, op, "success-where-an-error-is-due", format!("register {ri}: ckks_decrypt into a plaintext with log_budget {} > the ciphertext's {} (plaintext log_delta {pld}, ciphertext log_delta {}) returned Ok", sh.lb + 1 + (ri % 3), sh.lb, sh.ld)),
                    Err(e) => {
                        if err_kind(&e) != "PlaintextAlignmentImpossible" {
                            return fail(step, op, "wrong-error-kind", format!("register {ri}: ckks_decrypt into a too wide plaintext: expected PlaintextAlignmentImpossible, got {} (`{e}`)", err_kind(&e)));
                        }
                    }
                }
                classes.push("decrypt_into_too_wide_plaintext_refused");
            }
            let mut pt = alloc_pt_vec_znx((n as u32).into(), (b as u32).into(), CKKSMeta { log_delta: pld, log_budget: dlb });
            // (exact-scratch runs: on a window of exactly ckks_decrypt_tmp_bytes)
            if let Err(e) = md.ckks_decrypt(&mut pt, &reg.ct, &cx.sk, sx.op("ckks_decrypt", || md.ckks_decrypt_tmp_bytes(&reg.ct))) {
                return fail(step, op, "decrypt-error", format!("register {ri}: ckks_decrypt into a plaintext of (log_delta {pld}, log_budget {dlb}) from a ciphertext of (log_delta {}, log_budget {}) failed: {e}", sh.ld, sh.lb));
            }
            if pld != sh.ld {
                classes.push("decrypt_at_another_scale");
            }
            let mut rnx = CKKSPlaintextVecRnx::<f64>::alloc(n).unwrap();
            // a decrypted value far outside the expected magnitude overflows the i64 decoder
            if let Err(pn) = pzv_common::driver::guarded(|| rnx.decode_from_znx(&pt).unwrap()) {
                use poulpy_hal::layouts::ZnxView;
                let top: Vec<i64> = pt.data().at(0, 0).iter().take(4).copied().collect();
                return fail(step, op, "decoded-slots-differ", format!("register {ri}: the decrypted plaintext does not fit the expected magnitude (decoder: {pn}); top limb starts with {top:?}, expected |slot| <= {:.3e} at log_delta={} (extraction budget {dlb} bits)", sh.mag(), sh.ld));
            }
            let (mut re, mut im) = (vec![0.0; m], vec![0.0; m]);
            cx.encoder.decode_reim(&rnx, &mut re, &mut im).unwrap();
            let tol = 2.0 * sh.err + nf * p2(-(sh.ld.min(pld) as i64)) * 4.0 + sh.mag() * 1e-12;
            let rel = tol / sh.mag().max(1e-3);
            if rel <= p2(-10) {
                informative += 1;
                classes.push("tolerance<=2^-10_of_magnitude");
            } else if rel <= p2(-4) {
                informative += 1;
                classes.push("tolerance_2^-10..2^-4_of_magnitude");
            } else {
                classes.push("tolerance>2^-4_of_magnitude(vacuous)");
            }
            for i in 0..m {
                let d = (re[i] - sh.re[i]).hypot(im[i] - sh.im[i]);
                if !(d <= tol) {
                    return fail(
                        step,
                        op,
                        "decoded-slots-differ",
                        format!("register {ri} slot {i}: decrypted ({:.9e}, {:.9e}) vs program on complex numbers ({:.9e}, {:.9e}): |diff| = {d:.3e} > tolerance {tol:.3e} (2^-log_delta = {:.3e}; log_delta={} log_budget={})", re[i], im[i], sh.re[i], sh.im[i], p2(-(sh.ld as i64)), sh.ld, sh.lb),
                    );
                }
            }
        }
    }
    if executed >= 3 {
        classes.push("program_len>=3");
    }
    if errors_seen > 0 {
        classes.push("has_error_step");
    }
    for reg in regs.iter() {
        dump.push(reg.as_ref().map(|r| {
            use poulpy_hal::layouts::ZnxView;
            (r.ct.log_delta(), r.ct.log_budget(), r.ct.data().raw().to_vec())
        }));
    }
    classes.sort();
    classes.dedup();
    Verdict::pass(executed >= 2 && informative >= 1, &classes)
}

/// C12 (CKKS layer): the same program three times - with ample scratch, and twice with every
/// library call given a window of exactly the bytes its own `*_tmp_bytes` query returns (two
/// garbage fills).  Only programs the C16 oracle accepts are audited.
pub fn run_c12(c: &Case) -> Verdict {
    use pzv_common::driver::{guarded, panic_sig};
    let cx = ctx(c.pset as usize % 2);
    let mut s0 = Sx::new(false, 0, cx.scratch_bytes);
    let (v0, d0) = match guarded(|| run_program_sx(c, &mut s0)) {
        Ok(x) => x,
        Err(_) => return Verdict::pass(false, &[B_NAME, "skipped:reference_run_fails(C16)"]),
    };
    let classes0 = match &v0 {
        Verdict::Pass(i) => i.classes.clone(),
        Verdict::Fail { .. } => return Verdict::pass(false, &[B_NAME, "skipped:reference_run_fails(C16)"]),
    };
    let mut nonzero = 0usize;
    for fill in [0x1111_2222_3333_4444u64, 0xDEAD_BEEF_0BAD_F00D] {
        let mut sx = Sx::new(true, fill, cx.scratch_bytes);
        match guarded(|| run_program_sx(c, &mut sx)) {
            Err(p) => {
                let op = LAST_OP.with(|l| l.get());
                return Verdict::fail(format!("{op}|exact-scratch-panic|{}", panic_sig(&p)), format!("backend={B_NAME} {op}: panicked with a scratch window of exactly the bytes of its own *_tmp_bytes query (the same program runs with ample scratch): {p}\ncase={c:?}"));
            }
            Ok((v, d)) => {
                let op = LAST_OP.with(|l| l.get());
                if sx.guard_damaged {
                    return Verdict::fail("ckks|guard-damaged", format!("backend={B_NAME}: bytes outside an exact scratch window were modified (last op {op})\ncase={c:?}"));
                }
                if let Verdict::Fail { sig, detail } = v {
                    return Verdict::fail(format!("{}|result-depends-on-scratch-size-or-content", sig.split('|').next().unwrap_or("")), format!("backend={B_NAME}: the program passes the C16 oracle with ample scratch and fails it with exact scratch windows: {sig}: {detail}"));
                }
                if d != d0 {
                    return Verdict::fail("ckks|result-depends-on-scratch-size-or-content", format!("backend={B_NAME}: final registers differ between ample scratch and exact garbage-filled scratch windows\ncase={c:?}"));
                }
                nonzero = nonzero.max(sx.nonzero_windows);
            }
        }
    }
    // "the maximum over a set of operations serves all of them": every call of the program on a window of exactly
    // ckks_all_ops_with_atk_tmp_bytes (largest ciphertext layout, the keys, the largest plaintext precision of the harness)
    {
        let mut sx = Sx::new(true, 0x0A11_0B5A_11AA_77EE, cx.scratch_bytes);
        sx.fixed = Some(cx.scratch_bytes - (1 << 20));
        match guarded(|| run_program_sx(c, &mut sx)) {
            Err(p) => {
                let op = LAST_OP.with(|l| l.get());
                return Verdict::fail(format!("{op}|all-ops-scratch-panic|{}", panic_sig(&p)), format!("backend={B_NAME} {op}: panicked with a scratch window of exactly ckks_all_ops_with_atk_tmp_bytes ({} bytes; the same program runs with ample scratch): {p}\ncase={c:?}", cx.scratch_bytes - (1 << 20)));
            }
            Ok((v, d)) => {
                if sx.guard_damaged {
                    return Verdict::fail("ckks|guard-damaged", format!("backend={B_NAME}: bytes outside the all-ops scratch window were modified\ncase={c:?}"));
                }
                if matches!(v, Verdict::Fail { .. }) || d != d0 {
                    return Verdict::fail("ckks|result-depends-on-scratch-size-or-content", format!("backend={B_NAME}: the program gives another result on windows of exactly ckks_all_ops_with_atk_tmp_bytes than on ample scratch\ncase={c:?}"));
                }
            }
        }
    }
    let mut cl: Vec<&str> = classes0.iter().map(|x| x.as_str()).filter(|x| !x.starts_with("tolerance")).collect();
    if nonzero >= 2 {
        cl.push("exact_windows>=2");
    }
    Verdict::pass(nonzero >= 1, &cl)
}

/// C12 (CKKS layer), composite operations: the composite call under test once on roomy scratch and twice on a window of
/// exactly its own query (two fills).  The C16 oracle of the case (bit identity with the chain of primitives, budget
/// algebra, decoded slots) must give the same verdict in the three runs.
pub fn run_c12_composite(c: &CompCase) -> Verdict {
    use pzv_common::driver::{guarded, panic_sig};
    let cx = ctx(c.pset as usize % 2);
    let mut s0 = Sx::new(false, 0, cx.scratch_bytes);
    let v0 = match guarded(|| run_composite_sx(c, &mut s0)) {
        Ok(v) => v,
        Err(_) => return Verdict::pass(false, &[B_NAME, "skipped:reference_run_fails(C16)"]),
    };
    let classes0 = match &v0 {
        Verdict::Pass(i) => i.classes.clone(),
        Verdict::Fail { .. } => return Verdict::pass(false, &[B_NAME, "skipped:reference_run_fails(C16)"]),
    };
    let mut nonzero = 0usize;
    for fill in [0x1111_2222_3333_4444u64, 0xDEAD_BEEF_0BAD_F00D] {
        let mut sx = Sx::new(true, fill, cx.scratch_bytes);
        LAST_OP.with(|l| l.set("composite"));
        let r = guarded(|| run_composite_sx(c, &mut sx));
        let op = LAST_OP.with(|l| l.get());
        match r {
            Err(p) => return Verdict::fail(format!("{op}|exact-scratch-panic|{}", panic_sig(&p)), format!("backend={B_NAME} {op}: panicked with a scratch window of exactly the bytes of its own *_tmp_bytes query (the same call runs with ample scratch): {p}\ncase={c:?}")),
            Ok(v) => {
                sx.finish();
                if sx.guard_damaged {
                    return Verdict::fail(format!("{op}|guard-damaged"), format!("backend={B_NAME}: bytes outside the exact scratch window of {op} were modified\ncase={c:?}"));
                }
                if let Verdict::Fail { sig, detail } = v {
                    return Verdict::fail(format!("{op}|result-depends-on-scratch-size-or-content"), format!("backend={B_NAME}: the case passes the C16 oracle with ample scratch and fails it when {op} gets exactly its queried bytes: {sig}: {detail}"));
                }
                nonzero = nonzero.max(sx.nonzero_windows);
            }
        }
    }
    let cl: Vec<&str> = classes0.iter().map(|x| x.as_str()).collect();
    Verdict::pass(nonzero >= 1, &cl)
}

/// C10 (CKKS layer): the program with the FFT64 parameter set of the case on this backend; returns the C16 verdict and the final registers.
pub fn run_fft_params(c: &Case) -> (Verdict, Vec<Option<(usize, usize, Vec<i64>)>>) {
    let cx = ctx(c.pset as usize % 2 + 2);
    let mut sx = Sx::new(false, 0, cx.scratch_bytes);
    sx.fft_params = true;
    run_program_sx(c, &mut sx)
}

// ---------------------------------------------------------------------------------------------
// composite operations (C16): multiply-add / multiply-subtract, sums, dot products, products of many
// ---------------------------------------------------------------------------------------------

fn fresh_reg(cx: &Ctx, sx: &mut Sx, limbs: u8, ld: u8, ptlb: u8, mag_bits: u8, seed: u64) -> Option<Reg> {
    use poulpy_ckks::leveled::CKKSEncrypt;
    let p = cx.p;
    let (n, b) = (p.n, p.base2k);
    let m = n / 2;
    let ld = (ld as usize).clamp(12, p.ld_max);
    let ptlb = (ptlb as usize).clamp(4, 12);
    let k_enc = (limbs.clamp(2, 8) as usize).min(p.k / b) * b;
    let prec = CKKSMeta { log_delta: ld, log_budget: ptlb };
    if prec.min_k((b as u32).into()).as_usize() > k_enc || k_enc < ld + ptlb {
        return None;
    }
    let mag = p2((mag_bits as i64 % (ptlb as i64 - 2)).max(0)) * 0.9;
    let (re, im) = gen_slots(m, mag, seed);
    let mut rnx = CKKSPlaintextVecRnx::<f64>::alloc(n).unwrap();
    cx.encoder.encode_reim(&mut rnx, &re, &im).unwrap();
    let mut pt = alloc_pt_vec_znx((n as u32).into(), (b as u32).into(), prec);
    rnx.to_znx(&mut pt).unwrap();
    let mut ct = CKKSCiphertext::alloc((n as u32).into(), (k_enc as u32).into(), (b as u32).into());
    let mut lay = glwe_layout(&p);
    lay.k = (k_enc as u32).into();
    let enc = EncryptionLayout::new_from_default_sigma(lay).unwrap();
    cx.module.ckks_encrypt_sk(&mut ct, &pt, &cx.sk, &enc, &mut Source::new(seed32(seed, 3)), &mut Source::new(seed32(seed, 4)), sx.roomy()).ok()?;
    let lb = k_enc - ld;
    let nf = n as f64;
    let err = nf * (0.5 * p2(-(ld as i64)) + 21.0 * p2(-(k_enc as i64) + lb as i64)) * 2.0;
    Some(Reg { ct, sh: Shadow { re, im, ld, lb, err } })
}

/// decrypts and decodes `ct` at its own metadata; None when the value cannot be extracted in f64
fn slots_of(cx: &Ctx, sx: &mut Sx, ct: &CKKSCiphertext<Vec<u8>>, mag_hint: f64) -> Option<(Vec<f64>, Vec<f64>)> {
    let p = cx.p;
    let (n, b) = (p.n, p.base2k);
    let m = n / 2;
    let (ld, lb) = (ct.log_delta(), ct.log_budget());
    let need = (mag_hint.max(1.0).log2().ceil() as usize) + 3;
    let dlb = lb.min(110usize.saturating_sub(ld));
    if dlb < need || ld > 53 {
        return None;
    }
    let mut pt = alloc_pt_vec_znx((n as u32).into(), (b as u32).into(), CKKSMeta { log_delta: ld, log_budget: dlb });
    cx.module.ckks_decrypt(&mut pt, ct, &cx.sk, sx.roomy()).ok()?;
    let mut rnx = CKKSPlaintextVecRnx::<f64>::alloc(n).unwrap();
    pzv_common::driver::guarded(|| rnx.decode_from_znx(&pt).unwrap()).ok()?;
    let (mut re, mut im) = (vec![0.0; m], vec![0.0; m]);
    cx.encoder.decode_reim(&rnx, &mut re, &mut im).unwrap();
    Some((re, im))
}

fn raw_of(ct: &CKKSCiphertext<Vec<u8>>) -> (usize, usize, Vec<i64>) {
    use poulpy_hal::layouts::ZnxView;
    (ct.log_delta(), ct.log_budget(), ct.data().raw().to_vec())
}

/// the two ciphertexts denote the same torus elements (their digits may differ by carries)
fn same_torus(x: &CKKSCiphertext<Vec<u8>>, y: &CKKSCiphertext<Vec<u8>>, b: usize) -> bool {
    use poulpy_hal::layouts::{ZnxInfos, ZnxView};
    let (dx, dy) = (x.data(), y.data());
    if dx.cols() != dy.cols() || dx.size() != dy.size() || dx.n() != dy.n() {
        return false;
    }
    for col in 0..dx.cols() {
        for i in 0..dx.n() {
            let mut carry: i128 = 0;
            for j in (0..dx.size()).rev() {
                let t = dx.at(col, j)[i] as i128 - dy.at(col, j)[i] as i128 + carry;
                if t.rem_euclid(1i128 << b) != 0 {
                    return false;
                }
                carry = t >> b;
            }
        }
    }
    true
}

fn same_result(x: &anyhow::Result<()>, y: &anyhow::Result<()>) -> bool {
    match (x, y) {
        (Ok(()), Ok(())) => true,
        (Err(a), Err(b)) => err_kind(a) == err_kind(b),
        _ => false,
    }
}

/// C06 at the CKKS layer: ckks_encrypt_sk takes (mask source, error source): the mask columns depend on the mask seed only,
/// the body follows the error seed, and the routine is a deterministic function of its seeds
pub fn run_enc_seeds(c: &EncCase) -> Verdict {
    use poulpy_ckks::leveled::CKKSEncrypt;
    use poulpy_hal::layouts::{ZnxInfos, ZnxView};
    let cx = ctx(c.pset as usize % 2);
    let p = cx.p;
    let (n, b) = (p.n, p.base2k);
    let mut sx = Sx::new(false, 0, cx.scratch_bytes);
    let k_enc = (c.limbs.clamp(2, 8) as usize).min(p.k / b) * b;
    let prec = CKKSMeta { log_delta: 12, log_budget: 4 };
    if prec.min_k((b as u32).into()).as_usize() > k_enc {
        return Verdict::pass(false, &["ckks_encrypt_sk", "skipped:plaintext_wider_than_ciphertext"]);
    }
    let m = n / 2;
    let (re, im) = gen_slots(m, 0.9, c.seed);
    let mut rnx = CKKSPlaintextVecRnx::<f64>::alloc(n).unwrap();
    cx.encoder.encode_reim(&mut rnx, &re, &im).unwrap();
    let mut pt = alloc_pt_vec_znx((n as u32).into(), (b as u32).into(), prec);
    rnx.to_znx(&mut pt).unwrap();
    let mut lay = glwe_layout(&p);
    lay.k = (k_enc as u32).into();
    let enc = EncryptionLayout::new_from_default_sigma(lay).unwrap();
    let mut run = |xa: u64, xe: u64| -> Option<(Vec<i64>, Vec<i64>)> {
        let mut ct = CKKSCiphertext::alloc((n as u32).into(), (k_enc as u32).into(), (b as u32).into());
        cx.module.ckks_encrypt_sk(&mut ct, &pt, &cx.sk, &enc, &mut Source::new(seed32(c.seed, xa)), &mut Source::new(seed32(c.seed, xe)), sx.roomy()).ok()?;
        let d = ct.data();
        let (mut body, mut mask) = (vec![], vec![]);
        for j in 0..d.size() {
            body.extend_from_slice(d.at(0, j));
            for col in 1..d.cols() {
                mask.extend_from_slice(d.at(col, j));
            }
        }
        Some((body, mask))
    };
    let (Some(r1), Some(r1b), Some(r2), Some(r3)) = (run(3, 4), run(3, 4), run(3, 5), run(6, 4)) else {
        return Verdict::fail("ckks_encrypt_sk|encryption-error", format!("backend={B_NAME}: ckks_encrypt_sk refused a plaintext that fits the ciphertext\ncase={c:?}"));
    };
    let fail = |what: &str, d: &str| Verdict::fail(format!("ckks_encrypt_sk|{what}"), format!("backend={B_NAME} ckks_encrypt_sk(.., source_xa, source_xe, ..): {d}\ncase={c:?}"));
    if r1 != r1b {
        return fail("not-deterministic", "two runs with the same seeds differ");
    }
    if r1.1 != r2.1 {
        return fail("mask-depends-on-error-seed", "same mask seed, other error seed: the mask columns differ");
    }
    if r1.0 == r2.0 {
        return fail("body-independent-of-error-seed", "same mask seed, other error seed: the body is unchanged");
    }
    if r1.1 == r3.1 {
        return fail("mask-independent-of-mask-seed", "other mask seed, same error seed: the mask columns are unchanged");
    }
    Verdict::pass(true, &["ckks_encrypt_sk", B_NAME])
}

pub fn run_composite(c: &CompCase) -> Verdict {
    let cx = ctx(c.pset as usize % 2);
    let mut sx = Sx::new(false, 0, cx.scratch_bytes);
    run_composite_sx(c, &mut sx)
}

/// `sx` decides what the composite call under test gets (roomy scratch, or exactly its own query); the reference
/// chains through the primitives always run on roomy scratch.
pub fn run_composite_sx(c: &CompCase, sx: &mut Sx) -> Verdict {
    use poulpy_ckks::leveled::{CKKSAddManyOps, CKKSDotProductOps, CKKSMulAddOps, CKKSMulManyOps, CKKSMulSubOps};
    use poulpy_ckks::layouts::plaintext::CKKSConstPlaintextConversion;
    let cx = ctx(c.pset as usize % 2);
    let p = cx.p;
    let (n, b) = (p.n, p.base2k);
    let m = n / 2;
    let nf = n as f64;
    let hw = p.hw as f64;
    let md = &cx.module;
    let kind = c.kind as usize % COMP_KINDS.len();
    let name = COMP_KINDS[kind];
    let fail = |what: &str, d: String| Verdict::fail(format!("{name}|{what}"), format!("backend={B_NAME} {name}: {d}\ncase={c:?}"));
    // operands: fresh ciphertexts with generated limb counts / scales, compacted (the products assert compact operands)
    let nterms = 1 + (c.n as usize % 4);
    let mut regs: Vec<Reg> = vec![];
    for i in 0..2 * nterms + 1 {
        let o = &c.operands[i % c.operands.len()];
        // dot products / products of many / sums want a common log_delta per side
        let ld = if (6..=8).contains(&kind) { c.operands[i % 2].1 } else { o.1 };
        match fresh_reg(cx, sx, o.0, ld, o.2, o.3, c.seed ^ (i as u64 * 0x9E37)) {
            Some(mut r) => {
                let _ = md.ckks_compact_limbs(&mut r.ct);
                regs.push(r);
            }
            None => return Verdict::pass(false, &[name, "skipped:operand_not_encodable"]),
        }
    }
    let alloc = |limbs: u8| CKKSCiphertext::alloc((n as u32).into(), ((limbs.clamp(1, 10) as usize * b) as u32).into(), (b as u32).into());
    let mut cl: Vec<&str> = vec![name, B_NAME];
    // the queries see one ciphertext layout: the widest among the destination and the operands
    let widest = |dst: &CKKSCiphertext<Vec<u8>>, ins: &[&CKKSCiphertext<Vec<u8>>]| -> CKKSCiphertext<Vec<u8>> {
        let k = ins.iter().map(|x| x.max_k().as_usize()).chain(std::iter::once(dst.max_k().as_usize())).max().unwrap();
        CKKSCiphertext::alloc((n as u32).into(), (k as u32).into(), (b as u32).into())
    };
    let key_noise = |sp: usize| -> f64 { 4.0 * sp as f64 * p2(b as i64) * nf * 21.0 * p2(-(cx.key_k as i64)) * (1.0 + hw) + 4.0 * (1.0 + hw) * p2(-((cx.key_size * b) as i64)) };
    match kind {
        0..=5 => {
            // dst <- dst +- a * x  ==  (tmp <- a * x into a buffer shaped like dst; dst <- dst +- tmp), bit for bit
            let (a, bb) = (&regs[0], &regs[1]);
            // two identical copies of the destination (encryption is deterministic in its seeds)
            let mk_dst = |sx: &mut Sx| -> Option<CKKSCiphertext<Vec<u8>>> {
                let o = &c.operands[2 % c.operands.len()];
                let mut r = fresh_reg(cx, sx, o.0, o.1, o.2, o.3, c.seed ^ (2u64 * 0x9E37))?;
                let _ = md.ckks_compact_limbs(&mut r.ct);
                Some(r.ct)
            };
            let (Some(mut dst1), Some(mut dst2)) = (mk_dst(sx), mk_dst(sx)) else {
                return Verdict::pass(false, &[name, "skipped:operand_not_encodable"]);
            };
            if raw_of(&dst1) != raw_of(&dst2) {
                return fail("harness", "the two copies of the destination differ".into());
            }
            let mut tmp = CKKSCiphertext::alloc((n as u32).into(), dst1.max_k(), (b as u32).into());
            let wl = widest(&dst1, &[&a.ct, &bb.ct]);
            let ptld = (c.operands[0].1 as usize).clamp(8, p.ld_max);
            let prec = CKKSMeta { log_delta: ptld, log_budget: (c.operands[0].2 as usize).clamp(3, 10) };
            let (pre, pim) = gen_slots(m, 0.9, c.seed ^ 0x77);
            let mut rnx = CKKSPlaintextVecRnx::<f64>::alloc(n).unwrap();
            cx.encoder.encode_reim(&mut rnx, &pre, &pim).unwrap();
            let znx_sel = (c.seed >> 9) & 1 == 1;
            let mut znx = alloc_pt_vec_znx((n as u32).into(), (b as u32).into(), prec);
            rnx.to_znx(&mut znx).unwrap();
            let cst = match c.seed % 4 {
                0 => CKKSPlaintextCstRnx::<f64>::new(Some(pre[0]), Some(pim[0])),
                1 => CKKSPlaintextCstRnx::<f64>::new(Some(pre[0]), None),
                2 => CKKSPlaintextCstRnx::<f64>::new(None, Some(pim[0])),
                _ => CKKSPlaintextCstRnx::<f64>::new(None, None),
            };
            let none_const = c.seed % 4 == 3;
            let (r1, r2): (anyhow::Result<()>, anyhow::Result<()>) = match kind {
                0 => (md.ckks_mul_add_ct_into(&mut dst1, &a.ct, &bb.ct, &cx.tsk, sx.op("ckks_mul_add_ct_into", || md.ckks_mul_add_ct_tmp_bytes(&wl, &cx.tsk))), md.ckks_mul_into(&mut tmp, &a.ct, &bb.ct, &cx.tsk, sx.roomy()).and_then(|_| md.ckks_add_assign(&mut dst2, &tmp, sx.roomy()))),
                1 => (md.ckks_mul_sub_ct_into(&mut dst1, &a.ct, &bb.ct, &cx.tsk, sx.op("ckks_mul_sub_ct_into", || md.ckks_mul_sub_ct_tmp_bytes(&wl, &cx.tsk))), md.ckks_mul_into(&mut tmp, &a.ct, &bb.ct, &cx.tsk, sx.roomy()).and_then(|_| md.ckks_sub_assign(&mut dst2, &tmp, sx.roomy()))),
                // the vector forms also through a caller-built ZNX plaintext (same quantisation as the RNX form produces internally)
                2 if znx_sel => (md.ckks_mul_add_pt_vec_znx_into(&mut dst1, &a.ct, &znx, sx.op("ckks_mul_add_pt_vec_znx_into", || md.ckks_mul_add_pt_vec_znx_tmp_bytes(&wl, &wl, &prec))), md.ckks_mul_pt_vec_znx_into(&mut tmp, &a.ct, &znx, sx.roomy()).and_then(|_| md.ckks_add_assign(&mut dst2, &tmp, sx.roomy()))),
                3 if znx_sel => (md.ckks_mul_sub_pt_vec_znx_into(&mut dst1, &a.ct, &znx, sx.op("ckks_mul_sub_pt_vec_znx_into", || md.ckks_mul_sub_pt_vec_znx_tmp_bytes(&wl, &wl, &prec))), md.ckks_mul_pt_vec_znx_into(&mut tmp, &a.ct, &znx, sx.roomy()).and_then(|_| md.ckks_sub_assign(&mut dst2, &tmp, sx.roomy()))),
                2 => (md.ckks_mul_add_pt_vec_rnx_into(&mut dst1, &a.ct, &rnx, prec, sx.op("ckks_mul_add_pt_vec_rnx_into", || md.ckks_mul_add_pt_vec_rnx_tmp_bytes(&wl, &wl, &prec))), md.ckks_mul_pt_vec_rnx_into(&mut tmp, &a.ct, &rnx, prec, sx.roomy()).and_then(|_| md.ckks_add_assign(&mut dst2, &tmp, sx.roomy()))),
                3 => (md.ckks_mul_sub_pt_vec_rnx_into(&mut dst1, &a.ct, &rnx, prec, sx.op("ckks_mul_sub_pt_vec_rnx_into", || md.ckks_mul_sub_pt_vec_rnx_tmp_bytes(&wl, &wl, &prec))), md.ckks_mul_pt_vec_rnx_into(&mut tmp, &a.ct, &rnx, prec, sx.roomy()).and_then(|_| md.ckks_sub_assign(&mut dst2, &tmp, sx.roomy()))),
                4 if znx_sel && !none_const && cst.to_znx((b as u32).into(), prec).is_ok() => {
                    let cz = cst.to_znx((b as u32).into(), prec).unwrap();
                    (
                        md.ckks_mul_add_pt_const_znx_into(&mut dst1, &a.ct, &cz, sx.op("ckks_mul_add_pt_const_znx_into", || md.ckks_mul_add_pt_const_tmp_bytes(&wl, &wl, &prec))),
                        md.ckks_mul_pt_const_rnx_into(&mut tmp, &a.ct, &cst, prec, sx.roomy()).and_then(|_| md.ckks_add_assign(&mut dst2, &tmp, sx.roomy())),
                    )
                }
                5 if znx_sel && !none_const && cst.to_znx((b as u32).into(), prec).is_ok() => {
                    let cz = cst.to_znx((b as u32).into(), prec).unwrap();
                    (
                        md.ckks_mul_sub_pt_const_znx_into(&mut dst1, &a.ct, &cz, sx.op("ckks_mul_sub_pt_const_znx_into", || md.ckks_mul_sub_pt_const_tmp_bytes(&wl, &wl, &prec))),
                        md.ckks_mul_pt_const_rnx_into(&mut tmp, &a.ct, &cst, prec, sx.roomy()).and_then(|_| md.ckks_sub_assign(&mut dst2, &tmp, sx.roomy())),
                    )
                }
                4 => (
                    md.ckks_mul_add_pt_const_rnx_into(&mut dst1, &a.ct, &cst, prec, sx.op("ckks_mul_add_pt_const_rnx_into", || md.ckks_mul_add_pt_const_tmp_bytes(&wl, &wl, &prec))),
                    if none_const { Ok(()) } else { md.ckks_mul_pt_const_rnx_into(&mut tmp, &a.ct, &cst, prec, sx.roomy()).and_then(|_| md.ckks_add_assign(&mut dst2, &tmp, sx.roomy())) },
                ),
                _ => (
                    md.ckks_mul_sub_pt_const_rnx_into(&mut dst1, &a.ct, &cst, prec, sx.op("ckks_mul_sub_pt_const_rnx_into", || md.ckks_mul_sub_pt_const_tmp_bytes(&wl, &wl, &prec))),
                    if none_const { Ok(()) } else { md.ckks_mul_pt_const_rnx_into(&mut tmp, &a.ct, &cst, prec, sx.roomy()).and_then(|_| md.ckks_sub_assign(&mut dst2, &tmp, sx.roomy())) },
                ),
            };
            if !same_result(&r1, &r2) {
                return fail("result-differs-from-primitives", format!("the composite returned {:?}, the product into a buffer shaped like the destination followed by the in-place sum returned {:?}", r1.as_ref().map_err(|e| e.to_string()), r2.as_ref().map_err(|e| e.to_string())));
            }
            if r1.is_ok() && raw_of(&dst1) != raw_of(&dst2) {
                return fail("differs-from-primitives", format!("metadata / digits differ from the product into a buffer shaped like the destination followed by the in-place sum: composite (log_delta, log_budget) = ({}, {}), primitives ({}, {})", dst1.log_delta(), dst1.log_budget(), dst2.log_delta(), dst2.log_budget()));
            }
            cl.push(if r1.is_ok() { "ok" } else { "error_path" });
        }
        12 => {
            // the un-normalised ("unsafe") forms of add / sub: followed by a normalisation they must give what the
            // normalising form gives (same result kind, same metadata, same torus elements)
            use poulpy_ckks::leveled::{CKKSAddOpsUnsafe, CKKSSubOpsUnsafe};
            use poulpy_core::GLWENormalize;
            let (a, bb) = (&regs[0], &regs[1]);
            let u = ((c.seed >> 12) % 20) as usize;
            let (fam, is_sub, assign) = (u / 4, (u % 4) / 2 == 1, u % 2 == 1);
            let mk_dst = |sx: &mut Sx| -> Option<CKKSCiphertext<Vec<u8>>> {
                if assign {
                    let o = &c.operands[2 % c.operands.len()];
                    let mut r = fresh_reg(cx, sx, o.0, o.1, o.2, o.3, c.seed ^ (2u64 * 0x9E37))?;
                    let _ = md.ckks_compact_limbs(&mut r.ct);
                    Some(r.ct)
                } else {
                    Some(alloc(c.dst_limbs))
                }
            };
            let (Some(mut dst1), Some(mut dst2)) = (mk_dst(sx), mk_dst(sx)) else {
                return Verdict::pass(false, &[name, "skipped:operand_not_encodable"]);
            };
            let ptld = (c.operands[0].1 as usize).clamp(8, p.ld_max);
            let prec = CKKSMeta { log_delta: ptld, log_budget: (c.operands[0].2 as usize).clamp(3, 10) };
            let (pre, pim) = gen_slots(m, 0.9, c.seed ^ 0x77);
            let mut rnx = CKKSPlaintextVecRnx::<f64>::alloc(n).unwrap();
            cx.encoder.encode_reim(&mut rnx, &pre, &pim).unwrap();
            let mut znx = alloc_pt_vec_znx((n as u32).into(), (b as u32).into(), prec);
            rnx.to_znx(&mut znx).unwrap();
            let cst = match c.seed % 3 {
                0 => CKKSPlaintextCstRnx::<f64>::new(Some(pre[0]), Some(pim[0])),
                1 => CKKSPlaintextCstRnx::<f64>::new(Some(pre[0]), None),
                _ => CKKSPlaintextCstRnx::<f64>::new(None, Some(pim[0])),
            };
            // ZNX constant aligned to the destination's remaining capacity, as documented for to_znx_at_k
            let cz = {
                let (lb, off) = if assign { (dst1.log_budget(), 0) } else { (a.ct.log_budget(), a.ct.effective_k().saturating_sub(dst1.max_k().as_usize())) };
                lb.checked_sub(off).and_then(|lb| cst.to_znx_at_k((b as u32).into(), lb + prec.log_delta, prec.log_delta).ok())
            };
            let Some(cz) = cz else {
                return Verdict::pass(false, &[name, "skipped:constant_not_encodable"]);
            };
            let form = ["ct", "pt_vec_rnx", "pt_vec_znx", "pt_const_rnx", "pt_const_znx"][fam];
            // (both calls get a roomy scratch: the exact-size windows of these operations are exercised by the programs)
            let r1: anyhow::Result<()> = unsafe {
                match (fam, is_sub, assign) {
                    (0, false, false) => md.ckks_add_into_unsafe(&mut dst1, &a.ct, &bb.ct, sx.roomy()),
                    (0, false, true) => md.ckks_add_assign_unsafe(&mut dst1, &a.ct, sx.roomy()),
                    (0, true, false) => md.ckks_sub_into_unsafe(&mut dst1, &a.ct, &bb.ct, sx.roomy()),
                    (0, true, true) => md.ckks_sub_assign_unsafe(&mut dst1, &a.ct, sx.roomy()),
                    (1, false, false) => md.ckks_add_pt_vec_rnx_into_unsafe(&mut dst1, &a.ct, &rnx, prec, sx.roomy()),
                    (1, false, true) => md.ckks_add_pt_vec_rnx_assign_unsafe(&mut dst1, &rnx, prec, sx.roomy()),
                    (1, true, false) => md.ckks_sub_pt_vec_rnx_into_unsafe(&mut dst1, &a.ct, &rnx, prec, sx.roomy()),
                    (1, true, true) => md.ckks_sub_pt_vec_rnx_assign_unsafe(&mut dst1, &rnx, prec, sx.roomy()),
                    (2, false, false) => md.ckks_add_pt_vec_znx_into_unsafe(&mut dst1, &a.ct, &znx, sx.roomy()),
                    (2, false, true) => md.ckks_add_pt_vec_znx_assign_unsafe(&mut dst1, &znx, sx.roomy()),
                    (2, true, false) => md.ckks_sub_pt_vec_znx_into_unsafe(&mut dst1, &a.ct, &znx, sx.roomy()),
                    (2, true, true) => md.ckks_sub_pt_vec_znx_assign_unsafe(&mut dst1, &znx, sx.roomy()),
                    (3, false, false) => md.ckks_add_pt_const_rnx_into_unsafe(&mut dst1, &a.ct, &cst, prec, sx.roomy()),
                    (3, false, true) => md.ckks_add_pt_const_rnx_assign_unsafe(&mut dst1, &cst, prec, sx.roomy()),
                    (3, true, false) => md.ckks_sub_pt_const_rnx_into_unsafe(&mut dst1, &a.ct, &cst, prec, sx.roomy()),
                    (3, true, true) => md.ckks_sub_pt_const_rnx_assign_unsafe(&mut dst1, &cst, prec, sx.roomy()),
                    (_, false, false) => md.ckks_add_pt_const_znx_into_unsafe(&mut dst1, &a.ct, &cz, sx.roomy()),
                    (_, false, true) => md.ckks_add_pt_const_znx_assign_unsafe(&mut dst1, &cz, sx.roomy()),
                    (_, true, false) => md.ckks_sub_pt_const_znx_into_unsafe(&mut dst1, &a.ct, &cz, sx.roomy()),
                    (_, true, true) => md.ckks_sub_pt_const_znx_assign_unsafe(&mut dst1, &cz, sx.roomy()),
                }
            };
            if r1.is_ok() {
                md.glwe_normalize_assign(&mut dst1, sx.roomy());
            }
            let r2: anyhow::Result<()> = match (fam, is_sub, assign) {
                (0, false, false) => md.ckks_add_into(&mut dst2, &a.ct, &bb.ct, sx.roomy()),
                (0, false, true) => md.ckks_add_assign(&mut dst2, &a.ct, sx.roomy()),
                (0, true, false) => md.ckks_sub_into(&mut dst2, &a.ct, &bb.ct, sx.roomy()),
                (0, true, true) => md.ckks_sub_assign(&mut dst2, &a.ct, sx.roomy()),
                (1, false, false) => md.ckks_add_pt_vec_rnx_into(&mut dst2, &a.ct, &rnx, prec, sx.roomy()),
                (1, false, true) => md.ckks_add_pt_vec_rnx_assign(&mut dst2, &rnx, prec, sx.roomy()),
                (1, true, false) => md.ckks_sub_pt_vec_rnx_into(&mut dst2, &a.ct, &rnx, prec, sx.roomy()),
                (1, true, true) => md.ckks_sub_pt_vec_rnx_assign(&mut dst2, &rnx, prec, sx.roomy()),
                (2, false, false) => md.ckks_add_pt_vec_znx_into(&mut dst2, &a.ct, &znx, sx.roomy()),
                (2, false, true) => md.ckks_add_pt_vec_znx_assign(&mut dst2, &znx, sx.roomy()),
                (2, true, false) => md.ckks_sub_pt_vec_znx_into(&mut dst2, &a.ct, &znx, sx.roomy()),
                (2, true, true) => md.ckks_sub_pt_vec_znx_assign(&mut dst2, &znx, sx.roomy()),
                (3, false, false) => md.ckks_add_pt_const_rnx_into(&mut dst2, &a.ct, &cst, prec, sx.roomy()),
                (3, false, true) => md.ckks_add_pt_const_rnx_assign(&mut dst2, &cst, prec, sx.roomy()),
                (3, true, false) => md.ckks_sub_pt_const_rnx_into(&mut dst2, &a.ct, &cst, prec, sx.roomy()),
                (3, true, true) => md.ckks_sub_pt_const_rnx_assign(&mut dst2, &cst, prec, sx.roomy()),
                (_, false, false) => md.ckks_add_pt_const_znx_into(&mut dst2, &a.ct, &cz, sx.roomy()),
                (_, false, true) => md.ckks_add_pt_const_znx_assign(&mut dst2, &cz, sx.roomy()),
                (_, true, false) => md.ckks_sub_pt_const_znx_into(&mut dst2, &a.ct, &cz, sx.roomy()),
                (_, true, true) => md.ckks_sub_pt_const_znx_assign(&mut dst2, &cz, sx.roomy()),
            };
            let what = format!("ckks_{}_{}{}_{}", if is_sub { "sub" } else { "add" }, if fam == 0 { "".to_string() } else { format!("{form}_") }, if assign { "assign" } else { "into" }, "unsafe").replace("__", "_");
            if !same_result(&r1, &r2) {
                return fail("unsafe-form-result-differs", format!("{what} returned {:?}, the normalising form {:?}", r1.as_ref().map_err(|e| e.to_string()), r2.as_ref().map_err(|e| e.to_string())));
            }
            if r1.is_ok() {
                if dst1.meta() != dst2.meta() {
                    return fail("unsafe-form-metadata-differs", format!("{what} leaves metadata {:?}, the normalising form {:?}", dst1.meta(), dst2.meta()));
                }
                if !same_torus(&dst1, &dst2, b) {
                    return fail("unsafe-form-then-normalize-differs", format!("{what} followed by glwe_normalize_assign denotes another ciphertext than the normalising form"));
                }
                cl.push(if raw_of(&dst1) == raw_of(&dst2) { "same_digits" } else { "same_torus_value_other_digits" });
                cl.push("ok");
            } else {
                cl.push("error_path");
            }
            cl.push(form);
            cl.push(if assign { "assign" } else { "into" });
        }
        6 => {
            // sum of n ciphertexts: metadata of the chain of additions; slots within the accumulated bound
            let ins: Vec<&CKKSCiphertext<Vec<u8>>> = regs[..nterms].iter().map(|r| &r.ct).collect();
            let mut dst = alloc(c.dst_limbs);
            let r1 = md.ckks_add_many(&mut dst, &ins, sx.op("ckks_add_many", || md.ckks_add_many_tmp_bytes()));
            // reference: the same sum through the two-operand forms
            let mut refd = alloc(c.dst_limbs);
            let r2: anyhow::Result<()> = if nterms == 1 {
                // a single input is a copy into the destination: adding a zero-budget-preserving step = rescale by 0
                md.ckks_rescale_into(&mut refd, 0, ins[0], sx.roomy())
            } else {
                let mut r = md.ckks_add_into(&mut refd, ins[0], ins[1], sx.roomy());
                for ct in &ins[2..] {
                    if r.is_ok() {
                        r = md.ckks_add_assign(&mut refd, ct, sx.roomy());
                    }
                }
                r
            };
            if r1.is_ok() != r2.is_ok() {
                return fail("result-differs-from-primitives", format!("ckks_add_many of {nterms} inputs returned {:?}, the chain of two-operand additions {:?}", r1.as_ref().map_err(|e| e.to_string()), r2.as_ref().map_err(|e| e.to_string())));
            }
            if r1.is_ok() {
                if (dst.log_delta(), dst.log_budget()) != (refd.log_delta(), refd.log_budget()) {
                    return fail("metadata-differs-from-primitives", format!("ckks_add_many gives (log_delta, log_budget) = ({}, {}), the chain of additions ({}, {})", dst.log_delta(), dst.log_budget(), refd.log_delta(), refd.log_budget()));
                }
                if dst.log_delta() + dst.log_budget() > dst.max_k().as_usize() {
                    return fail("metadata-exceeds-stored-precision", format!("log_delta + log_budget = {} > {}", dst.log_delta() + dst.log_budget(), dst.max_k().as_usize()));
                }
                let mag: f64 = regs[..nterms].iter().map(|r| r.sh.mag()).sum();
                if let (Some((re, im)), true) = (slots_of(cx, sx, &dst, mag), mag * 8.0 < p2(dst.log_budget() as i64)) {
                    let tol: f64 = regs[..nterms].iter().map(|r| 2.0 * r.sh.err).sum::<f64>() + nterms as f64 * nf * (8.0 * (1.0 + hw) * p2(-(dst.max_k().as_usize() as i64)) * p2(dst.log_budget() as i64) + 4.0 * p2(-(dst.log_delta() as i64)));
                    for i in 0..m {
                        let (wr, wi): (f64, f64) = (regs[..nterms].iter().map(|r| r.sh.re[i]).sum(), regs[..nterms].iter().map(|r| r.sh.im[i]).sum());
                        let d = (re[i] - wr).hypot(im[i] - wi);
                        if !(d <= tol) {
                            return fail("decoded-slots-differ", format!("slot {i}: sum of {nterms} ciphertexts decrypts to ({:.6e}, {:.6e}), expected ({wr:.6e}, {wi:.6e}); |diff| = {d:.3e} > {tol:.3e}", re[i], im[i]));
                        }
                    }
                    cl.push("values_checked");
                }
            }
            cl.push(if r1.is_ok() { "ok" } else { "error_path" });
        }
        7 => {
            // dot product sum a_i * b_i, common log_delta per side
            let (avec, bvec): (Vec<&Reg>, Vec<&Reg>) = ((0..nterms).map(|i| &regs[2 * i]).collect(), (0..nterms).map(|i| &regs[2 * i + 1]).collect());
            let ains: Vec<&CKKSCiphertext<Vec<u8>>> = avec.iter().map(|r| &r.ct).collect();
            let bins: Vec<&CKKSCiphertext<Vec<u8>>> = bvec.iter().map(|r| &r.ct).collect();
            let mut dst = alloc(c.dst_limbs);
            let wl = widest(&dst, &[ains.clone(), bins.clone()].concat());
            let r1 = md.ckks_dot_product_ct(&mut dst, &ains, &bins, &cx.tsk, sx.op("ckks_dot_product_ct", || md.ckks_dot_product_ct_tmp_bytes(nterms, &wl, &cx.tsk)));
            // model of the budget algebra (same as one product, with the smallest budgets of each side)
            let (a_ld, b_ld) = (avec[0].sh.ld, bvec[0].sh.ld);
            let (a_lb, b_lb) = (avec.iter().map(|r| r.sh.lb).min().unwrap(), bvec.iter().map(|r| r.sh.lb).min().unwrap());
            let cap = dst.max_k().as_usize();
            let want: Option<(usize, usize)> = a_lb.min(b_lb).checked_sub(a_ld.max(b_ld)).and_then(|lb0| {
                let ld = a_ld.min(b_ld);
                let off = (lb0 + ld).saturating_sub(cap);
                lb0.checked_sub(off).map(|lb| (ld, lb))
            });
            match (&r1, want) {
                (Ok(()), None) => return fail("success-where-an-error-is-due", "the operand budgets do not allow a product, the library returned Ok".into()),
                (Err(e), Some(_)) => return fail("error-where-success-is-due", format!("the library returned `{e}` for operands whose budgets allow the product")),
                (Err(_), None) => cl.push("error_path"),
                (Ok(()), Some((ld, lb))) => {
                    if (dst.log_delta(), dst.log_budget()) != (ld, lb) {
                        return fail("metadata-differs-from-model", format!("library (log_delta, log_budget) = ({}, {}), the bit-level algebra gives ({ld}, {lb})", dst.log_delta(), dst.log_budget()));
                    }
                    let mag: f64 = (0..nterms).map(|i| avec[i].sh.mag() * bvec[i].sh.mag()).sum();
                    if mag * 8.0 < p2(lb as i64) && ld >= 8 {
                        if let Some((re, im)) = slots_of(cx, sx, &dst, mag) {
                            let mut tol = 0.0;
                            for i in 0..nterms {
                                let (x, y) = (&avec[i].sh, &bvec[i].sh);
                                let cap_t = avec[i].ct.max_k().as_usize().max(bvec[i].ct.max_k().as_usize());
                                let mn = avec[i].ct.size().min(bvec[i].ct.size()) as f64;
                                let tens = 4.0 * nf * mn * p2(b as i64 - 1) * (1.0 + 6.0 * hw + hw * hw) * p2(-(cap_t as i64));
                                let (ea, eb) = (x.err + nf * p2(-(x.ld as i64)), y.err + nf * p2(-(y.ld as i64)));
                                tol += x.mag() * eb + y.mag() * ea + ea * eb + (tens + 8.0 * (1.0 + hw) * p2(-(cap as i64))) * p2(lb as i64) * nf;
                                // operands brought to the smallest budget of their side lose the bits below it
                                tol += (x.mag() + y.mag()) * nf * 4.0 * p2(-(ld as i64));
                            }
                            tol = 2.0 * (tol + key_noise(cap.div_ceil(b)) * p2(lb as i64) * nf) + nf * p2(-(ld as i64)) * 4.0;
                            for i in 0..m {
                                let (mut wr, mut wi) = (0.0, 0.0);
                                for t in 0..nterms {
                                    let (x, y) = (&avec[t].sh, &bvec[t].sh);
                                    wr += x.re[i] * y.re[i] - x.im[i] * y.im[i];
                                    wi += x.re[i] * y.im[i] + x.im[i] * y.re[i];
                                }
                                let d = (re[i] - wr).hypot(im[i] - wi);
                                if !(d <= tol) {
                                    return fail("decoded-slots-differ", format!("slot {i}: dot product of {nterms} pairs decrypts to ({:.6e}, {:.6e}), expected ({wr:.6e}, {wi:.6e}); |diff| = {d:.3e} > {tol:.3e} (log_delta {ld}, log_budget {lb})", re[i], im[i]));
                                }
                            }
                            cl.push(if tol / mag.max(1e-3) <= p2(-4) { "values_checked" } else { "values_checked(vacuous_tolerance)" });
                        }
                    }
                    cl.push("ok");
                }
            }
            if nterms >= 2 {
                cl.push("terms>=2");
            }
        }
        9..=11 => {
            // sum of products, defined as: first product into dst, further products into a buffer shaped like dst and added,
            // one normalisation at the end.  Reference: the same chain through the safe two-operand forms.
            let terms: Vec<&Reg> = (0..nterms).map(|i| &regs[2 * i]).collect();
            let others: Vec<&Reg> = (0..nterms).map(|i| &regs[2 * i + 1]).collect();
            let ptld = (c.operands[0].1 as usize).clamp(8, p.ld_max);
            let prec = CKKSMeta { log_delta: ptld, log_budget: (c.operands[0].2 as usize).clamp(3, 10) };
            let rnxs: Vec<CKKSPlaintextVecRnx<f64>> = (0..nterms)
                .map(|i| {
                    let (pre, pim) = gen_slots(m, 0.9, c.seed ^ (0x77 + i as u64));
                    let mut r = CKKSPlaintextVecRnx::<f64>::alloc(n).unwrap();
                    cx.encoder.encode_reim(&mut r, &pre, &pim).unwrap();
                    r
                })
                .collect();
            let csts: Vec<CKKSPlaintextCstRnx<f64>> = (0..nterms)
                .map(|i| {
                    let (pre, pim) = gen_slots(2, 0.9, c.seed ^ (0x99 + i as u64));
                    match (c.seed >> (2 * i)) % 3 {
                        0 => CKKSPlaintextCstRnx::<f64>::new(Some(pre[0]), Some(pim[0])),
                        1 => CKKSPlaintextCstRnx::<f64>::new(Some(pre[0]), None),
                        _ => CKKSPlaintextCstRnx::<f64>::new(None, Some(pim[0])),
                    }
                })
                .collect();
            let znx_sel = (c.seed >> 9) & 1 == 1;
            let znxs: Vec<poulpy_ckks::layouts::plaintext::CKKSPlaintextVecZnx<Vec<u8>>> = rnxs
                .iter()
                .map(|r| {
                    let mut z = alloc_pt_vec_znx((n as u32).into(), (b as u32).into(), prec);
                    r.to_znx(&mut z).unwrap();
                    z
                })
                .collect();
            let ains: Vec<&CKKSCiphertext<Vec<u8>>> = terms.iter().map(|r| &r.ct).collect();
            let bins: Vec<&CKKSCiphertext<Vec<u8>>> = others.iter().map(|r| &r.ct).collect();
            let mut dst1 = alloc(c.dst_limbs);
            let mut dst2 = alloc(c.dst_limbs);
            let wl = widest(&dst1, &[ains.clone(), bins.clone()].concat());
            let r1: anyhow::Result<()> = match kind {
                9 if znx_sel => md.ckks_dot_product_pt_vec_znx(&mut dst1, &ains, &znxs.iter().collect::<Vec<_>>(), sx.op("ckks_dot_product_pt_vec_znx", || md.ckks_dot_product_pt_vec_znx_tmp_bytes(&wl, &wl, &prec))),
                9 => md.ckks_dot_product_pt_vec_rnx(&mut dst1, &ains, &rnxs.iter().collect::<Vec<_>>(), prec, sx.op("ckks_dot_product_pt_vec_rnx", || md.ckks_dot_product_pt_vec_rnx_tmp_bytes(&wl, &wl, &prec))),
                10 if znx_sel && csts.iter().all(|c| c.to_znx((b as u32).into(), prec).is_ok()) => {
                    let czs: Vec<poulpy_ckks::layouts::plaintext::CKKSPlaintextCstZnx> = csts.iter().map(|c| c.to_znx((b as u32).into(), prec).unwrap()).collect();
                    md.ckks_dot_product_pt_const_znx(&mut dst1, &ains, &czs.iter().collect::<Vec<_>>(), sx.op("ckks_dot_product_pt_const_znx", || md.ckks_dot_product_pt_const_tmp_bytes(&wl, &wl, &prec)))
                }
                10 => md.ckks_dot_product_pt_const_rnx(&mut dst1, &ains, &csts.iter().collect::<Vec<_>>(), prec, sx.op("ckks_dot_product_pt_const_rnx", || md.ckks_dot_product_pt_const_tmp_bytes(&wl, &wl, &prec))),
                _ => md.ckks_dot_product_ct(&mut dst1, &ains, &bins, &cx.tsk, sx.op("ckks_dot_product_ct", || md.ckks_dot_product_ct_tmp_bytes(nterms, &wl, &cx.tsk))),
            };
            let term = |i: usize, out: &mut CKKSCiphertext<Vec<u8>>, sx: &mut Sx| -> anyhow::Result<()> {
                match kind {
                    9 => md.ckks_mul_pt_vec_rnx_into(out, ains[i], &rnxs[i], prec, sx.roomy()),
                    10 => md.ckks_mul_pt_const_rnx_into(out, ains[i], &csts[i], prec, sx.roomy()),
                    _ => md.ckks_mul_into(out, ains[i], bins[i], &cx.tsk, sx.roomy()),
                }
            };
            let mut r2 = term(0, &mut dst2, sx);
            for i in 1..nterms {
                if r2.is_err() {
                    break;
                }
                let mut tmp = alloc(c.dst_limbs);
                r2 = term(i, &mut tmp, sx);
                if r2.is_ok() {
                    r2 = md.ckks_add_assign(&mut dst2, &tmp, sx.roomy());
                }
            }
            // kind 11 is only about the path for unequal log_delta inside one side (the uniform path is kind 7)
            let uniform = terms.iter().all(|r| r.sh.ld == terms[0].sh.ld) && others.iter().all(|r| r.sh.ld == others[0].sh.ld);
            if kind == 11 && (uniform || nterms < 2) {
                return Verdict::pass(false, &[name, "skipped:uniform_log_delta"]);
            }
            if r1.is_ok() != r2.is_ok() {
                return fail("result-differs-from-primitives", format!("{nterms} terms: the composite returned {:?}, the chain of products and in-place sums {:?}", r1.as_ref().map_err(|e| e.to_string()), r2.as_ref().map_err(|e| e.to_string())));
            }
            if r1.is_ok() {
                if (dst1.log_delta(), dst1.log_budget()) != (dst2.log_delta(), dst2.log_budget()) {
                    return fail("metadata-differs-from-primitives", format!("{nterms} terms: composite (log_delta, log_budget) = ({}, {}), chain of products and sums ({}, {})", dst1.log_delta(), dst1.log_budget(), dst2.log_delta(), dst2.log_budget()));
                }
                // same torus values up to the last-limb roundings of the intermediate normalisations
                let mag: f64 = terms.iter().map(|r| r.sh.mag()).sum::<f64>().max(1.0) * 2.0;
                if let (Some((re1, im1)), Some((re2, im2))) = (slots_of(cx, sx, &dst1, mag), slots_of(cx, sx, &dst2, mag)) {
                    let tol = nterms as f64 * nf * (16.0 * (1.0 + hw) * p2(-(dst1.max_k().as_usize() as i64)) * p2(dst1.log_budget() as i64) + 8.0 * p2(-(dst1.log_delta() as i64)));
                    for i in 0..m {
                        let d = (re1[i] - re2[i]).hypot(im1[i] - im2[i]);
                        if !(d <= tol) {
                            return fail("differs-from-primitives", format!("slot {i}: composite decrypts to ({:.6e}, {:.6e}), the chain of products and sums to ({:.6e}, {:.6e}); |diff| = {d:.3e} > {tol:.3e}", re1[i], im1[i], re2[i], im2[i]));
                        }
                    }
                    cl.push("values_checked");
                }
            }
            cl.push(if r1.is_ok() { "ok" } else { "error_path" });
            if nterms >= 2 {
                cl.push("terms>=2");
            }
        }
        _ => {
            // product of n ciphertexts with a common log_delta: value and invariants
            let ins: Vec<&CKKSCiphertext<Vec<u8>>> = regs[..nterms].iter().map(|r| &r.ct).collect();
            let mut dst = alloc(c.dst_limbs);
            let wl = widest(&dst, &ins);
            let r1 = md.ckks_mul_many(&mut dst, &ins, &cx.tsk, sx.op("ckks_mul_many", || md.ckks_mul_many_tmp_bytes(ins.len(), &wl, &cx.tsk)));
            if r1.is_ok() {
                let (ld, lb) = (dst.log_delta(), dst.log_budget());
                if ld + lb > dst.max_k().as_usize() {
                    return fail("metadata-exceeds-stored-precision", format!("log_delta + log_budget = {} > {}", ld + lb, dst.max_k().as_usize()));
                }
                if ld != regs[0].sh.ld {
                    return fail("metadata-differs-from-model", format!("the product of ciphertexts of log_delta {} has log_delta {ld}", regs[0].sh.ld));
                }
                let mag: f64 = regs[..nterms].iter().map(|r| r.sh.mag().max(1e-9)).product();
                if mag * 8.0 < p2(lb as i64) && ld >= 8 {
                    if let Some((re, im)) = slots_of(cx, sx, &dst, mag) {
                        // relative error of a product of n factors: sum of the relative errors of the factors and of the n-1 products
                        let mut rel = 0.0;
                        for r in &regs[..nterms] {
                            rel += (r.sh.err + nf * p2(-(r.sh.ld as i64)) * 4.0) / r.sh.mag().max(1e-9);
                        }
                        let mut tol = mag * rel * 4.0;
                        let capk = regs[..nterms].iter().map(|r| r.ct.max_k().as_usize()).min().unwrap().min(dst.max_k().as_usize());
                        tol += nterms as f64 * (4.0 * nf * 8.0 * p2(b as i64 - 1) * (1.0 + 6.0 * hw + hw * hw) * p2(-(capk as i64)) + key_noise(p.k.div_ceil(b))) * p2(regs[0].sh.lb as i64) * nf * mag.max(1.0);
                        for i in 0..m {
                            let (mut wr, mut wi) = (1.0f64, 0.0f64);
                            for r in &regs[..nterms] {
                                let (x, y) = (r.sh.re[i], r.sh.im[i]);
                                let t = wr * x - wi * y;
                                wi = wr * y + wi * x;
                                wr = t;
                            }
                            let d = (re[i] - wr).hypot(im[i] - wi);
                            if !(d <= tol) {
                                return fail("decoded-slots-differ", format!("slot {i}: product of {nterms} ciphertexts decrypts to ({:.6e}, {:.6e}), expected ({wr:.6e}, {wi:.6e}); |diff| = {d:.3e} > {tol:.3e} (log_delta {ld}, log_budget {lb})", re[i], im[i]));
                            }
                        }
                        cl.push(if tol / mag.max(1e-3) <= p2(-4) { "values_checked" } else { "values_checked(vacuous_tolerance)" });
                    }
                }
                cl.push("ok");
            } else {
                cl.push("error_path");
            }
            if nterms >= 3 {
                cl.push("terms>=3");
            }
        }
    }
    Verdict::pass(true, &cl)
}

pub const COMP_KINDS: [&str; 13] = ["ckks_mul_add_ct_into", "ckks_mul_sub_ct_into", "ckks_mul_add_pt_vec_rnx_into", "ckks_mul_sub_pt_vec_rnx_into", "ckks_mul_add_pt_const_rnx_into", "ckks_mul_sub_pt_const_rnx_into", "ckks_add_many", "ckks_dot_product_ct", "ckks_mul_many", "ckks_dot_product_pt_vec_rnx", "ckks_dot_product_pt_const_rnx", "ckks_dot_product_ct(mixed_log_delta)", "unsafe_form_then_normalize"];
