//! pzv-ckks: model-based testing of straight-line CKKS programs (C16).
#![allow(clippy::too_many_arguments, clippy::needless_range_loop, clippy::type_complexity)]

use proptest::prelude::*;
use pzv_be::Be;
use pzv_common::driver::{Ctx as DCtx, Verdict, install_panic_hook, read_replay};
use serde::{Deserialize, Serialize};

#[derive(Clone, Copy, Debug)]
pub struct Params {
    pub n: usize,
    pub base2k: usize,
    pub k: usize,
    pub hw: usize,
    pub dsize: usize,
    pub ld_max: usize,
}

/// two parameter sets per backend family (shipped radices, small ring so that every step can be decrypted)
pub fn params_for(fft: bool, i: usize) -> Params {
    match (fft, i % 2) {
        (true, 0) => Params { n: 64, base2k: 19, k: 8 * 19, hw: 32, dsize: 1, ld_max: 36 },
        (true, _) => Params { n: 32, base2k: 16, k: 10 * 16, hw: 16, dsize: 2, ld_max: 30 },
        (false, 0) => Params { n: 64, base2k: 52, k: 7 * 52, hw: 32, dsize: 1, ld_max: 48 },
        (false, _) => Params { n: 32, base2k: 30, k: 10 * 30, hw: 16, dsize: 2, ld_max: 40 },
    }
}

pub fn seed32(s: u64, salt: u64) -> [u8; 32] {
    let mut out = [0u8; 32];
    let mut x = s ^ salt.wrapping_mul(0x9E3779B97F4A7C15);
    for c in out.chunks_mut(8) {
        x = x.wrapping_add(0x9E3779B97F4A7C15);
        let mut z = x;
        z = (z ^ (z >> 30)).wrapping_mul(0xBF58476D1CE4E5B9);
        z = (z ^ (z >> 27)).wrapping_mul(0x94D049BB133111EB);
        z ^= z >> 31;
        c.copy_from_slice(&z.to_le_bytes());
    }
    out
}

#[derive(Clone, Debug, Serialize, Deserialize)]
pub enum Op {
    Enc { dst: u8, limbs: u8, ld: u8, ptlb: u8, mag_bits: u8, seed: u64 },
    Bin { kind: u8, dst: u8, a: u8, b: u8, limbs: u8, assign: bool },
    Un { kind: u8, dst: u8, a: u8, limbs: u8, arg: u8, assign: bool },
    Align { a: u8, b: u8 },
    Pt { kind: u8, dst: u8, a: u8, limbs: u8, ld: u8, ptlb: u8, seed: u64, assign: bool },
}

impl Op {
    pub fn name(&self) -> &'static str {
        match self {
            Op::Enc { .. } => "encrypt",
            Op::Bin { kind, assign, .. } => match (kind % 3, assign) {
                (0, false) => "ckks_add_into",
                (0, true) => "ckks_add_assign",
                (1, false) => "ckks_sub_into",
                (1, true) => "ckks_sub_assign",
                (_, false) => "ckks_mul_into",
                (_, true) => "ckks_mul_assign",
            },
            Op::Un { kind, assign, .. } => match (kind % 9, assign) {
                (0, false) => "ckks_neg_into",
                (0, true) => "ckks_neg_assign",
                (1, false) => "ckks_square_into",
                (1, true) => "ckks_square_assign",
                (2, false) => "ckks_mul_pow2_into",
                (2, true) => "ckks_mul_pow2_assign",
                (3, false) => "ckks_div_pow2_into",
                (3, true) => "ckks_div_pow2_assign",
                (4, false) => "ckks_rotate_into",
                (4, true) => "ckks_rotate_assign",
                (5, false) => "ckks_conjugate_into",
                (5, true) => "ckks_conjugate_assign",
                (6, false) => "ckks_rescale_into",
                (6, true) => "ckks_rescale_assign",
                (7, _) => "ckks_compact_limbs",
                _ => "ckks_reallocate_limbs_checked",
            },
            Op::Align { .. } => "ckks_align_assign",
            Op::Pt { kind, assign, .. } => match (kind % 6, assign) {
                (0, false) => "ckks_add_pt_vec_rnx_into",
                (0, true) => "ckks_add_pt_vec_rnx_assign",
                (1, false) => "ckks_sub_pt_vec_rnx_into",
                (1, true) => "ckks_sub_pt_vec_rnx_assign",
                (2, false) => "ckks_mul_pt_vec_rnx_into",
                (2, true) => "ckks_mul_pt_vec_rnx_assign",
                (3, false) => "ckks_add_pt_const_rnx_into",
                (3, true) => "ckks_add_pt_const_rnx_assign",
                (5, false) => "ckks_sub_pt_const_rnx_into",
                (5, true) => "ckks_sub_pt_const_rnx_assign",
                (_, false) => "ckks_mul_pt_const_rnx_into",
                (_, true) => "ckks_mul_pt_const_rnx_assign",
            },
        }
    }
}

/// composite operations: (limbs, log_delta, plaintext budget, magnitude bits) per operand
#[derive(Clone, Debug, Serialize, Deserialize)]
pub struct CompCase {
    pub be: Be,
    pub pset: u8,
    pub kind: u8,
    pub n: u8,
    pub dst_limbs: u8,
    pub operands: Vec<(u8, u8, u8, u8)>,
    pub seed: u64,
}

/// C06 at the CKKS layer
#[derive(Clone, Debug, Serialize, Deserialize)]
pub struct EncCase {
    pub be: Be,
    pub pset: u8,
    pub limbs: u8,
    pub seed: u64,
}

pub fn test_enc_seeds(c: &EncCase) -> Verdict {
    match c.be {
        Be::FftRef => fft_ref::run_enc_seeds(c),
        Be::FftAvx => fft_avx::run_enc_seeds(c),
        Be::NttRef => ntt_ref::run_enc_seeds(c),
        Be::NttAvx => ntt_avx::run_enc_seeds(c),
    }
}

fn enc_strategy() -> BoxedStrategy<EncCase> {
    (prop_oneof![Just(Be::FftRef), Just(Be::FftAvx), Just(Be::NttRef), Just(Be::NttAvx)], 0u8..2, 2u8..=8, any::<u64>()).prop_map(|(be, pset, limbs, seed)| EncCase { be, pset, limbs, seed }).boxed()
}

pub const RULE_C06: &str = "CKKS layer: cases = (backend, parameter set, ciphertext of 2..8 limbs, seed): ckks_encrypt_sk(.., source_xa, source_xe, ..) of a generated plaintext run with (mask seed, error seed) = (A, E), (A, E) again, (A, E') and (A', E). Oracle: the two (A, E) runs are identical; the mask columns of (A, E) and (A, E') are identical and their bodies differ; the mask columns of (A, E) and (A', E) differ. non-trivial = every executed case.";

#[derive(Clone, Debug, Serialize, Deserialize)]
pub struct Case {
    pub be: Be,
    pub pset: u8,
    pub ops: Vec<Op>,
}

macro_rules! backend_mod {
    ($m:ident, $b:ty, $fft:expr, $name:expr) => {
        pub mod $m {
            pub type B = $b;
            pub const B_IS_FFT: bool = $fft;
            pub const B_NAME: &str = $name;
            include!("body.rs");
        }
    };
}

backend_mod!(fft_ref, poulpy_cpu_ref::FFT64Ref, true, "fft64_ref");
backend_mod!(fft_avx, poulpy_cpu_avx::FFT64Avx, true, "fft64_avx");
backend_mod!(ntt_ref, poulpy_cpu_ref::NTT120Ref, false, "ntt120_ref");
backend_mod!(ntt_avx, poulpy_cpu_avx::NTT120Avx, false, "ntt120_avx");

pub fn test(c: &Case) -> Verdict {
    // Bin kinds are taken modulo 3
    let mut c = c.clone();
    for op in c.ops.iter_mut() {
        if let Op::Bin { kind, .. } = op {
            *kind %= 3;
        }
    }
    match c.be {
        Be::FftRef => fft_ref::run_program(&c),
        Be::FftAvx => fft_avx::run_program(&c),
        Be::NttRef => ntt_ref::run_program(&c),
        Be::NttAvx => ntt_avx::run_program(&c),
    }
}

pub fn test_c12(c: &Case) -> Verdict {
    let mut c = c.clone();
    for op in c.ops.iter_mut() {
        if let Op::Bin { kind, .. } = op {
            *kind %= 3;
        }
    }
    match c.be {
        Be::FftRef => fft_ref::run_c12(&c),
        Be::FftAvx => fft_avx::run_c12(&c),
        Be::NttRef => ntt_ref::run_c12(&c),
        Be::NttAvx => ntt_avx::run_c12(&c),
    }
}

pub const RULE_C12: &str = "CKKS layer: cases = the straight-line CKKS programs of C16 (backend, parameter set, 2 fresh encryptions + 1..13 steps among add/sub/mul/square/neg/pow2/rotate/conjugate/rescale/align and the plaintext forms, into or in place). Every library call of the program receives a 64-byte aligned scratch window of exactly the bytes its own ckks_*_tmp_bytes query returns (queried with the larger of destination and operands where the query takes one layout), inside guard regions and filled with garbage; the program runs with ample scratch and twice with exact windows (two fills). Violation = panic in exact mode only, damaged guard, or final registers (metadata and raw digits) differing between the three runs. non-trivial = at least one call with a non-zero query.";

/// C10 (CKKS layer): the same program, keys and seeds with the FFT64 parameter set on all four backends.
pub fn test_xb(c: &Case) -> Verdict {
    let mut c = c.clone();
    for op in c.ops.iter_mut() {
        if let Op::Bin { kind, .. } = op {
            *kind %= 3;
        }
    }
    let r0 = fft_ref::run_fft_params(&c);
    let classes: Vec<String> = match &r0.0 {
        Verdict::Pass(i) => i.classes.iter().filter(|x| !x.starts_with("tolerance") && !x.contains("fft64") && !x.contains("ntt120")).cloned().collect(),
        Verdict::Fail { .. } => return Verdict::pass(false, &["skipped:fails_on_the_reference_backend(C16)"]),
    };
    let others = [("fft64_avx", fft_avx::run_fft_params(&c)), ("ntt120_ref", ntt_ref::run_fft_params(&c)), ("ntt120_avx", ntt_avx::run_fft_params(&c))];
    for (name, (v, d)) in others.iter() {
        if let Verdict::Fail { sig, detail } = v {
            return Verdict::fail(format!("{}|fails-on-{name}-only", sig.split('|').next().unwrap_or("")), format!("the program passes the C16 oracle on fft64_ref and fails it on {name} with the same parameters, keys and seeds: {sig}: {detail}"));
        }
        if *d != r0.1 {
            let fam = if name.starts_with("fft") { "fft64-ref-vs-avx" } else { "fft64-vs-ntt120" };
            return Verdict::fail(format!("ckks_program|{fam}"), format!("final registers (metadata, raw digits) differ between fft64_ref and {name} for equal parameters, keys, inputs and seeds\ncase={c:?}"));
        }
    }
    let mut cl: Vec<&str> = classes.iter().map(|x| x.as_str()).collect();
    cl.push("four_backends_identical");
    Verdict::pass(true, &cl)
}

pub const RULE_C10: &str = "CKKS layer: cases = the straight-line programs of C16 with the FFT64 parameter set (radix 19 / 16, N 64 / 32) executed with identical keys, inputs and seeds on FFT64Ref, FFT64Avx, NTT120Ref, NTT120Avx; the final register files (metadata and raw digits of every ciphertext) must be identical. non-trivial = the program passes the C16 oracle on the reference backend.";

pub fn test_composite(c: &CompCase) -> Verdict {
    if c.operands.is_empty() {
        return Verdict::pass(false, &["skipped:no_operands"]);
    }
    match c.be {
        Be::FftRef => fft_ref::run_composite(c),
        Be::FftAvx => fft_avx::run_composite(c),
        Be::NttRef => ntt_ref::run_composite(c),
        Be::NttAvx => ntt_avx::run_composite(c),
    }
}

pub fn test_c12_composite(c: &CompCase) -> Verdict {
    if c.operands.is_empty() {
        return Verdict::pass(false, &["skipped:no_operands"]);
    }
    match c.be {
        Be::FftRef => fft_ref::run_c12_composite(c),
        Be::FftAvx => fft_avx::run_c12_composite(c),
        Be::NttRef => ntt_ref::run_c12_composite(c),
        Be::NttAvx => ntt_avx::run_c12_composite(c),
    }
}

fn comp_strategy() -> BoxedStrategy<CompCase> {
    (
        prop_oneof![Just(Be::FftRef), Just(Be::FftAvx), Just(Be::NttRef), Just(Be::NttAvx)],
        0u8..2,
        0u8..13,
        0u8..4,
        1u8..=10,
        prop::collection::vec((2u8..=8, 12u8..=44, 4u8..=12, any::<u8>()), 3..6),
        any::<u64>(),
    )
        .prop_map(|(be, pset, kind, n, dst_limbs, operands, seed)| CompCase { be, pset, kind, n, dst_limbs, operands, seed })
        .boxed()
}

/// slot encoding followed directly by decoding (no encryption): identity to within the element type's precision
#[derive(Clone, Debug, Serialize, Deserialize)]
pub struct RtCase {
    pub quad: bool,
    pub log_n: u8,
    pub base2k: u8,
    pub ld: u8,
    pub lb: u8,
    pub mag_bits: u8,
    pub seed: u64,
}

fn roundtrip<F>(c: &RtCase, name: &'static str) -> Verdict
where
    F: num_traits::Float + num_traits::FloatConst + num_traits::FromPrimitive + num_traits::ToPrimitive + std::fmt::Debug,
{
    use poulpy_ckks::CKKSMeta;
    use poulpy_ckks::encoding::reim::Encoder;
    use poulpy_ckks::layouts::plaintext::{CKKSPlaintextConversion, CKKSPlaintextVecRnx, alloc_pt_vec_znx};
    let n = 1usize << c.log_n.clamp(2, 9);
    let m = n / 2;
    let b = c.base2k.clamp(4, 52) as usize;
    let max_ld = CKKSPlaintextVecRnx::<F>::max_log_delta_prec();
    let ld = (c.ld as usize).clamp(6, max_ld + 4);
    let lb = (c.lb as usize).clamp(3, 127usize.saturating_sub(ld).max(3));
    let fail = |what: &str, d: String| Verdict::fail(format!("{name}|{what}"), format!("{name} N={n} base2k={b} log_delta={ld} log_budget={lb}: {d}\ncase={c:?}"));
    // slot magnitudes up to a quarter of the budget
    let mag = (((c.mag_bits as usize) % lb.saturating_sub(2).max(1)) as f64).exp2() * 0.9;
    let mut st = c.seed | 1;
    let mut next = || {
        st ^= st << 13;
        st ^= st >> 7;
        st ^= st << 17;
        (st >> 11) as f64 / (1u64 << 53) as f64 * 2.0 - 1.0
    };
    let re: Vec<F> = (0..m).map(|_| F::from_f64(next() * mag).unwrap()).collect();
    let im: Vec<F> = (0..m).map(|_| F::from_f64(next() * mag).unwrap()).collect();
    let enc = Encoder::<F>::new(m).unwrap();
    let mut rnx = CKKSPlaintextVecRnx::<F>::alloc(n).unwrap();
    if let Err(e) = enc.encode_reim(&mut rnx, &re, &im) {
        return fail("encode-error", format!("{e}"));
    }
    let prec = CKKSMeta { log_delta: ld, log_budget: lb };
    let mut pt = alloc_pt_vec_znx((n as u32).into(), (b as u32).into(), prec);
    let r = match pzv_common::driver::guarded(|| rnx.to_znx(&mut pt)) {
        Ok(r) => r,
        Err(p) => return fail("panic", format!("to_znx panicked: {p}")),
    };
    if ld > max_ld || ld + lb > 127 {
        // documented limits: an error value, never a panic or a silent wrap
        return match r {
            Err(_) => Verdict::pass(true, &[name, "rejected_beyond_element_precision"]),
            Ok(()) => {
                let mut back = CKKSPlaintextVecRnx::<F>::alloc(n).unwrap();
                match back.decode_from_znx(&pt) {
                    Err(_) => Verdict::pass(true, &[name, "rejected_beyond_element_precision"]),
                    Ok(()) => fail("accepted-beyond-element-precision", format!("log_delta {ld} exceeds the element type's {max_ld} bits (or log_delta + log_budget > 127) and both conversions returned Ok")),
                }
            }
        };
    }
    if let Err(e) = r {
        return fail("unexpected-error", format!("to_znx failed inside the documented limits: {e}"));
    }
    let mut back = CKKSPlaintextVecRnx::<F>::alloc(n).unwrap();
    match pzv_common::driver::guarded(|| back.decode_from_znx(&pt)) {
        Ok(Ok(())) => {}
        Ok(Err(e)) => return fail("unexpected-error", format!("decode_from_znx failed inside the documented limits: {e}")),
        Err(p) => return fail("panic", format!("decode_from_znx panicked: {p}")),
    }
    let (mut re2, mut im2) = (vec![F::zero(); m], vec![F::zero(); m]);
    enc.decode_reim(&back, &mut re2, &mut im2).unwrap();
    // every coefficient is rounded to 2^-log_delta (half a unit each, N coefficients per slot) + floating-point error of the two transforms
    let tol = n as f64 * (-(ld as f64)).exp2() + mag.max(1.0) * n as f64 * 64.0 * F::epsilon().to_f64().unwrap();
    for i in 0..m {
        let d = ((re2[i] - re[i]).to_f64().unwrap()).hypot((im2[i] - im[i]).to_f64().unwrap());
        if !(d <= tol) {
            return fail("roundtrip-differs", format!("slot {i}: ({:?}, {:?}) came back as ({:?}, {:?}); |diff| = {d:.3e} > {tol:.3e}", re[i], im[i], re2[i], im2[i]));
        }
    }
    let mut cl = vec![name];
    cl.push(if ld + lb > 63 { "wide_integer_path" } else { "i64_path" });
    if mag >= (20f64).exp2() {
        cl.push("magnitude>=2^20");
    }
    Verdict::pass(true, &cl)
}

pub fn test_roundtrip(c: &RtCase) -> Verdict {
    if c.quad { roundtrip::<f128::f128>(c, "encode_decode_f128") } else { roundtrip::<f64>(c, "encode_decode_f64") }
}

fn rt_strategy() -> BoxedStrategy<RtCase> {
    (any::<bool>(), 2u8..=9, 4u8..=52, 6u8..=120, 3u8..=60, any::<u8>(), any::<u64>()).prop_map(|(quad, log_n, base2k, ld, lb, mag_bits, seed)| RtCase { quad, log_n, base2k, ld, lb, mag_bits, seed }).boxed()
}

fn mem_only_comp(f: fn(&CompCase) -> Verdict) -> impl Fn(&CompCase) -> Verdict + Sync {
    move |c| match f(c) {
        Verdict::Fail { sig, .. } if !sig.contains("guard-damaged") => Verdict::pass(false, &["value_oracle_or_panic_ignored_here"]),
        v => v,
    }
}

fn mem_only(f: fn(&Case) -> Verdict) -> impl Fn(&Case) -> Verdict + Sync {
    move |c| match f(c) {
        Verdict::Fail { sig, .. } if !sig.contains("guard-damaged") => Verdict::pass(false, &["value_oracle_or_panic_ignored_here"]),
        v => v,
    }
}

pub const RULE_C17: &str = "CKKS level (AddressSanitizer build of pzv-ckks): the generated straight-line programs of C16 (every ciphertext, plaintext and key an exact-size heap block) and the same programs with exact-size scratch windows; the composite operations (multiply-add family, sums, dot products, products of many) on roomy and on exact-size scratch. Oracle: no sanitizer report, guard regions intact. non-trivial = the C16 rule.";

fn op_strategy() -> impl Strategy<Value = Op> {
    prop_oneof![
        2 => (any::<u8>(), 2u8..=8, 12u8..=48, prop_oneof![2 => 4u8..=12, 1 => 13u8..=34], any::<u8>(), any::<u64>()).prop_map(|(dst, limbs, ld, ptlb, mag_bits, seed)| Op::Enc { dst, limbs, ld, ptlb, mag_bits, seed }),
        5 => (0u8..3, any::<u8>(), any::<u8>(), any::<u8>(), 1u8..=10, any::<bool>()).prop_map(|(kind, dst, a, b, limbs, assign)| Op::Bin { kind, dst, a, b, limbs, assign }),
        6 => (0u8..9, any::<u8>(), any::<u8>(), 1u8..=10, any::<u8>(), any::<bool>()).prop_map(|(kind, dst, a, limbs, arg, assign)| Op::Un { kind, dst, a, limbs, arg, assign }),
        1 => (any::<u8>(), any::<u8>()).prop_map(|(a, b)| Op::Align { a, b }),
        4 => (0u8..6, any::<u8>(), any::<u8>(), 1u8..=10, 8u8..=44, 3u8..=10, any::<u64>(), any::<bool>()).prop_map(|(kind, dst, a, limbs, ld, ptlb, seed, assign)| Op::Pt { kind, dst, a, limbs, ld, ptlb, seed, assign }),
    ]
}

fn strategy() -> BoxedStrategy<Case> {
    (
        prop_oneof![Just(Be::FftRef), Just(Be::FftAvx), Just(Be::NttRef), Just(Be::NttAvx)],
        0u8..2,
        // two fresh ciphertexts first, then a random program
        (any::<u64>(), any::<u64>(), 3u8..=8, 3u8..=8, 14u8..=44, 14u8..=44, 5u8..=11),
        prop::collection::vec(op_strategy(), 1..14),
    )
        .prop_map(|(be, pset, (s0, s1, l0, l1, ld0, ld1, ptlb), mut ops)| {
            let mut v = vec![Op::Enc { dst: 0, limbs: l0, ld: ld0, ptlb, mag_bits: 1, seed: s0 }, Op::Enc { dst: 1, limbs: l1, ld: ld1, ptlb, mag_bits: 2, seed: s1 }];
            v.append(&mut ops);
            Case { be, pset, ops: v }
        })
        .boxed()
}

pub const RULE: &str = "cases = (backend, one of two parameter sets per family (radix 19/16 for FFT64, 52/30 for NTT120; N = 64/32; key dsize 1/2), a straight-line program: two fresh encryptions (independent limb counts 3..8, log_delta 14..44, plaintext budget 5..11, generated slot values) followed by 1..13 generated steps over a 4-register file among: encrypt (plaintext budget up to 34 bits, slot magnitudes up to 2^31, so that both integer widths of the encoder / decoder occur), add/sub/mul (into a destination of 1..10 limbs or in place), neg, square, add / sub / mul with an encoded plaintext vector, add / sub / mul with a complex constant (RNX forms, and half of the cases a caller-built ZNX constant quantised as documented: to_znx_at_k at the destination's capacity for add / sub, to_znx for the product; independent plaintext precision), mul_pow2, div_pow2, rotate (keys present for some rotations, absent for others), conjugate, rescale, align, compact_limbs (result must have the minimum limb count), reallocate_limbs). Oracle after every step: Result matches the model of the budget algebra (Ok, or the expected CKKSCompositionError kind; never a panic; metadata unchanged when an in-place step fails), (log_delta, log_budget) equal the model, log_delta + log_budget <= stored precision, and every live register decrypts and decodes to the shadow program on complex f64 within the tracked worst-case error bound (proportional to 2^-log_delta). non-trivial = at least two executed steps after adaptation. Sub-check composite_ops: multiply-add / multiply-subtract with a ciphertext, an encoded vector or a constant (six forms) must equal, bit for bit and in their Result, the product into a buffer shaped like the destination followed by the in-place sum; ckks_add_many (1..4 inputs) against the chain of two-operand additions (Result, metadata) and the f64 sum; ckks_dot_product_ct (1..4 pairs, one log_delta per side) against the model of the budget algebra and the f64 dot product; ckks_mul_many (1..4 factors) against invariants and the f64 product; the twenty un-normalised (*_unsafe) forms of add / sub (ciphertext, RNX / ZNX vector, RNX / ZNX constant; into and in place) followed by glwe_normalize_assign against the normalising form (same Result kind, same metadata, same torus elements). Sub-check encode_decode_roundtrip: slot encoding -> to_znx -> decode_from_znx -> slot decoding for f64 and f128, N 4..512, radix 4..52, log_delta 6..120, log_budget 3..60, magnitudes up to a quarter of the budget: identity within N*2^-log_delta + 64*N*eps*magnitude, and an error value (never a panic or a wrapped value) beyond the element type's precision.";

fn main() {
    install_panic_hook();
    let args: Vec<String> = std::env::args().skip(1).collect();
    if args.is_empty() {
        eprintln!("usage: pzv-ckks C16 [quick|thorough] | replay <file>");
        std::process::exit(2);
    }
    if args[0] == "replay" {
        let (prop, sub, case) = read_replay(&args[1]);
        let ctx = DCtx::from_args(&prop, &[]);
        if sub == "encode_decode_roundtrip" {
            std::process::exit(ctx.replay_case::<RtCase, _>(&sub, &case, test_roundtrip));
        }
        if sub == "composite_ops" {
            std::process::exit(ctx.replay_case::<CompCase, _>(&sub, &case, test_composite));
        }
        if prop == "C12" && sub == "ckks_composite_exact_scratch" {
            std::process::exit(ctx.replay_case::<CompCase, _>(&sub, &case, test_c12_composite));
        }
        if prop == "C12" {
            std::process::exit(ctx.replay_case::<Case, _>(&sub, &case, test_c12));
        }
        if prop == "C10" {
            std::process::exit(ctx.replay_case::<Case, _>(&sub, &case, test_xb));
        }
        if prop == "C06" {
            std::process::exit(ctx.replay_case::<EncCase, _>(&sub, &case, test_enc_seeds));
        }
        if prop == "C17" && sub.starts_with("asan_ckks_composite") {
            let _ = pzv_common::driver::arm_sanitizer_callback(&ctx.property, &ctx.root);
            let f: fn(&CompCase) -> Verdict = if sub == "asan_ckks_composite_exact_scratch" { test_c12_composite } else { test_composite };
            std::process::exit(ctx.replay_case::<CompCase, _>(&sub, &case, mem_only_comp(f)));
        }
        if prop == "C17" {
            let _ = pzv_common::driver::arm_sanitizer_callback(&ctx.property, &ctx.root);
            let f: fn(&Case) -> Verdict = if sub == "asan_ckks_exact_scratch" { test_c12 } else { test };
            std::process::exit(ctx.replay_case::<Case, _>(&sub, &case, mem_only(f)));
        }
        std::process::exit(ctx.replay_case::<Case, _>(&sub, &case, test));
    }
    let prop = args[0].clone();
    if prop == "C10" {
        let ctx = DCtx::from_args(&prop, &args[1..]);
        let t = ctx.tier;
        ctx.run_sub("ckks_cross_backend", t.pick(6_000, 150_000), 64, strategy, test_xb);
        let code = ctx.finish(RULE_C10, &["the evaluation keys are generated per backend from the same seeds: a difference in key generation shows up as a difference of the results"], &[("four_backends_identical", 1000), ("mul_into", 50), ("rotate", 50)]);
        std::process::exit(code);
    }
    if prop == "C06" {
        let ctx = DCtx::from_args(&prop, &args[1..]);
        let t = ctx.tier;
        ctx.run_sub("ckks_encrypt_mask_noise_seeds", t.pick(2_048, 40_000), 64, enc_strategy, test_enc_seeds);
        let code = ctx.finish(RULE_C06, &["the error statistics of the CKKS wrapper are those of glwe_encrypt_zero_sk, judged by the core-level part of C06"], &[]);
        std::process::exit(code);
    }
    if prop == "C17" {
        // CKKS programs in the AddressSanitizer build: only memory safety is judged here
        let ctx = DCtx::from_args(&prop, &args[1..]);
        let armed = pzv_common::driver::arm_sanitizer_callback(&ctx.property, &ctx.root);
        eprintln!("[C17] pzv-ckks: sanitizer runtime {}", if armed { "present: death callback armed" } else { "ABSENT" });
        let t = ctx.tier;
        ctx.run_sub("asan_ckks_programs", t.pick(3_000, 60_000), 64, strategy, mem_only(test));
        ctx.run_sub("asan_ckks_exact_scratch", t.pick(1_500, 30_000), 64, strategy, mem_only(test_c12));
        ctx.run_sub("asan_ckks_composite", t.pick(1_500, 30_000), 64, comp_strategy, mem_only_comp(test_composite));
        ctx.run_sub("asan_ckks_composite_exact_scratch", t.pick(1_000, 20_000), 64, comp_strategy, mem_only_comp(test_c12_composite));
        let code = ctx.finish(RULE_C17, &["value / metadata oracles and clean panics are ignored here (C16 / C12 own them)"], &[]);
        std::process::exit(code);
    }
    if prop == "C12" {
        let ctx = DCtx::from_args(&prop, &args[1..]);
        let t = ctx.tier;
        ctx.run_sub("ckks_exact_scratch", t.pick(12_000, 300_000), 64, strategy, test_c12);
        ctx.run_sub("ckks_composite_exact_scratch", t.pick(6_000, 120_000), 64, comp_strategy, test_c12_composite);
        let code = ctx.finish(&format!("{RULE_C12} Sub-check ckks_composite_exact_scratch: the composite cases of C16 (six multiply-add / multiply-subtract forms, add_many, mul_many, the four dot products incl. unequal budgets / scales on both sides) with the composite call on a window of exactly its own query (queried with the widest of destination and operands), two fills; the C16 oracle of the case (bit identity with the chain of primitives on roomy scratch, budget algebra, decoded slots) must not change its verdict."), &["programs the C16 oracle rejects (or that panic with ample scratch) are skipped here: they are C16's subject"], &[("mul_into", 50), ("rotate", 50), ("exact_windows>=2", 500)]);
        std::process::exit(code);
    }
    if prop != "C16" {
        eprintln!("harness error: unknown property {prop}");
        std::process::exit(2);
    }
    let ctx = DCtx::from_args(&prop, &args[1..]);
    let t = ctx.tier;
    ctx.run_sub("programs", t.pick(30_000, 1_000_000), 64, strategy, test);
    ctx.run_sub("composite_ops", t.pick(12_000, 300_000), 64, comp_strategy, test_composite);
    ctx.run_sub("encode_decode_roundtrip", t.pick(20_000, 400_000), 64, rt_strategy, test_roundtrip);
    let code = ctx.finish(
        RULE,
        &[
            "shadow evaluation in f64: log_delta is kept <= 53 so that the comparison tolerance is above the f64 rounding error; the f128 element type is not exercised",
            "multiplication operands are compacted first when the generator picks them (the library asserts size == ceil(effective_k / base2k) for tensor operands)",
            "the error bound per step is a worst case built from the parameters (N, radix, Hamming weight, key precision); a loss of precision below that bound is not detected",
        ],
        &[("mul_into", 100), ("rotate", 100), ("error_path", 100), ("unequal_operand_meta", 100), ("destination_smaller_than_natural_result", 100), ("program_len>=3", 500)],
    );
    std::process::exit(code);
}
