#![feature(linkage)]
pub mod driver;
pub mod model;
