pub mod driver;
pub mod model;
