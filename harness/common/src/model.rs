//! Exact oracle library.  No poulpy code is used here: everything is written from
//! the mathematical definitions (Z[X]/(X^N+1), limb vectors as dyadic rationals).

use dashu_int::IBig;
use dashu_int::ops::BitTest;

// ---------------------------------------------------------------------------
// deterministic expansion of generated seeds into data (pure function of the case)
// ---------------------------------------------------------------------------

#[derive(Clone)]
pub struct SplitMix(pub u64);

impl SplitMix {
    pub fn new(seed: u64) -> Self {
        SplitMix(seed ^ 0x6A09E667F3BCC909)
    }
    #[inline]
    pub fn next(&mut self) -> u64 {
        self.0 = self.0.wrapping_add(0x9E3779B97F4A7C15);
        let mut z = self.0;
        z = (z ^ (z >> 30)).wrapping_mul(0xBF58476D1CE4E5B9);
        z = (z ^ (z >> 27)).wrapping_mul(0x94D049BB133111EB);
        z ^ (z >> 31)
    }
    /// uniform signed value with `bits` bits: in [-2^(bits-1), 2^(bits-1))
    #[inline]
    pub fn signed(&mut self, bits: u32) -> i64 {
        if bits == 0 {
            return 0;
        }
        if bits >= 64 {
            return self.next() as i64;
        }
        ((self.next() << (64 - bits)) as i64) >> (64 - bits)
    }
    #[inline]
    pub fn below(&mut self, n: u64) -> u64 {
        if n == 0 { 0 } else { self.next() % n }
    }
    pub fn seed32(&mut self) -> [u8; 32] {
        let mut s = [0u8; 32];
        for i in 0..4 {
            s[i * 8..i * 8 + 8].copy_from_slice(&self.next().to_le_bytes());
        }
        s
    }
}

/// Value classes for limb digits (DESIGN section 4).
#[derive(Clone, Copy, Debug, PartialEq, Eq, serde::Serialize, serde::Deserialize)]
pub enum VClass {
    /// normalised digits uniform in [-2^(b-1), 2^(b-1))
    Uniform,
    /// all digits +(2^(b-1)-1)
    ExtremePos,
    /// all digits -2^(b-1)
    ExtremeNeg,
    /// un-normalised digits with |x| < 2^h
    Unnorm(u8),
    /// digits that make a carry ripple through every limb
    CarryRipple,
    /// mostly zero
    Sparse,
    Zero,
    /// a single +-1 (times 2^(b-2)) somewhere
    Monomial,
    /// any i64 (only where wrapping is the documented behaviour)
    FullI64,
    /// random signs of extreme magnitude
    ExtremeMixed,
    /// every limb polynomial has exactly one non-zero coefficient of extreme magnitude
    MonoEach,
}

impl VClass {
    pub fn name(&self) -> &'static str {
        match self {
            VClass::Uniform => "uniform",
            VClass::ExtremePos => "extreme_pos",
            VClass::ExtremeNeg => "extreme_neg",
            VClass::Unnorm(_) => "unnormalised",
            VClass::CarryRipple => "carry_ripple",
            VClass::Sparse => "sparse",
            VClass::Zero => "zero",
            VClass::Monomial => "monomial",
            VClass::FullI64 => "full_i64",
            VClass::ExtremeMixed => "extreme_mixed",
            VClass::MonoEach => "mono_each",
        }
    }
    /// bound on |digit| as a power of two exponent (digit magnitude <= 2^bits)
    pub fn log_bound(&self, b: usize) -> u32 {
        match self {
            VClass::Unnorm(h) => *h as u32,
            VClass::FullI64 => 63,
            VClass::Zero => 0,
            _ => (b as u32).saturating_sub(1),
        }
    }
}

/// Fills `limbs[j][i]` (limb-major) for one column according to a class.
pub fn gen_column(class: VClass, b: usize, n: usize, size: usize, seed: u64) -> Vec<Vec<i64>> {
    let mut r = SplitMix::new(seed);
    let hi: i64 = if b >= 63 { i64::MAX } else if b == 0 { 0 } else { (1i64 << (b - 1)) - 1 };
    let lo: i64 = if b >= 64 { i64::MIN } else if b == 0 { 0 } else { -(1i64 << (b - 1)) };
    let mut out = vec![vec![0i64; n]; size];
    match class {
        VClass::Uniform => {
            for l in out.iter_mut() {
                for x in l.iter_mut() {
                    *x = r.signed(b as u32);
                }
            }
        }
        VClass::ExtremePos => {
            for l in out.iter_mut() {
                l.fill(hi);
            }
        }
        VClass::ExtremeNeg => {
            for l in out.iter_mut() {
                l.fill(lo);
            }
        }
        VClass::ExtremeMixed => {
            for l in out.iter_mut() {
                for x in l.iter_mut() {
                    *x = if r.next() & 1 == 0 { hi } else { lo };
                }
            }
        }
        VClass::Unnorm(h) => {
            for l in out.iter_mut() {
                for x in l.iter_mut() {
                    *x = r.signed(h as u32 + 1);
                }
            }
        }
        VClass::CarryRipple => {
            // ..., hi, hi, hi+1 (=2^(b-1)) on the last limb: the carry travels upward
            for (j, l) in out.iter_mut().enumerate() {
                for x in l.iter_mut() {
                    let sgn = if r.next() & 1 == 0 { 1 } else { -1 };
                    *x = if j + 1 == size { sgn * (hi + 1) } else if sgn > 0 { hi } else { lo };
                }
            }
        }
        VClass::Sparse => {
            for l in out.iter_mut() {
                for x in l.iter_mut() {
                    if r.next() % 8 == 0 {
                        *x = r.signed(b as u32);
                    }
                }
            }
        }
        VClass::Zero => {}
        VClass::MonoEach => {
            for l in out.iter_mut() {
                if n > 0 {
                    let i = r.below(n as u64) as usize;
                    l[i] = if r.next() & 1 == 0 { hi } else { lo };
                }
            }
        }
        VClass::Monomial => {
            if size > 0 && n > 0 {
                let j = r.below(size as u64) as usize;
                let i = r.below(n as u64) as usize;
                out[j][i] = if r.next() & 1 == 0 { 1 } else { -1 } * (hi / 2 + 1).max(1);
            }
        }
        VClass::FullI64 => {
            for l in out.iter_mut() {
                for x in l.iter_mut() {
                    *x = match r.next() % 8 {
                        0 => i64::MAX,
                        1 => i64::MIN,
                        2 => -1,
                        _ => r.next() as i64,
                    };
                }
            }
        }
    }
    out
}

// ---------------------------------------------------------------------------
// ring Z[X]/(X^N+1)
// ---------------------------------------------------------------------------

/// X^k * a, any k in Z, wrapping i64 negation on wrap (matches documented behaviour).
pub fn rotate_i64(a: &[i64], k: i64) -> Vec<i64> {
    let n = a.len() as i64;
    let mut out = vec![0i64; a.len()];
    let two_n = 2 * n;
    let kk = k.rem_euclid(two_n);
    for i in 0..n {
        let j = (i + kk) % two_n;
        if j < n {
            out[j as usize] = a[i as usize];
        } else {
            out[(j - n) as usize] = a[i as usize].wrapping_neg();
        }
    }
    out
}

/// (X^k - 1) * a
pub fn mul_xp_minus_one_i64(a: &[i64], k: i64) -> Vec<i64> {
    let r = rotate_i64(a, k);
    r.iter().zip(a).map(|(x, y)| x.wrapping_sub(*y)).collect()
}

/// a(X) -> a(X^g), g odd (any sign), exponents mod 2N.
pub fn automorphism_i64(a: &[i64], g: i64) -> Vec<i64> {
    let n = a.len() as i64;
    let two_n = 2 * n;
    let gg = g.rem_euclid(two_n.max(1));
    let mut out = vec![0i64; a.len()];
    for i in 0..n {
        let j = ((i as i128 * gg as i128) % two_n as i128) as i64;
        if j < n {
            out[j as usize] = a[i as usize];
        } else {
            out[(j - n) as usize] = a[i as usize].wrapping_neg();
        }
    }
    out
}

pub fn rotate_i128(a: &[i128], k: i64) -> Vec<i128> {
    let n = a.len() as i64;
    let mut out = vec![0i128; a.len()];
    let two_n = 2 * n;
    let kk = k.rem_euclid(two_n);
    for i in 0..n {
        let j = (i + kk) % two_n;
        if j < n {
            out[j as usize] = a[i as usize];
        } else {
            out[(j - n) as usize] = a[i as usize].wrapping_neg();
        }
    }
    out
}

pub fn automorphism_i128(a: &[i128], g: i64) -> Vec<i128> {
    let n = a.len() as i64;
    let two_n = 2 * n;
    let gg = g.rem_euclid(two_n.max(1));
    let mut out = vec![0i128; a.len()];
    for i in 0..n {
        let j = ((i as i128 * gg as i128) % two_n as i128) as i64;
        if j < n {
            out[j as usize] = a[i as usize];
        } else {
            out[(j - n) as usize] = a[i as usize].wrapping_neg();
        }
    }
    out
}

/// exact negacyclic product with i128 accumulation (caller guarantees no overflow)
pub fn negacyclic_mul_i128(a: &[i64], b: &[i64]) -> Vec<i128> {
    let n = a.len();
    assert_eq!(b.len(), n);
    let mut out = vec![0i128; n];
    for i in 0..n {
        let ai = a[i] as i128;
        if ai == 0 {
            continue;
        }
        for j in 0..n {
            let p = ai * b[j] as i128;
            let k = i + j;
            if k < n {
                out[k] += p;
            } else {
                out[k - n] -= p;
            }
        }
    }
    out
}

/// accumulate a (*) b into acc (i128), negacyclic
pub fn negacyclic_mac_i128(acc: &mut [i128], a: &[i64], b: &[i64]) {
    let n = a.len();
    for i in 0..n {
        let ai = a[i] as i128;
        if ai == 0 {
            continue;
        }
        for j in 0..n {
            let p = ai * b[j] as i128;
            let k = i + j;
            if k < n {
                acc[k] += p;
            } else {
                acc[k - n] -= p;
            }
        }
    }
}

/// L1-type bound: max_k sum_i |a_i||b_{k-i}| <= (sum|a|)*(max|b|) ; exact max over k.
pub fn conv_abs_bound(a: &[i64], b: &[i64]) -> u128 {
    let n = a.len();
    let mut acc = vec![0u128; n];
    for i in 0..n {
        let ai = a[i].unsigned_abs() as u128;
        if ai == 0 {
            continue;
        }
        for j in 0..n {
            let k = (i + j) % n;
            acc[k] += ai * b[j].unsigned_abs() as u128;
        }
    }
    acc.into_iter().max().unwrap_or(0)
}

pub fn negacyclic_mul_ibig(a: &[IBig], b: &[IBig]) -> Vec<IBig> {
    let n = a.len();
    let mut out = vec![IBig::ZERO; n];
    for i in 0..n {
        if a[i] == IBig::ZERO {
            continue;
        }
        for j in 0..n {
            let p = &a[i] * &b[j];
            let k = i + j;
            if k < n {
                out[k] += p;
            } else {
                out[k - n] -= p;
            }
        }
    }
    out
}

// ---------------------------------------------------------------------------
// limb vectors as dyadic rationals
// ---------------------------------------------------------------------------

/// numerator of sum_j a_j 2^{-(j+1)b} over denominator 2^{size*b}
pub fn limbs_to_num_i64(digits: &[i64], b: usize) -> IBig {
    let mut acc = IBig::ZERO;
    for d in digits {
        acc = (acc << b) + IBig::from(*d);
    }
    acc
}

pub fn limbs_to_num_i128(digits: &[i128], b: usize) -> IBig {
    let mut acc = IBig::ZERO;
    for d in digits {
        acc = (acc << b) + IBig::from(*d);
    }
    acc
}

pub fn pow2(e: usize) -> IBig {
    IBig::ONE << e
}

/// centred remainder of x modulo 2^e, in [-2^(e-1), 2^(e-1))
pub fn centered_mod_pow2(x: &IBig, e: usize) -> IBig {
    if e == 0 {
        return IBig::ZERO;
    }
    let m = pow2(e);
    let mut r = x % &m;
    if r < IBig::ZERO {
        r += &m;
    }
    if r >= pow2(e - 1) {
        r -= m;
    }
    r
}

/// A torus value num / 2^den_exp.
#[derive(Clone, Debug, PartialEq, Eq)]
pub struct Dyadic {
    pub num: IBig,
    pub exp: usize,
}

impl Dyadic {
    pub fn from_limbs_i64(digits: &[i64], b: usize) -> Dyadic {
        Dyadic {
            num: limbs_to_num_i64(digits, b),
            exp: digits.len() * b,
        }
    }
    pub fn from_limbs_i128(digits: &[i128], b: usize) -> Dyadic {
        Dyadic {
            num: limbs_to_num_i128(digits, b),
            exp: digits.len() * b,
        }
    }
    pub fn zero() -> Dyadic {
        Dyadic { num: IBig::ZERO, exp: 0 }
    }
    /// multiply by 2^s (s may be negative)
    pub fn shl(&self, s: i64) -> Dyadic {
        if s >= 0 {
            Dyadic {
                num: &self.num << (s as usize),
                exp: self.exp,
            }
        } else {
            Dyadic {
                num: self.num.clone(),
                exp: self.exp + (-s) as usize,
            }
        }
    }
    pub fn neg(&self) -> Dyadic {
        Dyadic {
            num: -&self.num,
            exp: self.exp,
        }
    }
    pub fn add(&self, o: &Dyadic) -> Dyadic {
        let e = self.exp.max(o.exp);
        Dyadic {
            num: (&self.num << (e - self.exp)) + (&o.num << (e - o.exp)),
            exp: e,
        }
    }
    pub fn sub(&self, o: &Dyadic) -> Dyadic {
        self.add(&o.neg())
    }
    /// (self - o) mod 1, centred, expressed in units of 2^-unit_exp, as a pair
    /// (numerator, denominator exponent): value = num / 2^exp units.
    pub fn torus_diff_units(&self, o: &Dyadic, unit_exp: usize) -> Dyadic {
        let d = self.sub(o);
        // reduce mod 1: numerator mod 2^exp, centred
        let num = centered_mod_pow2(&d.num, d.exp);
        // in units of 2^-unit_exp: multiply by 2^unit_exp
        Dyadic { num: num << unit_exp, exp: d.exp }
    }
    /// |self| <= bound (bound integer)?
    pub fn abs_le_int(&self, bound: u64) -> bool {
        let lim = IBig::from(bound) << self.exp;
        let a = if self.num < IBig::ZERO { -&self.num } else { self.num.clone() };
        a <= lim
    }
    pub fn is_zero(&self) -> bool {
        self.num == IBig::ZERO
    }
    pub fn approx_f64(&self) -> f64 {
        ibig_to_f64(&self.num) / (self.exp as f64).exp2()
    }
}

pub fn ibig_to_f64(x: &IBig) -> f64 {
    let neg = *x < IBig::ZERO;
    let a = if neg { -x } else { x.clone() };
    let bits = a.bit_len();
    let v = if bits <= 100 {
        let t: u128 = u128::try_from(&a).unwrap_or(u128::MAX);
        t as f64
    } else {
        let sh = bits - 100;
        let t: u128 = u128::try_from(&(a >> sh)).unwrap_or(u128::MAX);
        (t as f64) * (sh as f64).exp2()
    };
    if neg { -v } else { v }
}

/// Checks `out ≡ expect (mod 1)` within `tol_units` units of 2^-unit_exp.
/// Returns Err(description) on failure.
pub fn torus_close(out: &Dyadic, expect: &Dyadic, unit_exp: usize, tol_units: u64) -> Result<(), String> {
    let d = out.torus_diff_units(expect, unit_exp);
    if d.abs_le_int(tol_units) {
        Ok(())
    } else {
        Err(format!("torus deviation = {:.4e} units of 2^-{} (allowed {})", d.approx_f64(), unit_exp, tol_units))
    }
}

/// balanced digit range predicate
pub fn in_digit_range(x: i64, b: usize) -> bool {
    if b >= 64 {
        return true;
    }
    let h = 1i128 << (b - 1);
    (x as i128) >= -h && (x as i128) < h
}

// ---------------------------------------------------------------------------
// Galois group helpers
// ---------------------------------------------------------------------------

pub fn mod_pow(mut x: u128, mut e: u128, m: u128) -> u128 {
    let mut y = 1u128 % m;
    x %= m;
    while e > 0 {
        if e & 1 == 1 {
            y = y * x % m;
        }
        x = x * x % m;
        e >>= 1;
    }
    y
}

/// the library's signed generator convention: galois_element(gen) = sign(gen) * 5^|gen| mod 2N; gen=0 -> 1
pub fn galois_element_model(generator: i64, two_n: u64) -> i64 {
    if generator == 0 {
        return 1;
    }
    let g = mod_pow(5, generator.unsigned_abs() as u128, two_n as u128) as i64;
    g * generator.signum()
}

#[cfg(test)]
mod tests {
    use super::*;
    #[test]
    fn rot_laws() {
        let a: Vec<i64> = (1..=8).collect();
        assert_eq!(rotate_i64(&a, 16), a);
        assert_eq!(rotate_i64(&a, 8), a.iter().map(|x| -x).collect::<Vec<_>>());
        assert_eq!(rotate_i64(&rotate_i64(&a, 3), -3), a);
        assert_eq!(rotate_i64(&a, 1), vec![-8, 1, 2, 3, 4, 5, 6, 7]);
    }
    #[test]
    fn aut_laws() {
        let a: Vec<i64> = (1..=8).collect();
        let g = 5;
        let ginv = mod_pow(5, 15, 16) as i64;
        assert_eq!(automorphism_i64(&automorphism_i64(&a, g), ginv), a);
        assert_eq!(automorphism_i64(&a, -1), vec![1, -8, -7, -6, -5, -4, -3, -2]);
    }
    #[test]
    fn mul_matches_rotate() {
        let a: Vec<i64> = vec![3, -1, 4, 1, -5, 9, 2, -6];
        let mut x3 = vec![0i64; 8];
        x3[3] = 1;
        let p = negacyclic_mul_i128(&a, &x3);
        let r = rotate_i64(&a, 3);
        assert_eq!(p, r.iter().map(|x| *x as i128).collect::<Vec<_>>());
    }
    #[test]
    fn dyadic() {
        let a = Dyadic::from_limbs_i64(&[1, -2, 3], 4); // 1/16 - 2/256 + 3/4096
        assert_eq!(a.num, IBig::from(256 - 32 + 3));
        let b = a.shl(-3).shl(3);
        assert!(torus_close(&a, &b, 12, 0).is_ok());
        let c = Dyadic::from_limbs_i64(&[17, -2, 3], 4); // +1 wraps
        assert!(torus_close(&a, &c, 12, 0).is_ok());
    }
}
